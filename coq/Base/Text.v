(* Text is a list of Unicode scalar values; byte offsets are sums of UTF-8 lengths. *)
From Coq Require Import List NArith Bool Lia.
Import ListNotations.
Open Scope N_scope.

Definition text := list N.

Definition utf8_len (c : N) : N :=
  if c <? 128 then 1 else if c <? 2048 then 2 else if c <? 65536 then 3 else 4.

Fixpoint blen (t : text) : N :=
  match t with
  | [] => 0
  | c :: r => utf8_len c + blen r
  end.

Lemma utf8_len_pos c : 1 <= utf8_len c.
Proof. unfold utf8_len. repeat destruct (_ <? _); lia. Qed.

Lemma blen_app a b : blen (a ++ b) = blen a + blen b.
Proof. induction a as [|c a IH]; cbn [blen app]; [reflexivity|]. rewrite IH. lia. Qed.

Definition is_upper (c : N) : bool := (65 <=? c) && (c <=? 90).
Definition is_lower (c : N) : bool := (97 <=? c) && (c <=? 122).
Definition is_alpha (c : N) : bool := is_upper c || is_lower c.
Definition is_digit (c : N) : bool := (48 <=? c) && (c <=? 57).
Definition is_ascii (c : N) : bool := c <? 128.

(* ASCII lower-casing (the lexer only lets ASCII letters into identifiers and keywords) *)
Definition lower (c : N) : N := if is_upper c then c + 32 else c.
Definition upper (c : N) : N := if is_lower c then c - 32 else c.
Definition lower_text (t : text) : text := map lower t.

Fixpoint text_eqb (a b : text) : bool :=
  match a, b with
  | [], [] => true
  | x :: a', y :: b' => (x =? y) && text_eqb a' b'
  | _, _ => false
  end.

Lemma text_eqb_eq a b : text_eqb a b = true <-> a = b.
Proof.
  revert b; induction a as [|x a IH]; destruct b as [|y b]; cbn [text_eqb]; split; intro H;
    try reflexivity; try discriminate.
  - apply andb_true_iff in H as [H1 H2]. apply N.eqb_eq in H1. apply IH in H2. congruence.
  - inversion H; subst. apply andb_true_iff; split; [apply N.eqb_refl | apply IH; reflexivity].
Qed.

Lemma text_eqb_refl a : text_eqb a a = true.
Proof. apply text_eqb_eq; reflexivity. Qed.

(* number of leading characters satisfying p *)
Fixpoint span_while (p : N -> bool) (t : text) : nat :=
  match t with
  | c :: r => if p c then S (span_while p r) else O
  | [] => O
  end.

Lemma span_while_le p t : (span_while p t <= length t)%nat.
Proof. induction t as [|c r IH]; cbn; [lia|]. destruct (p c); lia. Qed.

(* does [t] start with [p] (exactly / ASCII case-insensitively) *)
Fixpoint prefix_eq (p t : text) : bool :=
  match p, t with
  | [], _ => true
  | x :: p', y :: t' => (x =? y) && prefix_eq p' t'
  | _ :: _, [] => false
  end.

Fixpoint prefix_ci (p t : text) : bool :=
  match p, t with
  | [], _ => true
  | x :: p', y :: t' => (lower x =? lower y) && prefix_ci p' t'
  | _ :: _, [] => false
  end.

Lemma prefix_eq_length p t : prefix_eq p t = true -> (length p <= length t)%nat.
Proof.
  revert t; induction p as [|x p IH]; intros [|y t] H; cbn in *; try lia; try discriminate.
  apply andb_true_iff in H as [_ H]. apply IH in H. lia.
Qed.

Lemma prefix_ci_length p t : prefix_ci p t = true -> (length p <= length t)%nat.
Proof.
  revert t; induction p as [|x p IH]; intros [|y t] H; cbn in *; try lia; try discriminate.
  apply andb_true_iff in H as [_ H]. apply IH in H. lia.
Qed.

(* find the first occurrence of [p] in [t]; returns the number of characters before it *)
Fixpoint find_sub (p t : text) : option nat :=
  if prefix_eq p t then Some O
  else match t with
       | [] => None
       | _ :: r => option_map S (find_sub p r)
       end.
