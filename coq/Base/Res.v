(* Four-valued results: a Rust panic and fuel exhaustion are values a theorem can forbid. *)
From Coq Require Import List.
Import ListNotations.

Inductive res (A : Type) : Type :=
  | Ok (a : A)
  | Fail
  | Panic
  | OutOfFuel.
Arguments Ok {A} a.
Arguments Fail {A}.
Arguments Panic {A}.
Arguments OutOfFuel {A}.

Definition rbind {A B : Type} (r : res A) (f : A -> res B) : res B :=
  match r with
  | Ok a => f a
  | Fail => Fail
  | Panic => Panic
  | OutOfFuel => OutOfFuel
  end.

Definition rmap {A B : Type} (f : A -> B) (r : res A) : res B :=
  rbind r (fun a => Ok (f a)).

Definition defined {A : Type} (r : res A) : Prop := r <> OutOfFuel.

Definition is_ok {A : Type} (r : res A) : bool :=
  match r with Ok _ => true | _ => false end.

Definition of_option {A : Type} (o : option A) : res A :=
  match o with Some a => Ok a | None => Fail end.

Declare Scope res_scope.
Notation "x <- r ;; k" := (rbind r (fun x => k))
  (at level 61, r at next level, right associativity) : res_scope.
Notation "' p <- r ;; k" := (rbind r (fun x => let 'p := x in k))
  (at level 61, p pattern, r at next level, right associativity) : res_scope.
