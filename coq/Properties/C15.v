(* C15 -- Semantic tokens decode to exactly the highlighted lexemes of the document.
   Statements only; proofs are in Proofs/SemTok.v.  Quantification is over every text. *)
From Coq Require Import List NArith Bool String.
From Verif Require Import Base.Text Gen.GenTokens Gen.GenLegend Model.Lexer Model.SemTokens
  Spec.LspClass Proofs.LexerTile Proofs.GenObligations Proofs.SemTok.
From Verif Require Model.Lsp Proofs.LspCurrent.
Import ListNotations.
Open Scope N_scope.

(* Decoding the response under the LSP relative encoding gives back, entry for entry, the
   (line, start, length, class) of the highlighted lexemes of the text, in text order; computing the
   differences never underflows; and the lexemes do not overlap: each starts at or after the
   position reached by scanning the previous lexeme's own text from its own start. *)
Theorem C15_roundtrip : forall t : text,
  let toks := fst (tokenize_program t) in
  let lexemes := filter highlighted (tokens_of (lex_items (preprocess t))) in
  decode_rel 0 0 (semantic_tokens toks) = abs_tokens lexemes
  /\ no_underflow 0 0 (abs_tokens toks)
  /\ tok_chain (0, 0) lexemes.
Proof. exact semtok_roundtrip. Qed.

(* ... hence strictly increasing start positions *)
Theorem C15_strictly_increasing : forall tk toks,
  tok_chain (advance (t_text tk) (t_line tk, t_col tk)) toks -> t_text tk <> [] ->
  strictly_from (t_line tk, t_col tk) (map (fun x => (t_line x, t_col x)) toks).
Proof. intros tk toks. exact (chain_strict toks tk). Qed.

(* the encoding round-trips on every position-sorted list (the general fact) *)
Theorem C15_decode_encode : forall l pl pc,
  sorted_from (pl, pc) l -> decode_rel pl pc (encode_rel pl pc l) = l.
Proof. exact decode_encode. Qed.

(* text that is not a valid token yields a null result, and only that does *)
Theorem C15_null_on_error : forall t : text,
  lsp_semantic_tokens t = None <-> snd (tokenize_program t) <> [].
Proof. exact semtok_null_on_error. Qed.

(* tie to lsp_project.rs: every kind's legend entry names an acceptable class for the kind, kinds
   without a class (punctuation, literals, trivia, the synthetic ';') are not highlighted, and every
   kind that has one is highlighted (except the pinned list LspClass.unhighlighted_today) *)
Theorem C15_legend : forall k : tok_kind, legend_entry_ok k = true.
Proof. exact legend_entry_ok_all. Qed.

Theorem C15_synthetic_not_highlighted : legend_of KSemicolon = None.
Proof. exact gen_legend_semicolon. Qed.

(* non-vacuity: two lines, a comment before a token on the same line; the response decodes to
   the four lexemes with their true line/column *)
Example C15_example :
  let t := text_of_string "IF (* c *) x
THEN"%string in
  option_map (decode_rel 0 0) (lsp_semantic_tokens t)
  = Some [(0, 0, 2, 1); (0, 3, 7, 3); (0, 11, 1, 0); (1, 0, 4, 1)].
Proof. vm_compute. reflexivity. Qed.

(* Which text is highlighted: after ANY history of messages, a request for the semantic tokens of a file document is answered
   with the tokens of what the history left as that document's contents ([LspCurrent.current]: its last didOpen / non-empty
   didChange since it was last closed; nothing -- the null answer -- when it is closed or was never opened), under the
   request's id.  Nothing the server answered or held earlier has a say. *)
Theorem C15_tokens_of_current_contents :
  forall (text0 D T : Type) diag no_diag tokens null_tokens (ms : list (Lsp.msg text0)) (d : Lsp.docs text0) id u,
  Lsp.u_file u = true ->
  snd (Lsp.step text0 D T diag no_diag tokens null_tokens (fst (Lsp.run text0 D T diag no_diag tokens null_tokens d ms)) (Lsp.SemTokens text0 id u))
  = [Lsp.Reply D T id (tokens (LspCurrent.current text0 ms (Lsp.u_id u) (Lsp.get text0 d (Lsp.u_id u))))].
Proof. exact LspCurrent.tokens_of_current. Qed.
