(* C07 -- Recursion is rejected exactly when the declaration graph has a cycle.
   Statements only; proofs are in Proofs/TopoCycle.v.  Quantification is over every list of
   declarations (any number of nodes, any edges). *)
From Coq Require Import List NArith Bool String Relations.
From Verif Require Import Model.Graph Gen.GenTopo Proofs.TopoCycle.
Import ListNotations.
Open Scope N_scope.

(* the sort fails exactly when the graph it is given has a cycle *)
Theorem C07_sort_contract : forall nodes es,
  (toposort nodes es = None -> cyclic es) /\
  (forall l, (forall u v, In (u, v) es -> In u nodes /\ In v nodes) -> toposort nodes es = Some l -> ~ cyclic es).
Proof.
  intros nodes es. split; [exact (toposort_none_cyclic nodes es) | intro l; exact (toposort_some_acyclic nodes es l)].
Qed.

(* P0010 is reported exactly when the graph the visitor builds has a cycle *)
Theorem C07_reports_iff_built_cycle : forall ds, reports_cycle ds = true <-> cyclic (built_edges ds).
Proof. exact reports_cycle_iff. Qed.

(* ... and that graph is the dependency relation turned round, so: reported exactly when some declaration depends on itself
   -- a type that is (transitively) an alias of itself, a structure or unit that (transitively) contains itself, or any
   mixture of the two *)
Theorem C07_exact : forall ds, reports_cycle ds = true <-> cyclic (dep_edges ds).
Proof. exact reports_iff_depends. Qed.

Theorem C07_exact_containers : forall ds, forallb is_container ds = true ->
  (reports_cycle ds = true <-> cyclic (dep_edges ds)).
Proof. exact reports_iff_depends_containers. Qed.

Theorem C07_exact_aliases : forall ds, forallb is_alias ds = true ->
  (reports_cycle ds = true <-> cyclic (dep_edges ds)).
Proof. exact reports_iff_depends_aliases. Qed.

(* the cycle through an alias and a structure element, unreported before the repair of the edge orientation, is reported *)
Theorem C07_mixed_cycle_reported :
  let ds := [DStruct 1 [2]; DAlias 2 1] in
  cyclic (dep_edges ds) /\ reports_cycle ds = true.
Proof. exact mixed_cycle_reported. Qed.

(* tie to xform_toposort_declarations.rs: which visitor adds which edge and in which direction *)
Theorem C07_gen_edges :
  topo_edges =
  [("visit_late_bound_declaration", "depends_on", "this");
   ("visit_enumeration_declaration", "depends_on", "this");
   ("visit_subrange_declaration", "depends_on", "this");
   ("visit_array_declaration", "depends_on", "this");
   ("visit_function_block_initial_value_assignment", "to", "from");
   ("visit_initial_value_assignment_kind:FunctionBlock", "to", "from");
   ("visit_initial_value_assignment_kind:LateResolvedType", "to", "from")]%string.
Proof. reflexivity. Qed.

(* non-vacuity: a chain of three function blocks is accepted, closing it is reported *)
Example C07_example :
  reports_cycle [DPou 1 [2]; DPou 2 [3]; DPou 3 []] = false /\
  reports_cycle [DPou 1 [2]; DPou 2 [3]; DPou 3 [1]] = true /\
  reports_cycle [DAlias 1 2; DAlias 2 1] = true.
Proof. vm_compute. repeat split; reflexivity. Qed.
