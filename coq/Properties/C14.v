(* C14 -- File encoding is transparent: the result depends only on the decoded text.
   Statements only; proofs are in Proofs/Utf.v.  Quantification is over every text of Unicode scalar
   values.  The decoder list is regenerated from source.rs on every run (Gen.GenDecoders). *)
From Coq Require Import List NArith Bool.
From Verif Require Import Base.Text Model.Decode Gen.GenDecoders Proofs.Utf.
Import ListNotations.
Open Scope N_scope.

(* path_to_source on the bytes of a file: None = Problem::UnsupportedEncoding *)
Definition decode_file (bs : bytes) : option text := cascade decoders bs.

(* tie to source.rs: the decoder list is UTF-8 then Windows-1252 *)
Theorem C14_gen_decoders : decoders = decoders_expected.
Proof. reflexivity. Qed.

(* The same text stored as UTF-8, UTF-8 with byte order mark, UTF-16LE / UTF-16BE with byte order
   mark decodes to that text (a UTF-8 file without mark must not begin with U+FEFF, which is the mark). *)
Theorem C14_same_text : forall t : text,
  forallb scalar t = true ->
  (hd_error t <> Some 65279 -> decode_file (enc8 t) = Some t)
  /\ decode_file (239 :: 187 :: 191 :: enc8 t) = Some t
  /\ decode_file (255 :: 254 :: enc16 false t) = Some t
  /\ decode_file (254 :: 255 :: enc16 true t) = Some t.
Proof.
  intros t Hs. unfold decode_file. rewrite C14_gen_decoders. repeat split.
  - intro Hh. exact (cascade_utf8 t Hs Hh).
  - exact (cascade_utf8_bom t Hs).
  - exact (cascade_utf16le_bom t Hs).
  - exact (cascade_utf16be_bom t Hs).
Qed.

(* ... and as Windows-1252 when the text is representable there, unless the bytes are also a valid
   UTF-8 text or start like a byte order mark (then the other reading wins, by design of the cascade) *)
Theorem C14_same_text_1252 : forall (t : text) (bs : bytes),
  enc1252 t = Some bs -> sniff bs = None -> dec8 bs = None -> decode_file bs = Some t.
Proof. intros t bs. unfold decode_file. rewrite C14_gen_decoders. exact (cascade_1252 t bs). Qed.

(* the round trips themselves *)
Theorem C14_utf8_roundtrip : forall t, forallb scalar t = true -> dec8 (enc8 t) = Some t.
Proof. exact dec8_enc8. Qed.
Theorem C14_utf16_roundtrip : forall be t, forallb scalar t = true -> dec16 be (enc16 be t) = Some t.
Proof. exact dec16_enc16. Qed.

(* arbitrary bytes without a byte order mark always decode (Windows-1252 is total): such a file is
   handled like any text; with a mark and malformed content the outcome is the UnsupportedEncoding
   diagnostic, never a crash (None is a value of the model) *)
Theorem C14_total_without_bom : forall bs, sniff bs = None -> decode_file bs <> None.
Proof. intro bs. unfold decode_file. rewrite C14_gen_decoders. exact (cascade_total_without_bom bs). Qed.

(* non-vacuity: "(* é€ *)" in the five forms; the 1252 bytes are not valid UTF-8 *)
Example C14_example :
  let t := [40; 42; 32; 233; 8364; 32; 42; 41] in
  forallb scalar t = true /\ hd_error t <> Some 65279 /\
  enc1252 t = Some [40; 42; 32; 233; 128; 32; 42; 41] /\
  sniff [40; 42; 32; 233; 128; 32; 42; 41] = None /\ dec8 [40; 42; 32; 233; 128; 32; 42; 41] = None /\
  decode_file (enc8 t) = Some t /\ decode_file [40; 42; 32; 233; 128; 32; 42; 41] = Some t.
Proof. vm_compute. repeat split; try reflexivity. discriminate. Qed.
