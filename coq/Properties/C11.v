(* C11 -- LSP diagnostics depend only on current document contents.
   Statements only; proofs are in Proofs/LspInv.v.  Quantification is over every message sequence.
   The analysis [diag] is a parameter; the history-independence theorem assumes it is a function of the
   current contents (not of the order in which documents were stored) -- that is property C06. *)
From Coq Require Import List NArith ZArith Bool.
From Verif Require Import Model.Lsp Proofs.LspInv Proofs.LspCurrent.
From Coq Require Sorting.Sorted.
From Verif Require Gen.GenProject Model.Project Proofs.ProjectProofs.
Import ListNotations.

(* exactly one publishDiagnostics per didOpen / didChange, for that document, carrying its version *)
Theorem C11_one_publish_per_notification :
  forall (text D T : Type) diag no_diag tokens null_tokens (ms : list (msg text)) (d : docs text),
  flat_map (publishes D T) (snd (run text D T diag no_diag tokens null_tokens d ms))
  = flat_map (notified text) ms.
Proof. exact run_publishes. Qed.

(* the published content is the analysis of the contents right after the edit *)
Theorem C11_publish_is_current :
  forall (text D T : Type) diag no_diag tokens null_tokens (d : docs text) u v t,
  u_file u = true ->
  snd (step text D T diag no_diag tokens null_tokens d (DidOpen text u v t))
    = [Publish D T u v (diag (put text d (u_id u) t) (u_id u))] /\
  get text (fst (step text D T diag no_diag tokens null_tokens d (DidOpen text u v t))) (u_id u) = Some t.
Proof. exact publish_is_current. Qed.

(* history independence: servers whose stored contents agree (however they got there) write the same
   frames for every further message sequence; so a server after any edit history equals a fresh one
   into which the current contents were opened *)
Theorem C11_history_independent :
  forall (text D T : Type) diag no_diag tokens null_tokens,
  (forall a b u, same_contents text a b -> diag a u = diag b u) ->
  forall (ms : list (msg text)) (a b : docs text), same_contents text a b ->
  same_contents text (fst (run text D T diag no_diag tokens null_tokens a ms))
                     (fst (run text D T diag no_diag tokens null_tokens b ms)) /\
  snd (run text D T diag no_diag tokens null_tokens a ms) = snd (run text D T diag no_diag tokens null_tokens b ms).
Proof. exact run_same. Qed.

(* full-document synchronisation: the last change is the content; no change keeps it *)
Theorem C11_change_takes_last :
  forall (text D T : Type) diag no_diag tokens null_tokens (d : docs text) u v cs t,
  u_file u = true ->
  get text (fst (step text D T diag no_diag tokens null_tokens d (DidChange text u v (cs ++ [t])))) (u_id u) = Some t.
Proof. exact change_takes_last. Qed.

Theorem C11_change_empty_keeps :
  forall (text D T : Type) diag no_diag tokens null_tokens (d : docs text) u v,
  fst (step text D T diag no_diag tokens null_tokens d (DidChange text u v [])) = d.
Proof. exact change_empty_keeps. Qed.

(* a closed document is no longer part of what is analysed; the other documents stay as they are *)
Theorem C11_close_forgets :
  forall (text D T : Type) diag no_diag tokens null_tokens (d : docs text) u,
  u_file u = true ->
  get text (fst (step text D T diag no_diag tokens null_tokens d (DidClose text u))) (u_id u) = None /\
  (forall k, k <> u_id u -> get text (fst (step text D T diag no_diag tokens null_tokens d (DidClose text u))) k = get text d k).
Proof. exact close_forgets. Qed.

(* ... and for EVERY analysis, order-sensitive or not, once what is published is modelled as it is computed: the sources are
   sorted by file identifier before they are parsed and analyzed together, and the diagnostics that mention the notified file
   are kept (Model/Project.v) *)
Theorem C11_history_independent_any_analysis :
  forall (text A T : Type) (analysis : list (N * text) -> list A) (mentions : A -> N -> bool) no_diag tokens (null_tokens : T)
         (ms : list (msg text)) (a b : docs text),
  same_contents text a b ->
  same_contents text (fst (run text (list A) T (Project.file_diags text A analysis mentions) no_diag tokens null_tokens a ms))
                     (fst (run text (list A) T (Project.file_diags text A analysis mentions) no_diag tokens null_tokens b ms)) /\
  snd (run text (list A) T (Project.file_diags text A analysis mentions) no_diag tokens null_tokens a ms)
  = snd (run text (list A) T (Project.file_diags text A analysis mentions) no_diag tokens null_tokens b ms).
Proof. intros text A T analysis mentions. exact (ProjectProofs.run_same_sorted text A analysis mentions T). Qed.

(* what the analysis is given: every stored document once, with its current text, in the order of the identifiers *)
Theorem C11_analysis_input :
  forall (text : Type) (d : docs text),
  (forall k t, In (k, t) (Project.listing text d) <-> get text d k = Some t) /\
  Sorted.StronglySorted N.lt (map fst (Project.listing text d)).
Proof. intros text d. split; [intros k t; apply ProjectProofs.listing_spec | apply ProjectProofs.listing_keys]. Qed.

(* equal to `check`: the command line fills the same kind of project from files and calls the same function, so when the files
   hold what the documents hold the diagnostics that mention a file are the same *)
Theorem C11_same_as_check :
  forall (text A : Type) (analysis : list (N * text) -> list A) (mentions : A -> N -> bool) (lsp files : docs text) u,
  same_contents text lsp files ->
  Project.file_diags text A analysis mentions lsp u = filter (fun x => mentions x u) (Project.semantic text A analysis files).
Proof. exact ProjectProofs.same_as_check. Qed.

(* non-vacuity of the hypothesis: an analysis that looks documents up by name is a function of the contents *)
Example C11_example :
  let diag := fun (d : docs nat) (u : N) => get nat d u in
  (forall a b u, same_contents nat a b -> diag a u = diag b u) /\
  snd (run nat (option nat) bool diag None (fun _ => true) false [] [DidOpen nat (mkUri 1 true) 1%Z 7%nat; DidChange nat (mkUri 1 true) 2%Z [8%nat; 9%nat]])
  = [Publish (option nat) bool (mkUri 1 true) 1%Z (Some 7%nat); Publish (option nat) bool (mkUri 1 true) 2%Z (Some 9%nat)].
Proof. split; [intros a b u H; apply H | vm_compute; reflexivity]. Qed.

From Coq Require Import String.
(* the model is the source's: the steps of FileBackedProject::semantic, its sort key, the language server's filter and the call
   in cli::check, regenerated on every run *)
Theorem C11_project_model_is_the_source :
  GenProject.project_semantic_steps = ["collect the map"; "sort by key"; "parse each in that order"; "analyze together"]%string /\
  GenProject.project_sort_key = "source.0.to_string()"%string /\
  GenProject.lsp_file_filter = "d.file_ids().contains(&file_id)"%string /\
  GenProject.check_calls = "project.semantic()"%string.
Proof. repeat split; reflexivity. Qed.


(* What the server holds for a file document after ANY history is what the history's last edits of THAT document left: the text of
   its last didOpen / non-empty didChange since it was last closed, nothing when it is closed or was never opened.  No earlier
   text, no other document's messages have a say (the statement is about one k and mentions the other messages only through
   [after], which passes them by). *)
Theorem C11_contents_are_the_last_edits :
  forall (text D T : Type) diag no_diag tokens null_tokens (ms : list (Lsp.msg text)) (d : Lsp.docs text) k,
  Lsp.get text (fst (Lsp.run text D T diag no_diag tokens null_tokens d ms)) k = LspCurrent.current text ms k (Lsp.get text d k).
Proof. exact LspCurrent.run_get. Qed.
