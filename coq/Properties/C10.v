(* C10 -- Re-rendering round-trips.  Statements only; proofs are in Proofs/ExprInstance.v.
   On expressions: the renderer model (every binary expression parenthesised, one blank between tokens, nested unary
   operators parenthesised) writes a well-formed spelling of the tree, so parsing what was rendered gives the tree back,
   for every expression tree of any size.  Declarations and statements are decided by the round-trip search. *)
From Coq Require Import List NArith Bool Arith.
From Verif Require Import Base.Res Gen.GenTokens Model.Lexer Model.ExprParser Proofs.ExprParserProofs Proofs.ExprInstance.
From Verif Require Model.StParser Model.StInstance Model.StRender Proofs.StExprProofs Proofs.StStmtProofs Proofs.StInstanceProofs Proofs.StRenderProofs Model.DeclParser Proofs.DeclProofs Proofs.DeclRenderProofs Proofs.LibProofs Model.LibRender Proofs.LibRenderProofs Proofs.LexSpell Proofs.TextRoundTrip Model.Literals Model.TimeRender Proofs.TimeRenderProofs Model.DurRender Proofs.DurRenderProofs Proofs.LitProofs Proofs.TodExact Proofs.DurExact.
Import ListNotations.
Close Scope N_scope.
Open Scope nat_scope.

Theorem C10_render_is_a_spelling : forall e : rexpr,
  erase token binop unop leaf (spell e) = e /\
  forall q, wf token binop unop leaf tok_triv tok_bop tok_uop tok_atom tok_lp tok_rp tok_noafter q (spell e).
Proof. intro e. split; [apply spell_erase | intro q; apply spell_wf]. Qed.

Theorem C10_parse_render : forall (e : rexpr) rest,
  follow_lt token binop tok_triv tok_bop 0 rest ->
  follow_ok token binop unop leaf tok_triv tok_noafter (spell e) rest ->
  exists f0, forall f, f0 <= f -> parse_expr f 0 (render_expr e ++ rest) = Ok (e, rest).
Proof. exact parse_render. Qed.

(* hence rendering is a fixed point: render (parse (render e)) = render e *)
Corollary C10_fixed_point : forall (e : rexpr) rest,
  follow_lt token binop tok_triv tok_bop 0 rest ->
  follow_ok token binop unop leaf tok_triv tok_noafter (spell e) rest ->
  exists f0, forall f, f0 <= f ->
    match parse_expr f 0 (render_expr e ++ rest) with Ok (e', _) => render_expr e' = render_expr e | _ => False end.
Proof.
  intros e rest H1 H2. destruct (parse_render e rest H1 H2) as [f0 H]. exists f0. intros f Hf. rewrite (H f Hf). reflexivity.
Qed.

(* Statements: what the renderer model writes for a statement list (Model/StRender.v, compared with write_to_string token
   for token on every run) is a well-formed spelling of that list, so the parser model reads it back as exactly the list it
   was given -- assignments, calls with all parameter forms, IF / ELSIF / ELSE, CASE (integer, subrange and name selectors,
   groups without statements, ELSE), FOR [BY], WHILE, REPEAT, EXIT, RETURN, nested to any depth, empty loop and ELSIF bodies
   (written as an empty statement), expressions over all operators -- whatever the size.  [rstmt] excludes only the
   recorded gap (a negative integer constant or CASE selector bound is written '- 5'), a CASE group without selectors (no
   text gives one) and the [LfVar] node no
   accepted text has; integer constants are below 2^128, the range of the syntax tree (printing in decimal and reading
   back is proved in Proofs/DecProofs.v). *)
Theorem C10_statements_render_is_spelling : forall x l, Forall StRenderProofs.rstmt (x :: l) ->
  StStmtProofs.wf_l token StInstance.tok_class t_text StInstance.tok_num StInstance.op_level true (StRender.list_sp StRender.ss_of x l) /\
  StStmtProofs.erase_l token t_text StInstance.tok_num (StRender.list_sp StRender.ss_of x l) = x :: l /\
  StStmtProofs.absorbs token (StRender.list_sp StRender.ss_of x l) = false.
Proof. exact StRenderProofs.render_is_spelling. Qed.

Theorem C10_statements_parse_render : forall name l, l <> [] -> Forall StRenderProofs.rstmt l ->
  StInstance.parse_fb_tokens (StRenderProofs.render_fb name l) = StInstance.OParsed l.
Proof. exact StRenderProofs.parse_render_fb. Qed.

Theorem C10_statements_fixed_point : forall name l, l <> [] -> Forall StRenderProofs.rstmt l ->
  match StInstance.parse_fb_tokens (StRenderProofs.render_fb name l) with
  | StInstance.OParsed l' => StRenderProofs.render_fb name l' = StRenderProofs.render_fb name l
  | _ => False
  end.
Proof. exact StRenderProofs.render_fixed_point. Qed.

(* without the guard the statement is false: NOT -5 is written NOT - 5, which is rejected (the recorded finding) *)
Theorem C10_negative_constant_refuted :
  StInstance.parse_fb_tokens (StRenderProofs.render_fb [102%N] StRenderProofs.neg_witness)
  <> StInstance.OParsed StRenderProofs.neg_witness.
Proof. exact StRenderProofs.render_negative_constant_refuted. Qed.

(* ... and a negative CASE selector is written '- 5 :', which signed_integer does not read: the rendered text is rejected *)
Theorem C10_negative_selector_refuted :
  StInstance.parse_fb_tokens (StRenderProofs.render_fb [102%N] StRenderProofs.neg_sel_witness) = StInstance.ORejected.
Proof. exact StRenderProofs.render_negative_selector_refuted. Qed.

(* Function blocks with variable declarations: what the renderer model writes (one block per variable, then the edge inputs,
   then the statements; compared with write_to_string token for token on every run) is read back by the parser model as
   exactly the declarations -- name, class, qualifier, type, initial value -- and the statements it was given.  [ditem_ok]
   excludes the recorded gap (a negative initial value is written '- 5') and combinations no text gives (an initial value
   in VAR_IN_OUT / VAR_EXTERNAL, CONSTANT inputs, a named type without value kept as 'simple'). *)
Theorem C10_declarations_parse_render : forall name ds l,
  Forall DeclRenderProofs.ditem_ok ds -> l <> [] -> Forall StRenderProofs.rstmt l ->
  StInstance.parse_fbd_tokens (DeclRenderProofs.render_fbd name ds l) = StInstance.O2Parsed ds l.
Proof. exact DeclRenderProofs.parse_render_fbd. Qed.

Theorem C10_declarations_fixed_point : forall name ds l,
  Forall DeclRenderProofs.ditem_ok ds -> l <> [] -> Forall StRenderProofs.rstmt l ->
  match StInstance.parse_fbd_tokens (DeclRenderProofs.render_fbd name ds l) with
  | StInstance.O2Parsed ds' l' => DeclRenderProofs.render_fbd name ds' l' = DeclRenderProofs.render_fbd name ds l
  | _ => False
  end.
Proof. exact DeclRenderProofs.render_fbd_fixed_point. Qed.

(* without the guard: x : INT := -5 is written  x : INT := - 5 ;  which is rejected (the recorded finding) *)
Theorem C10_negative_initial_value_refuted :
  StInstance.parse_fbd_tokens DeclRenderProofs.real_neg_render = StInstance.O2Rejected.
Proof. exact DeclRenderProofs.render_negative_initial_value_refuted. Qed.

(* Whole libraries: TYPE declarations (arrays, integer subranges, enumerations by values or of another enumeration, elementary
   types with a constant default, late-bound names), function blocks and programs.  The renderer model writes every data type
   declaration in a TYPE block of its own (as visit_data_type_declaration_kind does; compared with write_to_string token for
   token on every run); the parser model reads the rendered library back as the same flat sequence of declarations
   ([split_types]: one block per declaration -- the library itself has no blocks), and rendering that again gives the same
   tokens.  [elem_ok] excludes the recorded gap (a negative bound or default is written '- 1') and what no text gives. *)
Theorem C10_library_parse_render : forall es, Forall LibRenderProofs.elem_ok es ->
  StInstance.parse_lib2_tokens (LibRender.render_lib2 es) = StInstance.O4Parsed (LibRender.split_types es).
Proof. exact LibRenderProofs.parse_render_lib2. Qed.

Theorem C10_library_fixed_point : forall es, Forall LibRenderProofs.elem_ok es ->
  match StInstance.parse_lib2_tokens (LibRender.render_lib2 es) with
  | StInstance.O4Parsed es' =>
      LibRender.render_lib2 es' = LibRender.render_lib2 es /\ StInstance.parse_lib2_tokens (LibRender.render_lib2 es') = StInstance.O4Parsed es'
  | _ => False
  end.
Proof. exact LibRenderProofs.render_lib2_fixed_point. Qed.

(* without the guard: T : INT (-1..5) is written  T : INT (- 1.. 5 ) ;  which is rejected (the recorded finding) *)
Theorem C10_negative_bound_refuted :
  LibRender.render_lib2 LibRenderProofs.neg_bound_witness = LibRenderProofs.real_neg_bound_render /\
  StInstance.parse_lib2_tokens LibRenderProofs.real_neg_bound_render = StInstance.O4Rejected.
Proof. exact (conj LibRenderProofs.neg_bound_is_what_the_model_writes LibRenderProofs.render_negative_bound_refuted). Qed.

(* ---- at the level of texts: lexer model, parser model and renderer model composed (Proofs/LexSpell.v, TextRoundTrip.v) ---- *)
(* the text of a token list that passes the decidable check [sep_ok] -- what follows each token cannot extend it -- is read
   back by the lexer model as these tokens: their kinds and texts, in order, and nothing is rejected *)
Theorem C10_spelled_tokens_are_read_back : forall toks, LexSpell.sep_ok toks = true ->
  map LexSpell.item_view (Lexer.lex_items (LexSpell.spell_all toks)) = map (fun t => Some (LexSpell.view t)) toks.
Proof. exact LexSpell.spelled_tokens_are_read_back. Qed.

(* one token: a word followed by something that is no identifier character is the keyword some pattern of its length spells
   (without regard to letter case), an identifier otherwise *)
Theorem C10_word_is_read_back : forall w rest, LexSpell.wordy w = true -> LexSpell.next_not_ident rest ->
  Lexer.lex_one (w ++ rest) = Some (List.length w, match LexSpell.kw_kind w with Some k => k | None => KIdentifier end).
Proof. exact LexSpell.lex_word. Qed.

(* the TEXT the renderer model writes for a function block is read as the tokens it was written from (with the ';' the
   tokenizer adds after END_IF), given the decidable check [text_ok] of that rendering *)
Theorem C10_text_is_read_as_rendered : forall name l, TextRoundTrip.text_ok (StRenderProofs.render_fb name l) = true ->
  StInstance.parse_fb_text (TextRoundTrip.render_text name l)
  = StInstance.parse_fb_tokens (Lexer.insert_terminators (StRenderProofs.render_fb name l)).
Proof. exact TextRoundTrip.text_is_read_as_rendered. Qed.

(* ... hence parsing the text gives back the statements, where the tokenizer adds nothing (no END_IF; with END_IF the added
   ';' are empty statements: evaluated on every generated rendering and in the example below, not proved) *)
Theorem C10_text_round_trip : forall name l, l <> [] -> Forall StRenderProofs.rstmt l ->
  TextRoundTrip.text_ok (StRenderProofs.render_fb name l) = true ->
  forallb (fun t => negb (Lexer.kind_eqb (t_kind t) KEndIf)) (StRenderProofs.render_fb name l) = true ->
  StInstance.parse_fb_text (TextRoundTrip.render_text name l) = StInstance.OParsed l.
Proof. exact TextRoundTrip.text_round_trip. Qed.

Example C10_text_round_trip_example :
  TextRoundTrip.text_ok (StRenderProofs.render_fb [102%N; 98%N] StRenderProofs.ex_stmts) = true /\
  StInstance.parse_fb_text (TextRoundTrip.render_text [102%N; 98%N] StRenderProofs.ex_stmts) = StInstance.OParsed StRenderProofs.ex_stmts.
Proof. exact TextRoundTrip.text_round_trip_example. Qed.

(* Times of day (TIME_OF_DAY# and the time part of DATE_AND_TIME#): the renderer writes the seconds as two digits, '.', and
   the microseconds as six digits without trailing zeros (at least two) -- Model/TimeRender.v, the transcription of
   fraction_of_second and the two format! calls of plc2plc/src/renderer.rs.  For every hour, minute, second and number of
   microseconds the text is read back (fixed_point, daytime: Model/Literals.v) as exactly that time.  (Before the repair
   e7233cc the microseconds were padded to two digits, and 12:00:00.005 came back as 12:00:00.5.)  Finer than a microsecond
   the library keeps more than the renderer writes: recorded finding render-fractional-time-values. *)
Theorem C10_time_of_day_round_trip : forall h m sec micro : N, (h < 24)%N -> (m < 60)%N -> (sec < 60)%N -> (micro < 1000000)%N ->
  TimeRender.read_back h m sec micro = Some (h, m, sec, micro * 1000)%N.
Proof. exact TimeRenderProofs.time_of_day_round_trip. Qed.

Example C10_time_of_day_examples :
  TimeRender.seconds_text 0 5000 = [48; 48; 46; 48; 48; 53]%N /\ TimeRender.seconds_text 7 0 = [48; 55; 46; 48; 48]%N /\
  TimeRender.read_back 12 0 0 5000 = Some (12, 0, 0, 5000000)%N.
Proof. vm_compute. repeat split; reflexivity. Qed.

(* Dates (DATE# and the date part of DATE_AND_TIME#): year as four digits, month and day as two, each read back by integer():
   every date the literal model accepts is read back from its rendering as that date. *)
Theorem C10_date_round_trip : forall y m d : N, Literals.date_literal y m d = Some (y, m, d) ->
  TimeRender.date_read_back y m d = Some (y, m, d).
Proof. exact TimeRenderProofs.date_round_trip. Qed.

(* Durations: the renderer writes TIME#<n>ms with n the whole milliseconds (in decimal).  Whatever decimal spelling of n < 2^64
   it writes, <n> ms is read back as exactly n milliseconds -- so a duration of whole milliseconds survives; finer than a
   millisecond the renderer drops what the library keeps (recorded finding render-fractional-time-values). *)
Theorem C10_milliseconds_read_back : forall ds : list N, Forall (fun x => x < 10)%N ds -> ds <> [] -> (LitProofs.horner 10 ds < Literals.two64)%N ->
  DurRender.read_milliseconds (LitProofs.digits_text ds) =
  Some (LitProofs.horner 10 ds / 1000, (LitProofs.horner 10 ds mod 1000) * 1000000)%N.
Proof. exact DurRenderProofs.milliseconds_read. Qed.

(* The library keeps nanoseconds, the renderer writes hmsm() = as_hms_micro(), i.e. nanos / 1000: what is read back is the STORED
   time exactly when it has no part finer than a microsecond.  Both directions: the recorded finding
   render-fractional-time-values is, for times of day, precisely the times with nanos mod 1000 <> 0. *)
Theorem C10_stored_time_round_trip_iff : forall h m sec nanos : N, (h < 24)%N -> (m < 60)%N -> (sec < 60)%N -> (nanos < 1000000000)%N ->
  (TimeRender.read_back h m sec (nanos / 1000) = Some (h, m, sec, nanos) <-> (nanos mod 1000 = 0)%N).
Proof. exact TodExact.stored_time_round_trip_iff. Qed.

(* ... and for durations: the library keeps (seconds, nanoseconds), the renderer writes whole_milliseconds() = secs * 1000 +
   nanos / 10^6 in decimal; what is read back is the stored duration exactly when it has no part finer than a millisecond. *)
Theorem C10_stored_duration_round_trip_iff : forall (secs nanos : N) (ds : list N),
  (nanos < 1000000000)%N -> (secs * 1000 + nanos / 1000000 < Literals.two64)%N ->
  Forall (fun x => x < 10)%N ds -> ds <> [] -> LitProofs.horner 10 ds = (secs * 1000 + nanos / 1000000)%N ->
  (DurRender.read_milliseconds (LitProofs.digits_text ds) = Some (secs, nanos) <-> (nanos mod 1000000 = 0)%N).
Proof. exact DurExact.stored_duration_round_trip_iff. Qed.
