(* C10 -- Re-rendering round-trips.  Statements only; proofs are in Proofs/ExprInstance.v.
   On expressions: the renderer model (every binary expression parenthesised, one blank between tokens, nested unary
   operators parenthesised) writes a well-formed spelling of the tree, so parsing what was rendered gives the tree back,
   for every expression tree of any size.  Declarations and statements are decided by the round-trip search. *)
From Coq Require Import List NArith Bool Arith.
From Verif Require Import Base.Res Gen.GenTokens Model.Lexer Model.ExprParser Proofs.ExprParserProofs Proofs.ExprInstance.
Import ListNotations.
Close Scope N_scope.
Open Scope nat_scope.

Theorem C10_render_is_a_spelling : forall e : rexpr,
  erase token binop unop leaf (spell e) = e /\
  forall q, wf token binop unop leaf tok_triv tok_bop tok_uop tok_atom tok_lp tok_rp tok_noafter q (spell e).
Proof. intro e. split; [apply spell_erase | intro q; apply spell_wf]. Qed.

Theorem C10_parse_render : forall (e : rexpr) rest,
  follow_lt token binop tok_triv tok_bop 0 rest ->
  follow_ok token binop unop leaf tok_triv tok_noafter (spell e) rest ->
  exists f0, forall f, f0 <= f -> parse_expr f 0 (render_expr e ++ rest) = Ok (e, rest).
Proof. exact parse_render. Qed.

(* hence rendering is a fixed point: render (parse (render e)) = render e *)
Corollary C10_fixed_point : forall (e : rexpr) rest,
  follow_lt token binop tok_triv tok_bop 0 rest ->
  follow_ok token binop unop leaf tok_triv tok_noafter (spell e) rest ->
  exists f0, forall f, f0 <= f ->
    match parse_expr f 0 (render_expr e ++ rest) with Ok (e', _) => render_expr e' = render_expr e | _ => False end.
Proof.
  intros e rest H1 H2. destruct (parse_render e rest H1 H2) as [f0 H]. exists f0. intros f Hf. rewrite (H f Hf). reflexivity.
Qed.
