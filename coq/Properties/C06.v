(* C06 -- Result is independent of declaration order, file partition, file order and run.
   Statements only; proofs are in Proofs/AnalyzerProofs.v.  A rule of the shape "build a name-keyed table
   from all declarations, then check every declaration against it" -- the shape of every rule and
   transform of the analyzer, whose tables are HashMaps keyed by lower-cased identifiers -- gives the same
   verdict for every order of the declarations when declaration names are unique.  Files are concatenated
   before analysis, so partition and file order are permutations of the declaration list; hash seeds only
   permute it further.  That the implemented rules have this shape is tied by the permutation / partition /
   repeated-run search, not by proof. *)
From Coq Require Import List NArith Bool Permutation.
From Verif Require Import Base.Res Model.Analyzer Proofs.AnalyzerProofs Base.Text Model.Scope Proofs.ScopeProofs Gen.GenRules Model.Rules Proofs.RulesProofs.
From Verif Require Model.Lsp Proofs.LspInv Model.Project Proofs.ProjectProofs Model.DeclRules Proofs.DeclRulesProofs Gen.GenExprKind Proofs.ExprKindGen Model.ExprKind Proofs.ExprKindProofs Model.DataDecl Proofs.DataDeclProofs Proofs.DataDeclComplete.
Import ListNotations.

Theorem C06_verdict_order_independent :
  forall (D : Type) (key : D -> N) (diag : Type) (check : (N -> option D) -> D -> list diag),
  (forall f g d, (forall k, f k = g k) -> check f d = check g d) ->
  forall a b, Permutation a b -> NoDup (map key a) ->
  verdict D key diag check a = verdict D key diag check b.
Proof. exact verdict_perm. Qed.

(* the lookups themselves do not depend on the order (a declaration in any file is visible in every other) *)
Theorem C06_lookup_order_independent :
  forall (D : Type) (key : D -> N) a b, Permutation a b -> NoDup (map key a) ->
  forall k, find_decl D key a k = find_decl D key b k.
Proof. exact find_decl_perm. Qed.

(* the declaration sort returns the same multiset whatever the order it was given (names unique) *)
Theorem C06_reassemble_order_independent : forall sorted ds out,
  reassemble sorted ds = Ok out -> NoDup sorted ->
  (forall d, In d ds -> d_kind d <> DkPostfix -> In (d_name d) sorted) -> Permutation out ds.
Proof. exact reassemble_keeps_all. Qed.

(* the scans inside declarations do not depend on the order of the elements either *)
Theorem C06_unique_names_order : forall a b, Permutation a b -> (rule_unique a = [] <-> rule_unique b = []).
Proof. exact rule_unique_perm. Qed.

(* the declared-variable rule: the verdict is the same for every order of the units, and with a single faulty unit so are
   the name and the place reported *)
Theorem C06_declared_variables_order : forall ps ps', Permutation ps ps' ->
  (rule_symbolic (events_of ps) = None <-> rule_symbolic (events_of ps') = None).
Proof. exact rule_symbolic_perm. Qed.

Theorem C06_declared_variables_single_fault : forall ps ps' p b,
  Permutation ps ps' -> In p ps -> pou_bad p = Some b -> (forall q, In q ps -> pou_bad q = None \/ pou_bad q = Some b) ->
  rule_symbolic (events_of ps') = Some b.
Proof. exact single_fault_perm. Qed.

Example C06_example :
  let key := fun d : N * N => fst d in
  let check := fun (f : N -> option (N * N)) (d : N * N) => match f (snd d) with Some _ => [] | None => [fst d] end in
  verdict (N * N) key N check [(1, 2); (2, 2)]%N = true /\ verdict (N * N) key N check [(2, 2); (1, 2)]%N = true /\
  verdict (N * N) key N check [(1, 3); (2, 2)]%N = false.
Proof. vm_compute. repeat split; reflexivity. Qed.

(* ---- the rules on declarations, invocations and configurations (Model/Rules.v): the order plays no role ---- *)
(* per-declaration rules: any order of the units gives the same diagnostics (code and place), as a multiset *)
Theorem C06_per_declaration_rules_order : forall us us', Permutation us us' ->
  Permutation (rule_const_not_fb (concat us)) (rule_const_not_fb (concat us')) /\
  Permutation (rule_task (concat us)) (rule_task (concat us')) /\
  Permutation (rule_stdlib (concat us)) (rule_stdlib (concat us')).
Proof. intros us us' P. repeat split; apply per_fact_perm; exact P. Qed.

Theorem C06_constant_rules_order : forall fs fs', Permutation fs fs' ->
  (rule_const_init fs = [] <-> rule_const_init fs' = []) /\ (rule_global_const fs = [] <-> rule_global_const fs' = []).
Proof. intros fs fs' P. split; [apply rule_const_init_perm | apply rule_global_const_perm]; exact P. Qed.

(* with distinct enumeration names the enumerated-value rule does not depend on the order of the declarations *)
Theorem C06_enumerated_value_order : forall fs fs', Permutation fs fs' -> NoDup (map fst (enum_defs fs)) ->
  (rule_enum_value fs = [] <-> rule_enum_value fs' = []).
Proof. exact rule_enum_value_perm. Qed.

(* with distinct function block names the invocation rule does not depend on the order of the units *)
Theorem C06_invocation_order : forall bs bs', Permutation bs bs' -> NoDup (map fst (fb_defs (stream bs))) ->
  (rule_fb_call (stream bs) = [] <-> rule_fb_call (stream bs') = []).
Proof. exact rule_fb_call_perm. Qed.

(* a type or function block declared anywhere is visible everywhere: the type transformation gives the same answer (new
   kinds / undeclared references, as multisets) for every order of the declarations and references *)
Theorem C06_type_resolution_order : forall fs fs', Permutation fs fs' -> NoDup (map fst (decls fs)) -> no_rtodo (decls fs) fs ->
  match xform_type_init fs, xform_type_init fs' with
  | inl ks, inl ks' => Permutation ks ks'
  | inr ds, inr ds' => Permutation ds ds'
  | _, _ => False
  end.
Proof. exact xform_type_init_perm. Qed.

(* The resolution of bare identifiers in expressions (xform_resolve_late_bound_expr_kind: a stateful fold over the
   library) is the resolution of every unit by itself, so its verdict is the same for every order of the units and, when it
   succeeds, every unit's names are resolved as in that unit alone. *)
Theorem C06_expression_resolution_by_unit : forall us,
  ExprKind.resolve_expr_kinds (flat_map ExprKind.flat_unit us) = ExprKind.units_res us.
Proof. exact ExprKindProofs.resolve_by_unit. Qed.

Theorem C06_expression_resolution_order : forall us us', Permutation us us' ->
  (ExprKind.resolve_expr_kinds (flat_map ExprKind.flat_unit us) = None <-> ExprKind.resolve_expr_kinds (flat_map ExprKind.flat_unit us') = None).
Proof. exact ExprKindProofs.verdict_perm. Qed.

(* aliases of data types: two well-formed orders (unique names, declared kinds before their uses as a base) of the same declarations give every alias the
   same kind -- whichever of them the declaration sort produces *)
Theorem C06_alias_resolution_order : forall fs fs' s s' n, DataDeclComplete.wf fs -> DataDeclComplete.wf fs' ->
  (forall f, In f fs <-> In f fs') -> DataDecl.dwalk DataDecl.dinit0 fs = inl s -> DataDecl.dwalk DataDecl.dinit0 fs' = inl s' ->
  DataDecl.alias_kind (DataDecl.resolved s) n = DataDecl.alias_kind (DataDecl.resolved s') n.
Proof. exact DataDeclComplete.alias_kind_order. Qed.

(* the model of the expression resolver is the source's: the table regenerated from xform_resolve_late_bound_expr_kind.rs on
   every run (what a late-bound element becomes under each of the ten variable types; how the four kinds of assignment
   target set the current type) is the model's, and the two shapes the unit-by-unit theorem rests on -- the current type
   is reset after an assignment, the table cleared after a function, function block or program -- are in the source (the
   translator refuses otherwise) and in the model *)
Theorem C06_expression_resolver_model_is_the_source : 
  GenExprKind.gen_late = map (fun k => (ExprKindGen.vkind_name k, ExprKind.late_kind k)) ExprKindGen.all_vkinds /\
  GenExprKind.gen_insert = map (fun k => (ExprKindGen.vkind_name k, ExprKindGen.vkind_name k)) ExprKindGen.all_vkinds /\
  GenExprKind.gen_resets_after_assignment = true /\
  (forall s, exists s', ExprKind.estep s ExprKind.EfEndAssign = Some (s', []) /\ ExprKind.e_cur s' = ExprKind.VkNone /\ ExprKind.e_tbl s' = ExprKind.e_tbl s) /\
  (forall s, exists s', ExprKind.estep s ExprKind.EfExit = Some (s', []) /\ ExprKind.e_tbl s' = [] /\ ExprKind.e_cur s' = ExprKind.e_cur s).
Proof. exact ExprKindGen.model_is_the_source. Qed.

(* the rules on type declarations: the verdict depends neither on the order of the declarations nor on the order of the elements
   of a structure / the values of an enumeration *)
Theorem C06_type_declaration_rules_order : forall (g : DeclRules.tyfact -> list DeclRules.ldiag) fs fs',
  Permutation fs fs' -> (flat_map g fs = [] <-> flat_map g fs' = []).
Proof. exact DeclRulesProofs.rule_perm. Qed.

Theorem C06_element_order : forall mk l l', Permutation l l' ->
  (DeclRules.scan mk [] l = [] <-> DeclRules.scan mk [] l' = []).
Proof. exact DeclRulesProofs.scan_perm. Qed.

(* file order and run: the project's sources live in a map whose iteration order changes from run to run; they are sorted by file
   identifier before they are analyzed, so the list the analysis is given depends on the contents only -- whatever the order
   in which the files were added (or the documents opened, changed and closed) *)
Theorem C06_file_order_and_run : forall (text : Type) (a b : Lsp.docs text),
  LspInv.same_contents text a b -> Project.listing text a = Project.listing text b.
Proof. exact ProjectProofs.listing_ext. Qed.
