(* C04 -- Total and terminating: no input crashes or hangs lex, parse, analyse or render.
   Statements only; proofs are in Proofs/PanicInventory.v, Proofs/LexerTile.v, Proofs/LitProofs.v,
   Proofs/AnalyzerProofs.v.  A theorem cannot exhibit a wall-clock budget or the native stack; what is
   proved is (a) the inventory of panic-capable constructs in the input-reachable files is the reviewed
   one, (b) the modelled stages are total functions whose failure outcomes are values (Coq's guard
   checker accepts only terminating definitions), with explicit step bounds where the code loops.
   Crashes, aborts and time are observed by the search (testing). *)
From Coq Require Import List String NArith ZArith Bool.
From Verif Require Import Base.Text Gen.GenPanicSites Model.Lexer Model.Literals Model.Analyzer Model.Decode
  Proofs.LexerTile Proofs.PanicInventory Proofs.LitProofs Proofs.AnalyzerProofs Proofs.Utf.
From Verif Require Model.StParser Model.DeclParser Model.StInstance Proofs.StExprProofs Proofs.StStmtProofs Proofs.StInstanceProofs Proofs.DeclProofs Proofs.TypeProofs Proofs.DeclInstanceProofs Proofs.LibProofs.
From Verif Require Base.Res Model.ExprParser Proofs.ExprParserProofs Proofs.ExprInstance Proofs.ChainDepth Proofs.ChainInstance.
From Verif Require Import Gen.GenTokens.
Import ListNotations.

(* every unwrap / expect / panic! / todo! / unreachable! in the input-reachable files is a reviewed one *)
Theorem C04_panic_inventory : panic_sites = reviewed_sites.
Proof. exact panic_inventory_reviewed. Qed.

(* tokenizing takes at most one step per character and consumes the whole text *)
Theorem C04_lexer_bounded : forall t : text, (List.length (lex_items t) <= List.length t)%nat.
Proof. exact lexer_steps_bounded. Qed.

(* numbers of any length are read by a checked fold: the outcome is the value or a failure, for every
   digit string -- there is no magnitude at which the conversion has no answer *)
Theorem C04_number_conversion_total : forall bound base ds, (1 <= base)%N -> (0 < bound)%N -> ds <> [] ->
  parse_radix bound base ds = if (horner base ds <? bound)%N then Some (horner base ds) else None.
Proof. exact parse_radix_spec. Qed.

(* the subrange rule has an answer for bounds of every magnitude (it used to panic at 2^127) *)
Theorem C04_subrange_total : forall lo hi, rule_subrange lo hi = if (sval lo <? sval hi)%Z then 0%N else 1%N.
Proof. exact rule_subrange_spec. Qed.

(* any byte sequence without a byte order mark decodes to a text *)
Theorem C04_decode_total : forall bs, sniff bs = None -> cascade decoders_expected bs <> None.
Proof. exact cascade_total_without_bom. Qed.

(* the recursion of the statement / expression parser model is tied with fuel; the fuel its entry point supplies (three per
   token) is never exhausted on a well-formed statement list, whatever its size and nesting depth: the termination
   argument of the recursive-descent parser on the modelled sub-language (stack depth and wall-clock time are observed) *)
Theorem C04_statement_parser_fuel : forall w00 fb w0 nm w1 (l : StStmtProofs.sl token) w2 en w3,
  StExprProofs.all_triv token StInstance.tok_class w00 -> t_kind fb = KFunctionBlock ->
  StExprProofs.all_triv token StInstance.tok_class w0 -> t_kind nm = KIdentifier ->
  StExprProofs.all_triv token StInstance.tok_class w1 ->
  StStmtProofs.wf_l token StInstance.tok_class t_text StInstance.tok_num StInstance.op_level true l ->
  StExprProofs.all_triv token StInstance.tok_class w2 -> t_kind en = KEndFunctionBlock ->
  StExprProofs.all_triv token StInstance.tok_class w3 ->
  (StStmtProofs.absorbs token l = true -> w2 = []) ->
  StInstance.parse_fb_tokens (w00 ++ fb :: w0 ++ nm :: w1 ++ StStmtProofs.flat_l token l ++ w2 ++ en :: w3) <> StInstance.OFuel.
Proof. exact StInstanceProofs.parse_fb_fuel. Qed.

(* ... and the same fuel is enough for the declaration blocks in front of the statements *)
Theorem C04_declaration_parser_fuel : forall w00 fb w0 nm (bl : list (DeclProofs.swb token)) w1 (l : StStmtProofs.sl token) w2 en w3,
  StExprProofs.all_triv token StInstance.tok_class w00 -> t_kind fb = KFunctionBlock ->
  StExprProofs.all_triv token StInstance.tok_class w0 -> t_kind nm = KIdentifier ->
  Forall (DeclProofs.wf_wb token StInstance.tok_class t_text StInstance.tok_num) bl ->
  StExprProofs.all_triv token StInstance.tok_class w1 ->
  StStmtProofs.wf_l token StInstance.tok_class t_text StInstance.tok_num StInstance.op_level true l ->
  StExprProofs.all_triv token StInstance.tok_class w2 -> t_kind en = KEndFunctionBlock ->
  StExprProofs.all_triv token StInstance.tok_class w3 ->
  (StStmtProofs.absorbs token l = true -> w2 = []) ->
  StInstance.parse_fbd_tokens (w00 ++ fb :: w0 ++ nm :: DeclProofs.flat_wbs token bl ++ w1 ++ StStmtProofs.flat_l token l ++ w2 ++ en :: w3) <> StInstance.O2Fuel.
Proof. exact DeclInstanceProofs.parse_fbd_fuel. Qed.

Theorem C04_library_parser_fuel : forall (l : list LibProofs.swu) wend,
  Forall LibProofs.wf_wu l -> StExprProofs.all_triv token StInstance.tok_class wend ->
  StInstance.parse_lib_tokens (LibProofs.flat_lib l ++ wend) <> StInstance.O3Fuel.
Proof. exact LibProofs.parse_lib_fuel. Qed.

Theorem C04_types_parser_fuel : forall (l : list LibProofs.swe) wend,
  Forall LibProofs.wf_we l -> StExprProofs.all_triv token StInstance.tok_class wend ->
  StInstance.parse_lib2_tokens (LibProofs.flat_lib2 l ++ wend) <> StInstance.O4Fuel.
Proof. exact LibProofs.parse_lib2_fuel. Qed.

(* What the bound "bracket / statement nesting up to depth 12" does not bound: the chain  x op x op ... op x  of n binary
   operators of one level (any operator of the regenerated table, x an integer constant) has no parenthesis, 2n+1 tokens,
   and the expression parser model reads it as a tree n+1 levels deep.  The recursive folds and visitors of the analyzer and
   the renderer descend that tree: their native stack grows with the LENGTH of an expression.  (The cause of the recorded
   finding operator-chain-stack-overflow; the stack itself is observed by the search, not proved.) *)
Theorem C04_operator_chain_is_deep : forall k lv o (t x : token) n rest,
  In (k, lv, o) ExprInstance.op_kinds -> t_kind t = k -> t_kind x = KDigits ->
  ExprParserProofs.follow_lt token ExprParser.binop ExprParser.tok_triv ExprParser.tok_bop lv rest ->
  ChainDepth.parens token ExprParser.binop ExprParser.unop ExprParser.leaf
    (ChainDepth.chain token ExprParser.binop ExprParser.unop ExprParser.leaf t lv o x (ExprParser.LInt (t_text x)) n) = 0%nat /\
  List.length (ExprParserProofs.flat token ExprParser.binop ExprParser.unop ExprParser.leaf
    (ChainDepth.chain token ExprParser.binop ExprParser.unop ExprParser.leaf t lv o x (ExprParser.LInt (t_text x)) n)) = (2 * n + 1)%nat /\
  exists f0, forall f, (f0 <= f)%nat -> exists e,
    ExprParser.parse_expr f lv (ExprParserProofs.flat token ExprParser.binop ExprParser.unop ExprParser.leaf
      (ChainDepth.chain token ExprParser.binop ExprParser.unop ExprParser.leaf t lv o x (ExprParser.LInt (t_text x)) n) ++ rest) = Base.Res.Ok (e, rest) /\
    ChainDepth.depth ExprParser.binop ExprParser.unop ExprParser.leaf e = S n.
Proof. exact ChainInstance.chain_is_deep. Qed.
