(* C13 -- Command-line contract: exit status, OK line and diagnostics always agree.
   Statements only; proofs are in Proofs/CliContract.v.  Quantification is over every file system,
   every list of paths and every behaviour of decoding, tokenizing, parsing, analysis and rendering. *)
From Coq Require Import List NArith Bool.
From Coq Require Import Permutation.
From Verif Require Import Model.Cli Proofs.CliContract Proofs.CliMissing Proofs.CliOrder Proofs.CliOrder2.
Import ListNotations.
Open Scope N_scope.

(* check: exit 0 <-> OK line <-> no coded diagnostic; a failure carries at least one coded diagnostic *)
Theorem C13_check_contract :
  forall (C : Type) fs tok_errs parse_err analysis (ps : list path),
  let o := check C fs tok_errs parse_err analysis ps in
  (exit o = 0 <-> ok_line o = true) /\ (exit o = 0 <-> coded o = []) /\ (exit o <> 0 -> coded o <> []).
Proof. exact check_contract. Qed.

(* checking a directory of files is checking the list of the files in it (likewise tokenize, echo) *)
Theorem C13_directory :
  forall (C : Type) fs tok_errs parse_err analysis render_err d es,
  fs d = Dir C es -> (forall e, In e es -> exists c, fs e = File C c) ->
  check C fs tok_errs parse_err analysis [d] = check C fs tok_errs parse_err analysis es /\
  tokenize C fs tok_errs [d] = tokenize C fs tok_errs es /\
  echo C fs tok_errs parse_err render_err [d] = echo C fs tok_errs parse_err render_err es.
Proof. exact check_directory. Qed.

(* tokenize exits 0 (and prints OK) exactly when every given file tokenizes *)
Theorem C13_tokenize :
  forall (C : Type) fs tok_errs (ps : list path) cs, create_project C fs ps = inl cs ->
  (exit (tokenize C fs tok_errs ps) = 0 <-> forall c, In c cs -> tok_errs c = []) /\
  (exit (tokenize C fs tok_errs ps) = 0 <-> ok_line (tokenize C fs tok_errs ps) = true).
Proof. exact tokenize_contract. Qed.

(* echo exits 0 exactly when every given file parses (and renders) *)
Theorem C13_echo :
  forall (C : Type) fs tok_errs parse_err render_err (ps : list path) cs, create_project C fs ps = inl cs ->
  (exit (echo C fs tok_errs parse_err render_err ps) = 0 <->
   forall c, In c cs -> parse_diag C tok_errs parse_err c = [] /\ render_err c = None).
Proof. exact echo_contract. Qed.

(* a path that does not exist -- at ANY position of the argument list, whatever the other arguments are -- makes check, tokenize
   and echo exit 1 without an OK line and with the diagnostic about the path (P0023) among those printed *)
Theorem C13_missing_path_fails :
  forall (C : Type) fs tok_errs parse_err analysis render_err (ps : list path) p, In p ps -> fs p = Missing C ->
  let c := check C fs tok_errs parse_err analysis ps in
  let t := tokenize C fs tok_errs ps in
  let e := echo C fs tok_errs parse_err render_err ps in
  (exit c = 1 /\ ok_line c = false /\ In (P_CANON) (coded c)) /\
  (exit t = 1 /\ ok_line t = false /\ In (P_CANON) (coded t)) /\
  (exit e = 1 /\ ok_line e = false /\ In (P_CANON) (coded e)).
Proof. exact missing_path_fails. Qed.

(* the verdict of check (exit status, OK line) is the same for every order of the path arguments, given an analysis whose verdict
   does not depend on the order of the files (the project hands the analysis its sources sorted by identifier: C11_analysis_input) *)
Theorem C13_argument_order :
  forall (C : Type) fs tok_errs parse_err analysis,
  (forall l l', Permutation l l' -> (analysis l = [] <-> analysis l' = [])) ->
  forall ps ps' : list path, Permutation ps ps' ->
  (exit (check C fs tok_errs parse_err analysis ps) = 0 <-> exit (check C fs tok_errs parse_err analysis ps') = 0) /\
  ok_line (check C fs tok_errs parse_err analysis ps) = ok_line (check C fs tok_errs parse_err analysis ps').
Proof. exact check_order. Qed.

(* ... and so are the exit statuses of tokenize and echo (tokenize stops at the first file with lexical errors, echo at the first
   rendering failure: which diagnostics are printed depends on the order, whether the command succeeds does not) *)
Theorem C13_tokenize_echo_argument_order :
  forall (C : Type) fs tok_errs parse_err render_err (ps ps' : list path), Permutation ps ps' ->
  (exit (tokenize C fs tok_errs ps) = 0 <-> exit (tokenize C fs tok_errs ps') = 0) /\
  (exit (echo C fs tok_errs parse_err render_err ps) = 0 <-> exit (echo C fs tok_errs parse_err render_err ps') = 0).
Proof. intros. split; [apply tokenize_order | apply echo_order]; assumption. Qed.

(* non-vacuity: a good file and a missing path; a directory with a faulty file *)
Example C13_example :
  let fs := fun p : path => match p with 1 => File nat (Some 0%nat) | 2 => File nat (Some 1%nat) | 3 => Dir nat [1; 2] | _ => Missing nat end in
  let tok := fun _ : nat => @nil code in
  let perr := fun c : nat => match c with 1%nat => Some 2 | _ => None end in
  let ana := fun _ : list nat => @nil code in
  check nat fs tok perr ana [1] = {| exit := 0; ok_line := true; coded := [] |} /\
  check nat fs tok perr ana [1; 9] = {| exit := 1; ok_line := false; coded := [23] |} /\
  check nat fs tok perr ana [3] = {| exit := 1; ok_line := false; coded := [2] |}.
Proof. vm_compute. repeat split; reflexivity. Qed.
