(* C05 -- Every reported position points at the text it is about.
   Statements only; proofs are in Proofs/LexerTile.v.  Quantification is over every text. *)
From Coq Require Import List NArith Bool String.
From Verif Require Import Base.Text Gen.GenPipeline Gen.GenTokens Model.Lexer Proofs.LexerTile Proofs.GenObligations.
From Coq Require ZArith.
From Verif Require Gen.GenRules Gen.GenDeclRules Model.Analyzer Proofs.AnalyzerProofs Model.DeclRules Proofs.DeclRulesProofs Proofs.DeclRulesGen.
Import ListNotations.
Open Scope N_scope.

(* Tokens and rejected slices tile the (preprocessed) text: consecutive non-empty slices from byte
   offset 0, each item carrying exactly its slice as text, start = end of the previous item,
   end = start + byte length, and the running line/column at its start. *)
Theorem C05_tiles : forall t : text,
  tiles 0 (0, 0) (lex_items (preprocess t)) (preprocess t).
Proof. intro t. exact (lex_items_tile (preprocess t)). Qed.

(* ... hence the slices concatenate to the text, spans are adjacent, ordered and non-empty, and
   the last one ends at the byte length of the text; offsets are sums of whole characters, so
   every span lies on character boundaries. *)
Theorem C05_tiles_consequences : forall t : text,
  let items := lex_items (preprocess t) in
  List.concat (map item_text items) = preprocess t /\
  adjacent 0 items /\
  end_of 0 items = blen (preprocess t).
Proof.
  intro t. cbv zeta. pose proof (lex_items_tile (preprocess t)) as H. repeat split.
  - exact (tiles_concat _ _ _ _ H).
  - exact (tiles_adjacent _ _ _ _ H).
  - exact (tiles_end _ _ _ _ H).
Qed.

(* line = number of line feeds before the span start; column = bytes after the last of them *)
Theorem C05_linecol : forall t : text, positioned [] (lex_items (preprocess t)).
Proof. intro t. exact (lex_items_positioned (preprocess t)). Qed.

Theorem C05_linecol_meaning : forall pre : text,
  line_col_of pre = (count_lf pre, blen (after_last_lf pre)).
Proof. intro pre. reflexivity. Qed.

(* the preprocessor (OSCAT description blanking) keeps every byte offset and every line break *)
Theorem C05_preprocess_keeps_offsets : forall t : text,
  blen (preprocess t) = blen t /\ forall lc, advance (preprocess t) lc = advance t lc.
Proof. exact preprocess_keeps_offsets. Qed.

Theorem C05_preprocess_shape : forall t : text,
  preprocess t = t \/
  exists a m b, t = a ++ m ++ b /\ preprocess t = a ++ flat_map blank_char m ++ b /\
    (forall m1 m2, m = m1 ++ m2 ->
       blen (a ++ flat_map blank_char m1) = blen (a ++ m1) /\
       advance (a ++ flat_map blank_char m1) (0, 0) = advance (a ++ m1) (0, 0)).
Proof. exact preprocess_prefix_positions. Qed.

(* the ';' inserted after END_IF has empty text and copies the position of the token it precedes;
   removing the inserted tokens gives back exactly the lexer's tokens *)
Theorem C05_synthetic_semicolon : forall t : text,
  let toks := tokens_of (lex_items (preprocess t)) in
  synth_ok (insert_terminators toks) /\
  filter (fun tk => negb (synthetic tk)) (insert_terminators toks) = toks.
Proof.
  intro t. cbv zeta.
  pose proof (tiles_tokens_nonempty _ _ _ _ (lex_items_tile (preprocess t))) as H. split.
  - exact (insert_terminators_synth_ok _ false H).
  - exact (insert_terminators_erase _ false H).
Qed.

(* tie to token.rs: every regular expression there is one the model implements *)
Theorem C05_gen_regexes_known : regexes_known = true.
Proof. exact gen_regexes_known. Qed.

(* tie to preprocessor.rs / lib.rs: no other step touches the text before it is tokenized *)
Theorem C05_gen_pipeline :
  Gen.GenPipeline.preprocess_steps = ["remove_oscat_comment"%string] /\
  Gen.GenPipeline.tokenize_program_steps = ["preprocess"; "tokenize"; "insert_keyword_statement_terminators"]%string.
Proof. exact gen_pipeline_steps. Qed.

(* non-vacuity: a text with a comment, an OSCAT block holding a two-byte character, an error
   and END_IF without ';' -- the model yields 5 tokens after the comment on line 0 *)
Example C05_example :
  let t := text_of_string "(* c *) x ?"%string in
  map (fun i => (item_start i, item_lc i)) (lex_items (preprocess t))
  = [(0, (0, 0)); (7, (0, 7)); (8, (0, 8)); (9, (0, 9)); (10, (0, 10))].
Proof. vm_compute. reflexivity. Qed.

(* the labels of the rules on type declarations (Model/DeclRules.v; compared label by label with the analyzer's on every run).
   P0003: the primary label is the structure's name; "First use of name" is the identifier of the FIRST element of that name --
   no element before it has the name --, "Second use of name" the identifier of a later element of the same name. *)
Theorem C05_struct_labels : forall fs d, In d (DeclRules.rule_struct_unique fs) ->
  exists nm a f b x c, In (DeclRules.TyStruct nm (a ++ f :: b ++ x :: c)) fs /\ DeclRules.ikey f = DeclRules.ikey x /\
    (forall y, In y a -> DeclRules.ikey y <> DeclRules.ikey x) /\
    DeclRules.ld_code d = GenRules.P_StructureDuplicatedElement /\ DeclRules.ld_primary d = nm /\
    DeclRules.ld_secondary d = [DeclRules.i_id f; DeclRules.i_id x].
Proof. exact DeclRulesProofs.struct_labels. Qed.

(* P0005: "First instance" is the first value of that name, "Duplicate value" a later one *)
Theorem C05_enum_labels : forall fs d, In d (DeclRules.rule_enum_unique fs) ->
  exists a f b x c, In (DeclRules.TyEnum (a ++ f :: b ++ x :: c)) fs /\ DeclRules.ikey f = DeclRules.ikey x /\
    (forall y, In y a -> DeclRules.ikey y <> DeclRules.ikey x) /\
    DeclRules.ld_code d = GenRules.P_EnumTypeDeclDuplicateItem /\ DeclRules.ld_primary d = DeclRules.i_id f /\
    DeclRules.ld_secondary d = [DeclRules.i_node x].
Proof. exact DeclRulesProofs.enum_labels. Qed.

(* P0004: "Expected smaller value" is the minimum, "Expected greater value" the maximum of a subrange whose minimum is not below
   its maximum *)
Theorem C05_subrange_labels : forall fs d, In d (DeclRules.rule_subrange_limits fs) ->
  exists lo hi ls hs, In (DeclRules.TySub lo hi ls hs) fs /\ (ZArith.BinInt.Z.le (AnalyzerProofs.sval hi) (AnalyzerProofs.sval lo)) /\
    DeclRules.ld_code d = GenRules.P_SubrangeMinStrictlyLessMax /\ DeclRules.ld_primary d = ls /\ DeclRules.ld_secondary d = [hs].
Proof. exact DeclRulesProofs.sub_labels. Qed.

(* the models of these three rules are the source's: the tables regenerated from the rule files on every run (set operations of
   the scans, what each label is put on, the arms of the subrange comparison) are the ones the models were read off *)
Theorem C05_declaration_rule_models_are_the_source :
  GenDeclRules.gen_struct_scan = (["get"; "insert"]%string, "name"%string, "StructureDuplicatedElement"%string,
                     DeclRulesGen.place_name "name"%string (fst DeclRulesGen.struct_places), map (DeclRulesGen.place_name "name"%string) (snd DeclRulesGen.struct_places)) /\
  GenDeclRules.gen_enum_scan = (["get"; "insert"]%string, "value"%string, "EnumTypeDeclDuplicateItem"%string,
                   DeclRulesGen.place_name "value"%string (fst DeclRulesGen.enum_places), map (DeclRulesGen.place_name "value"%string) (snd DeclRulesGen.enum_places)) /\
  GenDeclRules.gen_sub_signed = "v.is_neg && v.value.value != 0, v.value.value"%string /\
  GenDeclRules.gen_sub_arms = DeclRulesGen.model_sub_arms /\
  GenDeclRules.gen_sub_labels = ("SubrangeMinStrictlyLessMax"%string, "node.start.value"%string, ["node.end.value"]%string).
Proof. exact DeclRulesGen.model_is_the_source. Qed.
