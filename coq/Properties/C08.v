(* C08 -- Letter case, layout and comments never change what a program means.
   Statements only; proofs are in Proofs/RespellProofs.v, Proofs/LexerTile.v.  The invariance of the whole
   parsed library under respelling is a theorem only on the scope of C01's parser proof; what is proved
   here are the mechanisms the property rests on, for every input. *)
From Coq Require Import List NArith Bool.
From Verif Require Import Base.Text Gen.GenTokens Model.Lexer Proofs.LexerTile Proofs.RespellProofs.
Import ListNotations.

(* every token of token.rs whose spelling contains a letter is matched case-insensitively (table regenerated each run) *)
Theorem C08_keywords_case_insensitive : keywords_ci = true.
Proof. exact gen_keywords_ci. Qed.

(* a case-insensitive literal matches every re-casing of its spelling *)
Theorem C08_recased_keyword_matches : forall p q rest, map lower q = map lower p -> prefix_ci p (q ++ rest) = true.
Proof. exact prefix_ci_recased. Qed.

(* after the terminator insertion every END_IF is followed -- across comments and blanks -- by a ';' (or by
   the end of the input), whether or not one was written: the ';' after END_IF is optional *)
Theorem C08_endif_semicolon_optional : forall ts, endifs_terminated (insert_terminators ts).
Proof. exact endif_semicolon_optional. Qed.

(* ... and the insertion changes nothing else: removing the inserted tokens gives back the input *)
Theorem C08_insertion_only_adds : forall ts b, Forall (fun tk => t_text tk <> []) ts ->
  filter (fun tk => negb (synthetic tk)) (insert_terminators_from b ts) = ts.
Proof. intros ts b H. exact (insert_terminators_erase ts b H). Qed.
