(* C08 -- Letter case, layout and comments never change what a program means.
   Statements only; proofs are in Proofs/RespellProofs.v, Proofs/LexerTile.v.  The invariance of the whole
   parsed library under respelling is a theorem only on the scope of C01's parser proof; what is proved
   here are the mechanisms the property rests on, for every input. *)
From Coq Require Import List NArith Bool.
From Verif Require Import Base.Res Base.Text Gen.GenTokens Model.Lexer Model.ExprParser Proofs.LexerTile Proofs.RespellProofs Proofs.ExprParserProofs Proofs.ExprInstance.
From Verif Require Model.StParser Model.DeclParser Model.StInstance Proofs.StExprProofs Proofs.StStmtProofs Proofs.StInstanceProofs Proofs.DeclProofs Proofs.TypeProofs Proofs.DeclInstanceProofs Proofs.LibProofs.
Import ListNotations.

(* every token of token.rs whose spelling contains a letter is matched case-insensitively (table regenerated each run) *)
Theorem C08_keywords_case_insensitive : keywords_ci = true.
Proof. exact gen_keywords_ci. Qed.

(* a case-insensitive literal matches every re-casing of its spelling *)
Theorem C08_recased_keyword_matches : forall p q rest, map lower q = map lower p -> prefix_ci p (q ++ rest) = true.
Proof. exact prefix_ci_recased. Qed.

(* after the terminator insertion every END_IF is followed -- across comments and blanks -- by a ';' (or by
   the end of the input), whether or not one was written: the ';' after END_IF is optional *)
Theorem C08_endif_semicolon_optional : forall ts, endifs_terminated (insert_terminators ts).
Proof. exact endif_semicolon_optional. Qed.

(* ... and the insertion changes nothing else: removing the inserted tokens gives back the input *)
Theorem C08_insertion_only_adds : forall ts b, Forall (fun tk => t_text tk <> []) ts ->
  filter (fun tk => negb (synthetic tk)) (insert_terminators_from b ts) = ts.
Proof. intros ts b H. exact (insert_terminators_erase ts b H). Qed.

Close Scope N_scope.
Open Scope nat_scope.

(* on the scope of the parser theorem: two well-formed spellings with the same meaning -- differing in the case
   of keyword letters, in trivia at any slot, in redundant parentheses -- parse to the same tree *)
Theorem C08_expression_respelling : forall (s1 s2 : sp token binop unop leaf) q rest1 rest2,
  wf token binop unop leaf tok_triv tok_bop tok_uop tok_atom tok_lp tok_rp tok_noafter q s1 ->
  wf token binop unop leaf tok_triv tok_bop tok_uop tok_atom tok_lp tok_rp tok_noafter q s2 ->
  follow_lt token binop tok_triv tok_bop q rest1 -> follow_lt token binop tok_triv tok_bop q rest2 ->
  follow_ok token binop unop leaf tok_triv tok_noafter s1 rest1 -> follow_ok token binop unop leaf tok_triv tok_noafter s2 rest2 ->
  erase token binop unop leaf s1 = erase token binop unop leaf s2 ->
  exists f0, forall f, f0 <= f ->
    exists r1 r2, parse_expr f q (flat token binop unop leaf s1 ++ rest1) = Ok (erase token binop unop leaf s1, r1)
               /\ parse_expr f q (flat token binop unop leaf s2 ++ rest2) = Ok (erase token binop unop leaf s1, r2).
Proof. intros s1 s2 q rest1 rest2. unfold parse_expr. apply respelling_invariant. Qed.

(* statements: two spellings of the same statement list (letter case of keywords and identifiers is below the token
   classes; trivia, redundant parentheses, '+' signs are what the erasure forgets) are read as the same list *)
Theorem C08_statement_respelling :
  forall w00 fb w0 nm w1 (l : StStmtProofs.sl token) w2 en w3 w00' fb' w0' nm' w1' (l' : StStmtProofs.sl token) w2' en' w3',
  StExprProofs.all_triv token StInstance.tok_class w00 -> t_kind fb = KFunctionBlock ->
  StExprProofs.all_triv token StInstance.tok_class w0 -> t_kind nm = KIdentifier ->
  StExprProofs.all_triv token StInstance.tok_class w1 ->
  StStmtProofs.wf_l token StInstance.tok_class t_text StInstance.tok_num StInstance.op_level true l ->
  StExprProofs.all_triv token StInstance.tok_class w2 -> t_kind en = KEndFunctionBlock ->
  StExprProofs.all_triv token StInstance.tok_class w3 ->
  (StStmtProofs.absorbs token l = true -> w2 = []) ->
  StExprProofs.all_triv token StInstance.tok_class w00' -> t_kind fb' = KFunctionBlock ->
  StExprProofs.all_triv token StInstance.tok_class w0' -> t_kind nm' = KIdentifier ->
  StExprProofs.all_triv token StInstance.tok_class w1' ->
  StStmtProofs.wf_l token StInstance.tok_class t_text StInstance.tok_num StInstance.op_level true l' ->
  StExprProofs.all_triv token StInstance.tok_class w2' -> t_kind en' = KEndFunctionBlock ->
  StExprProofs.all_triv token StInstance.tok_class w3' ->
  (StStmtProofs.absorbs token l' = true -> w2' = []) ->
  StStmtProofs.erase_l token t_text StInstance.tok_num l = StStmtProofs.erase_l token t_text StInstance.tok_num l' ->
  StInstance.parse_fb_tokens (w00 ++ fb :: w0 ++ nm :: w1 ++ StStmtProofs.flat_l token l ++ w2 ++ en :: w3) =
  StInstance.parse_fb_tokens (w00' ++ fb' :: w0' ++ nm' :: w1' ++ StStmtProofs.flat_l token l' ++ w2' ++ en' :: w3').
Proof. exact StInstanceProofs.parse_fb_respelled. Qed.

(* two well-formed spellings of a function block with the same declarations and the same statements -- any trivia at any
   slot, redundant parentheses; keyword and identifier case lie below the token classes -- are read alike *)
Theorem C08_declaration_respelling : forall w00 fb w0 nm (bl : list (DeclProofs.swb token)) w1 (l : StStmtProofs.sl token) w2 en w3
    w00' fb' w0' nm' (bl' : list (DeclProofs.swb token)) w1' (l' : StStmtProofs.sl token) w2' en' w3',
  StExprProofs.all_triv token StInstance.tok_class w00 -> t_kind fb = KFunctionBlock ->
  StExprProofs.all_triv token StInstance.tok_class w0 -> t_kind nm = KIdentifier ->
  Forall (DeclProofs.wf_wb token StInstance.tok_class t_text StInstance.tok_num) bl ->
  StExprProofs.all_triv token StInstance.tok_class w1 ->
  StStmtProofs.wf_l token StInstance.tok_class t_text StInstance.tok_num StInstance.op_level true l ->
  StExprProofs.all_triv token StInstance.tok_class w2 -> t_kind en = KEndFunctionBlock ->
  StExprProofs.all_triv token StInstance.tok_class w3 ->
  (StStmtProofs.absorbs token l = true -> w2 = []) ->
  StExprProofs.all_triv token StInstance.tok_class w00' -> t_kind fb' = KFunctionBlock ->
  StExprProofs.all_triv token StInstance.tok_class w0' -> t_kind nm' = KIdentifier ->
  Forall (DeclProofs.wf_wb token StInstance.tok_class t_text StInstance.tok_num) bl' ->
  StExprProofs.all_triv token StInstance.tok_class w1' ->
  StStmtProofs.wf_l token StInstance.tok_class t_text StInstance.tok_num StInstance.op_level true l' ->
  StExprProofs.all_triv token StInstance.tok_class w2' -> t_kind en' = KEndFunctionBlock ->
  StExprProofs.all_triv token StInstance.tok_class w3' ->
  (StStmtProofs.absorbs token l' = true -> w2' = []) ->
  flat_map (DeclProofs.erase_wb token StInstance.tok_class t_text StInstance.tok_num StInstance.ty_name) bl =
  flat_map (DeclProofs.erase_wb token StInstance.tok_class t_text StInstance.tok_num StInstance.ty_name) bl' ->
  StStmtProofs.erase_l token t_text StInstance.tok_num l = StStmtProofs.erase_l token t_text StInstance.tok_num l' ->
  StInstance.parse_fbd_tokens (w00 ++ fb :: w0 ++ nm :: DeclProofs.flat_wbs token bl ++ w1 ++ StStmtProofs.flat_l token l ++ w2 ++ en :: w3) =
  StInstance.parse_fbd_tokens (w00' ++ fb' :: w0' ++ nm' :: DeclProofs.flat_wbs token bl' ++ w1' ++ StStmtProofs.flat_l token l' ++ w2' ++ en' :: w3').
Proof. exact DeclInstanceProofs.parse_fbd_respelled. Qed.

(* two well-formed spellings of a library with the same units are read alike *)
Theorem C08_library_respelling : forall (l l' : list LibProofs.swu) wend wend',
  Forall LibProofs.wf_wu l -> StExprProofs.all_triv token StInstance.tok_class wend ->
  Forall LibProofs.wf_wu l' -> StExprProofs.all_triv token StInstance.tok_class wend' ->
  map LibProofs.erase_wu l = map LibProofs.erase_wu l' ->
  StInstance.parse_lib_tokens (LibProofs.flat_lib l ++ wend) = StInstance.parse_lib_tokens (LibProofs.flat_lib l' ++ wend').
Proof. exact LibProofs.parse_lib_respelled. Qed.

(* two well-formed spellings of a library with TYPE blocks that denote the same elements are read alike *)
Theorem C08_types_respelling : forall (l l' : list LibProofs.swe) wend wend',
  Forall LibProofs.wf_we l -> StExprProofs.all_triv token StInstance.tok_class wend ->
  Forall LibProofs.wf_we l' -> StExprProofs.all_triv token StInstance.tok_class wend' ->
  map LibProofs.erase_we l = map LibProofs.erase_we l' ->
  StInstance.parse_lib2_tokens (LibProofs.flat_lib2 l ++ wend) = StInstance.parse_lib2_tokens (LibProofs.flat_lib2 l' ++ wend').
Proof. exact LibProofs.parse_lib2_respelled. Qed.
