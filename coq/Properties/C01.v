(* C01 -- Parsing is faithful.  Statements only.  (Stage A: the table obligations; the parser-model
   theorems are added in Proofs/ExprParser.v as Stage B.) *)
From Coq Require Import List NArith Bool String.
From Verif Require Import Gen.GenPrec.
Import ListNotations.
Local Open Scope string_scope.

(* the precedence! block of parser.rs: lowest level first; every operator left-associative
   ((@) on the left, @ on the right); token, constructor, operator *)
Definition annex_b_table : list (list (string * string * string * string)) :=
  [ [("Or", "compare", "Or", "left")];
    [("Xor", "compare", "Xor", "left")];
    [("And", "compare", "And", "left")];
    [("Equal", "compare", "Eq", "left"); ("NotEqual", "compare", "Ne", "left")];
    [("Less", "compare", "Lt", "left"); ("Greater", "compare", "Gt", "left"); ("LessEqual", "compare", "LtEq", "left");
     ("GreaterEqual", "compare", "GtEq", "left")];
    [("Plus", "binary", "Add", "left"); ("Minus", "binary", "Sub", "left")];
    [("Star", "binary", "Mul", "left"); ("Div", "binary", "Div", "left"); ("Mod", "binary", "Mod", "left")];
    [("Power", "binary", "Pow", "left")] ].

Theorem C01_prec_table : prec_table = annex_b_table.
Proof. reflexivity. Qed.

(* the atoms after the last operator level, in order *)
Theorem C01_prec_atoms : prec_atoms = ["unary_expression"; "constant"; "variable"; "paren"; "function_expression"].
Proof. reflexivity. Qed.
