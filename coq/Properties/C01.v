(* C01 -- Parsing is faithful.  Statements only; proofs are in Proofs/ExprParserProofs.v and
   Proofs/ExprInstance.v.  The table obligations tie the theorem to today's parser.rs; the parser theorem
   covers expressions (all operators, unary operators, parentheses, identifiers, integer constants, any
   trivia); declarations and statements are decided by the search (see tools/props/C01.py). *)
From Coq Require Import List NArith Bool String Arith.
From Verif Require Import Base.Res Gen.GenTokens Gen.GenPrec Model.Lexer Model.ExprParser Proofs.ExprParserProofs Proofs.ExprInstance.
From Verif Require Model.StParser Model.DeclParser Model.StInstance Proofs.StExprProofs Proofs.StStmtProofs Proofs.StInstanceProofs Proofs.DeclProofs Proofs.TypeProofs Proofs.DeclInstanceProofs Proofs.LibProofs Proofs.LexSpell Proofs.TextRoundTrip Proofs.ChainDepth Proofs.ChainInstance.
Import ListNotations.
Local Open Scope string_scope.

(* the precedence! block of parser.rs: lowest level first; every operator left-associative
   ((@) on the left, @ on the right); token, constructor, operator *)
Definition annex_b_table : list (list (string * string * string * string)) :=
  [ [("Or", "compare", "Or", "left")];
    [("Xor", "compare", "Xor", "left")];
    [("And", "compare", "And", "left")];
    [("Equal", "compare", "Eq", "left"); ("NotEqual", "compare", "Ne", "left")];
    [("Less", "compare", "Lt", "left"); ("Greater", "compare", "Gt", "left"); ("LessEqual", "compare", "LtEq", "left");
     ("GreaterEqual", "compare", "GtEq", "left")];
    [("Plus", "binary", "Add", "left"); ("Minus", "binary", "Sub", "left")];
    [("Star", "binary", "Mul", "left"); ("Div", "binary", "Div", "left"); ("Mod", "binary", "Mod", "left")];
    [("Power", "binary", "Pow", "left")] ].

Theorem C01_prec_table : prec_table = annex_b_table.
Proof. reflexivity. Qed.

(* the atoms after the last operator level, in order *)
Theorem C01_prec_atoms : prec_atoms = ["unary_expression"; "constant"; "variable"; "paren"; "function_expression"].
Proof. reflexivity. Qed.

Close Scope string_scope.
Close Scope N_scope.
Open Scope nat_scope.

(* The expression parser returns the meaning of every well-formed spelling and consumes exactly it: whatever the
   trivia, the redundant parentheses and the size of the expression.  [wf q s] says the spelling has parentheses
   wherever IEC 61131-3 B.3.1 needs them at level q (so the tree [erase s] associates to the left within a level
   and binds tighter at higher levels -- the table of C01_prec_table); [follow_*] say what may come next. *)
Theorem C01_expression_faithful : forall (s : sp token binop unop leaf) q rest,
  wf token binop unop leaf tok_triv tok_bop tok_uop tok_atom tok_lp tok_rp tok_noafter q s ->
  follow_lt token binop tok_triv tok_bop q rest ->
  follow_ok token binop unop leaf tok_triv tok_noafter s rest ->
  exists f0, forall f, f0 <= f ->
    parse_expr f q (flat token binop unop leaf s ++ rest) = Ok (erase token binop unop leaf s, rest).
Proof. exact parse_expr_spelled. Qed.

(* the operator tokens really are at the levels the table says, with the operators it says *)
Theorem C01_operator_levels : forall k lv o t, In (k, lv, o) op_kinds -> t_kind t = k ->
  tok_bop t = Some (lv, o) /\ tok_triv t = false /\ tok_noafter t = false.
Proof. exact op_kind_ok. Qed.

(* Statements (B.3.2) and expressions with calls (B.3.1), model of Model/StParser.v on the real tokens: every well-formed
   spelling of a statement list -- assignments, function-block calls with positional / named / output parameters,
   IF / ELSIF / ELSE, CASE (integer, subrange and name selectors, ELSE), FOR with or without BY, WHILE, REPEAT, EXIT, RETURN, empty statements, nested to any depth, expressions over all
   operators with calls, signed constants and parentheses, any trivia at any slot -- is parsed to exactly the list it
   denotes, leaving exactly the rest.  The fuel bound is the size of the spelled tree. *)
Theorem C01_statements_faithful : forall (l : StStmtProofs.sl token) rest L,
  StStmtProofs.wf_l token StInstance.tok_class t_text StInstance.tok_num StInstance.op_level true l ->
  StStmtProofs.closer_next token StInstance.tok_class rest ->
  (StStmtProofs.absorbs token l = true -> StInstance.st_skip rest = rest) -> StStmtProofs.size_l token l <= L ->
  StParser.plist token StInstance.tok_class t_text StInstance.tok_num StInstance.op_level L (StStmtProofs.flat_l token l ++ rest)
  = Ok (StStmtProofs.erase_l token t_text StInstance.tok_num l, rest).
Proof. exact StInstanceProofs.plist_real. Qed.

(* end to end for the entry point that the correspondence check compares with parse_program: the body of
   FUNCTION_BLOCK name ... END_FUNCTION_BLOCK, with the fuel the entry point supplies *)
Theorem C01_function_block_body : forall w00 fb w0 nm w1 (l : StStmtProofs.sl token) w2 en w3,
  StExprProofs.all_triv token StInstance.tok_class w00 -> t_kind fb = KFunctionBlock ->
  StExprProofs.all_triv token StInstance.tok_class w0 -> t_kind nm = KIdentifier ->
  StExprProofs.all_triv token StInstance.tok_class w1 ->
  StStmtProofs.wf_l token StInstance.tok_class t_text StInstance.tok_num StInstance.op_level true l ->
  StExprProofs.all_triv token StInstance.tok_class w2 -> t_kind en = KEndFunctionBlock ->
  StExprProofs.all_triv token StInstance.tok_class w3 ->
  (StStmtProofs.absorbs token l = true -> w2 = []) ->
  StInstance.parse_fb_tokens (w00 ++ fb :: w0 ++ nm :: w1 ++ StStmtProofs.flat_l token l ++ w2 ++ en :: w3)
  = StInstance.OParsed (StStmtProofs.erase_l token t_text StInstance.tok_num l).
Proof. exact StInstanceProofs.parse_fb_spelled. Qed.

Theorem C01_statement_operator_levels :
  map StInstance.op_level [BOr; BXor; BAnd; BEq; BNe; BLt; BGt; BLe; BGe; BAdd; BSub; BMul; BDiv; BMod; BPow] =
  [0; 1; 2; 3; 3; 4; 4; 4; 4; 5; 5; 6; 6; 6; 7].
Proof. exact StInstanceProofs.op_levels_table. Qed.

(* Variable declaration blocks (B.1.4.3), model of Model/DeclParser.v on the real tokens: every well-formed spelling of
   FUNCTION_BLOCK name, any number of VAR_INPUT / VAR_OUTPUT / VAR_IN_OUT / VAR_EXTERNAL / VAR blocks (with their RETAIN /
   NON_RETAIN / CONSTANT qualifiers, name lists, elementary or named types, constant and enumerated initial values,
   edge-detecting inputs, empty blocks), a statement list and END_FUNCTION_BLOCK -- any trivia at any slot -- is parsed to
   exactly the declarations, in order, with the class and qualifier of their block, and the statements it denotes. *)
Theorem C01_declarations_faithful : forall w00 fb w0 nm (bl : list (DeclProofs.swb token)) w1 (l : StStmtProofs.sl token) w2 en w3,
  StExprProofs.all_triv token StInstance.tok_class w00 -> t_kind fb = KFunctionBlock ->
  StExprProofs.all_triv token StInstance.tok_class w0 -> t_kind nm = KIdentifier ->
  Forall (DeclProofs.wf_wb token StInstance.tok_class t_text StInstance.tok_num) bl ->
  StExprProofs.all_triv token StInstance.tok_class w1 ->
  StStmtProofs.wf_l token StInstance.tok_class t_text StInstance.tok_num StInstance.op_level true l ->
  StExprProofs.all_triv token StInstance.tok_class w2 -> t_kind en = KEndFunctionBlock ->
  StExprProofs.all_triv token StInstance.tok_class w3 ->
  (StStmtProofs.absorbs token l = true -> w2 = []) ->
  StInstance.parse_fbd_tokens (w00 ++ fb :: w0 ++ nm :: DeclProofs.flat_wbs token bl ++ w1 ++ StStmtProofs.flat_l token l ++ w2 ++ en :: w3)
  = StInstance.O2Parsed (flat_map (DeclProofs.erase_wb token StInstance.tok_class t_text StInstance.tok_num StInstance.ty_name) bl)
                        (StStmtProofs.erase_l token t_text StInstance.tok_num l).
Proof. exact DeclInstanceProofs.parse_fbd_spelled. Qed.

(* the sequence of blocks alone, with an explicit fuel bound *)
Theorem C01_declaration_blocks : forall (l : list (DeclProofs.swb token)), Forall (DeclProofs.wf_wb token StInstance.tok_class t_text StInstance.tok_num) l ->
  forall acc rest f, DeclProofs.no_block_next token StInstance.tok_class rest -> (DeclProofs.size_wbs token l + 1 <= f)%nat ->
  DeclParser.blocks token StInstance.tok_class t_text StInstance.tok_num StInstance.ty_name f acc (DeclProofs.flat_wbs token l ++ rest) =
  DeclParser.DOk (acc ++ flat_map (DeclProofs.erase_wb token StInstance.tok_class t_text StInstance.tok_num StInstance.ty_name) l, rest).
Proof. exact (DeclProofs.blocks_spelled token StInstance.tok_class t_text StInstance.tok_num StInstance.ty_name). Qed.

(* A library: any number of function blocks and programs, each with its declaration blocks and statements (or none), any
   trivia between and around them -- the entry point returns exactly the units the text denotes, in source order: kind,
   name, declarations, statements.  (The parser itself drops the edge-detecting inputs of a PROGRAM: the recorded finding
   program-edge-inputs-dropped; the model keeps them.) *)
Theorem C01_library_faithful : forall (l : list LibProofs.swu) wend,
  Forall LibProofs.wf_wu l -> StExprProofs.all_triv token StInstance.tok_class wend ->
  StInstance.parse_lib_tokens (LibProofs.flat_lib l ++ wend) = StInstance.O3Parsed (map LibProofs.erase_wu l).
Proof. exact LibProofs.parse_lib_spelled. Qed.

Theorem C01_unit_faithful : forall u rest F, LibProofs.wf_u u -> (LibProofs.size_u u + 1 <= F)%nat ->
  StInstance.parse_unit F (LibProofs.flat_u u ++ rest) = StInstance.UOk (LibProofs.erase_u u) rest.
Proof. exact LibProofs.parse_unit_spelled. Qed.

(* A library that mixes TYPE blocks with function blocks and programs.  A TYPE block declares arrays (with any number of
   subranges, of an elementary or a named type), subranges of an integer type (with or without a default), enumerations
   given by their values (with or without a default), enumerations of another enumeration with a default, elementary types
   with a constant default, and names bound later to another type; the entry point returns every declaration with its name,
   bounds (sign and magnitude), values and defaults, in source order, interleaved with the units exactly as written. *)
Theorem C01_types_faithful : forall (l : list LibProofs.swe) wend,
  Forall LibProofs.wf_we l -> StExprProofs.all_triv token StInstance.tok_class wend ->
  StInstance.parse_lib2_tokens (LibProofs.flat_lib2 l ++ wend) = StInstance.O4Parsed (map LibProofs.erase_we l).
Proof. exact LibProofs.parse_lib2_spelled. Qed.

(* one TYPE block, at any fuel that covers its size, whatever follows it *)
Theorem C01_type_block_faithful : forall b rest F,
  TypeProofs.wf_tb token StInstance.tok_class t_text StInstance.tok_num StInstance.is_int_ty b -> (TypeProofs.size_tb token b <= F)%nat ->
  DeclParser.type_block token StInstance.tok_class t_text StInstance.tok_num StInstance.ty_name StInstance.is_int_ty F
    (TypeProofs.flat_tb token b ++ rest) =
  DeclParser.DOk (TypeProofs.erase_tb token StInstance.tok_class t_text StInstance.tok_num StInstance.ty_name b, rest).
Proof. exact (TypeProofs.type_block_at token StInstance.tok_class t_text StInstance.tok_num StInstance.ty_name StInstance.is_int_ty). Qed.

(* A FUNCTION: name, return type (an elementary type or a name), declaration blocks (inputs with edge inputs, outputs,
   in-outs; VAR [CONSTANT] with at least one declaration), a statement list (required), END_FUNCTION -- at any fuel that
   covers its size, whatever follows.  Functions take part in [C01_types_faithful] as a third kind of element. *)
Theorem C01_function_faithful : forall f rest F, LibProofs.wf_f f -> (LibProofs.size_f f + 1 <= F)%nat ->
  StInstance.parse_function F (LibProofs.flat_f f ++ rest) = StInstance.FOk (LibProofs.erase_f f) rest.
Proof. exact LibProofs.parse_function_spelled. Qed.

(* ---- at the level of texts (Proofs/LexSpell.v, Proofs/TextRoundTrip.v) ---- *)
(* the TEXT of any well-formed spelling of a function block -- blanks, tabs, line breaks (LF, CR LF), block comments, any letter
   case, redundant parentheses, empty statements -- that passes the decidable check [text_ok] (every token carries its text and
   no position; what follows each token in the text cannot extend it; no OSCAT markers) and holds no END_IF is parsed, by
   lexer model and parser model composed, to the statements it denotes *)
Theorem C01_spelled_text_is_faithful : forall w00 fb w0 nm w1 (l : StStmtProofs.sl token) w2 en w3,
  StExprProofs.all_triv token StInstance.tok_class w00 -> t_kind fb = KFunctionBlock ->
  StExprProofs.all_triv token StInstance.tok_class w0 -> t_kind nm = KIdentifier ->
  StExprProofs.all_triv token StInstance.tok_class w1 ->
  StStmtProofs.wf_l token StInstance.tok_class t_text StInstance.tok_num StInstance.op_level true l ->
  StExprProofs.all_triv token StInstance.tok_class w2 -> t_kind en = KEndFunctionBlock ->
  StExprProofs.all_triv token StInstance.tok_class w3 ->
  (StStmtProofs.absorbs token l = true -> w2 = []) ->
  let u := w00 ++ fb :: w0 ++ nm :: w1 ++ StStmtProofs.flat_l token l ++ w2 ++ en :: w3 in
  TextRoundTrip.text_ok u = true -> forallb (fun t => negb (Lexer.kind_eqb (t_kind t) KEndIf)) u = true ->
  StInstance.parse_fb_text (LexSpell.spell_all u) = StInstance.OParsed (StStmtProofs.erase_l token t_text StInstance.tok_num l).
Proof. exact TextRoundTrip.spelled_text_is_faithful. Qed.

(* non-vacuity of the check: a text in lower case with a block comment that holds "( *", CR LF, tabs and glued tokens passes it *)
Example C01_text_check_example :
  let u := map Lexer.norm_tok (Lexer.tokens_of (Lexer.lex_items TextRoundTrip.odd_text)) in
  TextRoundTrip.text_ok u = true /\ LexSpell.spell_all u = TextRoundTrip.odd_text /\
  match StInstance.parse_fb_text TextRoundTrip.odd_text with StInstance.OParsed l => List.length l = 2%nat | _ => False end.
Proof. exact TextRoundTrip.odd_text_passes. Qed.

(* Left-associativity, for chains of ANY length: x o x o ... o x with n operators of one level (any binary operator of the
   regenerated table, x an integer constant) is read as the tree that leans to the left, ((x o x) o x) o ... -- Annex B.3.1.
   (A corollary of C01_expression_faithful, said for the shape users write most.) *)
Theorem C01_chain_associates_left : forall k lv o (t x : token) n rest,
  In (k, lv, o) op_kinds -> t_kind t = k -> t_kind x = KDigits ->
  follow_lt token binop tok_triv tok_bop lv rest ->
  exists f0, forall f, f0 <= f ->
    parse_expr f lv (flat token binop unop leaf (ChainDepth.chain token binop unop leaf t lv o x (LInt (t_text x)) n) ++ rest)
    = Ok (ChainDepth.left_tree binop unop leaf o (LInt (t_text x)) n, rest).
Proof. exact ChainInstance.chain_associates_left. Qed.
