(* C09 -- Literals are read as the value IEC 61131-3 assigns them, or rejected.
   Statements only; proofs are in Proofs/LitProofs.v.  Quantification is over every digit string,
   every placement of underscores, every field value. *)
From Coq Require Import List NArith Bool.
From Verif Require Import Base.Text Model.Literals Proofs.LitProofs.
Import ListNotations.
Open Scope N_scope.

(* Decimal integers: for every non-empty digit string written with underscores anywhere, the result
   is the mathematical value when it is below 2^128 and a failure otherwise -- never a wrapped value. *)
Theorem C09_integer : forall ds tx, spelled ds tx -> ds <> [] ->
  integer_new tx = if horner 10 ds <? two128 then Some (horner 10 ds) else None.
Proof. exact integer_new_spec. Qed.

(* Based integers 16#, 8#, 2#: the same, for the digits of the base *)
Theorem C09_hex : forall ds tx, spelled_in is_hexdigit ds tx -> ds <> [] ->
  try_hex ([49; 54; 35] ++ tx) = if horner 16 ds <? two128 then Some (horner 16 ds) else None.
Proof. exact try_hex_spec. Qed.
Theorem C09_octal : forall ds tx, spelled_in is_octdigit ds tx -> ds <> [] ->
  try_octal ([56; 35] ++ tx) = if horner 8 ds <? two128 then Some (horner 8 ds) else None.
Proof. exact try_octal_spec. Qed.
Theorem C09_binary : forall ds tx, spelled_in is_bindigit ds tx -> ds <> [] ->
  try_binary ([50; 35] ++ tx) = if horner 2 ds <? two128 then Some (horner 2 ds) else None.
Proof. exact try_binary_spec. Qed.

(* the checked fold itself, any base and width *)
Theorem C09_parse_radix : forall bound base ds, 1 <= base -> 0 < bound -> ds <> [] ->
  parse_radix bound base ds = if horner base ds <? bound then Some (horner base ds) else None.
Proof. exact parse_radix_spec. Qed.

(* Fixed point "w.d": whole part below 2^64 and at most 15 fractional digits are read exactly
   (fraction in units of 10^-15); anything else is rejected, never rounded or wrapped *)
Theorem C09_fixed : forall w d, Forall (fun x => x < 10) w -> Forall (fun x => x < 10) d -> w <> [] ->
  fixed_parse (digits_text w ++ 46 :: digits_text d) =
  if Nat.ltb 15 (List.length d) then None
  else if horner 10 w <? two64 then Some (horner 10 w, horner 10 d * 10 ^ N.of_nat (15 - List.length d))
  else None.
Proof. exact fixed_parse_spec. Qed.

(* Durations: a component of (w + f/10^15) units is its exact value in nanoseconds (rounded down to a
   whole nanosecond), or a failure when the whole seconds do not fit in 63 bits *)
Theorem C09_duration_component : forall w f npu,
  try_from_units (w, f) npu =
  if exact_nanos w f npu / ten9 <? two63
  then Some (exact_nanos w f npu / ten9, exact_nanos w f npu mod ten9) else None.
Proof. exact try_from_units_spec. Qed.

Theorem C09_duration_exact : forall w f npu s n,
  try_from_units (w, f) npu = Some (s, n) -> s * ten9 + n = exact_nanos w f npu /\ n < ten9.
Proof. exact try_from_units_exact. Qed.

(* Dates: accepted field by field exactly when the calendar date exists (years up to 9999) *)
Theorem C09_date : forall y m d,
  (valid_date y m d -> date_literal y m d = Some (y, m, d)) /\
  (~ valid_date y m d -> date_literal y m d = None).
Proof. exact date_literal_spec. Qed.

(* Time of day: fields in range are kept (fraction in nanoseconds), out of range is rejected *)
Theorem C09_daytime : forall h m sw sf,
  daytime h m (sw, sf) = if (h <? 24) && (m <? 60) && (sw <? 60) then Some (h, m, sw, sf / 1000000) else None.
Proof. exact daytime_spec. Qed.

(* Character strings: the characters between the quotes, one for one *)
Theorem C09_string : forall q body, string_chars (q :: body ++ [q]) = body.
Proof. exact string_chars_spec. Qed.

(* non-vacuity *)
Example C09_example :
  integer_new [49; 95; 48; 48] = Some 100 /\
  try_hex [49; 54; 35; 70; 70; 95; 70] = Some 4095 /\
  fixed_parse [49; 46; 53] = Some (1, 500000000000000) /\
  try_from_units (1, 500000000000000) npu_hour = Some (5400, 0) /\
  date_literal 2024 2 29 = Some (2024, 2, 29) /\ date_literal 2023 2 29 = None /\
  address [37; 73; 88; 49; 48; 46; 50; 53] = Some (73, 88, [10; 25]).
Proof. vm_compute. repeat split; reflexivity. Qed.
