(* C02 -- The check verdict agrees with the documented semantic rules, in both directions.
   Statements only; proofs are in Proofs/AnalyzerProofs.v.  What is proved here are the three rules whose
   verdict depends on one declaration alone (structure element names, enumeration values, subrange
   limits), for every list of names / every pair of bounds, and the composition of the rule list of
   stages.rs.  The remaining rules are decided by the exhaustive single- and double-fault search
   (evidence: tested, not proved). *)
From Coq Require Import List NArith ZArith Bool String Permutation.
From Verif Require Import Model.Analyzer Gen.GenStages Proofs.AnalyzerProofs Base.Text Model.Scope Proofs.ScopeProofs Gen.GenRules Model.Rules Proofs.RulesProofs.
From Verif Require Model.DeclRules Proofs.DeclRulesProofs Gen.GenDataDecl Proofs.DataDeclGen Model.ExprKind Proofs.ExprKindProofs Model.DataDecl Proofs.DataDeclProofs Proofs.DataDeclComplete.
Import ListNotations.

(* P0003 / P0005: the scan reports nothing exactly when the names are pairwise distinct, and the verdict
   does not depend on the order in which the elements are written *)
Theorem C02_unique_names : forall names : list N, rule_unique names = [] <-> NoDup names.
Proof. exact rule_unique_spec. Qed.

Theorem C02_unique_names_order : forall a b, Permutation a b -> (rule_unique a = [] <-> rule_unique b = []).
Proof. exact rule_unique_perm. Qed.

(* P0004: reported exactly when the mathematical minimum is not below the maximum, whatever the
   magnitude and sign of the bounds (incl. -0) *)
Theorem C02_subrange : forall lo hi, rule_subrange lo hi = if (sval lo <? sval hi)%Z then 0%N else 1%N.
Proof. exact rule_subrange_spec. Qed.

(* a declaration that breaks a rule makes the verdict false wherever it stands (no false accept) *)
Theorem C02_fault_rejected :
  forall (D : Type) (key : D -> N) (diag : Type) (check : (N -> option D) -> D -> list diag) ds d,
  In d ds -> check (find_decl D key ds) d <> [] -> verdict D key diag check ds = false.
Proof. exact local_fault_fails. Qed.

(* tie to stages.rs: the transforms and rules that run, in order *)
Theorem C02_gen_stages :
  stage_xforms = ["xform_toposort_declarations"; "xform_resolve_late_bound_data_decl";
                  "xform_resolve_late_bound_expr_kind"; "xform_resolve_late_bound_type_initializer"]%string /\
  stage_rules = ["rule_decl_struct_element_unique_names"; "rule_decl_subrange_limits"; "rule_enumeration_values_unique";
                 "rule_function_block_invocation"; "rule_program_task_definition_exists";
                 "rule_use_declared_enumerated_value"; "rule_use_declared_symbolic_var"; "rule_unsupported_stdlib_type";
                 "rule_var_decl_const_initialized"; "rule_var_decl_const_not_fb";
                 "rule_var_decl_global_const_requires_external_const"]%string.
Proof. split; reflexivity. Qed.

(* rule_use_declared_symbolic_var (P0015), as the walk over the scope events of a library of units: the library is
   accepted exactly when every unit is in order, and a unit is in order exactly when every name it uses is its own name
   or is declared in the unit before the use (identifiers compared without regard to letter case). *)
Theorem C02_declared_variables_exact : forall ps,
  rule_symbolic (events_of ps) = None <-> forallb pou_ok ps = true.
Proof. exact rule_symbolic_exact. Qed.

Theorem C02_unit_in_order : forall items known,
  first_bad known items = None <->
  (forall pre n pos post, items = pre ++ IUse n pos :: post -> declared_before n known pre).
Proof. exact first_bad_spec. Qed.

(* when exactly one unit is at fault, the name and the place reported are that unit's first undeclared use *)
Theorem C02_declared_variables_reported : forall ps p b,
  In p ps -> pou_bad p = Some b -> (forall q, In q ps -> pou_bad q = None \/ pou_bad q = Some b) ->
  rule_symbolic (events_of ps) = Some b.
Proof. exact single_fault_reported. Qed.

Example C02_example :
  rule_unique [1; 2; 3]%N = [] /\ rule_unique [1; 2; 1]%N = [1%N] /\
  rule_subrange (true, 5%N) (true, 6%N) = 1%N /\ rule_subrange (true, 6%N) (false, 0%N) = 0%N /\
  rule_subrange (true, 0%N) (false, 0%N) = 1%N.
Proof. vm_compute. repeat split; reflexivity. Qed.

(* ---- the rules on declarations, invocations and configurations (Model/Rules.v; the models are run against the rule
        modules themselves on the facts of every generated library) ---- *)
(* P0016: accepted exactly when every CONSTANT that is not VAR_EXTERNAL has an initial value *)
Theorem C02_const_initialized_exact : forall fs,
  rule_const_init fs = [] <-> forall v, In (FVar v) fs -> const_status v = CsOk.
Proof. exact rule_const_init_exact. Qed.

(* P0017: accepted exactly when no function block instance is declared CONSTANT; each one is reported where it stands *)
Theorem C02_const_not_fb_exact : forall fs,
  rule_const_not_fb fs = [] <-> forall v, In (FVar v) fs -> is_const v = true -> is_fb v = false.
Proof. exact rule_const_not_fb_exact. Qed.

(* P0018: accepted exactly when no non-constant VAR_EXTERNAL carries the name of a VAR_GLOBAL CONSTANT variable *)
Theorem C02_external_of_constant_global_exact : forall fs,
  rule_global_const fs = [] <->
  (forall v, In (FVar v) fs -> gconst v = true -> v_name v <> None) /\
  (forall e n, In (FVar e) fs -> ext_nonconst e = true -> v_name e = Some n ->
   forall v m, In (FVar v) fs -> gconst v = true -> v_name v = Some m -> key m <> key n).
Proof. exact rule_global_const_exact. Qed.

(* P0011: accepted exactly when every program's WITH task is a task of its resource *)
Theorem C02_task_defined_exact : forall fs,
  rule_task fs = [] <->
  forall tasks progs, In (FRes tasks progs) fs -> forall t pos, In (Some (t, pos)) progs -> task_known tasks t.
Proof. exact rule_task_exact. Qed.

(* P0012 / P0013 / P0014: accepted exactly when the type of every enumerated initial value leads through aliases to an
   enumeration and the value is among its values; the walk through the aliases never runs out of fuel *)
Theorem C02_enumerated_value_exact : forall fs,
  rule_enum_value fs = [] <-> forall ty tpos value, In (FEnumInit ty tpos value) fs -> init_ok (enum_defs fs) ty value.
Proof. exact rule_enum_value_exact. Qed.

Theorem C02_alias_walk_terminates : forall m k p, chase m (S (List.length m)) [] k p <> None.
Proof. exact chase_fuel. Qed.

(* P0006 .. P0009: what an invocation must satisfy against the callee's declaration *)
Theorem C02_invocation_check_exact : forall fb pos args,
  check_call fb pos args = None <->
  (formal_names args = [] \/ positional args = 0%nat) /\
  (forall n, In n (formal_names args) -> has_input fb n = true) /\
  (positional args = 0%nat \/ positional args = count_inputs fb) /\
  (forall n, In n (out_names args) -> has_output fb n = true).
Proof. exact check_call_exact. Qed.

(* ... and a library passes exactly when each of its units passes by itself against the table of function blocks *)
Theorem C02_invocations_by_unit : forall bs,
  rule_fb_call (stream bs) = [] <-> forall b, In b bs -> fb_walk (fb_defs (stream bs)) [] b = [].
Proof. exact rule_fb_call_units. Qed.

(* P0029: accepted exactly when no instance names an unsupported standard function block (list regenerated from stdlib.rs) *)
Theorem C02_unsupported_standard_type_exact : forall fs,
  rule_stdlib fs = [] <-> forall ty pos, In (FFbInit ty pos) fs -> ~ In (key ty) unsupported_types.
Proof. exact rule_stdlib_exact. Qed.

(* the models report only the problems their rule modules name (table regenerated from the sources on every run) *)
Theorem C02_rule_models_report_the_rules_problems : forall fs d,
  (In d (rule_const_init fs) -> code_allowed "rule_var_decl_const_initialized" (fst d)) /\
  (In d (rule_const_not_fb fs) -> code_allowed "rule_var_decl_const_not_fb" (fst d)) /\
  (In d (rule_global_const fs) -> code_allowed "rule_var_decl_global_const_requires_external_const" (fst d)) /\
  (In d (rule_task fs) -> code_allowed "rule_program_task_definition_exists" (fst d)) /\
  (In d (rule_enum_value fs) -> code_allowed "rule_use_declared_enumerated_value" (fst d)) /\
  (In d (rule_fb_call fs) -> code_allowed "rule_function_block_invocation" (fst d)) /\
  (In d (rule_stdlib fs) -> code_allowed "rule_unsupported_stdlib_type" (fst d)).
Proof.
  intros fs d. repeat split;
    [apply rule_const_init_codes | apply rule_const_not_fb_codes | apply rule_global_const_codes | apply rule_task_codes
    | apply rule_enum_value_codes | apply rule_fb_call_codes | apply rule_stdlib_codes].
Qed.

(* ---- every used type and function block is declared (P0022): xform_resolve_late_bound_type_initializer, modelled on the
        type facts of the library (Model/Rules.v: xform_type_init; compared with the transformation on every run) ---- *)
(* with distinct type names, and no reference to a type of a kind the transformation answers 'not implemented' for: accepted
   exactly when every referenced type is elementary, a standard function block, or declared *)
Theorem C02_types_declared_exact : forall fs, NoDup (map fst (decls fs)) -> no_rtodo (decls fs) fs ->
  ((exists ks, xform_type_init fs = inl ks) <->
   forall ty pos, In (TInit IkLate ty pos) fs -> resolve1 (decls fs) ty <> RUndeclared).
Proof. exact xform_type_init_accepts. Qed.

Theorem C02_undeclared_means : forall tab ty,
  resolve1 tab ty = RUndeclared <->
  ~ In (key ty) elementary_types /\ ~ In (key ty) unsupported_types /\ ~ In (key ty) (map fst tab).
Proof. exact resolve1_undeclared. Qed.

(* ... and the answer is the list of ALL references to undeclared types, in order, or the new initializer kinds *)
Theorem C02_types_answer : forall fs, NoDup (map fst (decls fs)) -> no_rtodo (decls fs) fs ->
  xform_type_init fs = answer (flat_map (undeclared_diag (decls fs)) fs) (flat_map (new_kind (decls fs)) fs).
Proof. exact xform_type_init_spec. Qed.

Theorem C02_type_transformation_reports_its_problems : forall fs ds d, xform_type_init fs = inr ds -> In d ds ->
  In (fst d) [P_DefinitionNameDuplicated; P_UndeclaredUnknownType; P_NotImplemented].
Proof. exact xform_type_init_codes. Qed.

(* bare identifiers in expressions: when the library resolves, each unit's identifiers are resolved as in that unit alone
   -- an identifier in an assignment to a variable of an enumeration type is an enumeration value, elsewhere a variable *)
Theorem C02_expression_resolution_exact : forall us o, ExprKind.resolve_expr_kinds (flat_map ExprKind.flat_unit us) = Some o ->
  exists os, Forall2 (fun u ou => ExprKind.unit_res u = Some ou) us os /\ o = List.concat os.
Proof. exact ExprKindProofs.resolved_by_unit. Qed.

Theorem C02_identifier_in_enumeration_assignment : forall tbl n ls, ExprKind.find_kind tbl n = ExprKind.VkEnumType ->
  ExprKind.seg_res tbl (ExprKind.SAssign (ExprKind.AtNamed n) ls) = Some (map ExprKind.ErEnum ls).
Proof. exact ExprKindProofs.late_in_enum_assignment. Qed.

(* Aliases of data types (A : B; resolved by xform_resolve_late_bound_data_decl): when the transformation answers, every
   alias has been given the kind of a declared type that its chain of bases reaches -- there is a path of alias
   declarations of the library from a declaration of that kind to the alias.  This half needs no hypothesis on the
   library; the converse, for libraries with unique names sorted bases-first, is C02_alias_resolution_exact below. *)
Theorem C02_alias_resolution_sound_partial : forall fs ks, DataDecl.xform_data_decl fs = inl ks ->
  exists s, DataDecl.dwalk DataDecl.dinit0 fs = inl s /\
    Forall2 (fun n k => exists r p, In (DataDecl.TyDecl r (Some k) p) fs /\ DataDeclProofs.apath fs r n)
            (flat_map (fun f => match f with DataDecl.TyAlias n _ => [n] | _ => [] end) fs) ks.
Proof. exact DataDeclProofs.xform_data_decl_sound. Qed.

(* ... and on a library whose simple / enumeration / structure / alias declarations have unique names (declarations the transformation does not
   enter may repeat one: a later stage reports that) and in which no simple / enumeration / structure type is declared after
   it was used as a base (what the declaration sort establishes; checked on every sorted stream of the correspondence) the resolution is exact: no error is raised, and an alias is given kind k exactly when a path of alias
   declarations connects it to a declaration of kind k. *)
Theorem C02_alias_resolution_exact : forall fs s n k, DataDeclComplete.wf fs -> DataDecl.dwalk DataDecl.dinit0 fs = inl s ->
  (DataDecl.alias_kind (DataDecl.resolved s) n = Some k <->
   exists r p, In (DataDecl.TyDecl r (Some k) p) fs /\ DataDeclProofs.apath fs r n).
Proof. exact DataDeclComplete.alias_kind_exact. Qed.

Theorem C02_alias_walk_accepts_well_formed : forall fs, DataDeclComplete.wf fs ->
  exists s, DataDecl.dwalk DataDecl.dinit0 fs = inl s /\ DataDeclComplete.inv fs s.
Proof. exact DataDeclComplete.walk_ok. Qed.

(* the model of the alias resolution is the source's: the regenerated table of xform_resolve_late_bound_data_decl.rs (the
   three kinds of declaration that enter the graph; what a late-bound declaration becomes for each datum of a root) is the
   model's *)
Theorem C02_alias_resolution_model_is_the_source :
  map snd GenDataDecl.gen_added = map DataDeclGen.dkind_name DataDeclGen.all_dkinds /\
  GenDataDecl.gen_fold = map (fun d => (DataDeclGen.ndata_name d, DataDeclGen.ndata_result d))
                             [DataDecl.NdKind DataDecl.DkSimple; DataDecl.NdKind DataDecl.DkEnum; DataDecl.NdKind DataDecl.DkStruct; DataDecl.NdLate; DataDecl.NdUnspec].
Proof. exact DataDeclGen.model_is_the_source. Qed.

(* the three rules on type declarations, with the declarations of a whole library (Model/DeclRules.v): accepted exactly when
   every structure has pairwise distinct element names, every enumeration pairwise distinct values (as identifiers), every
   subrange its minimum strictly below its maximum *)
Theorem C02_struct_rule_exact : forall fs,
  DeclRules.rule_struct_unique fs = [] <-> forall nm els, In (DeclRules.TyStruct nm els) fs -> NoDup (map DeclRules.ikey els).
Proof. exact DeclRulesProofs.rule_struct_exact. Qed.

Theorem C02_enum_rule_exact : forall fs,
  DeclRules.rule_enum_unique fs = [] <-> forall vs, In (DeclRules.TyEnum vs) fs -> NoDup (map DeclRules.ikey vs).
Proof. exact DeclRulesProofs.rule_enum_exact. Qed.

Theorem C02_subrange_rule_exact : forall fs,
  DeclRules.rule_subrange_limits fs = [] <-> forall lo hi ls hs, In (DeclRules.TySub lo hi ls hs) fs -> (sval lo < sval hi)%Z.
Proof. exact DeclRulesProofs.rule_subrange_exact. Qed.

(* every element with an earlier namesake has its own diagnostic *)
Theorem C02_every_repeated_element_reported : forall mk l a f b x c,
  l = a ++ f :: b ++ x :: c -> DeclRules.ikey f = DeclRules.ikey x -> (forall y, In y a -> DeclRules.ikey y <> DeclRules.ikey x) ->
  In (mk f x) (DeclRules.scan mk [] l).
Proof. exact DeclRulesProofs.scan_complete. Qed.
