(* C02 -- The check verdict agrees with the documented semantic rules, in both directions.
   Statements only; proofs are in Proofs/AnalyzerProofs.v.  What is proved here are the three rules whose
   verdict depends on one declaration alone (structure element names, enumeration values, subrange
   limits), for every list of names / every pair of bounds, and the composition of the rule list of
   stages.rs.  The remaining rules are decided by the exhaustive single- and double-fault search
   (evidence: tested, not proved). *)
From Coq Require Import List NArith ZArith Bool String Permutation.
From Verif Require Import Model.Analyzer Gen.GenStages Proofs.AnalyzerProofs Base.Text Model.Scope Proofs.ScopeProofs.
Import ListNotations.

(* P0003 / P0005: the scan reports nothing exactly when the names are pairwise distinct, and the verdict
   does not depend on the order in which the elements are written *)
Theorem C02_unique_names : forall names : list N, rule_unique names = [] <-> NoDup names.
Proof. exact rule_unique_spec. Qed.

Theorem C02_unique_names_order : forall a b, Permutation a b -> (rule_unique a = [] <-> rule_unique b = []).
Proof. exact rule_unique_perm. Qed.

(* P0004: reported exactly when the mathematical minimum is not below the maximum, whatever the
   magnitude and sign of the bounds (incl. -0) *)
Theorem C02_subrange : forall lo hi, rule_subrange lo hi = if (sval lo <? sval hi)%Z then 0%N else 1%N.
Proof. exact rule_subrange_spec. Qed.

(* a declaration that breaks a rule makes the verdict false wherever it stands (no false accept) *)
Theorem C02_fault_rejected :
  forall (D : Type) (key : D -> N) (diag : Type) (check : (N -> option D) -> D -> list diag) ds d,
  In d ds -> check (find_decl D key ds) d <> [] -> verdict D key diag check ds = false.
Proof. exact local_fault_fails. Qed.

(* tie to stages.rs: the transforms and rules that run, in order *)
Theorem C02_gen_stages :
  stage_xforms = ["xform_toposort_declarations"; "xform_resolve_late_bound_data_decl";
                  "xform_resolve_late_bound_expr_kind"; "xform_resolve_late_bound_type_initializer"]%string /\
  stage_rules = ["rule_decl_struct_element_unique_names"; "rule_decl_subrange_limits"; "rule_enumeration_values_unique";
                 "rule_function_block_invocation"; "rule_program_task_definition_exists";
                 "rule_use_declared_enumerated_value"; "rule_use_declared_symbolic_var"; "rule_unsupported_stdlib_type";
                 "rule_var_decl_const_initialized"; "rule_var_decl_const_not_fb";
                 "rule_var_decl_global_const_requires_external_const"]%string.
Proof. split; reflexivity. Qed.

(* rule_use_declared_symbolic_var (P0015), as the walk over the scope events of a library of units: the library is
   accepted exactly when every unit is in order, and a unit is in order exactly when every name it uses is its own name
   or is declared in the unit before the use (identifiers compared without regard to letter case). *)
Theorem C02_declared_variables_exact : forall ps,
  rule_symbolic (events_of ps) = None <-> forallb pou_ok ps = true.
Proof. exact rule_symbolic_exact. Qed.

Theorem C02_unit_in_order : forall items known,
  first_bad known items = None <->
  (forall pre n pos post, items = pre ++ IUse n pos :: post -> declared_before n known pre).
Proof. exact first_bad_spec. Qed.

(* when exactly one unit is at fault, the name and the place reported are that unit's first undeclared use *)
Theorem C02_declared_variables_reported : forall ps p b,
  In p ps -> pou_bad p = Some b -> (forall q, In q ps -> pou_bad q = None \/ pou_bad q = Some b) ->
  rule_symbolic (events_of ps) = Some b.
Proof. exact single_fault_reported. Qed.

Example C02_example :
  rule_unique [1; 2; 3]%N = [] /\ rule_unique [1; 2; 1]%N = [1%N] /\
  rule_subrange (true, 5%N) (true, 6%N) = 1%N /\ rule_subrange (true, 6%N) (false, 0%N) = 0%N /\
  rule_subrange (true, 0%N) (false, 0%N) = 1%N.
Proof. vm_compute. repeat split; reflexivity. Qed.
