(* C03 -- No error is masked: a defect anywhere in the compilation set makes check fail.
   Statements only; proofs are in Proofs/CliContract.v and Proofs/AnalyzerProofs.v. *)
From Coq Require Import List NArith Bool Permutation.
From Verif Require Import Base.Res Model.Cli Model.Analyzer Proofs.CliContract Proofs.AnalyzerProofs Base.Text Model.Scope Proofs.ScopeProofs Gen.GenRules Model.Rules Proofs.RulesProofs.
From Verif Require Model.Lexer Proofs.PreprocessExact.
From Verif Require Model.Lsp Model.Project Proofs.ProjectProofs Proofs.ProjectBoth.
From Verif Require Model.DeclRules Proofs.DeclRulesProofs Model.ExprKind Proofs.ExprKindProofs Model.DataDecl Proofs.DataDeclProofs.
Import ListNotations.

(* a file that fails to tokenize or parse makes the check of the whole set fail, whatever the other
   files are and whatever the analysis says about them *)
Theorem C03_parse_error_fails :
  forall (C : Type) tok_errs parse_err analysis (cs : list C) (c : C),
  In c cs -> parse_diag C tok_errs parse_err c <> [] -> semantic C tok_errs parse_err analysis cs <> [].
Proof. exact semantic_parse_error. Qed.

(* ... and the command line then exits non-zero without printing OK *)
Theorem C03_check_fails :
  forall (C : Type) fs tok_errs parse_err analysis (ps : list path),
  let o := check C fs tok_errs parse_err analysis ps in
  (exit o = 0%N <-> ok_line o = true) /\ (exit o = 0%N <-> coded o = []) /\ (exit o <> 0%N -> coded o <> []).
Proof. exact check_contract. Qed.

(* the declaration sort keeps every declaration exactly once (when every type / POU name is a node) ... *)
Theorem C03_reassemble_keeps_all : forall sorted ds out,
  reassemble sorted ds = Ok out -> NoDup sorted ->
  (forall d, In d ds -> d_kind d <> DkPostfix -> In (d_name d) sorted) ->
  Permutation out ds.
Proof. exact reassemble_keeps_all. Qed.

(* ... and two declarations with the same name are diagnosed (P0020), never collapsed into one *)
Theorem C03_duplicate_diagnosed : forall sorted a d1 b d2 c,
  d_kind d1 = d_kind d2 -> d_kind d1 <> DkPostfix -> d_name d1 = d_name d2 ->
  reassemble sorted (a ++ d1 :: b ++ d2 :: c) = Fail.
Proof. exact reassemble_duplicate. Qed.

(* a declaration that fails a rule keeps the verdict false whatever accompanies it *)
Theorem C03_local_fault_not_masked :
  forall (D : Type) (key : D -> N) (diag : Type) (check : (N -> option D) -> D -> list diag) ds d,
  In d ds -> check (find_decl D key ds) d <> [] -> verdict D key diag check ds = false.
Proof. exact local_fault_fails. Qed.

(* a unit that uses an undeclared variable makes the rule fail whatever accompanies it: the verdict of a unit depends
   on that unit alone, so no companion hides the fault and no companion declaring the name elsewhere cures it *)
Theorem C03_undeclared_variable_never_masked : forall ps p b,
  In p ps -> pou_bad p = Some b -> rule_symbolic (events_of ps) <> None.
Proof. exact faulty_unit_fails. Qed.

Example C03_example :
  reassemble [1; 2; 3]%N [mkDecl DkPou 3 30; mkDecl DkType 1 10; mkDecl DkPostfix 9 90; mkDecl DkType 2 20]%N
    = Ok [mkDecl DkType 1 10; mkDecl DkType 2 20; mkDecl DkPostfix 9 90; mkDecl DkPou 3 30]%N /\
  reassemble [1; 2]%N [mkDecl DkPou 1 10; mkDecl DkType 2 20; mkDecl DkPou 1 11]%N = Fail.
Proof. vm_compute. split; reflexivity. Qed.

(* ---- the rules on declarations and configurations (Model/Rules.v): a fault is reported whatever accompanies it ---- *)
(* rules that look at each declaration by itself: the diagnostics of a library are those of its parts, in order *)
Theorem C03_per_declaration_rules_not_masked : forall a u b d,
  (In d (rule_const_not_fb u) -> In d (rule_const_not_fb (a ++ u ++ b))) /\
  (In d (rule_task u) -> In d (rule_task (a ++ u ++ b))) /\
  (In d (rule_stdlib u) -> In d (rule_stdlib (a ++ u ++ b))).
Proof. intros a u b d. repeat split; apply per_fact_not_masked. Qed.

Theorem C03_constant_without_value_not_masked : forall a u b,
  rule_const_init u <> [] -> rule_const_init (a ++ u ++ b) <> [].
Proof. exact rule_const_init_not_masked. Qed.

Theorem C03_external_of_constant_global_not_masked : forall a u b,
  rule_global_const u <> [] -> rule_global_const (a ++ u ++ b) <> [].
Proof. exact rule_global_const_not_masked. Qed.

(* a unit with a bad invocation is reported in any company (the company may only add function blocks to the table) *)
Theorem C03_bad_invocation_not_masked : forall bs b,
  In b bs -> fb_walk (fb_defs (stream bs)) [] b <> [] -> rule_fb_call (stream bs) <> [].
Proof. exact rule_fb_call_not_masked. Qed.

(* a reference to an undeclared type is reported whatever else the library holds -- no other reference, declared or not,
   hides it (only a declaration of that very name cures it: [resolve1] is then no longer RUndeclared) *)
Theorem C03_undeclared_type_not_masked : forall fs ty pos, NoDup (map fst (decls fs)) -> no_rtodo (decls fs) fs ->
  In (TInit IkLate ty pos) fs -> resolve1 (decls fs) ty = RUndeclared ->
  exists ds, xform_type_init fs = inr ds /\ In (P_UndeclaredUnknownType, pos) ds.
Proof. exact xform_type_init_reports. Qed.

(* two declarations of one type or function block name are diagnosed (P0020), never collapsed into one *)
Theorem C03_duplicate_type_diagnosed : forall fs, ~ NoDup (map fst (decls fs)) ->
  exists d, xform_type_init fs = inr [d] /\ fst d = P_DefinitionNameDuplicated.
Proof. exact xform_type_init_duplicate. Qed.

(* a unit in which a bare identifier cannot be resolved (the transformation answers "not implemented") makes the whole
   library fail, whatever accompanies it and wherever it stands *)
Theorem C03_unresolved_expression_not_masked : forall us u, In u us -> ExprKind.unit_res u = None ->
  ExprKind.resolve_expr_kinds (flat_map ExprKind.flat_unit us) = None.
Proof. exact ExprKindProofs.failing_unit_not_masked. Qed.

(* the alias resolution stops at a second declaration of a declared type name: it is diagnosed, not collapsed *)
Theorem C03_second_type_declaration_diagnosed : forall s n k p,
  Rules.mem n (DataDecl.d_decl s) = true -> DataDecl.node_data (DataDecl.d_nodes s) n <> None ->
  DataDecl.dstep s (DataDecl.TyDecl n (Some k) p) = inr (P_DeclarationNameDuplicated, p).
Proof. exact DataDeclProofs.duplicate_declaration_diagnosed. Qed.

(* the rules on type declarations are concatenations over the declarations: a structure, enumeration or subrange that breaks its
   rule makes the rule fail in any company *)
Theorem C03_faulty_type_declaration_not_masked : forall (g : DeclRules.tyfact -> list DeclRules.ldiag) fs f,
  In f fs -> g f <> [] -> flat_map g fs <> [].
Proof. exact DeclRulesProofs.rule_not_masked. Qed.

(* before the tokenizer: the preprocessor blanks the text between the end of the FIRST start marker of a vendor's description
   block and the FIRST end marker, and nothing else -- whatever stands before the block, after it, or between two such blocks
   reaches the tokenizer as written; what replaces the description is blanks and line feeds *)
Theorem C03_only_the_first_description_is_blanked : forall t s e,
  find_sub Lexer.oscat_open t = Some s -> find_sub Lexer.oscat_close t = Some e -> (s < e)%nat ->
  exists m,
    t = firstn (s + List.length Lexer.oscat_open) t ++ m ++ skipn e t /\
    Lexer.preprocess t = firstn (s + List.length Lexer.oscat_open) t ++ flat_map Lexer.blank_char m ++ skipn e t /\
    prefix_eq Lexer.oscat_open (skipn s t) = true /\ (forall i, (i < s)%nat -> prefix_eq Lexer.oscat_open (skipn i t) = false) /\
    prefix_eq Lexer.oscat_close (skipn e t) = true /\ (forall i, (i < e)%nat -> prefix_eq Lexer.oscat_close (skipn i t) = false).
Proof. exact PreprocessExact.preprocess_first_block. Qed.

Theorem C03_preprocessor_changes_nothing_else : forall t,
  find_sub Lexer.oscat_open t = None \/ find_sub Lexer.oscat_close t = None \/
  (exists s e, find_sub Lexer.oscat_open t = Some s /\ find_sub Lexer.oscat_close t = Some e /\ (e <= s)%nat) ->
  Lexer.preprocess t = t.
Proof. exact PreprocessExact.preprocess_identity. Qed.

(* Two files that hold the SAME text are two sources: both are handed to the analysis, each under its own identifier -- the
   project (Model/Project.v: FileBackedProject::semantic, whose shape is regenerated from project.rs) never merges files by
   content, so two declarations of one name in two files both reach the duplicate check (seeds C03l / C03m collapsed them). *)
Theorem C03_equal_files_both_analyzed :
  forall (text : Type) (d : Lsp.docs text) (k1 k2 : N) t,
  k1 <> k2 -> Lsp.get text d k1 = Some t -> Lsp.get text d k2 = Some t ->
  In (k1, t) (Project.listing text d) /\ In (k2, t) (Project.listing text d) /\ (k1, t) <> (k2, t).
Proof. exact ProjectBoth.equal_files_both_analyzed. Qed.
