(* C12 -- The language server answers every request once and survives any message sequence.
   Statements only; proofs are in Proofs/LspInv.v.  Quantification is over every sequence of
   messages of the property's alphabet and every analysis / tokenizer the server is run with.
   (That the process stays alive and exits with status 0 is observed on the real binary; the model
   is a total function, so it has no crashing transition to exhibit.) *)
From Coq Require Import List NArith ZArith Bool.
From Verif Require Import Model.Lsp Proofs.LspInv.
Import ListNotations.

(* the ids of the replies written, in order, are exactly the ids of the requests received, in order:
   every request is answered once, notifications and client responses are never answered *)
Theorem C12_every_request_answered_once :
  forall (text D T : Type) diag no_diag tokens null_tokens (ms : list (msg text)) (d : docs text),
  flat_map (reply_id D T) (snd (run text D T diag no_diag tokens null_tokens d ms))
  = flat_map (request_id text) ms.
Proof. exact run_replies. Qed.

(* a request gets an error reply exactly when its method is not implemented (MethodNotFound) or its
   parameters do not have the shape of its method (InvalidParams) *)
Theorem C12_error_iff_unimplemented :
  forall (text D T : Type) diag no_diag tokens null_tokens (d : docs text) (m : msg text) id c,
  In (ErrorReply D T id c) (snd (step text D T diag no_diag tokens null_tokens d m))
  <-> (m = OtherRequest text id /\ c = method_not_found) \/ (m = BadParams text id /\ c = invalid_params).
Proof. exact step_error_iff. Qed.

Example C12_example :
  let ms := [DidOpen nat (mkUri 1 true) 1%Z 7%nat; OtherRequest nat 5; Response nat 9; SemTokens nat 6 (mkUri 1 true); DidClose nat (mkUri 1 true); BadParams nat 7;
             DidChange nat (mkUri 1 true) 2%Z []; OtherNotification nat] in
  flat_map (reply_id unit bool) (snd (run nat unit bool (fun _ _ => tt) tt (fun o => match o with Some _ => true | None => false end) false [] ms))
  = [5%N; 6%N; 7%N].
Proof. vm_compute. reflexivity. Qed.
