(* C12 -- The language server answers every request once and survives any message sequence.
   Statements only; proofs are in Proofs/LspInv.v.  Quantification is over every sequence of
   messages of the property's alphabet and every analysis / tokenizer the server is run with.
   (That the process stays alive and exits with status 0 is observed on the real binary; the model
   is a total function, so it has no crashing transition to exhibit.) *)
From Coq Require Import List NArith ZArith Bool.
From Verif Require Import Model.Lsp Proofs.LspInv.
Import ListNotations.

(* the ids of the replies written, in order, are exactly the ids of the requests received, in order:
   every request is answered once, notifications and client responses are never answered *)
Theorem C12_every_request_answered_once :
  forall (text D T : Type) diag no_diag tokens null_tokens (ms : list (msg text)) (d : docs text),
  flat_map (reply_id D T) (snd (run text D T diag no_diag tokens null_tokens d ms))
  = flat_map (request_id text) ms.
Proof. exact run_replies. Qed.

(* a request gets an error reply exactly when its method is not implemented (MethodNotFound) or its
   parameters do not have the shape of its method (InvalidParams) *)
Theorem C12_error_iff_unimplemented :
  forall (text D T : Type) diag no_diag tokens null_tokens (d : docs text) (m : msg text) id c,
  In (ErrorReply D T id c) (snd (step text D T diag no_diag tokens null_tokens d m))
  <-> (m = OtherRequest text id /\ c = method_not_found) \/ (m = BadParams text id /\ c = invalid_params).
Proof. exact step_error_iff. Qed.

Example C12_example :
  let ms := [DidOpen nat (mkUri 1 true) 1%Z 7%nat; OtherRequest nat 5; Response nat 9; SemTokens nat 6 (mkUri 1 true); DidClose nat (mkUri 1 true); BadParams nat 7;
             DidChange nat (mkUri 1 true) 2%Z []; OtherNotification nat] in
  flat_map (reply_id unit bool) (snd (run nat unit bool (fun _ _ => tt) tt (fun o => match o with Some _ => true | None => false end) false [] ms))
  = [5%N; 6%N; 7%N].
Proof. vm_compute. reflexivity. Qed.

(* the life of the process: after any messages, shutdown followed by exit ends it with status 0, everything the messages
   call for written and the shutdown request answered -- whatever the client sends after the exit notification *)
Theorem C12_shutdown_then_exit_ends_cleanly :
  forall (text D T : Type) diag no_diag tokens null_tokens (ms : list (msg text)) (d : docs text) id rest,
  session text D T diag no_diag tokens null_tokens d (map (Msg text) ms ++ Shutdown text id :: Exit text :: rest)
  = mkEnded D T (snd (run text D T diag no_diag tokens null_tokens d ms)) (Some id) true.
Proof. exact session_shutdown_exit. Qed.

(* ... and the status is 0 only then: never after an exit without shutdown, an input that ends, or a shutdown request
   followed by anything but the exit notification *)
Theorem C12_clean_end_iff_shutdown_then_exit :
  forall (text D T : Type) diag no_diag tokens null_tokens (fs : list (frame text)) (d : docs text),
  e_clean D T (session text D T diag no_diag tokens null_tokens d fs) = true
  <-> exists ms id rest, fs = map (Msg text) ms ++ Shutdown text id :: Exit text :: rest.
Proof. exact session_clean_iff. Qed.

(* however the process ends: the requests read before the end are answered once each and in order, what was written is
   what the message loop writes for the messages read, the shutdown request is answered exactly when it is reached *)
Theorem C12_answers_up_to_the_end :
  forall (text D T : Type) diag no_diag tokens null_tokens (fs : list (frame text)) (d : docs text),
  flat_map (reply_id D T) (e_out D T (session text D T diag no_diag tokens null_tokens d fs))
    = flat_map (request_id text) (served text fs)
  /\ e_shutdown D T (session text D T diag no_diag tokens null_tokens d fs) = reached_shutdown text fs
  /\ e_out D T (session text D T diag no_diag tokens null_tokens d fs)
    = snd (run text D T diag no_diag tokens null_tokens d (served text fs)).
Proof. exact session_replies. Qed.

Example C12_life_example :
  let S := session nat unit bool (fun _ _ => tt) tt (fun o => match o with Some _ => true | None => false end) false [] in
  let q := Msg nat (OtherRequest nat 5) in
  (e_clean unit bool (S [q; Shutdown nat 7; Exit nat; q]), e_shutdown unit bool (S [q; Shutdown nat 7; Exit nat; q])) = (true, Some 7%N) /\
  e_clean unit bool (S [q; Exit nat; Shutdown nat 7; Exit nat]) = false /\
  e_shutdown unit bool (S [q; Exit nat; Shutdown nat 7; Exit nat]) = None /\
  e_clean unit bool (S [Shutdown nat 7; q; Exit nat]) = false /\
  e_clean unit bool (S [q]) = false.
Proof. vm_compute. repeat split; reflexivity. Qed.
