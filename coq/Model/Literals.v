(* Model of the literal conversions in compiler/dsl/src/common.rs (Integer, FixedPoint,
   AddressAssignment), compiler/dsl/src/time.rs (the DurationLiteral try_ constructors) and the grammar actions of
   compiler/parser/src/parser.rs for dates and times of day.  Machine arithmetic is written out:
   u128 / u64 / u32 parsing is a checked left fold that fails on overflow.  Executable; no proofs. *)
From Coq Require Import List NArith Bool.
From Verif Require Import Base.Text.
Import ListNotations.
Open Scope N_scope.

Definition two128 : N := 340282366920938463463374607431768211456.
Definition two64 : N := 18446744073709551616.
Definition two63 : N := 9223372036854775808.
Definition two32 : N := 4294967296.
Definition ten15 : N := 1000000000000000.
Definition ten9 : N := 1000000000.

(* from_str_radix / str::parse for an unsigned type with [bound] = 2^bits: checked multiply-add *)
Definition checked_step (bound base : N) (acc : option N) (d : N) : option N :=
  match acc with
  | None => None
  | Some a => let v := a * base + d in if v <? bound then Some v else None
  end.
Definition parse_radix (bound base : N) (ds : list N) : option N :=
  match ds with
  | [] => None                                   (* the empty string is not a number *)
  | _ => fold_left (checked_step bound base) ds (Some 0)
  end.

Definition is_hexdigit (c : N) : bool :=
  is_digit c || ((65 <=? c) && (c <=? 70)) || ((97 <=? c) && (c <=? 102)).
Definition digit_val (c : N) : N :=
  if is_digit c then c - 48 else if (65 <=? c) && (c <=? 70) then c - 55 else c - 87.

(* Integer::new: keep the ASCII digits (this drops '_'), parse as u128 *)
Definition integer_new (tx : text) : option N :=
  parse_radix two128 10 (map digit_val (filter is_digit tx)).

(* Integer::try_hex / try_octal / try_binary: prefix, drop '_', every remaining character must be
   a digit of the base *)
Definition not_us (c : N) : bool := negb (c =? 95).
Definition try_based (prefix : text) (isd : N -> bool) (base : N) (tx : text) : option N :=
  if prefix_eq prefix tx then
    let body := filter not_us (skipn (List.length prefix) tx) in
    if forallb isd body then parse_radix two128 base (map digit_val body) else None
  else None.
Definition is_octdigit (c : N) : bool := (48 <=? c) && (c <=? 55).
Definition is_bindigit (c : N) : bool := (c =? 48) || (c =? 49).
Definition try_hex := try_based [49; 54; 35] is_hexdigit 16.
Definition try_octal := try_based [56; 35] is_octdigit 8.
Definition try_binary := try_based [50; 35] is_bindigit 2.

(* str::parse::<u64>: digits only (no sign can be present here), checked *)
Definition parse_u64 (tx : text) : option N :=
  if forallb is_digit tx then parse_radix two64 10 (map digit_val tx) else None.

Fixpoint split_once_dot (tx : text) : option (text * text) :=
  match tx with
  | [] => None
  | c :: r => if c =? 46 then Some ([], r)
              else match split_once_dot r with Some (a, b) => Some (c :: a, b) | None => None end
  end.

(* FixedPoint::parse: (whole, femptos) *)
Definition fixed_parse (tx : text) : option (N * N) :=
  let v := filter (fun c => is_digit c || (c =? 46)) tx in
  match split_once_dot v with
  | Some (w, d) =>
      match parse_u64 w with
      | None => None
      | Some whole =>
          if Nat.ltb 15 (List.length d) then None
          else match parse_u64 (d ++ repeat 48 (15 - List.length d)) with
               | Some f => Some (whole, f)
               | None => None
               end
      end
  | None => option_map (fun w => (w, 0)) (parse_u64 v)
  end.

(* TryFrom<Integer> for FixedPoint *)
Definition fixed_of_integer (v : N) : option (N * N) := if v <? two64 then Some (v, 0) else None.

(* DurationLiteral::try_from_units: (whole seconds, nanoseconds), magnitude only *)
Definition try_from_units (value : N * N) (npu : N) : option (N * N) :=
  let '(w, f) := value in
  let total := w * npu + f * npu / ten15 in
  let secs := total / ten9 in
  if secs <? two63 then Some (secs, total mod ten9) else None.

Definition npu_day : N := 86400 * ten9.
Definition npu_hour : N := 3600 * ten9.
Definition npu_minute : N := 60 * ten9.
Definition npu_second : N := ten9.
Definition npu_milli : N := 1000000.

(* date_literal: u128 -> i32 year (time: at most 9999), u8 month 1..12, u8 day within the month *)
Definition leap (y : N) : bool := (y mod 4 =? 0) && (negb (y mod 100 =? 0) || (y mod 400 =? 0)).
Definition days_in_month (y m : N) : N :=
  if (m =? 1) || (m =? 3) || (m =? 5) || (m =? 7) || (m =? 8) || (m =? 10) || (m =? 12) then 31
  else if (m =? 4) || (m =? 6) || (m =? 9) || (m =? 11) then 30
  else if m =? 2 then (if leap y then 29 else 28) else 0.
Definition date_literal (y m d : N) : option (N * N * N) :=
  if (y <=? 9999) && (1 <=? m) && (m <=? 12) && (1 <=? d) && (d <=? days_in_month y m)
  then Some (y, m, d) else None.

(* daytime: hour and minute u8 via try_into, seconds u8 via try_into, Time::from_hms_nano ranges *)
Definition daytime (h m : N) (s : N * N) : option (N * N * N * N) :=
  let '(sw, sf) := s in
  if (h <? 24) && (m <? 60) && (sw <? 60) then Some (h, m, sw, sf / 1000000) else None.

(* AddressAssignment::try_from on a DirectAddress token text: percent, I/Q/M, optional size, then
   '.'-separated decimal components, each parsed as u32 *)
Fixpoint split_dots (tx : text) (cur : text) : list text :=
  match tx with
  | [] => [rev cur]
  | c :: r => if c =? 46 then rev cur :: split_dots r [] else split_dots r (c :: cur)
  end.
Fixpoint all_some {A} (l : list (option A)) : option (list A) :=
  match l with
  | [] => Some []
  | Some a :: r => option_map (cons a) (all_some r)
  | None :: _ => None
  end.
Definition parse_u32 (tx : text) : option N :=
  if forallb is_digit tx then parse_radix two32 10 (map digit_val tx) else None.
Definition is_loc (c : N) : bool := let u := upper c in (u =? 73) || (u =? 81) || (u =? 77).
Definition is_size (c : N) : bool :=
  let u := upper c in (u =? 88) || (u =? 66) || (u =? 87) || (u =? 68) || (u =? 76).
(* result: (location letter, size letter or 0, components) *)
Definition address (tx : text) : option (N * N * list N) :=
  match tx with
  | 37 :: l :: r =>
      if is_loc l then
        let '(sz, body) := match r with
                           | c :: r' => if is_size c then (upper c, r') else (0, r)
                           | [] => (0, r)
                           end in
        match all_some (map parse_u32 (split_dots body [])) with
        | Some comps => Some (upper l, sz, comps)
        | None => None
        end
      else None
  | _ => None
  end.

(* character strings: the token text without its quotes *)
Definition string_chars (tx : text) : text := removelast (tl tx).
