(* Models, with their labels, of the three rules on type declarations that Model/Rules.v leaves out:
     rule_decl_struct_element_unique_names (P0003), rule_decl_subrange_limits (P0004), rule_enumeration_values_unique (P0005)
   (compiler/analyzer/src/rule_*.rs).  As in Model/Rules.v the walk over the resolved library is abstracted to the stream of
   the nodes a rule looks at (produced from the real syntax tree by the harness with the library's own traversal), here with
   the spans of everything a label can be put on.  A diagnostic is its code, the span of its primary label and the spans of
   its secondary labels in the order they were attached.  Identifiers compare by their lower-case spelling.
   The set of names seen so far is a HashSet<&Id> holding, for each name, the reference that was inserted first: `get`
   returns that first reference, `insert` happens only for a name not yet present.  Executable; no proofs in this file. *)
From Coq Require Import List NArith Bool.
From Verif Require Import Base.Text Gen.GenRules Model.Analyzer.
Import ListNotations.
Open Scope N_scope.

Definition lspan := (N * N)%type.                    (* start and end offset *)
Record nitem := mkItem { i_name : text; i_id : lspan; i_node : lspan }.   (* a name, the span of the identifier, the span of the node *)
Record ldiag := mkLDiag { ld_code : N; ld_primary : lspan; ld_secondary : list lspan }.

Inductive tyfact :=
  | TyStruct (nm : lspan) (els : list nitem)              (* a structure declaration: the span of its name, its elements *)
  | TyEnum (vals : list nitem)                           (* an enumeration declaration with a list of values *)
  | TySub (lo hi : bool * N) (lospan hispan : lspan).   (* a subrange: sign and magnitude of the bounds, spans of the magnitudes *)

Definition ikey (x : nitem) : text := lower_text (i_name x).

(* HashSet::get *)
Fixpoint find_seen (k : text) (seen : list nitem) : option nitem :=
  match seen with
  | [] => None
  | y :: r => if text_eqb (ikey y) k then Some y else find_seen k r
  end.

(* for element in elements { match seen.get(name) { Some(first) => push(mk first element), None => seen.insert(name) } } *)
Fixpoint scan (mk : nitem -> nitem -> ldiag) (seen : list nitem) (l : list nitem) : list ldiag :=
  match l with
  | [] => []
  | x :: r =>
      match find_seen (ikey x) seen with
      | Some f => mk f x :: scan mk seen r
      | None => scan mk (x :: seen) r
      end
  end.

(* P0003: primary on the structure's name; "First use of name" on the identifier seen first, "Second use of name" on this one *)
Definition struct_diag (nm : lspan) (first cur : nitem) : ldiag :=
  mkLDiag P_StructureDuplicatedElement nm [i_id first; i_id cur].
(* P0005: primary "First instance" on the identifier seen first; secondary "Duplicate value" on the current value (the node) *)
Definition enum_diag (first cur : nitem) : ldiag :=
  mkLDiag P_EnumTypeDeclDuplicateItem (i_id first) [i_node cur].
(* P0004: primary "Expected smaller value" on the minimum, secondary "Expected greater value" on the maximum *)
Definition sub_diag (lo hi : bool * N) (lospan hispan : lspan) : list ldiag :=
  if is_less lo hi then [] else [mkLDiag P_SubrangeMinStrictlyLessMax lospan [hispan]].

Definition struct_fact (f : tyfact) : list ldiag := match f with TyStruct nm els => scan (struct_diag nm) [] els | _ => [] end.
Definition enum_fact (f : tyfact) : list ldiag := match f with TyEnum vs => scan enum_diag [] vs | _ => [] end.
Definition sub_fact (f : tyfact) : list ldiag := match f with TySub lo hi ls hs => sub_diag lo hi ls hs | _ => [] end.

Definition rule_struct_unique (fs : list tyfact) : list ldiag := flat_map struct_fact fs.
Definition rule_enum_unique (fs : list tyfact) : list ldiag := flat_map enum_fact fs.
Definition rule_subrange_limits (fs : list tyfact) : list ldiag := flat_map sub_fact fs.
