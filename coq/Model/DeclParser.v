(* Model of the variable declaration blocks of a function block (compiler/parser/src/parser.rs, B.1.4.3), with PEG
   semantics, on the token classes of Model/StParser.v:

     function_block_declaration   FUNCTION_BLOCK _ name _ (io_var_declarations / other_var_declarations) ** _ _ body _ END_FUNCTION_BLOCK
     io_var_declarations          VAR_INPUT (RETAIN / NON_RETAIN)? semisep(edge_declaration / var_init_decl) END_VAR
                                  / VAR_OUTPUT (RETAIN / NON_RETAIN)? semisep(var_init_decl) END_VAR
                                  / VAR_IN_OUT semisep(var_declaration) END_VAR
     other_var_declarations       VAR_EXTERNAL CONSTANT? semisep(external_declaration) END_VAR
                                  / VAR CONSTANT? semisep(var_init_decl) END_VAR / VAR RETAIN .. / VAR NON_RETAIN ..
     semisep(x)                   x ** (_ ';' _) _ ';'                    (an empty block needs a ';')
     var_init_decl                names ':' then, in this order:  type ':=' constant  /  name ':=' name (an enumerated
                                  value)  /  elementary type  /  name (resolved later)
     edge_declaration             names ':' BOOL (R_EDGE / F_EDGE)
     var_declaration (IN_OUT)     names ':' type              (kept as a late-resolved type, elementary or not)
     external_declaration         name ':' type               (one name)
     names                        identifier ++ (_ ',' _)

   Alternatives the model does not read are recognised and answered [DScope] (no claim): a ',' before the ':' (the
   function block instance form wants a trailing comma), '(' after the ':' or after the type (enumerations given by their
   values, subranges) or after ':=' (structure initializers); STRING, WSTRING, ARRAY, AT, located and typed literals are
   token classes outside the model's scope altogether.  Executable; no proofs in this file. *)
From Coq Require Import List NArith Bool.
From Verif Require Import Base.Res Base.Text Model.ExprParser Model.StParser.
Import ListNotations.

Inductive dinit :=
  | DSimple (ty : text) (v : option sleaf)      (* InitialValueAssignmentKind::Simple *)
  | DEnumType (ty : text) (v : text)            (* EnumeratedType with an initial value (no type prefix) *)
  | DLate (ty : text).                          (* LateResolvedType *)
Inductive dclass := DcInput | DcOutput | DcInOut | DcExternal | DcVar.
Inductive dqual := DqNone | DqConst | DqRetain | DqNonRetain.
Inductive ditem :=
  | DVar (name : text) (c : dclass) (q : dqual) (i : dinit)
  | DEdge (name : text) (rising : bool) (q : dqual).


Inductive dres (A : Type) : Type := DOk (a : A) | DFail | DScope | DFuel.
Arguments DOk {A} a.
Arguments DFail {A}.
Arguments DScope {A}.
Arguments DFuel {A}.

Section Decl.
  Variable tk : Type.
  Variable cl : tk -> tcl.
  Variable txt : tk -> text.
  Variable num : tk -> N.
  Variable tyname : tk -> text.          (* the name of the elementary type a type keyword stands for (TOD = TIME_OF_DAY ..) *)

  Notation skip := (StParser.skip tk cl).
  Notation next_is := (StParser.next_is tk cl).
  Notation ident := (StParser.ident tk cl txt).
  Notation leaf_of := (StParser.leaf_of tk txt num).
  Notation typed_leaf := (StParser.typed_leaf tk cl txt num).

  Definition D (A : Type) := dres (A * list tk).

  Definition is_colon c := match c with CColon => true | _ => false end.
  Definition is_dk (k : dkw) c :=
    match c, k with
    | CDk DkVar, DkVar | CDk DkVarInput, DkVarInput | CDk DkVarOutput, DkVarOutput | CDk DkVarInOut, DkVarInOut
    | CDk DkVarExternal, DkVarExternal | CDk DkEndVar, DkEndVar | CDk DkConstant, DkConstant | CDk DkRetain, DkRetain
    | CDk DkNonRetain, DkNonRetain | CDk DkREdge, DkREdge | CDk DkFEdge, DkFEdge
    | CDk DkType, DkType | CDk DkEndType, DkEndType | CDk DkArray, DkArray => true
    | _, _ => false
    end.

  (* constant(): the forms the statement model reads too *)
  Definition pconst (ts : list tk) : option (sleaf * list tk) :=
    match ts with
    | t :: r =>
        match cl t with
        | CConst k => Some (leaf_of k t, r)
        | COp BAdd => match r with
                      | d :: r' => match cl d with
                                   | CConst CkInt => Some (LfInt false (num d), r')
                                   | c => if is_real_c c then Some (LfReal None (Some false) (txt d), r') else None
                                   end
                      | [] => None
                      end
        | CMinus => match r with
                    | d :: r' => match cl d with
                                 | CConst CkInt => Some (LfInt true (num d), r')
                                 | c => if is_real_c c then Some (LfReal None (Some true) (txt d), r') else None
                                 end
                    | [] => None
                    end
        | CTyKw k => match r with
                     | h :: v :: r' =>
                         match cl h with
                         | CHash =>
                             match sign_of (cl v) with
                             | Some b => match r' with
                                         | d :: r'' => match typed_leaf k (Some b) d with Some l => Some (l, r'') | None => None end
                                         | [] => None
                                         end
                             | None => match typed_leaf k None v with Some l => Some (l, r') | None => None end
                             end
                         | _ => None
                         end
                     | _ => None
                     end
        | CBoolT => match r with
                    | h :: v :: r' =>
                        match cl h, cl v with
                        | CHash, CConst CkTrue => Some (LfBool true, r')
                        | CHash, CConst CkFalse => Some (LfBool false, r')
                        | CHash, CConst CkInt =>
                            if text_eqb (txt v) [49%N] then Some (LfBool true, r')
                            else if text_eqb (txt v) [48%N] then Some (LfBool false, r')
                            else None
                        | _, _ => None
                        end
                    | _ => None
                    end
        | _ => None
        end
    | [] => None
    end.

  (* identifier ++ (_ ',' _): the tail after one name *)
  Fixpoint names_more (f : nat) (acc : list text) (ts : list tk) : D (list text) :=
    match f with
    | O => DFuel
    | S f' =>
        match next_is is_comma ts with
        | Some r => match ident (skip r) with
                    | Some (n, r') => names_more f' (acc ++ [n]) r'
                    | None => DOk (acc, ts)
                    end
        | None => DOk (acc, ts)
        end
    end.
  Definition names (f : nat) (ts : list tk) : D (list text) :=
    match ident ts with
    | Some (n, r) => names_more f [n] r
    | None => DFail
    end.

  (* names _ ':' _ : the names and the position of the specification; a ',' before the ':' is the instance form *)
  Definition names_colon (f : nat) (ts : list tk) : D (list text) :=
    match names f ts with
    | DOk (ns, r) =>
        match next_is is_comma r with
        | Some _ => DScope
        | None => match next_is is_colon r with
                  | Some r1 => DOk (ns, skip r1)
                  | None => DFail
                  end
        end
    | DFail => DFail | DScope => DScope | DFuel => DFuel
    end.

  Definition is_type c := match c with CTyKw _ | CBoolT => true | _ => false end.
  Definition next_lp (ts : list tk) : bool := match next_is is_lp ts with Some _ => true | None => false end.

  (* simple_or_enumerated_or_subrange_ambiguous_struct_spec_init, ts at the type *)
  Definition spec_init (ts : list tk) : D dinit :=
    match ts with
    | t :: r =>
        if is_type (cl t) then
          match next_is is_assign r with
          | Some r1 => match pconst (skip r1) with
                       | Some (c, r2) => DOk (DSimple (tyname t) (Some c), r2)
                       | None => DOk (DSimple (tyname t) None, r)
                       end
          | None => if next_lp r then DScope else DOk (DSimple (tyname t) None, r)
          end
        else match cl t with
             | CId =>
                 match next_is is_assign r with
                 | Some r1 =>
                     match pconst (skip r1) with
                     | Some (c, r2) => DOk (DSimple (txt t) (Some c), r2)
                     | None =>
                         if next_lp r1 then DScope
                         else match ident (skip r1) with
                              | Some (v, r2) => DOk (DEnumType (txt t) v, r2)
                              | None => DOk (DLate (txt t), r)
                              end
                     end
                 | None => DOk (DLate (txt t), r)
                 end
             | CLP => DScope
             | _ => DFail
             end
    | [] => DFail
    end.

  Definition var_init_decl (c : dclass) (f : nat) (ts : list tk) : D (list ditem) :=
    match names_colon f ts with
    | DOk (ns, r) =>
        match spec_init r with
        | DOk (i, r') => DOk (map (fun n => DVar n c DqNone i) ns, r')
        | DFail => DFail | DScope => DScope | DFuel => DFuel
        end
    | DFail => DFail | DScope => DScope | DFuel => DFuel
    end.

  (* names _ ':' _ BOOL _ (R_EDGE / F_EDGE) *)
  Definition edge_decl (f : nat) (ts : list tk) : D (list ditem) :=
    match names_colon f ts with
    | DOk (ns, r) =>
        match r with
        | b :: r1 =>
            match cl b with
            | CBoolT =>
                match next_is (is_dk DkREdge) r1 with
                | Some r2 => DOk (map (fun n => DEdge n true DqNone) ns, r2)
                | None => match next_is (is_dk DkFEdge) r1 with
                          | Some r2 => DOk (map (fun n => DEdge n false DqNone) ns, r2)
                          | None => DFail
                          end
                end
            | _ => DFail
            end
        | [] => DFail
        end
    | DFail => DFail | DScope => DScope | DFuel => DFuel
    end.

  Definition input_decl (f : nat) (ts : list tk) : D (list ditem) :=
    match edge_decl f ts with
    | DOk x => DOk x
    | DFail => var_init_decl DcInput f ts
    | DScope => DScope | DFuel => DFuel
    end.

  (* var1_declaration of VAR_IN_OUT: names ':' (subrange / enumeration by values / simple_specification) *)
  Definition inout_decl (f : nat) (ts : list tk) : D (list ditem) :=
    match names_colon f ts with
    | DOk (ns, r) =>
        match r with
        | t :: r1 =>
            if is_type (cl t) then
              if next_lp r1 then DScope else DOk (map (fun n => DVar n DcInOut DqNone (DLate (tyname t))) ns, r1)
            else match cl t with
                 | CId => DOk (map (fun n => DVar n DcInOut DqNone (DLate (txt t))) ns, r1)
                 | CLP => DScope
                 | _ => DFail
                 end
        | [] => DFail
        end
    | DFail => DFail | DScope => DScope | DFuel => DFuel
    end.

  (* external_declaration: one name ':' simple_specification *)
  Definition external_decl (f : nat) (ts : list tk) : D (list ditem) :=
    match ident ts with
    | Some (n, r) =>
        match next_is is_colon r with
        | Some r1 =>
            match skip r1 with
            | t :: r2 =>
                if is_type (cl t) then DOk ([DVar n DcExternal DqNone (DSimple (tyname t) None)], r2)
                else match cl t with
                     | CId => DOk ([DVar n DcExternal DqNone (DSimple (txt t) None)], r2)
                     | _ => DFail
                     end
            | [] => DFail
            end
        | None => DFail
        end
    | None => DFail
    end.

  (* semisep(x): x ** (_ ';' _) _ ';' *)
  Fixpoint decls_more (x : nat -> list tk -> D (list ditem)) (f : nat) (acc : list ditem) (ts : list tk) : D (list ditem) :=
    match f with
    | O => DFuel
    | S f' =>
        match next_is is_semi ts with
        | Some r => match x f' (skip r) with
                    | DOk (d, r') => decls_more x f' (acc ++ d) r'
                    | DFail => DOk (acc, ts)
                    | DScope => DScope | DFuel => DFuel
                    end
        | None => DOk (acc, ts)
        end
    end.
  Definition semisep (x : nat -> list tk -> D (list ditem)) (f : nat) (ts : list tk) : D (list ditem) :=
    match x f ts with
    | DOk (d, r) =>
        match decls_more x f d r with
        | DOk (l, r1) => match next_is is_semi r1 with
                         | Some r2 => DOk (l, r2)
                         | None => DFail
                         end
        | DFail => DFail | DScope => DScope | DFuel => DFuel
        end
    | DFail => match next_is is_semi ts with
               | Some r2 => DOk ([], r2)
               | None => DFail
               end
    | DScope => DScope | DFuel => DFuel
    end.

  Definition set_qual (q : dqual) (d : ditem) : ditem :=
    match d with DVar n c _ i => DVar n c q i | DEdge n r _ => DEdge n r q end.

  (* the rest of a block after its keyword and qualifier: _ semisep(x) _ END_VAR *)
  Definition block_rest (x : nat -> list tk -> D (list ditem)) (q : dqual) (f : nat) (ts : list tk) : D (list ditem) :=
    match semisep x f (skip ts) with
    | DOk (l, r) => match next_is (is_dk DkEndVar) r with
                    | Some r1 => DOk (map (set_qual q) l, r1)
                    | None => DFail
                    end
    | DFail => DFail | DScope => DScope | DFuel => DFuel
    end.

  (* an optional RETAIN / NON_RETAIN after the block keyword *)
  Definition retain_qual (ts : list tk) : dqual * list tk :=
    match next_is (is_dk DkRetain) ts with
    | Some r => (DqRetain, r)
    | None => match next_is (is_dk DkNonRetain) ts with
              | Some r => (DqNonRetain, r)
              | None => (DqNone, ts)
              end
    end.
  Definition const_qual (ts : list tk) : dqual * list tk :=
    match next_is (is_dk DkConstant) ts with
    | Some r => (DqConst, r)
    | None => (DqNone, ts)
    end.

  (* io_var_declarations / other_var_declarations; ts starts at the block keyword *)
  Definition block (f : nat) (ts : list tk) : D (list ditem) :=
    match ts with
    | t :: r =>
        match cl t with
        | CDk DkVarInput => let '(q, r1) := retain_qual r in block_rest input_decl q f r1
        | CDk DkVarOutput => let '(q, r1) := retain_qual r in block_rest (var_init_decl DcOutput) q f r1
        | CDk DkVarInOut => block_rest inout_decl DqNone f r
        | CDk DkVarExternal => let '(q, r1) := const_qual r in block_rest external_decl q f r1
        | CDk DkVar =>
            (* var_declarations (CONSTANT?) / retentive / non_retentive: told apart by the token after VAR *)
            let '(q, r1) := const_qual r in
            match q with
            | DqConst => block_rest (var_init_decl DcVar) DqConst f r1
            | _ => match block_rest (var_init_decl DcVar) DqNone f r with
                   | DOk x => DOk x
                   | DFail => let '(q2, r2) := retain_qual r in
                              match q2 with
                              | DqNone => DFail
                              | _ => block_rest (var_init_decl DcVar) q2 f r2
                              end
                   | DScope => DScope | DFuel => DFuel
                   end
            end
        | _ => DFail
        end
    | [] => DFail
    end.

  (* (io_var_declarations / other_var_declarations) ** _ *)
  Fixpoint blocks (f : nat) (acc : list ditem) (ts : list tk) : D (list ditem) :=
    match f with
    | O => DFuel
    | S f' =>
        match block f' (skip ts) with
        | DOk (b, r) => blocks f' (acc ++ b) r
        | DFail => DOk (acc, ts)
        | DScope => DScope | DFuel => DFuel
        end
    end.

  (* ---- the declaration blocks of a FUNCTION:  io_var_declarations / function_var_decls.  The inputs, outputs and in-outs
          are those of a function block; VAR takes only CONSTANT, needs at least one declaration (semisep_oneplus) and
          reads var1_init_decl__with_ambiguous_struct, which is what [var_init_decl] models ---- *)
  Definition semisep1 (x : nat -> list tk -> D (list ditem)) (f : nat) (ts : list tk) : D (list ditem) :=
    match x f ts with
    | DFail => DFail
    | _ => semisep x f ts
    end.
  Definition block_rest1 (x : nat -> list tk -> D (list ditem)) (q : dqual) (f : nat) (ts : list tk) : D (list ditem) :=
    match semisep1 x f (skip ts) with
    | DOk (l, r) => match next_is (is_dk DkEndVar) r with
                    | Some r1 => DOk (map (set_qual q) l, r1)
                    | None => DFail
                    end
    | DFail => DFail | DScope => DScope | DFuel => DFuel
    end.
  Definition fblock (f : nat) (ts : list tk) : D (list ditem) :=
    match ts with
    | t :: r =>
        match cl t with
        | CDk DkVarInput | CDk DkVarOutput | CDk DkVarInOut => block f ts
        | CDk DkVar => let '(q, r1) := const_qual r in block_rest1 (var_init_decl DcVar) q f r1
        | _ => DFail
        end
    | [] => DFail
    end.
  Fixpoint fblocks (f : nat) (acc : list ditem) (ts : list tk) : D (list ditem) :=
    match f with
    | O => DFuel
    | S f' =>
        match fblock f' (skip ts) with
        | DOk (b, r) => fblocks f' (acc ++ b) r
        | DFail => DOk (acc, ts)
        | DScope => DScope | DFuel => DFuel
        end
    end.
End Decl.

(* ---- TYPE ... END_TYPE: data type declarations (B.1.3.3).  type_declaration tries, in this order: string types, arrays,
        subranges with a range, structures, enumerations with a value / by their values, simple types with a constant, and
        at last  name : name  (resolved later).  The model reads
          name : ARRAY [ lo..hi , .. ] OF type            name : INT ( lo..hi ) [:= n]
          name : ( v1 , v2 .. ) [:= v]                    name : base := v     (an enumeration given by another one, with value)
          name : type := constant                         name : base
        and answers DScope for the forms it does not read (structures -- STRUCT is outside the token classes --, initial
        values of arrays, structure initializers). ---- *)
Inductive tdecl :=
  | TdArray (name : text) (ranges : list ((bool * N) * (bool * N))) (ty : text)
  | TdSubrange (name ty : text) (lo hi : bool * N) (default : option (bool * N))
  | TdEnum (name : text) (values : list text) (default : option text)
  | TdEnumOf (name base value : text)
  | TdSimple (name ty : text) (c : sleaf)
  | TdLate (name base : text).

Section Types.
  Variable tk : Type.
  Variable cl : tk -> tcl.
  Variable txt : tk -> text.
  Variable num : tk -> N.
  Variable tyname : tk -> text.
  Variable is_int : tk -> bool.          (* a signed or unsigned integer type keyword *)

  Notation skip := (StParser.skip tk cl).
  Notation next_is := (StParser.next_is tk cl).
  Notation ident := (StParser.ident tk cl txt).
  Notation signed_int := (StParser.signed_int tk cl num).
  Notation pconst := (pconst tk cl txt num).
  Notation names_more := (names_more tk cl txt).
  Notation next_lp := (next_lp tk cl).

  Definition is_range c := match c with CRange => true | _ => false end.
  Definition is_lb c := match c with CLB => true | _ => false end.
  Definition is_of c := match c with CKw KwOf => true | _ => false end.

  (* subrange: signed_integer _ '..' _ signed_integer *)
  Definition psubrange (ts : list tk) : option (((bool * N) * (bool * N)) * list tk) :=
    match signed_int ts with
    | Some (lo, r) =>
        match next_is is_range r with
        | Some r1 => match signed_int (skip r1) with
                     | Some (hi, r2) => Some ((lo, hi), r2)
                     | None => None
                     end
        | None => None
        end
    | None => None
    end.

  (* subrange ** (_ ',' _): the tail after one range *)
  Fixpoint ranges_more (f : nat) (acc : list ((bool * N) * (bool * N))) (ts : list tk) : D tk (list ((bool * N) * (bool * N))) :=
    match f with
    | O => DFuel
    | S f' =>
        match next_is is_comma ts with
        | Some r => match psubrange (skip r) with
                    | Some (x, r') => ranges_more f' (acc ++ [x]) r'
                    | None => DOk (acc, ts)
                    end
        | None => DOk (acc, ts)
        end
    end.
  Definition ranges (f : nat) (ts : list tk) : D tk (list ((bool * N) * (bool * N))) :=
    match psubrange ts with
    | Some (x, r) => ranges_more f [x] r
    | None => DOk ([], ts)
    end.

  (* non_generic_type_name *)
  Definition type_ref (ts : list tk) : option (text * list tk) :=
    match ts with
    | t :: r => if is_type (cl t) then Some (tyname t, r)
                else match cl t with CId => Some (txt t, r) | _ => None end
    | [] => None
    end.

  (* after ARRAY: _ '[' _ ranges _ ']' _ OF _ type; an initial value is not read *)
  Definition array_tail (f : nat) (n : text) (r : list tk) : D tk tdecl :=
    match next_is is_lb r with
    | Some r1 =>
        match ranges f (skip r1) with
        | DOk (rs, r2) =>
            match next_is is_rb r2 with
            | Some r3 =>
                match next_is is_of r3 with
                | Some r4 =>
                    match type_ref (skip r4) with
                    | Some (ty, r5) => match next_is is_assign r5 with
                                       | Some _ => DScope
                                       | None => DOk (TdArray n rs ty, r5)
                                       end
                    | None => DFail
                    end
                | None => DFail
                end
            | None => DFail
            end
        | DFail => DFail | DScope => DScope | DFuel => DFuel
        end
    | None => DFail
    end.

  (* integer type keyword t, then '(' : the subrange form or nothing *)
  Definition subrange_tail (n : text) (t : tk) (r3 : list tk) : D tk tdecl :=
    match psubrange (skip r3) with
    | Some ((lo, hi), r4) =>
        match next_is is_rp r4 with
        | Some r5 =>
            match next_is is_assign r5 with
            | Some r6 => match signed_int (skip r6) with
                         | Some (d, r7) => DOk (TdSubrange n (tyname t) lo hi (Some d), r7)
                         | None => DOk (TdSubrange n (tyname t) lo hi None, r5)
                         end
            | None => DOk (TdSubrange n (tyname t) lo hi None, r5)
            end
        | None => DFail
        end
    | None => DFail
    end.

  (* '(' v1 , v2 .. ')' [:= v] *)
  Definition enum_tail (f : nat) (n : text) (r : list tk) : D tk tdecl :=
    match ident (skip r) with
    | Some (v, r1) =>
        match names_more f [v] r1 with
        | DOk (vs, r2) =>
            match next_is is_rp r2 with
            | Some r3 =>
                match next_is is_assign r3 with
                | Some r4 => match ident (skip r4) with
                             | Some (d, r5) => DOk (TdEnum n vs (Some d), r5)
                             | None => DOk (TdEnum n vs None, r3)
                             end
                | None => DOk (TdEnum n vs None, r3)
                end
            | None => DFail
            end
        | DFail => DFail | DScope => DScope | DFuel => DFuel
        end
    | None => DFail
    end.

  (* the specification after  name _ ':' _  *)
  Definition type_spec (f : nat) (n : text) (p : list tk) : D tk tdecl :=
            match p with
            | t :: r2 =>
                if is_dk DkArray (cl t) then array_tail f n r2
                else if is_type (cl t) then
                  (if is_int t && next_lp r2 then
                     match next_is is_lp r2 with Some r3 => subrange_tail n t r3 | None => DFail end
                   else match next_is is_assign r2 with
                        | Some r3 => match pconst (skip r3) with
                                     | Some (c, r4) => DOk (TdSimple n (tyname t) c, r4)
                                     | None => DFail
                                     end
                        | None => DFail
                        end)
                else match cl t with
                     | CLP => enum_tail f n r2
                     | CId =>
                         match next_is is_assign r2 with
                         | Some r3 =>
                             if next_lp r3 then DScope
                             else match ident (skip r3) with
                                  | Some (v, r4) => DOk (TdEnumOf n (txt t) v, r4)
                                  | None => match pconst (skip r3) with
                                            | Some (c, r4) => DOk (TdSimple n (txt t) c, r4)
                                            | None => DOk (TdLate n (txt t), r2)
                                            end
                                  end
                         | None => DOk (TdLate n (txt t), r2)
                         end
                     | _ => DFail
                     end
            | [] => DFail
            end.

  Definition type_decl (f : nat) (ts : list tk) : D tk tdecl :=
    match ident ts with
    | Some (n, r) =>
        match next_is is_colon r with
        | Some r1 => type_spec f n (skip r1)
        | None => DFail
        end
    | None => DFail
    end.

  (* semisep(type_declaration) *)
  Fixpoint tdecls_more (f : nat) (acc : list tdecl) (ts : list tk) : D tk (list tdecl) :=
    match f with
    | O => DFuel
    | S f' =>
        match next_is is_semi ts with
        | Some r => match type_decl f' (skip r) with
                    | DOk (d, r') => tdecls_more f' (acc ++ [d]) r'
                    | DFail => DOk (acc, ts)
                    | DScope => DScope | DFuel => DFuel
                    end
        | None => DOk (acc, ts)
        end
    end.
  Definition tsemisep (f : nat) (ts : list tk) : D tk (list tdecl) :=
    match type_decl f ts with
    | DOk (d, r) =>
        match tdecls_more f [d] r with
        | DOk (l, r1) => match next_is is_semi r1 with
                         | Some r2 => DOk (l, r2)
                         | None => DFail
                         end
        | DFail => DFail | DScope => DScope | DFuel => DFuel
        end
    | DFail => match next_is is_semi ts with
               | Some r2 => DOk ([], r2)
               | None => DFail
               end
    | DScope => DScope | DFuel => DFuel
    end.

  (* data_type_declaration: TYPE _ semisep(type_declaration) _ END_TYPE; ts starts at TYPE *)
  Definition type_block (f : nat) (ts : list tk) : D tk (list tdecl) :=
    match ts with
    | t :: r =>
        if is_dk DkType (cl t) then
          match tsemisep f (skip r) with
          | DOk (l, r1) => match next_is (is_dk DkEndType) r1 with
                           | Some r2 => DOk (l, r2)
                           | None => DFail
                           end
          | DFail => DFail | DScope => DScope | DFuel => DFuel
          end
        else DFail
    | [] => DFail
    end.
End Types.
