(* Model of the variable declaration blocks of a function block (compiler/parser/src/parser.rs, B.1.4.3), with PEG
   semantics, on the token classes of Model/StParser.v:

     function_block_declaration   FUNCTION_BLOCK _ name _ (io_var_declarations / other_var_declarations) ** _ _ body _ END_FUNCTION_BLOCK
     io_var_declarations          VAR_INPUT (RETAIN / NON_RETAIN)? semisep(edge_declaration / var_init_decl) END_VAR
                                  / VAR_OUTPUT (RETAIN / NON_RETAIN)? semisep(var_init_decl) END_VAR
                                  / VAR_IN_OUT semisep(var_declaration) END_VAR
     other_var_declarations       VAR_EXTERNAL CONSTANT? semisep(external_declaration) END_VAR
                                  / VAR CONSTANT? semisep(var_init_decl) END_VAR / VAR RETAIN .. / VAR NON_RETAIN ..
     semisep(x)                   x ** (_ ';' _) _ ';'                    (an empty block needs a ';')
     var_init_decl                names ':' then, in this order:  type ':=' constant  /  name ':=' name (an enumerated
                                  value)  /  elementary type  /  name (resolved later)
     edge_declaration             names ':' BOOL (R_EDGE / F_EDGE)
     var_declaration (IN_OUT)     names ':' type              (kept as a late-resolved type, elementary or not)
     external_declaration         name ':' type               (one name)
     names                        identifier ++ (_ ',' _)

   Alternatives the model does not read are recognised and answered [DScope] (no claim): a ',' before the ':' (the
   function block instance form wants a trailing comma), '(' after the ':' or after the type (enumerations given by their
   values, subranges) or after ':=' (structure initializers); STRING, WSTRING, ARRAY, AT, located and typed literals are
   token classes outside the model's scope altogether.  Executable; no proofs in this file. *)
From Coq Require Import List NArith Bool.
From Verif Require Import Base.Res Base.Text Model.ExprParser Model.StParser.
Import ListNotations.

Inductive dinit :=
  | DSimple (ty : text) (v : option sleaf)      (* InitialValueAssignmentKind::Simple *)
  | DEnumType (ty : text) (v : text)            (* EnumeratedType with an initial value (no type prefix) *)
  | DLate (ty : text).                          (* LateResolvedType *)
Inductive dclass := DcInput | DcOutput | DcInOut | DcExternal | DcVar.
Inductive dqual := DqNone | DqConst | DqRetain | DqNonRetain.
Inductive ditem :=
  | DVar (name : text) (c : dclass) (q : dqual) (i : dinit)
  | DEdge (name : text) (rising : bool) (q : dqual).


Inductive dres (A : Type) : Type := DOk (a : A) | DFail | DScope | DFuel.
Arguments DOk {A} a.
Arguments DFail {A}.
Arguments DScope {A}.
Arguments DFuel {A}.

Section Decl.
  Variable tk : Type.
  Variable cl : tk -> tcl.
  Variable txt : tk -> text.
  Variable num : tk -> N.
  Variable tyname : tk -> text.          (* the name of the elementary type a type keyword stands for (TOD = TIME_OF_DAY ..) *)

  Notation skip := (StParser.skip tk cl).
  Notation next_is := (StParser.next_is tk cl).
  Notation ident := (StParser.ident tk cl txt).
  Notation leaf_of := (StParser.leaf_of tk txt num).

  Definition D (A : Type) := dres (A * list tk).

  Definition is_colon c := match c with CColon => true | _ => false end.
  Definition is_dk (k : dkw) c :=
    match c, k with
    | CDk DkVar, DkVar | CDk DkVarInput, DkVarInput | CDk DkVarOutput, DkVarOutput | CDk DkVarInOut, DkVarInOut
    | CDk DkVarExternal, DkVarExternal | CDk DkEndVar, DkEndVar | CDk DkConstant, DkConstant | CDk DkRetain, DkRetain
    | CDk DkNonRetain, DkNonRetain | CDk DkREdge, DkREdge | CDk DkFEdge, DkFEdge => true
    | _, _ => false
    end.

  (* constant(): the forms the statement model reads too *)
  Definition pconst (ts : list tk) : option (sleaf * list tk) :=
    match ts with
    | t :: r =>
        match cl t with
        | CConst k => Some (leaf_of k t, r)
        | COp BAdd => match r with
                      | d :: r' => match cl d with CConst CkInt => Some (LfInt false (num d), r') | _ => None end
                      | [] => None
                      end
        | CMinus => match r with
                    | d :: r' => match cl d with CConst CkInt => Some (LfInt true (num d), r') | _ => None end
                    | [] => None
                    end
        | CBoolT => match r with
                    | h :: v :: r' =>
                        match cl h, cl v with
                        | CHash, CConst CkTrue => Some (LfBool true, r')
                        | CHash, CConst CkFalse => Some (LfBool false, r')
                        | _, _ => None
                        end
                    | _ => None
                    end
        | _ => None
        end
    | [] => None
    end.

  (* identifier ++ (_ ',' _): the tail after one name *)
  Fixpoint names_more (f : nat) (acc : list text) (ts : list tk) : D (list text) :=
    match f with
    | O => DFuel
    | S f' =>
        match next_is is_comma ts with
        | Some r => match ident (skip r) with
                    | Some (n, r') => names_more f' (acc ++ [n]) r'
                    | None => DOk (acc, ts)
                    end
        | None => DOk (acc, ts)
        end
    end.
  Definition names (f : nat) (ts : list tk) : D (list text) :=
    match ident ts with
    | Some (n, r) => names_more f [n] r
    | None => DFail
    end.

  (* names _ ':' _ : the names and the position of the specification; a ',' before the ':' is the instance form *)
  Definition names_colon (f : nat) (ts : list tk) : D (list text) :=
    match names f ts with
    | DOk (ns, r) =>
        match next_is is_comma r with
        | Some _ => DScope
        | None => match next_is is_colon r with
                  | Some r1 => DOk (ns, skip r1)
                  | None => DFail
                  end
        end
    | DFail => DFail | DScope => DScope | DFuel => DFuel
    end.

  Definition is_type c := match c with CTyKw | CBoolT => true | _ => false end.
  Definition next_lp (ts : list tk) : bool := match next_is is_lp ts with Some _ => true | None => false end.

  (* simple_or_enumerated_or_subrange_ambiguous_struct_spec_init, ts at the type *)
  Definition spec_init (ts : list tk) : D dinit :=
    match ts with
    | t :: r =>
        if is_type (cl t) then
          match next_is is_assign r with
          | Some r1 => match pconst (skip r1) with
                       | Some (c, r2) => DOk (DSimple (tyname t) (Some c), r2)
                       | None => DOk (DSimple (tyname t) None, r)
                       end
          | None => if next_lp r then DScope else DOk (DSimple (tyname t) None, r)
          end
        else match cl t with
             | CId =>
                 match next_is is_assign r with
                 | Some r1 =>
                     match pconst (skip r1) with
                     | Some (c, r2) => DOk (DSimple (txt t) (Some c), r2)
                     | None =>
                         if next_lp r1 then DScope
                         else match ident (skip r1) with
                              | Some (v, r2) => DOk (DEnumType (txt t) v, r2)
                              | None => DOk (DLate (txt t), r)
                              end
                     end
                 | None => DOk (DLate (txt t), r)
                 end
             | CLP => DScope
             | _ => DFail
             end
    | [] => DFail
    end.

  Definition var_init_decl (c : dclass) (f : nat) (ts : list tk) : D (list ditem) :=
    match names_colon f ts with
    | DOk (ns, r) =>
        match spec_init r with
        | DOk (i, r') => DOk (map (fun n => DVar n c DqNone i) ns, r')
        | DFail => DFail | DScope => DScope | DFuel => DFuel
        end
    | DFail => DFail | DScope => DScope | DFuel => DFuel
    end.

  (* names _ ':' _ BOOL _ (R_EDGE / F_EDGE) *)
  Definition edge_decl (f : nat) (ts : list tk) : D (list ditem) :=
    match names_colon f ts with
    | DOk (ns, r) =>
        match r with
        | b :: r1 =>
            match cl b with
            | CBoolT =>
                match next_is (is_dk DkREdge) r1 with
                | Some r2 => DOk (map (fun n => DEdge n true DqNone) ns, r2)
                | None => match next_is (is_dk DkFEdge) r1 with
                          | Some r2 => DOk (map (fun n => DEdge n false DqNone) ns, r2)
                          | None => DFail
                          end
                end
            | _ => DFail
            end
        | [] => DFail
        end
    | DFail => DFail | DScope => DScope | DFuel => DFuel
    end.

  Definition input_decl (f : nat) (ts : list tk) : D (list ditem) :=
    match edge_decl f ts with
    | DOk x => DOk x
    | DFail => var_init_decl DcInput f ts
    | DScope => DScope | DFuel => DFuel
    end.

  (* var1_declaration of VAR_IN_OUT: names ':' (subrange / enumeration by values / simple_specification) *)
  Definition inout_decl (f : nat) (ts : list tk) : D (list ditem) :=
    match names_colon f ts with
    | DOk (ns, r) =>
        match r with
        | t :: r1 =>
            if is_type (cl t) then
              if next_lp r1 then DScope else DOk (map (fun n => DVar n DcInOut DqNone (DLate (tyname t))) ns, r1)
            else match cl t with
                 | CId => DOk (map (fun n => DVar n DcInOut DqNone (DLate (txt t))) ns, r1)
                 | CLP => DScope
                 | _ => DFail
                 end
        | [] => DFail
        end
    | DFail => DFail | DScope => DScope | DFuel => DFuel
    end.

  (* external_declaration: one name ':' simple_specification *)
  Definition external_decl (f : nat) (ts : list tk) : D (list ditem) :=
    match ident ts with
    | Some (n, r) =>
        match next_is is_colon r with
        | Some r1 =>
            match skip r1 with
            | t :: r2 =>
                if is_type (cl t) then DOk ([DVar n DcExternal DqNone (DSimple (tyname t) None)], r2)
                else match cl t with
                     | CId => DOk ([DVar n DcExternal DqNone (DSimple (txt t) None)], r2)
                     | _ => DFail
                     end
            | [] => DFail
            end
        | None => DFail
        end
    | None => DFail
    end.

  (* semisep(x): x ** (_ ';' _) _ ';' *)
  Fixpoint decls_more (x : nat -> list tk -> D (list ditem)) (f : nat) (acc : list ditem) (ts : list tk) : D (list ditem) :=
    match f with
    | O => DFuel
    | S f' =>
        match next_is is_semi ts with
        | Some r => match x f' (skip r) with
                    | DOk (d, r') => decls_more x f' (acc ++ d) r'
                    | DFail => DOk (acc, ts)
                    | DScope => DScope | DFuel => DFuel
                    end
        | None => DOk (acc, ts)
        end
    end.
  Definition semisep (x : nat -> list tk -> D (list ditem)) (f : nat) (ts : list tk) : D (list ditem) :=
    match x f ts with
    | DOk (d, r) =>
        match decls_more x f d r with
        | DOk (l, r1) => match next_is is_semi r1 with
                         | Some r2 => DOk (l, r2)
                         | None => DFail
                         end
        | DFail => DFail | DScope => DScope | DFuel => DFuel
        end
    | DFail => match next_is is_semi ts with
               | Some r2 => DOk ([], r2)
               | None => DFail
               end
    | DScope => DScope | DFuel => DFuel
    end.

  Definition set_qual (q : dqual) (d : ditem) : ditem :=
    match d with DVar n c _ i => DVar n c q i | DEdge n r _ => DEdge n r q end.

  (* the rest of a block after its keyword and qualifier: _ semisep(x) _ END_VAR *)
  Definition block_rest (x : nat -> list tk -> D (list ditem)) (q : dqual) (f : nat) (ts : list tk) : D (list ditem) :=
    match semisep x f (skip ts) with
    | DOk (l, r) => match next_is (is_dk DkEndVar) r with
                    | Some r1 => DOk (map (set_qual q) l, r1)
                    | None => DFail
                    end
    | DFail => DFail | DScope => DScope | DFuel => DFuel
    end.

  (* an optional RETAIN / NON_RETAIN after the block keyword *)
  Definition retain_qual (ts : list tk) : dqual * list tk :=
    match next_is (is_dk DkRetain) ts with
    | Some r => (DqRetain, r)
    | None => match next_is (is_dk DkNonRetain) ts with
              | Some r => (DqNonRetain, r)
              | None => (DqNone, ts)
              end
    end.
  Definition const_qual (ts : list tk) : dqual * list tk :=
    match next_is (is_dk DkConstant) ts with
    | Some r => (DqConst, r)
    | None => (DqNone, ts)
    end.

  (* io_var_declarations / other_var_declarations; ts starts at the block keyword *)
  Definition block (f : nat) (ts : list tk) : D (list ditem) :=
    match ts with
    | t :: r =>
        match cl t with
        | CDk DkVarInput => let '(q, r1) := retain_qual r in block_rest input_decl q f r1
        | CDk DkVarOutput => let '(q, r1) := retain_qual r in block_rest (var_init_decl DcOutput) q f r1
        | CDk DkVarInOut => block_rest inout_decl DqNone f r
        | CDk DkVarExternal => let '(q, r1) := const_qual r in block_rest external_decl q f r1
        | CDk DkVar =>
            (* var_declarations (CONSTANT?) / retentive / non_retentive: told apart by the token after VAR *)
            let '(q, r1) := const_qual r in
            match q with
            | DqConst => block_rest (var_init_decl DcVar) DqConst f r1
            | _ => match block_rest (var_init_decl DcVar) DqNone f r with
                   | DOk x => DOk x
                   | DFail => let '(q2, r2) := retain_qual r in
                              match q2 with
                              | DqNone => DFail
                              | _ => block_rest (var_init_decl DcVar) q2 f r2
                              end
                   | DScope => DScope | DFuel => DFuel
                   end
            end
        | _ => DFail
        end
    | [] => DFail
    end.

  (* (io_var_declarations / other_var_declarations) ** _ *)
  Fixpoint blocks (f : nat) (acc : list ditem) (ts : list tk) : D (list ditem) :=
    match f with
    | O => DFuel
    | S f' =>
        match block f' (skip ts) with
        | DOk (b, r) => blocks f' (acc ++ b) r
        | DFail => DOk (acc, ts)
        | DScope => DScope | DFuel => DFuel
        end
    end.
End Decl.
