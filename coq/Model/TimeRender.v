(* The renderer's text for the seconds of a time of day / date and time (plc2plc/src/renderer.rs, fraction_of_second and the
   two format! calls): two digits of seconds, '.', and the microseconds as six digits without trailing zeros, but at least
   two digits.  Read back by day_second = fixed_point (Model/Literals.v fixed_parse) and daytime. *)
From Coq Require Import List NArith Bool.
From Verif Require Import Base.Text Model.Literals.
Import ListNotations.
Open Scope N_scope.

(* format!("{:0>6}", micro) for micro < 10^6 *)
Definition digits6 (m : N) : list N :=
  [m / 100000 mod 10; m / 10000 mod 10; m / 1000 mod 10; m / 100 mod 10; m / 10 mod 10; m mod 10].

(* str::trim_end_matches('0'), on the reversed digits *)
Fixpoint drop_zeros (l : list N) : list N :=
  match l with
  | 0 :: r => drop_zeros r
  | _ => l
  end.

(* digits[..max(2, trimmed length)] *)
Definition fraction_of_second (micro : N) : list N :=
  let ds := digits6 micro in
  firstn (Nat.max 2 (length (drop_zeros (rev ds)))) ds.

Definition two_digits (v : N) : list N := [v / 10 mod 10; v mod 10].

Definition char_of_digit (d : N) : N := d + 48.

(* "{:0>2}.{}" of the seconds and the fraction *)
Definition seconds_text (sec micro : N) : text :=
  map char_of_digit (two_digits sec) ++ 46 :: map char_of_digit (fraction_of_second micro).

(* what the parser makes of that text within hour h, minute m: (h, m, s, nanoseconds) *)
Definition read_back (h m sec micro : N) : option (N * N * N * N) :=
  match fixed_parse (seconds_text sec micro) with
  | Some s => daytime h m s
  | None => None
  end.


(* DATE#{:0>4}-{:0>2}-{:0>2} (and the date part of DATE_AND_TIME#): the three fields, each read back by integer() *)
Definition digits4 (y : N) : list N := [y / 1000 mod 10; y / 100 mod 10; y / 10 mod 10; y mod 10].
Definition year_text (y : N) : text := map char_of_digit (digits4 y).
Definition two_text (v : N) : text := map char_of_digit (two_digits v).
Definition date_text (y m d : N) : text := year_text y ++ 45 :: two_text m ++ 45 :: two_text d.
Definition date_read_back (y m d : N) : option (N * N * N) :=
  match integer_new (year_text y), integer_new (two_text m), integer_new (two_text d) with
  | Some a, Some b, Some c => date_literal a b c
  | _, _, _ => None
  end.
