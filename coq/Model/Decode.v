(* Model of compiler/plc2x/src/source.rs: path_to_source's decoder cascade over encoding_rs.
   Encoding::decode sniffs a byte order mark first (UTF-8, UTF-16LE, UTF-16BE; the mark is removed and
   overrides the decoder asked for); a decoder "has errors" when the bytes are malformed for it.
   The cascade takes the first decoder without errors.  Bytes are N < 256; text is scalar values.
   Executable; no proofs in this file. *)
From Coq Require Import List NArith Bool.
From Verif Require Import Base.Text.
Import ListNotations.
Open Scope N_scope.

Definition bytes := list N.

(* ---- UTF-8 (WHATWG decoder: shortest form only, no surrogates, at most U+10FFFF) ---- *)
Definition cont (b : N) : bool := (128 <=? b) && (b <=? 191).

Fixpoint dec8 (bs : bytes) : option text :=
  match bs with
  | [] => Some []
  | b0 :: r =>
      if b0 <? 128 then option_map (cons b0) (dec8 r)
      else if (194 <=? b0) && (b0 <=? 223) then
        match r with
        | b1 :: r1 =>
            if cont b1 then option_map (cons ((b0 - 192) * 64 + (b1 - 128))) (dec8 r1) else None
        | _ => None
        end
      else if (224 <=? b0) && (b0 <=? 239) then
        match r with
        | b1 :: b2 :: r2 =>
            if ((if b0 =? 224 then 160 else 128) <=? b1) && (b1 <=? (if b0 =? 237 then 159 else 191)) && cont b2
            then option_map (cons ((b0 - 224) * 4096 + (b1 - 128) * 64 + (b2 - 128))) (dec8 r2)
            else None
        | _ => None
        end
      else if (240 <=? b0) && (b0 <=? 244) then
        match r with
        | b1 :: b2 :: b3 :: r3 =>
            if ((if b0 =? 240 then 144 else 128) <=? b1) && (b1 <=? (if b0 =? 244 then 143 else 191))
               && cont b2 && cont b3
            then option_map (cons ((b0 - 240) * 262144 + (b1 - 128) * 4096 + (b2 - 128) * 64 + (b3 - 128)))
                            (dec8 r3)
            else None
        | _ => None
        end
      else None
  end.

Definition enc8_char (c : N) : bytes :=
  if c <? 128 then [c]
  else if c <? 2048 then [192 + c / 64; 128 + c mod 64]
  else if c <? 65536 then [224 + c / 4096; 128 + (c / 64) mod 64; 128 + c mod 64]
  else [240 + c / 262144; 128 + (c / 4096) mod 64; 128 + (c / 64) mod 64; 128 + c mod 64].
Definition enc8 (t : text) : bytes := flat_map enc8_char t.

(* Unicode scalar value *)
Definition scalar (c : N) : bool := (c <? 55296) || ((57343 <? c) && (c <? 1114112)).

(* ---- UTF-16 ---- *)
Definition unit16 (be : bool) (x y : N) : N := if be then x * 256 + y else y * 256 + x.

Fixpoint dec16 (be : bool) (bs : bytes) : option text :=
  match bs with
  | [] => Some []
  | [_] => None
  | x :: y :: r =>
      let u := unit16 be x y in
      if (u <? 55296) || (57343 <? u) then option_map (cons u) (dec16 be r)
      else if u <? 56320 then
        match r with
        | x2 :: y2 :: r2 =>
            let v := unit16 be x2 y2 in
            if (56320 <=? v) && (v <=? 57343)
            then option_map (cons (65536 + (u - 55296) * 1024 + (v - 56320))) (dec16 be r2)
            else None
        | _ => None
        end
      else None
  end.

Definition enc16_unit (be : bool) (u : N) : bytes :=
  if be then [u / 256; u mod 256] else [u mod 256; u / 256].
Definition enc16_char (be : bool) (c : N) : bytes :=
  if c <? 65536 then enc16_unit be c
  else enc16_unit be (55296 + (c - 65536) / 1024) ++ enc16_unit be (56320 + (c - 65536) mod 1024).
Definition enc16 (be : bool) (t : text) : bytes := flat_map (enc16_char be) t.

(* ---- Windows-1252 (WHATWG index: total) ---- *)
Definition table_1252 : list N :=
  [8364; 129; 8218; 402; 8222; 8230; 8224; 8225; 710; 8240; 352; 8249; 338; 141; 381; 143;
   144; 8216; 8217; 8220; 8221; 8226; 8211; 8212; 732; 8482; 353; 8250; 339; 157; 382; 376].
Definition dec1252_byte (b : N) : N :=
  if (128 <=? b) && (b <? 160) then nth (N.to_nat (b - 128)) table_1252 b else b.
Definition dec1252 (bs : bytes) : text := map dec1252_byte bs.

Fixpoint index_of (c : N) (l : list N) (i : N) : option N :=
  match l with
  | [] => None
  | x :: r => if x =? c then Some i else index_of c r (i + 1)
  end.
Definition enc1252_char (c : N) : option N :=
  if c <? 128 then Some c
  else if (160 <=? c) && (c <? 256) then Some c
  else index_of c table_1252 128.
Fixpoint enc1252 (t : text) : option bytes :=
  match t with
  | [] => Some []
  | c :: r =>
      match enc1252_char c, enc1252 r with
      | Some b, Some bs => Some (b :: bs)
      | _, _ => None
      end
  end.

(* ---- Encoding::decode with BOM sniffing, and the cascade of source.rs ---- *)
Inductive enc := E8 | E16LE | E16BE | E1252.

Definition sniff (bs : bytes) : option (enc * bytes) :=
  match bs with
  | 239 :: 187 :: 191 :: r => Some (E8, r)
  | 255 :: 254 :: r => Some (E16LE, r)
  | 254 :: 255 :: r => Some (E16BE, r)
  | _ => None
  end.

Definition dec_with (e : enc) (bs : bytes) : option text :=
  match e with
  | E8 => dec8 bs
  | E16LE => dec16 false bs
  | E16BE => dec16 true bs
  | E1252 => Some (dec1252 bs)
  end.

(* Encoding::decode: None = had_errors *)
Definition decode_as (default : enc) (bs : bytes) : option text :=
  match sniff bs with
  | Some (e, body) => dec_with e body
  | None => dec_with default bs
  end.

(* the decoder list is generated from source.rs (Gen.GenDecoders); path_to_source = first without errors *)
Fixpoint cascade (decoders : list enc) (bs : bytes) : option text :=
  match decoders with
  | [] => None                       (* Problem::UnsupportedEncoding *)
  | d :: r => match decode_as d bs with Some t => Some t | None => cascade r bs end
  end.
