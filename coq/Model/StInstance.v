(* The statement / expression parser model on the real token kinds: classes of the tokens of token.rs, operator levels
   from the regenerated precedence table, and the entry point used by the correspondence check: the body of
   `FUNCTION_BLOCK name <body> END_FUNCTION_BLOCK` as parse_program reads it (tokenize, insert the terminators after
   END_IF, library / function_block_declaration wrapper, function_block_body).  Executable; no proofs in this file. *)
From Coq Require Import List NArith Bool String Arith.
From Verif Require Import Base.Res Base.Text Gen.GenTokens Gen.GenPrec Model.Lexer Model.Literals Model.ExprParser Model.StParser Model.DeclParser.
Import ListNotations.

Definition binop_index (o : binop) : nat :=
  match o with BOr => 0 | BXor => 1 | BAnd => 2 | BEq => 3 | BNe => 4 | BLt => 5 | BGt => 6 | BLe => 7 | BGe => 8
             | BAdd => 9 | BSub => 10 | BMul => 11 | BDiv => 12 | BMod => 13 | BPow => 14 end.
Definition binop_eqb (a b : binop) : bool := Nat.eqb (binop_index a) (binop_index b).

(* operators: token kind -> operator by the regenerated table; '-' is also the unary minus *)
Definition kind_class (k : tok_kind) : tcl :=
  match find_level (tok_name k) prec_table O with
  | Some (_, o) => if kind_eqb k KMinus then CMinus else COp o
  | None =>
      match k with
      | KWhitespace | KNewline | KComment => CTriv
      | KIdentifier => CId
      | KDigits => CConst CkInt
      | KTrue => CConst CkTrue
      | KFalse => CConst CkFalse
      | KSingleByteString => CConst CkStr
      | KDoubleByteString => CConst CkWStr
      | KLeftParen => CLP
      | KRightParen => CRP
      | KComma => CComma
      | KSemicolon => CSemi
      | KAssignment => CAssign
      | KRightArrow => CArrow
      | KNot => CNot
      | KIf => CKw KwIf | KThen => CKw KwThen | KElsif => CKw KwElsif | KElse => CKw KwElse | KEndIf => CKw KwEndIf
      | KFor => CKw KwFor | KTo => CKw KwTo | KBy => CKw KwBy | KDo => CKw KwDo | KEndFor => CKw KwEndFor
      | KWhile => CKw KwWhile | KEndWhile => CKw KwEndWhile
      | KRepeat => CKw KwRepeat | KUntil => CKw KwUntil | KEndRepeat => CKw KwEndRepeat
      | KExit => CKw KwExit | KReturn => CKw KwReturn
      | KEndFunctionBlock | KEndProgram | KEndFunction | KFunctionBlock | KProgram | KFunction => CKw KwEndPou      (* the keywords at the boundaries of units *)
      | KBool => CBoolT
      | KHash => CHash
      | KPeriod => CDot
      | KLeftBracket => CLB
      | KRightBracket => CRB
      | KRange => CRange
      | KColon => CColon
      | KCase => CKw KwCase | KOf => CKw KwOf | KEndCase => CKw KwEndCase
      | KSint => CTyKw TSint | KInt => CTyKw TInt | KDint => CTyKw TDint | KLint => CTyKw TLint
      | KUsint => CTyKw TUsint | KUint => CTyKw TUint | KUdint => CTyKw TUdint | KUlint => CTyKw TUlint
      | KReal => CTyKw TReal | KLreal => CTyKw TLreal
      | KTime => CTyKw TTime | KDate => CTyKw TDate | KTimeOfDay => CTyKw TTod | KDateAndTime => CTyKw TDt
      | KByte => CTyKw TByte | KWord => CTyKw TWord | KDword => CTyKw TDword | KLword => CTyKw TLword
      | KHexDigits => CConst CkHex | KOctDigits => CConst CkOct | KBinDigits => CConst CkBin
      | KFixedPoint => CConst CkFixed | KFloatingPoint => CConst CkFloat
      | KVar => CDk DkVar | KVarInput => CDk DkVarInput | KVarOutput => CDk DkVarOutput | KVarInOut => CDk DkVarInOut
      | KVarExternal => CDk DkVarExternal | KEndVar => CDk DkEndVar | KConstant => CDk DkConstant | KRetain => CDk DkRetain
      | KNonRetain => CDk DkNonRetain | KREdge => CDk DkREdge | KFEdge => CDk DkFEdge
      | KType => CDk DkType | KEndType => CDk DkEndType | KArray => CDk DkArray
      | _ => COther
      end
  end.

(* a Digits token is an integer constant when Integer::new accepts it (below 2^128); otherwise constant() fails on
   it and the text is outside the model *)
(* a real token is a constant of the model when its value is certainly finite: at most 200 characters before the '.', an
   exponent of at most two digits (RealLiteral::try_parse rejects what f64::from_str reads as infinity; anything longer is
   outside the model, not misread) *)
Definition is_e (c : N) : bool := N.eqb c 101 || N.eqb c 69.
Fixpoint split_at (p : N -> bool) (tx : text) : text * text :=
  match tx with
  | [] => ([], [])
  | c :: r => if p c then ([], r) else let '(a, b) := split_at p r in (c :: a, b)
  end.
Definition real_in_model (tx : text) : bool :=
  let '(whole, rest) := split_at (N.eqb 46) tx in
  let '(_, ex) := split_at is_e rest in
  Nat.leb (List.length whole) 200 && Nat.leb (List.length (filter is_digit ex)) 2.

Definition tok_class (t : token) : tcl :=
  match kind_class (t_kind t) with
  | CConst CkInt => match integer_new (t_text t) with Some _ => CConst CkInt | None => COther end
  | CConst CkHex => match try_hex (t_text t) with Some _ => CConst CkHex | None => COther end
  | CConst CkOct => match try_octal (t_text t) with Some _ => CConst CkOct | None => COther end
  | CConst CkBin => match try_binary (t_text t) with Some _ => CConst CkBin | None => COther end
  | CConst CkFixed => if real_in_model (t_text t) then CConst CkFixed else COther
  | CConst CkFloat => if real_in_model (t_text t) then CConst CkFloat else COther
  | c => c
  end.

Definition op_level (o : binop) : nat :=
  match find (fun k => match find_level (tok_name k) prec_table O with
                       | Some (_, o') => binop_eqb o o'
                       | None => false
                       end) all_kinds with
  | Some k => match find_level (tok_name k) prec_table O with Some (lv, _) => lv | None => O end
  | None => O
  end.

Inductive outcome := OParsed (l : list stmt) | ORejected | OFuel | OScope.

Definition tok_num (t : token) : N :=
  match (if kind_eqb (t_kind t) KHexDigits then try_hex (t_text t)
         else if kind_eqb (t_kind t) KOctDigits then try_octal (t_text t)
         else if kind_eqb (t_kind t) KBinDigits then try_binary (t_text t)
         else integer_new (t_text t)) with
  | Some v => v | None => 0%N end.

Definition st_skip := StParser.skip token tok_class.

(* library: _ declaration ** _ _ ; function_block_declaration: FUNCTION_BLOCK _ name _ (declarations ** _) _ body _
   END_FUNCTION_BLOCK.  No variable declarations here (their first token is outside the model). *)
Definition parse_fb_tokens (toks : list token) : outcome :=
  match st_skip toks with
  | fb :: r =>
      if kind_eqb (t_kind fb) KFunctionBlock then
        match st_skip r with
        | nm :: r1 =>
            if kind_eqb (t_kind nm) KIdentifier then
              let r2 := st_skip r1 in
              if in_scope token tok_class r2 then
                match body token tok_class t_text tok_num op_level (3 * List.length toks + 8) r2 with
                | Ok (l, r3) =>
                    match st_skip r3 with
                    | e :: r4 => if kind_eqb (t_kind e) KEndFunctionBlock
                                 then match st_skip r4 with [] => OParsed l | _ => ORejected end
                                 else ORejected
                    | [] => ORejected
                    end
                | Fail => ORejected
                | Panic => ORejected
                | OutOfFuel => OFuel
                end
              else OScope
            else OScope
        | [] => OScope
        end
      else OScope
  | [] => OScope
  end.

(* ---- with variable declaration blocks (Model/DeclParser.v) ---- *)
Local Open Scope string_scope.
(* From<ElementaryTypeName> for Type: the name an elementary type keyword stands for *)
Definition ty_name (t : token) : text :=
  text_of_string
    (match t_kind t with
     | KBool => "BOOL" | KSint => "SINT" | KInt => "INT" | KDint => "DINT" | KLint => "LINT" | KUsint => "USINT" | KUint => "UINT"
     | KUdint => "UDINT" | KUlint => "ULINT" | KReal => "REAL" | KLreal => "LREAL" | KTime => "TIME" | KDate => "DATE"
     | KTimeOfDay => "TIME_OF_DAY" | KDateAndTime => "DATE_AND_TIME" | KByte => "BYTE" | KWord => "WORD" | KDword => "DWORD"
     | KLword => "LWORD" | _ => ""
     end).

Inductive outcome2 := O2Parsed (ds : list ditem) (l : list stmt) | O2Rejected | O2Fuel | O2Scope.

(* function_block_declaration: FUNCTION_BLOCK _ name _ (declarations ** _) _ body _ END_FUNCTION_BLOCK *)
Definition parse_fbd_tokens (toks : list token) : outcome2 :=
  match st_skip toks with
  | fb :: r =>
      if kind_eqb (t_kind fb) KFunctionBlock then
        match st_skip r with
        | nm :: r1 =>
            if kind_eqb (t_kind nm) KIdentifier then
              let r2 := st_skip r1 in
              if in_scope token tok_class r2 then
                let fuel := (3 * List.length toks + 8)%nat in
                match blocks token tok_class t_text tok_num ty_name fuel [] r2 with
                | DOk (ds, rb) =>
                    match body token tok_class t_text tok_num op_level fuel (st_skip rb) with
                    | Ok (l, r3) =>
                        match st_skip r3 with
                        | e :: r4 => if kind_eqb (t_kind e) KEndFunctionBlock
                                     then match st_skip r4 with [] => O2Parsed ds l | _ => O2Rejected end
                                     else O2Rejected
                        | [] => O2Rejected
                        end
                    | Fail => O2Rejected
                    | Panic => O2Rejected
                    | OutOfFuel => O2Fuel
                    end
                | DFail => O2Rejected
                | DScope => O2Scope
                | DFuel => O2Fuel
                end
              else O2Scope
            else O2Scope
        | [] => O2Scope
        end
      else O2Scope
  | [] => O2Scope
  end.

Definition parse_fbd_text (t : text) : outcome2 :=
  let '(toks, errs) := tokenize_program t in
  match errs with
  | [] => parse_fbd_tokens (map norm_tok toks)      (* positions play no role in the grammar *)
  | _ => O2Rejected
  end.

(* ---- a library of function blocks and programs:  _ library_element_declaration ** _ _  and the end of the text ---- *)
Inductive ukind := UFb | UProgram.
Record unit_ := mkUnit { u_kind : ukind; u_name : text; u_decls : list ditem; u_body : list stmt }.
Inductive ures := UOk (u : unit_) (rest : list token) | UFail | UScope | UFuel.

(* function_block_declaration / program_declaration; ts starts at the keyword.  In a program the further alternatives of a
   declaration block (VAR_ACCESS, located variables) need tokens outside the model's scope. *)
Definition parse_unit (fuel : nat) (ts : list token) : ures :=
  match ts with
  | kw :: r =>
      match (if kind_eqb (t_kind kw) KFunctionBlock then Some (UFb, KEndFunctionBlock)
             else if kind_eqb (t_kind kw) KProgram then Some (UProgram, KEndProgram) else None) with
      | None => UFail
      | Some (uk, endk) =>
          match st_skip r with
          | nm :: r1 =>
              if kind_eqb (t_kind nm) KIdentifier then
                match blocks token tok_class t_text tok_num ty_name fuel [] (st_skip r1) with
                | DOk (ds, rb) =>
                    match body token tok_class t_text tok_num op_level fuel (st_skip rb) with
                    | Ok (l, r3) =>
                        match st_skip r3 with
                        | e :: r4 => if kind_eqb (t_kind e) endk then UOk (mkUnit uk (t_text nm) ds l) r4 else UFail
                        | [] => UFail
                        end
                    | Fail => UFail
                    | Panic => UFail
                    | OutOfFuel => UFuel
                    end
                | DFail => UFail
                | DScope => UScope
                | DFuel => UFuel
                end
              else UFail
          | [] => UFail
          end
      end
  | [] => UFail
  end.

Inductive lres := LOk (us : list unit_) (rest : list token) | LScope | LFuel.
Fixpoint units (fuel n : nat) (acc : list unit_) (ts : list token) : lres :=
  match n with
  | O => LFuel
  | S n' =>
      match parse_unit fuel (st_skip ts) with
      | UOk u r => units fuel n' (acc ++ [u]) r
      | UFail => match st_skip ts with
                 | t :: _ => if kind_eqb (t_kind t) KFunction then LScope else LOk acc ts   (* functions: the model below *)
                 | [] => LOk acc ts
                 end
      | UScope => LScope
      | UFuel => LFuel
      end
  end.

Inductive outcome3 := O3Parsed (us : list unit_) | O3Rejected | O3Fuel | O3Scope.
Definition parse_lib_tokens (toks : list token) : outcome3 :=
  if in_scope token tok_class toks then
    let fuel := (3 * List.length toks + 8)%nat in
    match units fuel fuel [] toks with
    | LOk us r => match st_skip r with [] => O3Parsed us | _ => O3Rejected end
    | LScope => O3Scope
    | LFuel => O3Fuel
    end
  else O3Scope.

(* ---- ... and TYPE blocks among them ---- *)
Definition is_int_ty (t : token) : bool :=
  match t_kind t with KSint | KInt | KDint | KLint | KUsint | KUint | KUdint | KUlint => true | _ => false end.

(* function_declaration: FUNCTION _ name _ ':' _ (elementary type / name) _ (io_var_declarations / function_var_decls) ** _ _
   statement_list _ END_FUNCTION.  The statement list is required (at least a ';'). *)
Record func_ := mkFunc { fn_name : text; fn_ret : text; fn_decls : list ditem; fn_body : list stmt }.
Inductive fres := FOk (f : func_) (rest : list token) | FFail | FScope | FFuel.
Definition parse_function (fuel : nat) (ts : list token) : fres :=
  match ts with
  | kw :: r =>
      if kind_eqb (t_kind kw) KFunction then
        match st_skip r with
        | nm :: r1 =>
            if kind_eqb (t_kind nm) KIdentifier then
              match next_is token tok_class is_colon r1 with
              | Some r2 =>
                  match st_skip r2 with
                  | t :: r3 =>
                      match (if is_type (tok_class t) then Some (ty_name t)
                             else match tok_class t with CId => Some (t_text t) | _ => None end) with
                      | Some rt =>
                          match fblocks token tok_class t_text tok_num ty_name fuel [] (st_skip r3) with
                          | DOk (ds, rb) =>
                              match plist token tok_class t_text tok_num op_level fuel (st_skip rb) with
                              | Ok (l, r4) =>
                                  match st_skip r4 with
                                  | e :: r5 => if kind_eqb (t_kind e) KEndFunction then FOk (mkFunc (t_text nm) rt ds l) r5 else FFail
                                  | [] => FFail
                                  end
                              | Fail => FFail
                              | Panic => FFail
                              | OutOfFuel => FFuel
                              end
                          | DFail => FFail
                          | DScope => FScope
                          | DFuel => FFuel
                          end
                      | None => FFail
                      end
                  | [] => FFail
                  end
              | None => FFail
              end
            else FFail
        | [] => FFail
        end
      else FFail
  | [] => FFail
  end.

Inductive elem := ETypes (l : list tdecl) | EUnit (u : unit_) | EFunc (f : func_).
Inductive l2res := L2Ok (es : list elem) (rest : list token) | L2Scope | L2Fuel.
(* library_element_declaration: data_type_declaration / function_declaration / function_block_declaration / program_declaration *)
Fixpoint elements (fuel n : nat) (acc : list elem) (ts : list token) : l2res :=
  match n with
  | O => L2Fuel
  | S n' =>
      match type_block token tok_class t_text tok_num ty_name is_int_ty fuel (st_skip ts) with
      | DOk (l, r) => elements fuel n' (acc ++ [ETypes l]) r
      | DScope => L2Scope
      | DFuel => L2Fuel
      | DFail =>
          match parse_function fuel (st_skip ts) with
          | FOk f r => elements fuel n' (acc ++ [EFunc f]) r
          | FScope => L2Scope
          | FFuel => L2Fuel
          | FFail =>
              match parse_unit fuel (st_skip ts) with
              | UOk u r => elements fuel n' (acc ++ [EUnit u]) r
              | UFail => L2Ok acc ts
              | UScope => L2Scope
              | UFuel => L2Fuel
              end
          end
      end
  end.

Inductive outcome4 := O4Parsed (es : list elem) | O4Rejected | O4Fuel | O4Scope.
Definition parse_lib2_tokens (toks : list token) : outcome4 :=
  if in_scope token tok_class toks then
    let fuel := (3 * List.length toks + 8)%nat in
    match elements fuel fuel [] toks with
    | L2Ok es r => match st_skip r with [] => O4Parsed es | _ => O4Rejected end
    | L2Scope => O4Scope
    | L2Fuel => O4Fuel
    end
  else O4Scope.

Definition parse_lib2_text (t : text) : outcome4 :=
  let '(toks, errs) := tokenize_program t in
  match errs with
  | [] => parse_lib2_tokens (map norm_tok toks)      (* positions play no role in the grammar *)
  | _ => O4Rejected
  end.

Definition parse_lib_text (t : text) : outcome3 :=
  let '(toks, errs) := tokenize_program t in
  match errs with
  | [] => parse_lib_tokens (map norm_tok toks)      (* positions play no role in the grammar *)
  | _ => O3Rejected
  end.

Definition parse_fb_text (t : text) : outcome :=
  let '(toks, errs) := tokenize_program t in
  match errs with
  | [] => parse_fb_tokens (map norm_tok toks)      (* positions play no role in the grammar *)
  | _ => ORejected
  end.
