(* What the renderer writes for a whole library (plc2plc/src/renderer.rs): every data type declaration in a TYPE block of its
   own (visit_data_type_declaration_kind), function blocks and programs with their declarations (Model/StRender.v: one block
   per variable) and statements.  As in StRender.v the model builds the spelled tree of what is written; the tokens are its
   flattening.  Blanks follow write_ws: one before every word except after a line break, none after a '-' or '..' written
   with write. *)
From Coq Require Import List NArith Bool.
From Verif Require Import Base.Text Gen.GenTokens Model.Lexer Model.ExprParser Model.StParser Model.DeclParser Model.StInstance
  Proofs.StExprProofs Proofs.StStmtProofs Proofs.DeclProofs Proofs.TypeProofs Proofs.LibProofs Model.StRender.
Import ListNotations.

Definition lead (neg : bool) : list token := if neg then [] else ws1.
Definition range_sp (r : (bool * N) * (bool * N)) : srange token :=
  let '((n1, v1), (n2, v2)) := r in SRange token (sint_sp n1 v1) [] range_t (lead n2) (sint_sp n2 v2).
Definition range_neg (r : (bool * N) * (bool * N)) : bool := fst (fst r).
Definition ranges_sp (l : list ((bool * N) * (bool * N))) : sranges token :=
  match l with
  | [] => RsNone token
  | r :: ms => RsSome token (range_sp r) (map (fun m => RMore token ws1 comma_t (lead (range_neg m)) (range_sp m)) ms)
  end.
Definition ranges_lead (l : list ((bool * N) * (bool * N))) : list token := match l with r :: _ => lead (range_neg r) | [] => ws1 end.
Definition names_sp (l : list text) : snames token :=
  match l with
  | [] => one_name []                                   (* no value: outside the guard *)
  | n :: ms => mkNames token (id_tok n) (map (fun m => NmMore token ws1 comma_t ws1 (id_tok m)) ms)
  end.
Definition tdecl_sp (d : tdecl) : stdecl token :=
  match d with
  | TdArray n rs ty =>
      StArray token (id_tok n) ws1 colon_t ws1 (kwt KArray) ws1 lb_t (ranges_lead rs) (ranges_sp rs) ws1 rb_t ws1 (kwt KOf) ws1 (ty_tok ty)
  | TdSubrange n ty lo hi d =>
      StSubrange token (id_tok n) ws1 colon_t ws1 (ty_tok ty) ws1 lpt (lead (fst lo)) (range_sp (lo, hi)) ws1 rpt
        (match d with
         | None => DfNone token _
         | Some (dn, dv) => DfSome token _ ws1 assign_t (lead dn) (sint_sp dn dv)
         end)
  | TdEnum n vs d =>
      StEnum token (id_tok n) ws1 colon_t ws1 lpt ws1 (names_sp vs) ws1 rpt
        (match d with None => DfNone token _ | Some v => DfSome token _ ws1 assign_t ws1 (id_tok v) end)
  | TdEnumOf n b v => StEnumOf token (id_tok n) ws1 colon_t ws1 (id_tok b) ws1 assign_t ws1 (id_tok v)
  | TdSimple n ty c => StSimple token (id_tok n) ws1 colon_t ws1 (ty_tok ty) ws1 assign_t ws1 (const_sp c)
  | TdLate n b => StLate token (id_tok n) ws1 colon_t ws1 (id_tok b)
  end.
(* TYPE \n  declaration ; \n END_TYPE \n *)
Definition tblock_sp (d : tdecl) : stblock token :=
  mkTBlock token (kwt KType) nl1 (TsSome token (tdecl_sp d) [] ws1 semi_t) nl1 (kwt KEndType).

Definition unit_kws (k : ukind) : tok_kind * tok_kind :=
  match k with UFb => (KFunctionBlock, KEndFunctionBlock) | UProgram => (KProgram, KEndProgram) end.
Definition unit_sp (u : unit_) : sunit :=
  let '(k1, k2) := unit_kws (u_kind u) in
  match u_body u with
  | [] => mkSUnit (kwt k1) ws1 (id_tok (u_name u)) (map wb_sp (u_decls u)) [] None nl1 (kwt k2)
  | x :: l => mkSUnit (kwt k1) ws1 (id_tok (u_name u)) (map wb_sp (u_decls u)) nl1 (Some (list_sp ss_of x l)) nl1 (kwt k2)
  end.

(* FUNCTION name : type, one block per variable, the statements -- an empty list is written as an empty statement *)
Definition func_sp (f : func_) : sfunc :=
  mkSFunc (kwt KFunction) ws1 (id_tok (fn_name f)) ws1 colon_t ws1 (ty_tok (fn_ret f)) (map wb_sp (fn_decls f)) nl1
    (body_sp ss_of (fn_body f)) (tail_gap (fn_body f)) (kwt KEndFunction).

Definition elem_sp (e : elem) : list swe :=
  match e with
  | ETypes l => map (fun d => WE nl1 (SeTypes (tblock_sp d))) l
  | EUnit u => [WE nl1 (SeUnit (unit_sp u))]
  | EFunc f => [WE nl1 (SeFunc (func_sp f))]
  end.
Definition render_lib2 (es : list elem) : list token := flat_lib2 (flat_map elem_sp es) ++ nl1.

(* the library holds a flat sequence of declarations: one TYPE block per declaration is the same library *)
Definition split_types (es : list elem) : list elem :=
  flat_map (fun e => match e with ETypes l => map (fun d => ETypes [d]) l | EUnit u => [EUnit u] | EFunc f => [EFunc f] end) es.
