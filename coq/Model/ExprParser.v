(* Model of the expression grammar of compiler/parser/src/parser.rs: the peg `precedence!` climbing loop
   (peg-macros 0.8: atoms first, then repeatedly the first infix operator whose level is at least the
   minimum and whose right operand parses one level higher), `unary_expression` (optional unary operator,
   trivia, primary expression) and `primary_expression` restricted to integer constants, plain
   identifiers (with the look-ahead that excludes a following '(' '[' '.') and parenthesised expressions.
   `_` is the trivia rule (Whitespace, Newline, Comment tokens).
   The model is generic in the token type; Section instance below plugs in the real token kinds and the
   operator levels of the regenerated precedence table.  Recursion is open and tied with fuel; running out
   of fuel is a distinct outcome.  Executable; no proofs in this file. *)
From Coq Require Import List NArith Bool String Arith.
From Verif Require Import Base.Res Base.Text Gen.GenTokens Gen.GenPrec Model.Lexer.
Import ListNotations.

Section Generic.
  Variable tk : Type.
  Variable B U A : Type.                          (* binary operators, unary operators, atoms *)
  Variable triv : tk -> bool.                     (* the trivia rule `_` skips these *)
  Variable bop : tk -> option (nat * B).          (* infix operator token: level (0 = lowest) and operator *)
  Variable uop : tk -> option U.                  (* unary operator token *)
  Variable atom : tk -> option (A * bool).        (* constant or identifier token; true = identifier (needs the look-ahead) *)
  Variable lp rp : tk -> bool.                    (* parentheses *)
  Variable noafter : tk -> bool.                  (* tokens that must not follow an identifier: '(' '[' '.' *)

  Inductive expr :=
    | EAtom (a : A)
    | EBin (o : B) (l r : expr)
    | EUn (o : U) (e : expr).

  Definition PR := res (expr * list tk).

  Fixpoint skip (ts : list tk) : list tk :=
    match ts with
    | t :: r => if triv t then skip r else ts
    | [] => []
    end.

  (* primary_expression; [pe minp ts] is the recursive expression parser *)
  Definition prim (pe : nat -> list tk -> PR) (ts : list tk) : PR :=
    match ts with
    | t :: r =>
        match atom t with
        | Some (a, false) => Ok (EAtom a, r)
        | Some (a, true) =>
            (* identifier _ !( '(' / '[' / '.' ): the trivia is consumed on success *)
            match skip r with
            | n :: _ => if noafter n then Fail else Ok (EAtom a, skip r)
            | [] => Ok (EAtom a, skip r)
            end
        | None =>
            if lp t then
              match pe O (skip r) with
              | Ok (e, r') => match skip r' with
                              | c :: r'' => if rp c then Ok (e, r'') else Fail
                              | [] => Fail
                              end
              | Fail => Fail
              | Panic => Panic
              | OutOfFuel => OutOfFuel
              end
            else Fail
        end
    | [] => Fail
    end.

  (* unary_expression: unary_operator()? _ primary_expression() *)
  Definition unary (pe : nat -> list tk -> PR) (ts : list tk) : PR :=
    match ts with
    | t :: r =>
        match uop t with
        | Some o =>
            match prim pe (skip r) with
            | Ok (e, r') => Ok (EUn o e, r')
            | Fail => prim pe (skip ts)         (* the optional operator is given up *)
            | Panic => Panic
            | OutOfFuel => OutOfFuel
            end
        | None => prim pe (skip ts)
        end
    | [] => prim pe (skip ts)
    end.

  (* the climbing loop: acc is the left operand built so far *)
  Fixpoint loop (pe : nat -> list tk -> PR) (f : nat) (minp : nat) (acc : expr) (ts : list tk) : PR :=
    match f with
    | O => OutOfFuel
    | S f' =>
        match skip ts with
        | t :: r =>
            match bop t with
            | Some (lv, o) =>
                if Nat.leb minp lv then
                  match pe (S lv) (skip r) with
                  | Ok (e, r') => loop pe f' minp (EBin o acc e) r'
                  | Fail => Ok (acc, ts)
                  | Panic => Panic
                  | OutOfFuel => OutOfFuel
                  end
                else Ok (acc, ts)
            | None => Ok (acc, ts)
            end
        | [] => Ok (acc, ts)
        end
    end.

  Fixpoint parse_e (f : nat) (minp : nat) (ts : list tk) : PR :=
    match f with
    | O => OutOfFuel
    | S f' =>
        match unary (parse_e f') ts with
        | Ok (a, r) => loop (parse_e f') f' minp a r
        | Fail => Fail
        | Panic => Panic
        | OutOfFuel => OutOfFuel
        end
    end.
End Generic.

(* ------------------------------------------------------------------------------------ *)
(* the instance for the real tokens *)

Inductive binop := BOr | BXor | BAnd | BEq | BNe | BLt | BGt | BLe | BGe | BAdd | BSub | BMul | BDiv | BMod | BPow.
Inductive unop := UNeg | UNot.
Inductive leaf := LInt (digits : text) | LName (name : text).

Local Open Scope string_scope.
Definition binop_of_name (s : string) : option binop :=
  if String.eqb s "Or" then Some BOr else if String.eqb s "Xor" then Some BXor else if String.eqb s "And" then Some BAnd
  else if String.eqb s "Eq" then Some BEq else if String.eqb s "Ne" then Some BNe else if String.eqb s "Lt" then Some BLt
  else if String.eqb s "Gt" then Some BGt else if String.eqb s "LtEq" then Some BLe else if String.eqb s "GtEq" then Some BGe
  else if String.eqb s "Add" then Some BAdd else if String.eqb s "Sub" then Some BSub else if String.eqb s "Mul" then Some BMul
  else if String.eqb s "Div" then Some BDiv else if String.eqb s "Mod" then Some BMod else if String.eqb s "Pow" then Some BPow
  else None.

(* level and operator of a token kind, read off the regenerated precedence table (lowest level = 0) *)
Fixpoint find_level (name : string) (tbl : list (list (string * string * string * string))) (lv : nat) : option (nat * binop) :=
  match tbl with
  | [] => None
  | row :: rest =>
      match find (fun e : string * string * string * string => String.eqb (fst (fst (fst e))) name) row with
      | Some e => match binop_of_name (snd (fst e)) with Some o => Some (lv, o) | None => None end
      | None => find_level name rest (S lv)
      end
  end.
Close Scope string_scope.

Definition tok_bop (t : token) : option (nat * binop) := find_level (tok_name (t_kind t)) prec_table O.
Definition tok_uop (t : token) : option unop :=
  if kind_eqb (t_kind t) KMinus then Some UNeg else if kind_eqb (t_kind t) KNot then Some UNot else None.
Definition tok_atom (t : token) : option (leaf * bool) :=
  if kind_eqb (t_kind t) KDigits then Some (LInt (t_text t), false)
  else if kind_eqb (t_kind t) KIdentifier then Some (LName (t_text t), true)
  else None.
Definition tok_triv (t : token) : bool :=
  kind_eqb (t_kind t) KWhitespace || kind_eqb (t_kind t) KNewline || kind_eqb (t_kind t) KComment.
Definition tok_lp (t : token) : bool := kind_eqb (t_kind t) KLeftParen.
Definition tok_rp (t : token) : bool := kind_eqb (t_kind t) KRightParen.
Definition tok_noafter (t : token) : bool :=
  kind_eqb (t_kind t) KLeftParen || kind_eqb (t_kind t) KLeftBracket || kind_eqb (t_kind t) KPeriod.

Definition rexpr := expr binop unop leaf.
Definition parse_expr (f : nat) (minp : nat) (ts : list token) : res (rexpr * list token) :=
  parse_e token binop unop leaf tok_triv tok_bop tok_uop tok_atom tok_lp tok_rp tok_noafter f minp ts.

(* the whole text of an expression: tokenize, parse with fuel proportional to the number of tokens *)
Definition parse_expr_text (t : text) : res (rexpr * list token) :=
  (* the context of an expression (':=' _ expression) has consumed the trivia in front of it *)
  let toks := skip token tok_triv (tokens_of (lex_items t)) in
  parse_expr (2 * List.length toks + 8) O toks.
