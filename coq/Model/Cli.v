(* Model of compiler/plc2x/src/cli.rs (check / echo / tokenize, create_project, enumerate_files) and of
   Project::semantic in project.rs, over an abstract file system.  What a file contains is abstract:
   whether it decodes, tokenizes and parses, and what the analysis says about a set of parsed files,
   are parameters.  The outcome is what a user of the command line observes.
   Executable; no proofs in this file. *)
From Coq Require Import List NArith Bool.
Import ListNotations.
Open Scope N_scope.

Definition code := N.            (* a published problem code: P0023 is 23, ... *)
Definition path := N.

Section Cli.
  Variable C : Type.                              (* decoded file contents *)
  Inductive node :=
    | File (decoded : option C)                   (* None: the bytes decode with no supported encoding *)
    | Dir (entries : list path)
    | Missing.
  Variable fs : path -> node.

  Variable tok_errs : C -> list code.             (* lexical diagnostics of a text ([] = tokenizes) *)
  Variable parse_err : C -> option code.          (* the syntax diagnostic of a text (None = parses) *)
  Variable analysis : list C -> list code.        (* analyze() on the parsed files ([] = Ok(())) *)
  Variable render_err : C -> option code.         (* write_to_string failing on a parsed file *)

  Record outcome := { exit : N; ok_line : bool; coded : list code }.

  Definition P_CANON : code := 23.
  Definition P_READ : code := 26.
  Definition P_ENCODING : code := 28.

  (* enumerate_files: a file is itself, a directory is its entries (not recursively) *)
  Definition enumerate (p : path) : list path + code :=
    match fs p with
    | Missing => inr P_CANON
    | File _ => inl [p]
    | Dir es => inl es
    end.

  Fixpoint enumerate_all (ps : list path) : list path * list code :=
    match ps with
    | [] => ([], [])
    | p :: r =>
        let '(fs', es) := enumerate_all r in
        match enumerate p with
        | inl l => (l ++ fs', es)
        | inr e => (fs', e :: es)
        end
    end.

  (* FileBackedProject::push *)
  Definition read (p : path) : C + code :=
    match fs p with
    | File (Some c) => inl c
    | File None => inr P_ENCODING
    | Dir _ => inr P_READ
    | Missing => inr P_READ
    end.

  Fixpoint read_all (ps : list path) : list C * list code :=
    match ps with
    | [] => ([], [])
    | p :: r =>
        let '(cs, es) := read_all r in
        match read p with
        | inl c => (c :: cs, es)
        | inr e => (cs, e :: es)
        end
    end.

  (* create_project: Err = the diagnostics printed before giving up *)
  Definition create_project (ps : list path) : list C + list code :=
    let '(files, eerrs) := enumerate_all ps in
    match eerrs with
    | _ :: _ => inr eerrs
    | [] =>
        let '(cs, rerrs) := read_all files in
        match rerrs with
        | _ :: _ => inr rerrs
        | [] => inl cs
        end
    end.

  (* Project::semantic *)
  Definition parse_diag (c : C) : list code :=
    match tok_errs c with
    | e :: _ => [e]                                  (* parse_program returns the first lexical diagnostic *)
    | [] => match parse_err c with Some e => [e] | None => [] end
    end.
  Definition parses (c : C) : bool := match parse_diag c with [] => true | _ => false end.

  Definition semantic (cs : list C) : list code :=
    let pdiags := flat_map parse_diag cs in
    let libs := filter parses cs in
    match libs, pdiags with
    | [], _ :: _ => pdiags
    | _, _ =>
        match analysis libs with
        | [] => pdiags
        | ds => pdiags ++ ds
        end
    end.

  Definition failed (ds : list code) : outcome := {| exit := 1; ok_line := false; coded := ds |}.

  Definition check (ps : list path) : outcome :=
    match create_project ps with
    | inr ds => failed ds
    | inl cs =>
        match semantic cs with
        | [] => {| exit := 0; ok_line := true; coded := [] |}
        | ds => failed ds
        end
    end.

  (* tokenize: stops at the first file with lexical diagnostics *)
  Fixpoint tokenize_files (cs : list C) : option (list code) :=
    match cs with
    | [] => None
    | c :: r => match tok_errs c with [] => tokenize_files r | ds => Some ds end
    end.
  Definition tokenize (ps : list path) : outcome :=
    match create_project ps with
    | inr ds => failed ds
    | inl cs =>
        match tokenize_files cs with
        | None => {| exit := 0; ok_line := true; coded := [] |}
        | Some ds => failed ds
        end
    end.

  (* echo: every file is attempted; a render failure stops at once *)
  Fixpoint echo_files (cs : list C) (acc : list code) (bad : bool) : list code * bool * bool :=
    match cs with
    | [] => (acc, bad, false)
    | c :: r =>
        match parse_diag c with
        | [] => match render_err c with
                | Some e => (acc ++ [e], true, true)
                | None => echo_files r acc bad
                end
        | ds => echo_files r (acc ++ ds) true
        end
    end.
  Definition echo (ps : list path) : outcome :=
    match create_project ps with
    | inr ds => failed ds
    | inl cs =>
        let '(ds, bad, _) := echo_files cs [] false in
        {| exit := if bad then 1 else 0; ok_line := false; coded := ds |}
    end.
End Cli.
