(* Model of the textual-language part of compiler/parser/src/parser.rs (peg 0.8): expressions with function
   calls (B.3.1) and statements (B.3.2), transcribed rule by rule with PEG semantics: ordered choice, greedy
   repetition that never gives back, optional parts that are not retried once they matched, `_` = trivia.

     expression          precedence! climbing over unary_expression (levels from the regenerated table)
     unary_expression    unary_operator()? _ primary_expression()
     primary_expression  constant / function_expression / identifier _ !('(' / '[' / '.') / variable / '(' _ expression _ ')'
     variable            name (_ '.' _ name / _ '[' _ expression ++ (_ ',' _) _ ']')*        (symbolic_variable)
     constant            here: one constant token, or '+' / '-' immediately followed by a Digits token
     function_expression name _ '(' _ param_assignment ** (_ ',' _) _ ')'
     param_assignment    NOT? _ name _ '=>' _ variable  /  (name _ ':=')? _ expression
     statement_list      statements_or_empty()+   with   _ ';' _  /  (statement ** (_ ';' _)) _ ';'
     statement           assignment / IF / CASE / FOR / WHILE / REPEAT / EXIT / name(...) / RETURN
     case_statement      CASE _ expression _ OF _ case_element ** _ _ (ELSE _ statement_list)? _ END_CASE
     case_element        case_list_element ++ (_ ',' _) _ ':' _ statement_list;  element: subrange / signed_integer / name

   Scope: tokens are classified by [cl]; class CSel ('..'), a '#' that does not follow BOOL, and COther (everything the model
   does not read: typed and time literals, reals, direct addresses ...) put a text outside the model, which the
   entry point reports as a distinct outcome.
   Recursion is open and tied with fuel; running out of fuel is a distinct outcome.  Executable; no proofs here. *)
From Coq Require Import List NArith Bool Arith.
From Verif Require Import Base.Res Base.Text Model.ExprParser.
Import ListNotations.

Inductive kw := KwIf | KwThen | KwElsif | KwElse | KwEndIf | KwFor | KwTo | KwBy | KwDo | KwEndFor
  | KwWhile | KwEndWhile | KwRepeat | KwUntil | KwEndRepeat | KwExit | KwReturn | KwEndPou
  | KwCase | KwOf | KwEndCase.
Inductive ckind := CkInt | CkTrue | CkFalse | CkStr | CkWStr
  | CkHex | CkOct | CkBin          (* 16#.. 8#.. 2#..: integer constants of one token *)
  | CkFixed | CkFloat.             (* 1.5  1.5E3: real constants of one token *)
(* the elementary type keywords other than BOOL, STRING and WSTRING, and the families that can prefix a numeric constant *)
Inductive tykw := TSint | TInt | TDint | TLint | TUsint | TUint | TUdint | TUlint | TReal | TLreal
  | TTime | TDate | TTod | TDt | TByte | TWord | TDword | TLword.
Inductive tyfam := TfInt | TfReal | TfBits | TfOther.
Definition fam (k : tykw) : tyfam :=
  match k with
  | TSint | TInt | TDint | TLint | TUsint | TUint | TUdint | TUlint => TfInt
  | TReal | TLreal => TfReal
  | TByte | TWord | TDword | TLword => TfBits
  | TTime | TDate | TTod | TDt => TfOther
  end.
Inductive dkw := DkVar | DkVarInput | DkVarOutput | DkVarInOut | DkVarExternal | DkEndVar | DkConstant | DkRetain | DkNonRetain
  | DkREdge | DkFEdge | DkType | DkEndType | DkArray.
Inductive tcl :=
  | CTriv | CId | CConst (k : ckind)
  | CLP | CRP | CComma | CSemi | CAssign | CArrow
  | CDot | CLB | CRB           (* '.', '[', ']' of structured and array variables *)
  | CColon | CRange            (* ':' and '..' of CASE selectors *)
  | COp (o : binop)            (* infix only; '+' is COp BAdd *)
  | CMinus | CNot
  | CKw (k : kw)
  | CBoolT | CHash              (* BOOL and '#': only in BOOL#TRUE / BOOL#FALSE *)
  | CTyKw (k : tykw)            (* an elementary type keyword other than BOOL, STRING and WSTRING *)
  | CDk (k : dkw)               (* the keywords of variable declaration blocks *)
  | CSel | COther.

Definition kw_eqb (a b : kw) : bool :=
  match a, b with
  | KwIf, KwIf | KwThen, KwThen | KwElsif, KwElsif | KwElse, KwElse | KwEndIf, KwEndIf | KwFor, KwFor | KwTo, KwTo
  | KwBy, KwBy | KwDo, KwDo | KwEndFor, KwEndFor | KwWhile, KwWhile | KwEndWhile, KwEndWhile | KwRepeat, KwRepeat
  | KwUntil, KwUntil | KwEndRepeat, KwEndRepeat | KwExit, KwExit | KwReturn, KwReturn | KwEndPou, KwEndPou
  | KwCase, KwCase | KwOf, KwOf | KwEndCase, KwEndCase => true
  | _, _ => false
  end.

(* ---- syntax trees ---- *)
Inductive sleaf :=
  | LfInt (neg : bool) (value : N)          (* IntegerLiteral: SignedInteger { value, is_neg } *)
  | LfBool (b : bool)
  | LfStr (chars : text)                    (* CharacterStringLiteral: the characters between the quotes *)
  | LfReal (ty : option tykw) (sign : option bool) (lit : text)
                                            (* RealLiteral: type prefix, sign as written (Some true: '-'), the text of the number *)
  | LfTInt (ty : tykw) (neg : bool) (value : N)   (* IntegerLiteral with data_type *)
  | LfBits (ty : tykw) (value : N)          (* BitStringLiteral with data_type *)
  | LfName (n : text).                      (* ExprKind::LateBound *)

(* the selectors after a variable's name: .field and [e1, e2, ..] *)
Inductive sel (E : Type) :=
  | SField (f : text)
  | SIndex (es : list E).
Arguments SField {E} f.
Arguments SIndex {E} es.

Inductive param (E : Type) :=
  | PPos (e : E)
  | PNamed (n : text) (e : E)
  | POut (neg : bool) (n v : text) (vs : list (sel E)).
Arguments PPos {E} e.
Arguments PNamed {E} n e.
Arguments POut {E} neg n v vs.

Inductive sexpr :=
  | XAtom (l : sleaf)
  | XBin (o : binop) (l r : sexpr)
  | XUn (o : unop) (e : sexpr)
  | XCall (f : text) (ps : list (param sexpr))
  | XVar (n : text) (ss : list (sel sexpr)).     (* ExprKind::Variable: Named, then Structured / Array for each selector *)

Inductive csel :=
  | CsInt (neg : bool) (v : N)                              (* CaseSelectionKind::SignedInteger *)
  | CsRange (n1 : bool) (v1 : N) (n2 : bool) (v2 : N)       (* Subrange *)
  | CsEnum (n : text).                                      (* EnumeratedValue without type prefix *)

Inductive stmt :=
  | TAssign (v : text) (vs : list (sel sexpr)) (e : sexpr)
  | TCall (f : text) (ps : list (param sexpr))
  | TIf (c : sexpr) (body : list stmt) (elifs : list (sexpr * list stmt)) (els : list stmt)
  | TCase (c : sexpr) (groups : list (list csel * list stmt)) (els : list stmt)
  | TFor (v : text) (e1 e2 : sexpr) (step : option sexpr) (body : list stmt)
  | TWhile (c : sexpr) (body : list stmt)
  | TRepeat (body : list stmt) (c : sexpr)
  | TExit
  | TReturn.

Section Parser.
  Variable tk : Type.
  Variable cl : tk -> tcl.
  Variable txt : tk -> text.
  Variable num : tk -> N.                      (* the value of a Digits token (Integer::new) *)
  Variable lvl : binop -> nat.                 (* level of an infix operator, 0 = binds weakest *)

  Definition R (A : Type) := res (A * list tk).

  Definition is_triv (t : tk) : bool := match cl t with CTriv => true | _ => false end.
  Fixpoint skip (ts : list tk) : list tk :=
    match ts with
    | t :: r => if is_triv t then skip r else ts
    | [] => []
    end.

  Definition bop_of (t : tk) : option (nat * binop) :=
    match cl t with COp o => Some (lvl o, o) | CMinus => Some (lvl BSub, BSub) | _ => None end.
  Definition uop_of (t : tk) : option unop :=
    match cl t with CMinus => Some UNeg | CNot => Some UNot | _ => None end.
  Definition leaf_of (k : ckind) (t : tk) : sleaf :=
    match k with
    | CkInt | CkHex | CkOct | CkBin => LfInt false (num t) | CkTrue => LfBool true | CkFalse => LfBool false
    | CkStr | CkWStr => LfStr (removelast (tl (txt t)))
    | CkFixed | CkFloat => LfReal None None (txt t)
    end.
  Definition is_real_k (k : ckind) : bool := match k with CkFixed | CkFloat => true | _ => false end.
  Definition is_based_k (k : ckind) : bool := match k with CkHex | CkOct | CkBin => true | _ => false end.
  Definition is_real_c (c : tcl) : bool := match c with CConst k => is_real_k k | _ => false end.
  Definition sign_of (c : tcl) : option bool := match c with COp BAdd => Some false | CMinus => Some true | _ => None end.
  (* the number of a typed constant TYPE '#' sign? number: real_literal (REAL, LREAL: sign? Fixed / Float), integer_literal
     (the integer types: binary / octal / hex without sign, or sign? Digits), bit_string_literal (BYTE .. LWORD: binary /
     octal / hex / Digits, no sign) *)
  Definition typed_leaf (k : tykw) (sg : option bool) (v : tk) : option sleaf :=
    match fam k, cl v with
    | TfReal, CConst c => if is_real_k c then Some (LfReal (Some k) sg (txt v)) else None
    | TfInt, CConst CkInt => Some (LfTInt k (match sg with Some b => b | None => false end) (num v))
    | TfInt, CConst c => match sg with None => if is_based_k c then Some (LfTInt k false (num v)) else None | Some _ => None end
    | TfBits, CConst CkInt => match sg with None => Some (LfBits k (num v)) | Some _ => None end
    | TfBits, CConst c => match sg with None => if is_based_k c then Some (LfBits k (num v)) else None | Some _ => None end
    | _, _ => None
    end.

  (* tok(k) at the next significant token *)
  Definition next_is (c : tcl -> bool) (ts : list tk) : option (list tk) :=
    match skip ts with t :: r => if c (cl t) then Some r else None | [] => None end.
  Definition is_lp c := match c with CLP => true | _ => false end.
  Definition is_rp c := match c with CRP => true | _ => false end.
  Definition is_comma c := match c with CComma => true | _ => false end.
  Definition is_rb c := match c with CRB => true | _ => false end.
  Definition is_colon c := match c with CColon => true | _ => false end.
  Definition is_range c := match c with CRange => true | _ => false end.
  Definition is_semi c := match c with CSemi => true | _ => false end.
  Definition is_assign c := match c with CAssign => true | _ => false end.
  Definition is_arrow c := match c with CArrow => true | _ => false end.
  Definition is_kw k c := match c with CKw k' => kw_eqb k k' | _ => false end.

  (* identifier() at the head of ts *)
  Definition ident (ts : list tk) : option (text * list tk) :=
    match ts with t :: r => match cl t with CId => Some (txt t, r) | _ => None end | [] => None end.

  (* ---- variables: [pe] is expression() ---- *)
  (* the tail of  expression ++ (_ ',' _)  after one subscript *)
  Fixpoint subs_more (pe : nat -> list tk -> R sexpr) (f : nat) (acc : list sexpr) (ts : list tk) : R (list sexpr) :=
    match f with
    | O => OutOfFuel
    | S f' =>
        match next_is is_comma ts with
        | Some r => match pe O (skip r) with
                    | Ok (e, r') => subs_more pe f' (acc ++ [e]) r'
                    | Fail => Ok (acc, ts)
                    | Panic => Panic | OutOfFuel => OutOfFuel
                    end
        | None => Ok (acc, ts)
        end
    end.

  (* subscript_list after '[':  _ expression ++ (_ ',' _) _ ']' *)
  Definition subs (pe : nat -> list tk -> R sexpr) (f : nat) (r : list tk) : R (list sexpr) :=
    match pe O (skip r) with
    | Ok (e, r1) =>
        match subs_more pe f [e] r1 with
        | Ok (es, r2) => match next_is is_rb r2 with
                         | Some r3 => Ok (es, r3)
                         | None => Fail
                         end
        | Fail => Fail | Panic => Panic | OutOfFuel => OutOfFuel
        end
    | Fail => Fail | Panic => Panic | OutOfFuel => OutOfFuel
    end.

  (* ( _ '.' _ name / _ subscript_list )*  : a selector that does not complete gives everything back *)
  Fixpoint sels_loop (pe : nat -> list tk -> R sexpr) (f : nat) (acc : list (sel sexpr)) (ts : list tk) : R (list (sel sexpr)) :=
    match f with
    | O => OutOfFuel
    | S f' =>
        match skip ts with
        | t :: r =>
            match cl t with
            | CDot => match ident (skip r) with
                      | Some (n, r') => sels_loop pe f' (acc ++ [SField n]) r'
                      | None => Ok (acc, ts)
                      end
            | CLB => match subs pe f' r with
                     | Ok (es, r') => sels_loop pe f' (acc ++ [SIndex es]) r'
                     | Fail => Ok (acc, ts)
                     | Panic => Panic | OutOfFuel => OutOfFuel
                     end
            | _ => Ok (acc, ts)
            end
        | [] => Ok (acc, ts)
        end
    end.

  (* symbolic_variable(); ts starts with the name *)
  Definition pvariable (pe : nat -> list tk -> R sexpr) (f : nat) (ts : list tk) : R (text * list (sel sexpr)) :=
    match ident ts with
    | Some (n, r) => match sels_loop pe f [] r with
                     | Ok (ss, r') => Ok ((n, ss), r')
                     | Fail => Fail | Panic => Panic | OutOfFuel => OutOfFuel
                     end
    | None => Fail
    end.

  (* ---- parameters: [pe] is expression() ---- *)
  (* NOT? _ name _ '=>' _ variable *)
  Definition param_out (pe : nat -> list tk -> R sexpr) (f : nat) (ts : list tk) : R (param sexpr) :=
    let '(neg, ts1) := match ts with
                       | t :: r => match cl t with CNot => (true, r) | _ => (false, ts) end
                       | [] => (false, ts)
                       end in
    match ident (skip ts1) with
    | Some (n, r) =>
        match next_is is_arrow r with
        | Some r2 => match pvariable pe f (skip r2) with
                     | Ok ((v, vs), r3) => Ok (POut neg n v vs, r3)
                     | Fail => Fail | Panic => Panic | OutOfFuel => OutOfFuel
                     end
        | None => Fail
        end
    | None => Fail
    end.

  (* (name _ ':=')? _ expression *)
  Definition param_in (pe : nat -> list tk -> R sexpr) (ts : list tk) : R (param sexpr) :=
    match ident ts with
    | Some (n, r) =>
        match next_is is_assign r with
        | Some r2 => match pe O (skip r2) with
                     | Ok (e, r3) => Ok (PNamed n e, r3)
                     | Fail => Fail | Panic => Panic | OutOfFuel => OutOfFuel
                     end
        | None => match pe O (skip ts) with
                  | Ok (e, r3) => Ok (PPos e, r3)
                  | Fail => Fail | Panic => Panic | OutOfFuel => OutOfFuel
                  end
        end
    | None => match pe O (skip ts) with
              | Ok (e, r3) => Ok (PPos e, r3)
              | Fail => Fail | Panic => Panic | OutOfFuel => OutOfFuel
              end
    end.

  Definition param1 (pe : nat -> list tk -> R sexpr) (f : nat) (ts : list tk) : R (param sexpr) :=
    match param_out pe f ts with
    | Ok x => Ok x
    | Fail => param_in pe ts
    | Panic => Panic | OutOfFuel => OutOfFuel
    end.

  (* the tail of  x ** (_ ',' _)  after one x *)
  Fixpoint params_more (pe : nat -> list tk -> R sexpr) (f : nat) (acc : list (param sexpr)) (ts : list tk)
    : R (list (param sexpr)) :=
    match f with
    | O => OutOfFuel
    | S f' =>
        match next_is is_comma ts with
        | Some r => match param1 pe f' (skip r) with
                    | Ok (p, r') => params_more pe f' (acc ++ [p]) r'
                    | Fail => Ok (acc, ts)
                    | Panic => Panic | OutOfFuel => OutOfFuel
                    end
        | None => Ok (acc, ts)
        end
    end.

  Definition params (pe : nat -> list tk -> R sexpr) (f : nat) (ts : list tk) : R (list (param sexpr)) :=
    match param1 pe f ts with
    | Ok (p, r) => params_more pe f [p] r
    | Fail => Ok ([], ts)
    | Panic => Panic | OutOfFuel => OutOfFuel
    end.

  (* _ '(' _ params _ ')'  after a name; r is what follows the name *)
  Definition call_tail (pe : nat -> list tk -> R sexpr) (f : nat) (r : list tk) : R (list (param sexpr)) :=
    match next_is is_lp r with
    | Some r1 =>
        match params pe f (skip r1) with
        | Ok (ps, r2) => match next_is is_rp r2 with
                         | Some r3 => Ok (ps, r3)
                         | None => Fail
                         end
        | Fail => Fail | Panic => Panic | OutOfFuel => OutOfFuel
        end
    | None => Fail
    end.

  (* ---- expressions ---- *)
  Definition prim (pe : nat -> list tk -> R sexpr) (f : nat) (ts : list tk) : R sexpr :=
    match ts with
    | t :: r =>
        match cl t with
        | CConst k => Ok (XAtom (leaf_of k t), r)
        | COp BAdd =>      (* real_literal: '+' Fixed / Float; signed_integer: '+' Digits; adjacent *)
            match r with
            | d :: r' => match cl d with
                         | CConst CkInt => Ok (XAtom (LfInt false (num d)), r')
                         | c => if is_real_c c then Ok (XAtom (LfReal None (Some false) (txt d)), r') else Fail
                         end
            | [] => Fail
            end
        | CMinus =>        (* real_literal: '-' Fixed / Float; signed_integer: '-' Digits; adjacent *)
            match r with
            | d :: r' => match cl d with
                         | CConst CkInt => Ok (XAtom (LfInt true (num d)), r')
                         | c => if is_real_c c then Ok (XAtom (LfReal None (Some true) (txt d)), r') else Fail
                         end
            | [] => Fail
            end
        | CTyKw k =>       (* TYPE '#' sign? number, adjacent *)
            match r with
            | h :: v :: r' =>
                match cl h with
                | CHash =>
                    match sign_of (cl v) with
                    | Some b =>
                        match r' with
                        | d :: r'' => match typed_leaf k (Some b) d with Some l => Ok (XAtom l, r'') | None => Fail end
                        | [] => Fail
                        end
                    | None => match typed_leaf k None v with Some l => Ok (XAtom l, r') | None => Fail end
                    end
                | _ => Fail
                end
            | _ => Fail
            end
        | CBoolT =>        (* boolean_literal: BOOL '#' TRUE / FALSE, adjacent *)
            match r with
            | h :: v :: r' =>
                match cl h, cl v with
                | CHash, CConst CkTrue => Ok (XAtom (LfBool true), r')
                | CHash, CConst CkFalse => Ok (XAtom (LfBool false), r')
                | CHash, CConst CkInt =>          (* BOOL#1 / BOOL#0: the digits token whose text is exactly 1 or 0 *)
                    if text_eqb (txt v) [49%N] then Ok (XAtom (LfBool true), r')
                    else if text_eqb (txt v) [48%N] then Ok (XAtom (LfBool false), r')
                    else Fail
                | _, _ => Fail
                end
            | _ => Fail
            end
        | CId =>
            match call_tail pe f r with
            | Ok (ps, r') => Ok (XCall (txt t) ps, r')
            | Fail =>
                (* identifier _ !( '(' / '[' / '.' ), else variable() *)
                match skip r with
                | n :: _ => match cl n with
                            | CLP | CDot | CLB =>
                                match sels_loop pe f [] r with
                                | Ok (ss, r') => Ok (XVar (txt t) ss, r')
                                | Fail => Fail | Panic => Panic | OutOfFuel => OutOfFuel
                                end
                            | _ => Ok (XAtom (LfName (txt t)), skip r)
                            end
                | [] => Ok (XAtom (LfName (txt t)), skip r)
                end
            | Panic => Panic | OutOfFuel => OutOfFuel
            end
        | CLP =>
            match pe O (skip r) with
            | Ok (e, r') => match next_is is_rp r' with
                            | Some r'' => Ok (e, r'')
                            | None => Fail
                            end
            | Fail => Fail | Panic => Panic | OutOfFuel => OutOfFuel
            end
        | _ => Fail
        end
    | [] => Fail
    end.

  Definition unary (pe : nat -> list tk -> R sexpr) (f : nat) (ts : list tk) : R sexpr :=
    match ts with
    | t :: r =>
        match uop_of t with
        | Some o => match prim pe f (skip r) with
                    | Ok (e, r') => Ok (XUn o e, r')
                    | Fail => Fail | Panic => Panic | OutOfFuel => OutOfFuel
                    end
        | None => prim pe f (skip ts)
        end
    | [] => Fail
    end.

  Fixpoint loop (pe : nat -> list tk -> R sexpr) (f : nat) (minp : nat) (acc : sexpr) (ts : list tk) : R sexpr :=
    match f with
    | O => OutOfFuel
    | S f' =>
        match skip ts with
        | t :: r =>
            match bop_of t with
            | Some (lv, o) =>
                if Nat.leb minp lv then
                  match pe (S lv) (skip r) with
                  | Ok (e, r') => loop pe f' minp (XBin o acc e) r'
                  | Fail => Ok (acc, ts)
                  | Panic => Panic | OutOfFuel => OutOfFuel
                  end
                else Ok (acc, ts)
            | None => Ok (acc, ts)
            end
        | [] => Ok (acc, ts)
        end
    end.

  Fixpoint pexpr (f : nat) (minp : nat) (ts : list tk) : R sexpr :=
    match f with
    | O => OutOfFuel
    | S f' =>
        match unary (pexpr f') f' ts with
        | Ok (a, r) => loop (pexpr f') f' minp a r
        | Fail => Fail | Panic => Panic | OutOfFuel => OutOfFuel
        end
    end.

  (* ---- statements: [pe] is expression(), [pl] is statement_list() ---- *)
  Definition pe0 (pe : nat -> list tk -> R sexpr) (ts : list tk) : R sexpr := pe O (skip ts).

  (* variable() _ ':=' _ expression(); ts starts with the name *)
  Definition assign (pe : nat -> list tk -> R sexpr) (f : nat) (ts : list tk) : R stmt :=
    match pvariable pe f ts with
    | Ok ((v, vs), r) =>
        match next_is is_assign r with
        | Some r1 => match pe0 pe r1 with
                     | Ok (e, r2) => Ok (TAssign v vs e, r2)
                     | Fail => Fail | Panic => Panic | OutOfFuel => OutOfFuel
                     end
        | None => Fail
        end
    | Fail => Fail | Panic => Panic | OutOfFuel => OutOfFuel
    end.

  Definition fbcall (pe : nat -> list tk -> R sexpr) (f : nat) (ts : list tk) : R stmt :=
    match ident ts with
    | Some (n, r) => match call_tail pe f r with
                     | Ok (ps, r') => Ok (TCall n ps, r')
                     | Fail => Fail | Panic => Panic | OutOfFuel => OutOfFuel
                     end
    | None => Fail
    end.

  (* an optional statement_list()?: a failure leaves the position *)
  Definition opt_list (pl : list tk -> R (list stmt)) (ts : list tk) : R (list stmt) :=
    match pl ts with
    | Ok x => Ok x
    | Fail => Ok ([], ts)
    | Panic => Panic | OutOfFuel => OutOfFuel
    end.

  (* ELSIF _ expression _ THEN _ statement_list; ts starts at ELSIF *)
  Definition elsif1 (pe : nat -> list tk -> R sexpr) (pl : list tk -> R (list stmt)) (ts : list tk) : R (sexpr * list stmt) :=
    match ts with
    | t :: r =>
        if is_kw KwElsif (cl t) then
          match pe0 pe r with
          | Ok (c, r1) =>
              match next_is (is_kw KwThen) r1 with
              | Some r2 => match pl (skip r2) with
                           | Ok (b, r3) => Ok ((c, b), r3)
                           | Fail => Fail | Panic => Panic | OutOfFuel => OutOfFuel
                           end
              | None => Fail
              end
          | Fail => Fail | Panic => Panic | OutOfFuel => OutOfFuel
          end
        else Fail
    | [] => Fail
    end.

  (* the tail of  x ** _  after one x *)
  Fixpoint elsifs_more (pe : nat -> list tk -> R sexpr) (pl : list tk -> R (list stmt)) (f : nat)
      (acc : list (sexpr * list stmt)) (ts : list tk) : R (list (sexpr * list stmt)) :=
    match f with
    | O => OutOfFuel
    | S f' =>
        match elsif1 pe pl (skip ts) with
        | Ok (x, r) => elsifs_more pe pl f' (acc ++ [x]) r
        | Fail => Ok (acc, ts)
        | Panic => Panic | OutOfFuel => OutOfFuel
        end
    end.

  Definition elsifs (pe : nat -> list tk -> R sexpr) (pl : list tk -> R (list stmt)) (f : nat) (ts : list tk)
    : R (list (sexpr * list stmt)) :=
    match elsif1 pe pl ts with
    | Ok (x, r) => elsifs_more pe pl f [x] r
    | Fail => Ok ([], ts)
    | Panic => Panic | OutOfFuel => OutOfFuel
    end.

  (* (ELSE _ statement_list)?  at the next significant token; on failure nothing is consumed *)
  Definition else_part (pl : list tk -> R (list stmt)) (ts : list tk) : R (list stmt) :=
    match next_is (is_kw KwElse) ts with
    | Some r => match pl (skip r) with
                | Ok x => Ok x
                | Fail => Ok ([], ts)
                | Panic => Panic | OutOfFuel => OutOfFuel
                end
    | None => Ok ([], ts)
    end.

  (* after IF *)
  Definition if_tail (pe : nat -> list tk -> R sexpr) (pl : list tk -> R (list stmt)) (f : nat) (r : list tk) : R stmt :=
    match pe0 pe r with
    | Ok (c, r1) =>
        match next_is (is_kw KwThen) r1 with
        | Some r2 =>
            match opt_list pl (skip r2) with
            | Ok (body, r3) =>
                match elsifs pe pl f (skip r3) with
                | Ok (eis, r4) =>
                    match else_part pl r4 with
                    | Ok (els, r5) =>
                        match next_is (is_kw KwEndIf) r5 with
                        | Some r6 => Ok (TIf c body eis els, r6)
                        | None => Fail
                        end
                    | Fail => Fail | Panic => Panic | OutOfFuel => OutOfFuel
                    end
                | Fail => Fail | Panic => Panic | OutOfFuel => OutOfFuel
                end
            | Fail => Fail | Panic => Panic | OutOfFuel => OutOfFuel
            end
        | None => Fail
        end
    | Fail => Fail | Panic => Panic | OutOfFuel => OutOfFuel
    end.

  (* after FOR: _ name _ ':=' _ e _ TO _ e _ (BY _ e)? _ DO _ list _ END_FOR *)
  Definition for_tail (pe : nat -> list tk -> R sexpr) (pl : list tk -> R (list stmt)) (r : list tk) : R stmt :=
    match ident (skip r) with
    | Some (v, r1) =>
        match next_is is_assign r1 with
        | Some r2 =>
            match pe0 pe r2 with
            | Ok (e1, r3) =>
                match next_is (is_kw KwTo) r3 with
                | Some r4 =>
                    match pe0 pe r4 with
                    | Ok (e2, r5) =>
                        let step :=
                          match next_is (is_kw KwBy) r5 with
                          | Some r6 => match pe0 pe r6 with
                                       | Ok (e3, r7) => Ok (Some e3, r7)
                                       | Fail => Ok (None, r5)
                                       | Panic => Panic | OutOfFuel => OutOfFuel
                                       end
                          | None => Ok (None, r5)
                          end in
                        match step with
                        | Ok (st, r8) =>
                            match next_is (is_kw KwDo) r8 with
                            | Some r9 =>
                                match pl (skip r9) with
                                | Ok (body, r10) =>
                                    match next_is (is_kw KwEndFor) r10 with
                                    | Some r11 => Ok (TFor v e1 e2 st body, r11)
                                    | None => Fail
                                    end
                                | Fail => Fail | Panic => Panic | OutOfFuel => OutOfFuel
                                end
                            | None => Fail
                            end
                        | Fail => Fail | Panic => Panic | OutOfFuel => OutOfFuel
                        end
                    | Fail => Fail | Panic => Panic | OutOfFuel => OutOfFuel
                    end
                | None => Fail
                end
            | Fail => Fail | Panic => Panic | OutOfFuel => OutOfFuel
            end
        | None => Fail
        end
    | None => Fail
    end.

  (* after WHILE: _ e _ DO _ list _ END_WHILE *)
  Definition while_tail (pe : nat -> list tk -> R sexpr) (pl : list tk -> R (list stmt)) (r : list tk) : R stmt :=
    match pe0 pe r with
    | Ok (c, r1) =>
        match next_is (is_kw KwDo) r1 with
        | Some r2 =>
            match pl (skip r2) with
            | Ok (body, r3) =>
                match next_is (is_kw KwEndWhile) r3 with
                | Some r4 => Ok (TWhile c body, r4)
                | None => Fail
                end
            | Fail => Fail | Panic => Panic | OutOfFuel => OutOfFuel
            end
        | None => Fail
        end
    | Fail => Fail | Panic => Panic | OutOfFuel => OutOfFuel
    end.

  (* after REPEAT: _ list _ UNTIL _ e _ END_REPEAT *)
  Definition repeat_tail (pe : nat -> list tk -> R sexpr) (pl : list tk -> R (list stmt)) (r : list tk) : R stmt :=
    match pl (skip r) with
    | Ok (body, r1) =>
        match next_is (is_kw KwUntil) r1 with
        | Some r2 =>
            match pe0 pe r2 with
            | Ok (c, r3) =>
                match next_is (is_kw KwEndRepeat) r3 with
                | Some r4 => Ok (TRepeat body c, r4)
                | None => Fail
                end
            | Fail => Fail | Panic => Panic | OutOfFuel => OutOfFuel
            end
        | None => Fail
        end
    | Fail => Fail | Panic => Panic | OutOfFuel => OutOfFuel
    end.

  (* signed_integer: '+'? Digits / '-' Digits, adjacent *)
  Definition signed_int (ts : list tk) : option ((bool * N) * list tk) :=
    match ts with
    | t :: r =>
        match cl t with
        | CConst CkInt => Some ((false, num t), r)
        | COp BAdd => match r with
                      | d :: r' => match cl d with CConst CkInt => Some ((false, num d), r') | _ => None end
                      | [] => None
                      end
        | CMinus => match r with
                    | d :: r' => match cl d with CConst CkInt => Some ((true, num d), r') | _ => None end
                    | [] => None
                    end
        | _ => None
        end
    | [] => None
    end.

  (* case_list_element: subrange / signed_integer / enumerated_value *)
  Definition case_sel (ts : list tk) : option (csel * list tk) :=
    match signed_int ts with
    | Some ((n1, v1), r) =>
        match next_is is_range r with
        | Some r1 => match signed_int (skip r1) with
                     | Some ((n2, v2), r2) => Some (CsRange n1 v1 n2 v2, r2)
                     | None => Some (CsInt n1 v1, r)
                     end
        | None => Some (CsInt n1 v1, r)
        end
    | None => match ident ts with
              | Some (n, r) => Some (CsEnum n, r)
              | None => None
              end
    end.

  (* the tail of  case_list_element ++ (_ ',' _)  after one element *)
  Fixpoint csels_more (f : nat) (acc : list csel) (ts : list tk) : R (list csel) :=
    match f with
    | O => OutOfFuel
    | S f' =>
        match next_is is_comma ts with
        | Some r => match case_sel (skip r) with
                    | Some (x, r') => csels_more f' (acc ++ [x]) r'
                    | None => Ok (acc, ts)
                    end
        | None => Ok (acc, ts)
        end
    end.

  (* case_element: case_list _ ':' _ statement_list *)
  Definition case_elem (pl : list tk -> R (list stmt)) (f : nat) (ts : list tk) : R (list csel * list stmt) :=
    match case_sel ts with
    | Some (x, r) =>
        match csels_more f [x] r with
        | Ok (ss, r1) =>
            match next_is is_colon r1 with
            | Some r2 => match pl (skip r2) with
                         | Ok (b, r3) => Ok ((ss, b), r3)
                         | Fail => Fail | Panic => Panic | OutOfFuel => OutOfFuel
                         end
            | None => Fail
            end
        | Fail => Fail | Panic => Panic | OutOfFuel => OutOfFuel
        end
    | None => Fail
    end.

  (* the tail of  case_element ** _  after one element *)
  Fixpoint cases_more (pl : list tk -> R (list stmt)) (f : nat) (acc : list (list csel * list stmt)) (ts : list tk)
    : R (list (list csel * list stmt)) :=
    match f with
    | O => OutOfFuel
    | S f' =>
        match case_elem pl f' (skip ts) with
        | Ok (x, r) => cases_more pl f' (acc ++ [x]) r
        | Fail => Ok (acc, ts)
        | Panic => Panic | OutOfFuel => OutOfFuel
        end
    end.

  Definition cases (pl : list tk -> R (list stmt)) (f : nat) (ts : list tk) : R (list (list csel * list stmt)) :=
    match case_elem pl f ts with
    | Ok (x, r) => cases_more pl f [x] r
    | Fail => Ok ([], ts)
    | Panic => Panic | OutOfFuel => OutOfFuel
    end.

  (* after CASE: _ e _ OF _ case_element ** _ _ (ELSE _ list)? _ END_CASE *)
  Definition case_tail (pe : nat -> list tk -> R sexpr) (pl : list tk -> R (list stmt)) (f : nat) (r : list tk) : R stmt :=
    match pe0 pe r with
    | Ok (c, r1) =>
        match next_is (is_kw KwOf) r1 with
        | Some r2 =>
            match cases pl f (skip r2) with
            | Ok (gs, r3) =>
                match else_part pl r3 with
                | Ok (els, r4) =>
                    match next_is (is_kw KwEndCase) r4 with
                    | Some r5 => Ok (TCase c gs els, r5)
                    | None => Fail
                    end
                | Fail => Fail | Panic => Panic | OutOfFuel => OutOfFuel
                end
            | Fail => Fail | Panic => Panic | OutOfFuel => OutOfFuel
            end
        | None => Fail
        end
    | Fail => Fail | Panic => Panic | OutOfFuel => OutOfFuel
    end.

  (* statement(): assignment / selection / iteration / subprogram control, in this order *)
  Definition stmt1 (pe : nat -> list tk -> R sexpr) (pl : list tk -> R (list stmt)) (f : nat) (ts : list tk) : R stmt :=
    match assign pe f ts with
    | Fail =>
        match ts with
        | t :: r =>
            match cl t with
            | CKw KwIf => if_tail pe pl f r
            | CKw KwCase => case_tail pe pl f r
            | CKw KwFor => for_tail pe pl r
            | CKw KwWhile => while_tail pe pl r
            | CKw KwRepeat => repeat_tail pe pl r
            | CKw KwExit => Ok (TExit, r)
            | CKw KwReturn => Ok (TReturn, r)
            | _ => fbcall pe f ts
            end
        | [] => Fail
        end
    | x => x
    end.

  (* the tail of  statement ** (_ ';' _)  after one statement *)
  Fixpoint stmts_more (ps : list tk -> R stmt) (f : nat) (acc : list stmt) (ts : list tk) : R (list stmt) :=
    match f with
    | O => OutOfFuel
    | S f' =>
        match next_is is_semi ts with
        | Some r => match ps (skip r) with
                    | Ok (s, r') => stmts_more ps f' (acc ++ [s]) r'
                    | Fail => Ok (acc, ts)
                    | Panic => Panic | OutOfFuel => OutOfFuel
                    end
        | None => Ok (acc, ts)
        end
    end.

  (* statements_or_empty():  _ ';' _  /  semisep(statement) *)
  Definition group (ps : list tk -> R stmt) (f : nat) (ts : list tk) : R (list stmt) :=
    match next_is is_semi ts with
    | Some r => Ok ([], skip r)
    | None =>
        match ps ts with
        | Ok (s, r) =>
            match stmts_more ps f [s] r with
            | Ok (l, r1) => match next_is is_semi r1 with
                            | Some r2 => Ok (l, r2)
                            | None => Fail
                            end
            | Fail => Fail | Panic => Panic | OutOfFuel => OutOfFuel
            end
        | Fail => Fail        (* no statement: `_ ';'` is what the first alternative already looked for *)
        | Panic => Panic | OutOfFuel => OutOfFuel
        end
    end.

  (* the tail of  statements_or_empty()+  after one group *)
  Fixpoint groups_more (ps : list tk -> R stmt) (f : nat) (acc : list stmt) (ts : list tk) : R (list stmt) :=
    match f with
    | O => OutOfFuel
    | S f' =>
        match group ps f' ts with
        | Ok (l, r) => groups_more ps f' (acc ++ l) r
        | Fail => Ok (acc, ts)
        | Panic => Panic | OutOfFuel => OutOfFuel
        end
    end.

  Definition stmt_list (ps : list tk -> R stmt) (f : nat) (ts : list tk) : R (list stmt) :=
    match group ps f ts with
    | Ok (l, r) => groups_more ps f l r
    | Fail => Fail | Panic => Panic | OutOfFuel => OutOfFuel
    end.

  Fixpoint plist (f : nat) (ts : list tk) : R (list stmt) :=
    match f with
    | O => OutOfFuel
    | S f' => stmt_list (stmt1 (pexpr f') (plist f') f') f' ts
    end.

  (* function_block_body(): statement_list, else empty (the sequential function chart starts with a token outside the model) *)
  Definition body (f : nat) (ts : list tk) : R (list stmt) :=
    match plist f ts with
    | Ok x => Ok x
    | Fail => Ok ([], ts)
    | Panic => Panic | OutOfFuel => OutOfFuel
    end.

  (* '#' only right after BOOL or the keyword of an integer, real or bit string type (every other use of '#' is a time or date
     literal, which the model does not read) *)
  Fixpoint in_scope_from (after_bool : bool) (ts : list tk) : bool :=
    match ts with
    | [] => true
    | t :: r =>
        match cl t with
        | CSel | COther => false
        | CHash => after_bool && in_scope_from false r
        | CBoolT => in_scope_from true r
        | CTyKw k => in_scope_from (match fam k with TfOther => false | _ => true end) r
        | _ => in_scope_from false r
        end
    end.
  Definition in_scope (ts : list tk) : bool := in_scope_from false ts.
End Parser.
