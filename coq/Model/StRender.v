(* Model of what compiler/plc2plc/src/renderer.rs writes for statements and expressions of the sub-language of
   Model/StParser.v, as a spelled tree (which tokens, which blanks between them):
     - every binary operation is written  ( left op right )  (visit_compare_expr / visit_binary_expr);
     - a unary operator is followed by its operand, in parentheses when the operand is itself a unary operation;
     - BOOL#TRUE / BOOL#FALSE for boolean constants, decimal digits for integers, a string between the quote its text does
       not contain; a negative integer constant is written '-', blank, digits (the recorded rendering gap);
     - calls  name ( p , n := e , NOT n => v ) ;  statements end in ' ;' and a line break; IF / ELSIF / ELSE / END_IF,
       FOR .. := .. TO .. [BY ..] DO .. END_FOR, WHILE .. DO .. END_WHILE, REPEAT .. UNTIL .. END_REPEAT as in the source;
     - CASE e OF, then per group the selectors  s1 , s2 :  and the statements (a group without statements is written
       (* empty *) ;), ELSE only before a non-empty list, END_CASE; a selector is digits,  lo.. hi  or a name, and a negative
       bound is written '-', blank, digits (the same recorded gap: signed_integer admits no blank).
   write_ws puts one blank (or the indentation after a line break) before every token: every gap here is one
   whitespace token, except inside BOOL#TRUE; the gap after an expression that ends in an identifier belongs to the
   identifier (the parser's identifier rule reads it).  Executable; no proofs in this file. *)
From Coq Require Import List NArith Bool Arith.
From Verif Require Import Base.Res Base.Text Gen.GenTokens Model.Lexer Model.ExprParser Model.StParser Model.StInstance
  Model.DeclParser Proofs.StExprProofs Proofs.StStmtProofs Proofs.DeclProofs.
Import ListNotations.

Definition tkk (k : tok_kind) (tx : text) : token := mkToken k 0%N 0%N 0%N 0%N tx.
Definition ws1 : list token := [tkk KWhitespace [32%N]].
Definition nl1 : list token := [tkk KNewline [10%N]].

Fixpoint dec_digits (fuel : nat) (n : N) (acc : text) : text :=
  match fuel with
  | O => acc
  | S f => let acc' := (48 + N.modulo n 10)%N :: acc in
           if (N.div n 10 =? 0)%N then acc' else dec_digits f (N.div n 10) acc'
  end.
Definition dec_of_N (n : N) : text := dec_digits 40 n [].

Definition txt_of (l : list nat) : text := map N.of_nat l.
Definition int_tok (v : N) : token := tkk KDigits (dec_of_N v).
Definition id_tok (n : text) : token := tkk KIdentifier n.
Definition has_quote (c : text) : bool := existsb (N.eqb 39) c.
Definition str_tok (c : text) : token :=
  if has_quote c then tkk KDoubleByteString (34%N :: c ++ [34%N]) else tkk KSingleByteString (39%N :: c ++ [39%N]).
Definition str_kind (c : text) : ckind := if has_quote c then CkWStr else CkStr.
Definition lpt := tkk KLeftParen [40%N].
Definition rpt := tkk KRightParen [41%N].
Definition comma_t := tkk KComma [44%N].
Definition dot_t := tkk KPeriod [46%N].
Definition lb_t := tkk KLeftBracket [91%N].
Definition rb_t := tkk KRightBracket [93%N].
Definition semi_t := tkk KSemicolon [59%N].
Definition colon_t := tkk KColon [58%N].
Definition range_t := tkk KRange [46%N; 46%N].
Definition empty_comment := tkk KComment (txt_of [40; 42; 32; 101; 109; 112; 116; 121; 32; 42; 41]).      (* the text (* empty *) *)
Definition assign_t := tkk KAssignment [58%N; 61%N].
Definition arrow_t := tkk KRightArrow [61%N; 62%N].
Definition minus_t := tkk KMinus [45%N].
Definition not_t := tkk KNot (txt_of [78; 79; 84]).
Definition bool_t := tkk KBool (txt_of [66; 79; 79; 76]).
Definition hash_t := tkk KHash [35%N].
Definition true_t := tkk KTrue (txt_of [84; 82; 85; 69]).
Definition false_t := tkk KFalse (txt_of [70; 65; 76; 83; 69]).
Definition kwt (k : tok_kind) : token := tkk k (canonical k).     (* keyword tokens, spelled as the token table spells them *)

Definition op_tok (o : binop) : token :=
  match o with
  | BOr => kwt KOr | BXor => kwt KXor | BAnd => kwt KAnd | BEq => kwt KEqual | BNe => kwt KNotEqual | BLt => kwt KLess
  | BGt => kwt KGreater | BLe => kwt KLessEqual | BGe => kwt KGreaterEqual | BAdd => kwt KPlus | BSub => minus_t
  | BMul => kwt KStar | BDiv => kwt KDiv | BMod => kwt KMod | BPow => kwt KPower
  end.
Definition un_tok (o : unop) : token := match o with UNeg => minus_t | UNot => not_t end.

Notation rsx := (StExprProofs.sp token).
Notation rspar := (StExprProofs.spar token).
Notation rspars := (StExprProofs.spars token).
Notation rssels := (StExprProofs.ssels token).
Notation rsidx := (StExprProofs.sidx token).
Notation rss := (StStmtProofs.ss token).
Notation rsl := (StStmtProofs.sl token).

(* the blank after an expression, unless the expression ends in an identifier (which has read it) *)
Definition gap (s : rsx) : list token := if ends_name token s then [] else ws1.
Definition pgap (p : rspar) : list token := if pends token p then [] else ws1.

Definition tykw_kind (k : tykw) : tok_kind :=
  match k with
  | TSint => KSint | TInt => KInt | TDint => KDint | TLint => KLint | TUsint => KUsint | TUint => KUint | TUdint => KUdint
  | TUlint => KUlint | TReal => KReal | TLreal => KLreal | TTime => KTime | TDate => KDate | TTod => KTimeOfDay
  | TDt => KDateAndTime | TByte => KByte | TWord => KWord | TDword => KDword | TLword => KLword
  end.
Definition tykw_tok (k : tykw) : token := tkk (tykw_kind k) (ty_name (kwt (tykw_kind k))).

Definition leaf_sp (l : sleaf) : rsx :=
  match l with
  | LfInt false v => SConst token (int_tok v) CkInt
  | LfInt true v => SUn token minus_t UNeg ws1 (SConst token (int_tok v) CkInt)      (* '- 5' *)
  | LfBool b => SBool token bool_t hash_t (if b then true_t else false_t) b
  | LfStr c => SConst token (str_tok c) (str_kind c)
  | LfName n => SName token (id_tok n) ws1
  | LfTInt k neg v =>                                     (* INT#5  INT#-5 *)
      STyped token k (tykw_tok k) hash_t (if neg then Some (minus_t, true) else None) (int_tok v) (LfTInt k neg v)
  | LfBits k v => STyped token k (tykw_tok k) hash_t None (int_tok v) (LfBits k v)      (* WORD#255 *)
  | LfReal _ _ lit => SConst token (tkk KFixedPoint lit) CkFixed      (* f64's Display is not modelled: outside the guard *)
  end.

Fixpoint sp_of (e : sexpr) : rsx :=
  (* the selectors of a variable:  .field  without blanks,  [ e1 , e2 ]  with blanks *)
  let sels := fix sels (l : list (sel sexpr)) : rssels :=
    match l with
    | [] => SsEnd token
    | SField f :: l' => SsField token [] dot_t [] (id_tok f) (sels l')
    | SIndex es :: l' =>
        match es with
        | [] => sels l'                       (* no text has an empty subscript list *)
        | x :: es' =>
            let sx := sp_of x in
            let '(more, w3) :=
              (fix idx (prev : rsx) (l2 : list sexpr) : rsidx * list token :=
                 match l2 with
                 | [] => (SiEnd token, gap prev)
                 | y :: l3 => let sy := sp_of y in
                              let '(m, w) := idx sy l3 in
                              (SiMore token (gap prev) comma_t ws1 sy m, w)
                 end) sx es' in
            SsIndex token ws1 lb_t ws1 sx more w3 rb_t (sels l')
        end
    end in
  match e with
  | XAtom l => leaf_sp l
  | XVar n ss => SVar token (id_tok n) (sels ss)
  | XBin o l r =>
      let sl := sp_of l in let sr := sp_of r in
      SParen token lpt ws1 (SBin token (op_tok o) o sl (gap sl) ws1 sr) (gap sr) rpt
  | XUn o x =>
      SUn token (un_tok o) o ws1
        (match x with
         | XUn _ _ => let sx := sp_of x in SParen token lpt ws1 sx (gap sx) rpt
         | _ => sp_of x
         end)
  | XCall f ps =>
      match ps with
      | [] => SCall0 token (id_tok f) ws1 lpt ws1 rpt
      | p :: r =>
          let par := fun (q : param sexpr) =>
            match q with
            | PPos e => SPPos token (sp_of e)
            | PNamed n e => SPNamed token (id_tok n) ws1 assign_t ws1 (sp_of e)
            | POut neg n v vs => SPOut token (if neg then Some (not_t, ws1) else None) (id_tok n) ws1 arrow_t ws1 (id_tok v) (sels vs)
            end in
          let p0 := par p in
          let fix go (prev : rspar) (l : list (param sexpr)) : rspars * list token :=
            match l with
            | [] => (SPEnd token, pgap prev)
            | q :: l' => let sq := par q in
                         let '(rest, w3) := go sq l' in
                         (SPMore token (pgap prev) comma_t ws1 sq rest, w3)
            end in
          let '(rest, w3) := go p0 r in
          SCallN token (id_tok f) ws1 lpt ws1 p0 rest w3 rpt
      end
  end.

(* the same layouts as top-level functions (for statements) *)
Fixpoint idx_of (prev : rsx) (l2 : list sexpr) : rsidx * list token :=
  match l2 with
  | [] => (SiEnd token, gap prev)
  | y :: l3 => let sy := sp_of y in
               let '(m, w) := idx_of sy l3 in
               (SiMore token (gap prev) comma_t ws1 sy m, w)
  end.
Fixpoint sels_of (l : list (sel sexpr)) : rssels :=
  match l with
  | [] => SsEnd token
  | SField f :: l' => SsField token [] dot_t [] (id_tok f) (sels_of l')
  | SIndex es :: l' =>
      match es with
      | [] => sels_of l'
      | x :: es' =>
          let sx := sp_of x in
          let '(more, w3) := idx_of sx es' in
          SsIndex token ws1 lb_t ws1 sx more w3 rb_t (sels_of l')
      end
  end.
Definition par_of (q : param sexpr) : rspar :=
  match q with
  | PPos e => SPPos token (sp_of e)
  | PNamed n e => SPNamed token (id_tok n) ws1 assign_t ws1 (sp_of e)
  | POut neg n v vs => SPOut token (if neg then Some (not_t, ws1) else None) (id_tok n) ws1 arrow_t ws1 (id_tok v) (sels_of vs)
  end.
Fixpoint pars_of (prev : rspar) (l : list (param sexpr)) : rspars * list token :=
  match l with
  | [] => (SPEnd token, pgap prev)
  | q :: l' => let sq := par_of q in
               let '(rest, w3) := pars_of sq l' in
               (SPMore token (pgap prev) comma_t ws1 sq rest, w3)
  end.

Definition sgap (s : rss) : list token := if sends token s then [] else ws1.

(* the layout of a statement list  s1 ;\n s2 ;\n ... given the layout of a statement *)
Definition more_of (f : stmt -> rss) : rss -> list stmt -> smore token * list token :=
  fix more (prev : rss) (l : list stmt) : smore token * list token :=
    match l with
    | [] => (MNil token, sgap prev)
    | x :: l' => let sx := f x in
                 let '(m, w) := more sx l' in
                 (MCons token (sgap prev) semi_t nl1 sx m, w)
    end.
Definition list_sp (f : stmt -> rss) (first : stmt) (l : list stmt) : rsl :=
  let s0 := f first in let '(m, w) := more_of f s0 l in LOne token (GStmts token s0 m w semi_t).
(* the body of a loop or ELSIF branch: an empty list is written as an empty statement and a line break *)
Definition body_sp (f : stmt -> rss) (l : list stmt) : rsl :=
  match l with [] => LOne token (GEmpty token [] semi_t nl1) | x :: l' => list_sp f x l' end.
(* the line break after a body, unless the body was the empty statement (which has read it) *)
Definition tail_gap (l : list stmt) : list token := match l with [] => [] | _ :: _ => nl1 end.
Definition eis_sp (f : stmt -> rss) : list token -> list (sexpr * list stmt) -> seis token :=
  fix go (lead : list token) (l : list (sexpr * list stmt)) : seis token :=
    match l with
    | [] => EINil token
    | (ec, eb) :: l' =>
        let sec := sp_of ec in
        EICons token lead (kwt KElsif) ws1 sec (gap sec) (kwt KThen) nl1 (body_sp f eb) (go (tail_gap eb) l')
    end.
Fixpoint last_gap (l : list (sexpr * list stmt)) : list token :=
  match l with
  | [] => nl1
  | (_, eb) :: [] => tail_gap eb
  | _ :: l' => last_gap l'
  end.

(* CASE selectors *)
Definition sint_sp (neg : bool) (v : N) : sint token :=
  if neg then SiMinus token minus_t ws1 (int_tok v) else SiPlain token (int_tok v).
Definition csel_sp (x : csel) : ssel token :=
  match x with
  | CsInt n v => SelInt token (sint_sp n v)
  | CsRange n1 v1 n2 v2 => SelRange token (sint_sp n1 v1) [] range_t (if n2 then [] else ws1) (sint_sp n2 v2)
  | CsEnum n => SelEnum token (id_tok n)
  end.
(* write_ws puts a blank before digits and names; '-' is written without *)
Definition csel_neg (x : csel) : bool := match x with CsInt n _ => n | CsRange n1 _ _ _ => n1 | CsEnum _ => false end.
Definition sel_lead (x : csel) : list token := if csel_neg x then [] else ws1.
Definition msels_sp (l : list csel) : list (smsel token) := map (fun x => MSel token ws1 comma_t (sel_lead x) (csel_sp x)) l.
(* the groups of a CASE; a group without selectors (no text gives one) is written with an empty name *)
Definition cs_sp (f : stmt -> rss) : list token -> list (list csel * list stmt) -> scases token :=
  fix go (lead : list token) (l : list (list csel * list stmt)) : scases token :=
    match l with
    | [] => CaNil token
    | (ss, b) :: l' =>
        let x := match ss with [] => CsEnum [] | x :: _ => x end in
        CaCons token lead (csel_sp x) (msels_sp (tl ss)) ws1 colon_t
          (match b with [] => nl1 ++ empty_comment :: ws1 | _ :: _ => nl1 end) (body_sp f b) (go (tail_gap b) l')
    end.
Fixpoint last_gap_cs (l : list (list csel * list stmt)) : list token :=
  match l with
  | [] => nl1
  | (_, b) :: [] => tail_gap b
  | _ :: l' => last_gap_cs l'
  end.

(* statements *)
Fixpoint ss_of (s : stmt) : rss :=
  match s with
  | TAssign v vs e => SsAssign token (id_tok v) (sels_of vs) ws1 assign_t ws1 (sp_of e)
  | TCall f [] => SsCall0 token (id_tok f) ws1 lpt ws1 rpt
  | TCall f (p :: r) => let p0 := par_of p in let '(rest, w3) := pars_of p0 r in
                        SsCallN token (id_tok f) ws1 lpt ws1 p0 rest w3 rpt
  | TIf c body eis els =>
      let sc := sp_of c in
      SsIf token (kwt KIf) ws1 sc (gap sc) (kwt KThen) nl1
        (match body with [] => BNone token | x :: l' => BSome token (list_sp ss_of x l') end)
        (eis_sp ss_of nl1 eis)
        (match els with [] => ENone token | x :: l' => ESome token (last_gap eis) (kwt KElse) nl1 (list_sp ss_of x l') end)
        (match els with [] => last_gap eis | _ :: _ => nl1 end) (kwt KEndIf)
  | TCase c gs els =>
      let sc := sp_of c in
      SsCase token (kwt KCase) ws1 sc (gap sc) (kwt KOf) (cs_sp ss_of nl1 gs)
        (match els with [] => ENone token | x :: l' => ESome token (last_gap_cs gs) (kwt KElse) nl1 (list_sp ss_of x l') end)
        (match els with [] => last_gap_cs gs | _ :: _ => nl1 end) (kwt KEndCase)
  | TFor v e1 e2 st body =>
      let s1 := sp_of e1 in let s2 := sp_of e2 in
      SsFor token (kwt KFor) ws1 (id_tok v) ws1 assign_t ws1 s1 (gap s1) (kwt KTo) ws1 s2 (gap s2)
        (match st with None => ByNone token | Some e3 => let s3 := sp_of e3 in BySome token (kwt KBy) ws1 s3 (gap s3) end)
        (kwt KDo) nl1 (body_sp ss_of body) (tail_gap body) (kwt KEndFor)
  | TWhile c body =>
      let sc := sp_of c in
      SsWhile token (kwt KWhile) ws1 sc (gap sc) (kwt KDo) nl1 (body_sp ss_of body) (tail_gap body) (kwt KEndWhile)
  | TRepeat body c =>
      let sc := sp_of c in
      SsRepeat token (kwt KRepeat) nl1 (body_sp ss_of body) (tail_gap body) (kwt KUntil) ws1 sc (gap sc) (kwt KEndRepeat)
  | TExit => SsExit token (kwt KExit)
  | TReturn => SsReturn token (kwt KReturn)
  end.

(* what the renderer writes for a statement list *)
Definition render_list (l : list stmt) : list token :=
  match l with [] => [] | x :: l' => flat_l token (list_sp ss_of x l') end.

(* ---- variable declarations: visit_var_decl writes one block per variable,
        VAR_x [qualifier] \n  name : type [:= value] ; \n END_VAR \n,  all variables first, then the edge-detecting inputs
        (visit_edge_var_decl:  VAR_INPUT [qualifier] \n  name : BOOL R_EDGE ; \n END_VAR) ---- *)
Definition elem_kinds : list tok_kind :=
  [KBool; KSint; KInt; KDint; KLint; KUsint; KUint; KUdint; KUlint; KReal; KLreal; KTime; KDate; KTimeOfDay; KDateAndTime; KByte; KWord; KDword; KLword].
(* the token a type name is written with: the keyword of an elementary type, an identifier otherwise *)
Definition ty_tok (ty : text) : token :=
  match find (fun k => text_eqb (ty_name (kwt k)) ty) elem_kinds with
  | Some k => kwt k
  | None => id_tok ty
  end.
Definition is_elem (ty : text) : bool :=
  match find (fun k => text_eqb (ty_name (kwt k)) ty) elem_kinds with Some _ => true | None => false end.

Definition const_sp (l : sleaf) : sconst token :=
  match l with
  | LfInt false v => ScTok token (int_tok v) CkInt
  | LfInt true v => ScMinus token minus_t (int_tok v)          (* not what is written ('- 5'): outside the guard *)
  | LfBool b => ScBool token bool_t hash_t (if b then true_t else false_t) b
  | LfStr c => ScTok token (str_tok c) (str_kind c)
  | LfName n => ScTok token (id_tok n) CkInt                   (* no constant: outside the guard *)
  | LfTInt k neg v => ScTyped token k (tykw_tok k) hash_t (if neg then Some (minus_t, true) else None) (int_tok v) (LfTInt k neg v)
  | LfBits k v => ScTyped token k (tykw_tok k) hash_t None (int_tok v) (LfBits k v)
  | LfReal _ _ lit => ScTok token (tkk KFixedPoint lit) CkFixed
  end.
Definition spec_sp (i : dinit) : sspec token :=
  match i with
  | DSimple ty None => if is_elem ty then SpElem token (ty_tok ty) else SpNamed token (ty_tok ty)
  | DSimple ty (Some c) =>
      if is_elem ty then SpElemInit token (ty_tok ty) ws1 assign_t ws1 (const_sp c)
      else SpNamedInit token (ty_tok ty) ws1 assign_t ws1 (const_sp c)
  | DEnumType ty v => SpNamedEnum token (ty_tok ty) ws1 assign_t ws1 (id_tok v)
  | DLate ty => SpNamed token (ty_tok ty)
  end.
Definition class_kw (c : dclass) : token :=
  match c with
  | DcInput => kwt KVarInput | DcOutput => kwt KVarOutput | DcInOut => kwt KVarInOut | DcExternal => kwt KVarExternal | DcVar => kwt KVar
  end.
Definition qual_sp (q : dqual) : sqkw token :=
  match q with
  | DqNone => QNone token
  | DqConst => QSome token ws1 (kwt KConstant)
  | DqRetain => QSome token ws1 (kwt KRetain)
  | DqNonRetain => QSome token ws1 (kwt KNonRetain)
  end.
Definition one_name (n : text) : snames token := mkNames token (id_tok n) [].
Definition decl_sp (d : ditem) : sdecl token :=
  match d with
  | DVar n DcInOut _ i => SdInOut token (one_name n) ws1 colon_t ws1 (ty_tok (match i with DSimple ty _ | DEnumType ty _ | DLate ty => ty end))
  | DVar n DcExternal _ i => SdExt token (id_tok n) ws1 colon_t ws1 (ty_tok (match i with DSimple ty _ | DEnumType ty _ | DLate ty => ty end))
  | DVar n _ _ i => SdVar token (one_name n) ws1 colon_t ws1 (spec_sp i)
  | DEdge n rising _ => SdEdge token (one_name n) ws1 colon_t ws1 bool_t ws1 (kwt (if rising then KREdge else KFEdge)) rising
  end.
Definition block_sp (d : ditem) : sblock token :=
  let '(c, q) := match d with DVar _ c q _ => (c, q) | DEdge _ _ q => (DcInput, q) end in
  mkBlock token (class_kw c) (qual_sp q) nl1 (DsSome token (decl_sp d) [] [] semi_t) nl1 (kwt KEndVar).
Definition wb_sp (d : ditem) : swb token := WB token nl1 (block_sp d).

(* what the renderer writes for a function block: the variables, the edge inputs, the statements *)
Definition render_decls (ds : list ditem) : list token := flat_wbs token (map wb_sp ds).
