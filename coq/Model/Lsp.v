(* Model of compiler/plc2x/src/lsp.rs (LspServer::run, handle_request, handle_notification) over
   lsp_project.rs / project.rs: the state is the set of stored documents; a message yields the list of
   frames the server writes.  The analysis of the stored documents is a parameter ([diag]): what is
   published for a document is whatever the analysis says about the current contents.
   Executable; no proofs in this file. *)
From Coq Require Import List NArith ZArith Bool.
Import ListNotations.
Open Scope N_scope.

Section Lsp.
  Variable text : Type.
  Variable D : Type.                       (* a published diagnostics list *)
  Variable T : Type.                       (* a semantic-token result *)

  (* a URI: a number, and whether it converts to a file path (only file: URIs are stored) *)
  Record uri := mkUri { u_id : N; u_file : bool }.

  Definition docs := list (N * text).      (* association list, newest binding first *)

  Fixpoint get (d : docs) (u : N) : option text :=
    match d with
    | [] => None
    | (k, t) :: r => if k =? u then Some t else get r u
    end.
  (* HashMap::insert: replaces the binding *)
  Definition put (d : docs) (u : N) (t : text) : docs :=
    (u, t) :: filter (fun kt => negb (fst kt =? u)) d.

  Variable diag : docs -> N -> D.          (* LspProject::semantic for a file URI *)
  Variable no_diag : D.                    (* vec![] for a URI that is not a file *)
  Variable tokens : option text -> T.      (* LspProject::tokenize: Ok(tokens) or null *)
  Variable null_tokens : T.

  Inductive msg :=
    | DidOpen (u : uri) (version : Z) (t : text)
    | DidChange (u : uri) (version : Z) (changes : list text)
    | DidClose (u : uri)                   (* the document is no longer part of what is analysed *)
    | SemTokens (id : N) (u : uri)
    | BadParams (id : N)                   (* a request of an implemented method whose parameters do not have its shape *)
    | OtherRequest (id : N)                (* a method the server does not implement *)
    | OtherNotification                    (* likewise, without id *)
    | Response (id : N).                   (* a reply from the client *)

  Inductive out :=
    | Publish (u : uri) (version : Z) (d : D)
    | Reply (id : N) (t : T)
    | ErrorReply (id : N) (code : Z).

  Definition method_not_found : Z := (-32601)%Z.
  Definition invalid_params : Z := (-32602)%Z.
  (* HashMap::remove *)
  Definition remove (d : docs) (u : N) : docs := filter (fun kt => negb (fst kt =? u)) d.
  Definition close (d : docs) (u : uri) : docs := if u_file u then remove d (u_id u) else d.

  Definition store (d : docs) (u : uri) (t : text) : docs :=
    if u_file u then put d (u_id u) t else d.

  Definition publish (d : docs) (u : uri) (v : Z) : out :=
    Publish u v (if u_file u then diag d (u_id u) else no_diag).

  Definition step (d : docs) (m : msg) : docs * list out :=
    match m with
    | DidOpen u v t => let d' := store d u t in (d', [publish d' u v])
    | DidChange u v cs =>
        let d' := match last (map Some cs) None with Some t => store d u t | None => d end in
        (d', [publish d' u v])
    | DidClose u => (close d u, [])
    | SemTokens id u =>
        (d, [Reply id (if u_file u then tokens (get d (u_id u)) else null_tokens)])
    | BadParams id => (d, [ErrorReply id invalid_params])
    | OtherRequest id => (d, [ErrorReply id method_not_found])
    | OtherNotification => (d, [])
    | Response _ => (d, [])
    end.

  Fixpoint run (d : docs) (ms : list msg) : docs * list out :=
    match ms with
    | [] => (d, [])
    | m :: r => let '(d1, o1) := step d m in let '(d2, o2) := run d1 r in (d2, o1 ++ o2)
    end.
  (* The life of the process (lsp.rs: start_with_connection; lsp_server: Connection::handle_shutdown, stdio reader):
     LspServer::run hands messages to `step` until a shutdown request arrives or the input ends; the reader thread stops
     at an exit notification, which ends the input; a shutdown request is answered with null and the process then ends
     -- with status 0 exactly when the next message is the exit notification.  What the process wrote, the id of the
     shutdown request it answered, and whether the status is 0. *)
  Inductive frame :=
    | Msg (m : msg)
    | Shutdown (id : N)
    | Exit.

  Record ended := mkEnded { e_out : list out; e_shutdown : option N; e_clean : bool }.

  Fixpoint session (d : docs) (fs : list frame) : ended :=
    match fs with
    | [] => mkEnded [] None false                                   (* "terminated but no shutdown" *)
    | Msg m :: r => let '(d1, o1) := step d m in let e := session d1 r in mkEnded (o1 ++ e_out e) (e_shutdown e) (e_clean e)
    | Exit :: _ => mkEnded [] None false                            (* the reader stops: the input has ended *)
    | Shutdown id :: r => mkEnded [] (Some id) (match r with Exit :: _ => true | _ => false end)
    end.
End Lsp.
