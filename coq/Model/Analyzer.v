(* Models of the pieces of compiler/analyzer the properties C02 / C03 / C06 rest on:
   - the re-assembly at the end of xform_toposort_declarations::apply (name-keyed maps with the
     duplicate check, types in sorted order ++ postfix types ++ POUs in sorted order);
   - the HashSet scans of rule_decl_struct_element_unique_names / rule_enumeration_values_unique;
   - the comparison of rule_decl_subrange_limits with its i128 conversion;
   - the shape every rule has: a table built from all declarations, then each declaration checked
     against the table, diagnostics concatenated (stages.rs::semantic).
   Executable; no proofs in this file. *)
From Coq Require Import List NArith ZArith Bool.
From Verif Require Import Base.Res.
Import ListNotations.
Open Scope N_scope.

(* ---- re-assembly ---- *)
Inductive dkind := DkType | DkPostfix | DkPou.
Record decl := mkDecl { d_kind : dkind; d_name : N; d_body : N }.   (* d_body: identity of the declaration *)

Definition amap := list (N * decl).
Fixpoint alookup (k : N) (m : amap) : option decl :=
  match m with [] => None | (k', v) :: r => if k' =? k then Some v else alookup k r end.
Fixpoint aremove (k : N) (m : amap) : amap :=
  match m with [] => [] | (k', v) :: r => if k' =? k then aremove k r else (k', v) :: aremove k r end.

(* insert_unique: Fail = P0020 DefinitionNameDuplicated *)
Definition insert_unique (m : amap) (d : decl) : res amap :=
  match alookup (d_name d) m with Some _ => Fail | None => Ok ((d_name d, d) :: m) end.

Fixpoint split_decls (ds : list decl) (t : amap) (pf : list decl) (p : amap) : res (amap * list decl * amap) :=
  match ds with
  | [] => Ok (t, pf, p)
  | d :: r =>
      match d_kind d with
      | DkType => match insert_unique t d with Ok t' => split_decls r t' pf p | _ => Fail end
      | DkPostfix => split_decls r t (pf ++ [d]) p
      | DkPou => match insert_unique p d with Ok p' => split_decls r t pf p' | _ => Fail end
      end
  end.

(* sorted_ids.iter().filter_map(|id| map.remove(id)) *)
Fixpoint take_sorted (sorted : list N) (m : amap) : list decl :=
  match sorted with
  | [] => []
  | k :: r => match alookup k m with
              | Some d => d :: take_sorted r (aremove k m)
              | None => take_sorted r m
              end
  end.

Definition reassemble (sorted : list N) (ds : list decl) : res (list decl) :=
  match split_decls ds [] [] [] with
  | Ok (types, postfix, pous) => Ok (take_sorted sorted types ++ postfix ++ take_sorted sorted pous)
  | _ => Fail
  end.

(* ---- HashSet scan: one diagnostic per element whose name was seen before ---- *)
Fixpoint dup_scan (seen : list N) (l : list N) : list N :=
  match l with
  | [] => []
  | x :: r => if existsb (N.eqb x) seen then x :: dup_scan seen r else dup_scan (x :: seen) r
  end.
Definition rule_unique (names : list N) : list N := dup_scan [] names.

(* ---- subrange limits: sign and magnitude compared directly (no conversion that could fail) ---- *)
Definition signed_of (s : bool * N) : bool * N := (fst s && negb (snd s =? 0), snd s).
Definition is_less (lo hi : bool * N) : bool :=
  match signed_of lo, signed_of hi with
  | (false, a), (false, b) => a <? b
  | (true, a), (true, b) => b <? a
  | (sneg, _), _ => sneg
  end.
(* number of diagnostics (0 or 1) *)
Definition rule_subrange (lo hi : bool * N) : N := if is_less lo hi then 0 else 1.

(* ---- the shape of a rule: table from all declarations, then every declaration against it ---- *)
Section TableRule.
  Variable D : Type.                     (* a declaration *)
  Variable key : D -> N.                 (* its (lower-cased) name *)
  Variable diag : Type.
  Variable check : (N -> option D) -> D -> list diag.    (* one declaration against the lookup *)

  Fixpoint find_decl (ds : list D) (k : N) : option D :=
    match ds with [] => None | d :: r => if key d =? k then Some d else find_decl r k end.

  Definition run_rule (ds : list D) : list diag := flat_map (check (find_decl ds)) ds.
  Definition verdict (ds : list D) : bool := match run_rule ds with [] => true | _ => false end.
End TableRule.
