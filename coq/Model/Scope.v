(* Model of compiler/analyzer/src/symbol_table.rs (a stack of scopes keyed by case-insensitive identifiers) and of
   rule_use_declared_symbolic_var.rs, which walks the library and
     - on a function / function block / program declaration: enter(); add(name); visit the children; exit();
     - on a configuration declaration: enter(); visit the children; exit();
     - on a variable declaration with a symbolic name: add(name);
     - on a named variable: find(name), and stops with P0015 (VariableUndefined) at the first name not found.
   The walk is abstracted to the stream of those four events (produced from the real syntax tree by the
   harness, which uses the library's own derived traversal).  Executable; no proofs in this file. *)
From Coq Require Import List NArith Bool.
From Verif Require Import Base.Text.
Import ListNotations.

Inductive ev := EvEnter | EvExit | EvAdd (n : text) | EvUse (n : text) (pos : N).   (* pos: where the name is written *)

(* Id: Eq and Hash compare the lower-cased spelling *)
Definition name_eqb (a b : text) : bool := text_eqb (lower_text a) (lower_text b).
Definition in_scope (n : text) (s : list text) : bool := existsb (name_eqb n) s.
(* SymbolTable::find: the first scope from the front that holds the name *)
Definition found (n : text) (st : list (list text)) : bool := existsb (in_scope n) st.
(* SymbolTable::add: into the front scope; nothing happens on an empty stack *)
Definition st_add (n : text) (st : list (list text)) : list (list text) :=
  match st with [] => [] | s :: r => (n :: s) :: r end.

(* the walk: None = Ok(()), Some (pos, n) = P0015 for the name n written at pos *)
Fixpoint run (st : list (list text)) (evs : list ev) : option (N * text) :=
  match evs with
  | [] => None
  | EvEnter :: r => run ([] :: st) r
  | EvExit :: r => run (tl st) r            (* pop_front; on an empty list a no-op *)
  | EvAdd n :: r => run (st_add n st) r
  | EvUse n pos :: r => if found n st then run st r else Some (pos, n)
  end.

(* SymbolTable::new starts with one (root) scope *)
Definition rule_symbolic (evs : list ev) : option (N * text) := run [[]] evs.

(* ---- the shape the events of a library have: one bracketed group per program organisation unit ---- *)
Inductive item := IDecl (n : text) | IUse (n : text) (pos : N).
Record pou := mkPou { p_name : option text;          (* None: a configuration *)
                      p_items : list item }.          (* declarations and uses in visiting order *)

Definition item_ev (it : item) : ev := match it with IDecl n => EvAdd n | IUse n pos => EvUse n pos end.
Definition events_of_pou (p : pou) : list ev :=
  EvEnter :: (match p_name p with Some n => [EvAdd n] | None => [] end) ++ map item_ev (p_items p) ++ [EvExit].
Definition events_of (ps : list pou) : list ev := flat_map events_of_pou ps.

(* the declarative reading: scanning a unit's items with the names known so far *)
Fixpoint first_bad (known : list text) (items : list item) : option (N * text) :=
  match items with
  | [] => None
  | IDecl n :: r => first_bad (n :: known) r
  | IUse n pos :: r => if in_scope n known then first_bad known r else Some (pos, n)
  end.
Definition pou_known (p : pou) : list text := match p_name p with Some n => [n] | None => [] end.
Definition pou_bad (p : pou) : option (N * text) := first_bad (pou_known p) (p_items p).
Definition pou_ok (p : pou) : bool := match pou_bad p with None => true | Some _ => false end.

Fixpoint first_some {A : Type} (l : list (option A)) : option A :=
  match l with [] => None | Some a :: _ => Some a | None :: r => first_some r end.
