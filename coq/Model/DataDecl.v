(* The transformation xform_resolve_late_bound_data_decl.rs: a declaration  A : B;  in a TYPE block is parsed "late bound";
   the transformation finds out what A is from what B is -- an elementary-based type, an enumeration or a structure -- by
   building a graph with an edge from every base to its alias, starting a depth-first search at every declared type and
   giving every reached name the kind of the search's root.

   The model works on the type declarations in visiting order:
     TyDecl n (Some k)   a simple, enumeration or structure declaration of n
     TyDecl n None       a declaration the transformation does not enter (subrange, array, string, initialized structure)
     TyAlias n b         n : b;
   and follows the code step by step: nodes are created on first mention with the data of that mention (the declared
   kind; "late bound" for an alias; "unspecified" for a base), a declared type becomes a root with the data its node
   *already has*, a second declaration of a declared name stops with P0019... (DeclarationNameDuplicated).  An alias whose
   kind stays unknown is answered "not implemented" (one diagnostic per alias). *)
From Coq Require Import List NArith Bool.
From Verif Require Import Base.Text Gen.GenRules Model.Rules.
Import ListNotations.

Inductive dkind := DkSimple | DkEnum | DkStruct.
Inductive ndata := NdKind (k : dkind) | NdLate | NdUnspec.
Inductive dfact := TyDecl (n : text) (k : option dkind) (pos : N) | TyAlias (n base : text).

Record dstate := mkDState {
  d_nodes : list (text * ndata);       (* SymbolGraph.nodes: name -> data given at creation *)
  d_decl : list text;                  (* declared_types *)
  d_roots : list (text * ndata);       (* roots, in order *)
  d_edges : list (text * text) }.      (* base -> alias *)
Definition dinit0 : dstate := mkDState [] [] [] [].

Fixpoint node_data (nodes : list (text * ndata)) (n : text) : option ndata :=
  match nodes with
  | [] => None
  | (m, d) :: r => if text_eqb m n then Some d else node_data r n
  end.
Definition add_node (nodes : list (text * ndata)) (n : text) (d : ndata) : list (text * ndata) :=
  match node_data nodes n with Some _ => nodes | None => nodes ++ [(n, d)] end.

Definition dstep (s : dstate) (f : dfact) : dstate + diag :=
  match f with
  | TyDecl n None _ => inl s
  | TyDecl n (Some k) pos =>
      match node_data (d_nodes s) n with
      | None => inl (mkDState (d_nodes s ++ [(n, NdKind k)]) (n :: d_decl s) (d_roots s ++ [(n, NdKind k)]) (d_edges s))
      | Some d =>
          if mem n (d_decl s) then inr (P_DeclarationNameDuplicated, pos)
          else inl (mkDState (d_nodes s) (n :: d_decl s) (d_roots s ++ [(n, d)]) (d_edges s))
      end
  | TyAlias n b =>
      let nodes1 := add_node (d_nodes s) b NdUnspec in
      let nodes2 := add_node nodes1 n NdLate in
      inl (mkDState nodes2 (d_decl s) (d_roots s) (d_edges s ++ [(b, n)]))
  end.
Fixpoint dwalk (s : dstate) (fs : list dfact) : dstate + diag :=
  match fs with
  | [] => inl s
  | f :: r => match dstep s f with inl s' => dwalk s' r | inr d => inr d end
  end.

(* the names reached from a set of names along the edges (the root included), with fuel for the number of rounds *)
Definition succs (edges : list (text * text)) (n : text) : list text :=
  map snd (filter (fun e => text_eqb (fst e) n) edges).
Fixpoint reach (edges : list (text * text)) (fuel : nat) (frontier seen : list text) : list text :=
  match fuel with
  | O => seen
  | S f =>
      let fresh := filter (fun n => negb (mem n seen)) frontier in
      match fresh with
      | [] => seen
      | _ => reach edges f (flat_map (succs edges) fresh) (seen ++ fresh)
      end
  end.
Definition reach_from (s : dstate) (r : text) : list text := reach (d_edges s) (S (length (d_nodes s))) [r] [].

(* resolved_types: every root gives its data to all it reaches; a later root overwrites an earlier one *)
Definition resolved (s : dstate) : list (text * ndata) :=
  fold_left (fun acc rd => map (fun n => (n, snd rd)) (reach_from s (fst rd)) ++ acc) (d_roots s) [].

Definition alias_kind (res : list (text * ndata)) (n : text) : option dkind :=
  match node_data res n with Some (NdKind k) => Some k | _ => None end.

(* the kinds of the aliases in order, or the diagnostics *)
Definition xform_data_decl (fs : list dfact) : list dkind + list diag :=
  match dwalk dinit0 fs with
  | inr d => inr [d]
  | inl s =>
      let res := resolved s in
      let aliases := flat_map (fun f => match f with TyAlias n _ => [n] | _ => [] end) fs in
      let ks := map (alias_kind res) aliases in
      if forallb (fun k => match k with Some _ => true | None => false end) ks
      then inl (flat_map (fun k => match k with Some x => [x] | None => [] end) ks)
      else inr (flat_map (fun k => match k with Some _ => [] | None => [todo_diag] end) ks)
  end.

(* ---- what it means on a well-formed sequence: follow the bases to a declared type ---- *)
Fixpoint decl_of (fs : list dfact) (n : text) : option (option dkind + text) :=
  match fs with
  | [] => None
  | TyDecl m k _ :: r => if text_eqb m n then Some (inl k) else decl_of r n
  | TyAlias m b :: r => if text_eqb m n then Some (inr b) else decl_of r n
  end.
Fixpoint chain (fs : list dfact) (fuel : nat) (n : text) : option dkind :=
  match fuel with
  | O => None
  | S f => match decl_of fs n with
           | Some (inl k) => k
           | Some (inr b) => chain fs f b
           | None => None
           end
  end.
