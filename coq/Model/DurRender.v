(* TIME#<n>ms, the renderer's text for a duration (visit_duration_literal writes whole_milliseconds()), as the parser reads it
   back: integer(), TryFrom<Integer> for FixedPoint, DurationLiteral::try_milliseconds (Model/Literals.v). *)
From Coq Require Import List NArith Bool.
From Verif Require Import Base.Text Model.Literals.
Import ListNotations.
Open Scope N_scope.

Definition read_milliseconds (tx : text) : option (N * N) :=
  match integer_new tx with
  | Some v => match fixed_of_integer v with
              | Some fx => try_from_units fx npu_milli
              | None => None
              end
  | None => None
  end.
