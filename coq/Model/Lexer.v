(* Model of compiler/parser/src/{preprocessor.rs, token.rs (via Gen.GenTokens), lexer.rs,
   xform_tokens.rs}: preprocess, maximal-munch tokenisation with running line/column, and the
   insertion of ';' after END_IF.  Executable; no proofs in this file. *)
From Coq Require Import List NArith Bool String Ascii.
From Verif Require Import Base.Text Gen.GenTokens.
Import ListNotations.
Close Scope string_scope.
Open Scope list_scope.
Open Scope N_scope.

(* ------------------------------------------------------------------------------------ *)
(* preprocessor.rs: remove_oscat_comment                                                 *)

Definition text_of_string (s : string) : text :=
  map (fun a => N_of_ascii a) (list_ascii_of_string s).

Definition oscat_open : text := text_of_string "(*@KEY@:DESCRIPTION*)".
Definition oscat_close : text := text_of_string "(*@KEY@:END_DESCRIPTION*)".

Definition blank_char (c : N) : text :=
  if c =? 10 then [10] else repeat 32 (N.to_nat (utf8_len c)).

Definition preprocess (t : text) : text :=
  match find_sub oscat_open t, find_sub oscat_close t with
  | Some s, Some e =>
      if Nat.ltb s e then
        let k := (s + List.length oscat_open)%nat in
        firstn k t ++ flat_map blank_char (firstn (e - k) (skipn k t)) ++ skipn e t
      else t
  | _, _ => t
  end.

(* ------------------------------------------------------------------------------------ *)
(* hand-written recognisers for the 17 regular expressions of token.rs.
   Each returns the number of characters of the longest match at the start of the text. *)

Definition matcher := text -> option nat.

Definition m_crlf : matcher := fun t =>
  match t with 13 :: 10 :: _ => Some 2%nat | _ => None end.
Definition m_lf : matcher := fun t => match t with 10 :: _ => Some 1%nat | _ => None end.
Definition m_ff : matcher := fun t => match t with 12 :: _ => Some 1%nat | _ => None end.

Definition is_blank (c : N) : bool := (c =? 32) || (c =? 9).
Definition m_ws : matcher := fun t =>
  match span_while is_blank t with O => None | n => Some n end.

(* the block comment pattern as its DFA: [st] = the previous character was a '*' that may
   start either "\*[^\)]" or the closing "\*\)" *)
Fixpoint comment_body (st : bool) (t : text) (n : nat) : option nat :=
  match t with
  | [] => None
  | c :: r =>
      if st then (if c =? 41 then Some (S n) else comment_body false r (S n))
      else (if c =? 42 then comment_body true r (S n) else comment_body false r (S n))
  end.
Definition m_comment : matcher := fun t =>
  match t with 40 :: 42 :: r => comment_body false r 2%nat | _ => None end.

(* the line comment pattern: //, anything but CR LF, optional CRLF or LF *)
Definition not_eol (c : N) : bool := negb ((c =? 13) || (c =? 10)).
Definition m_line_comment : matcher := fun t =>
  match t with
  | 47 :: 47 :: r =>
      let n := span_while not_eol r in
      match skipn n r with
      | 13 :: 10 :: _ => Some (n + 4)%nat
      | 10 :: _ => Some (n + 3)%nat
      | _ => Some (n + 2)%nat
      end
  | _ => None
  end.

Definition m_quoted (q : N) : matcher := fun t =>
  match t with
  | c :: r =>
      if c =? q then
        let n := span_while (fun x => negb (x =? q)) r in
        match skipn n r with
        | _ :: _ => Some (n + 2)%nat
        | [] => None
        end
      else None
  | [] => None
  end.

Definition is_ident_start (c : N) : bool := is_alpha c || (c =? 95).
Definition is_ident_char (c : N) : bool := is_alpha c || is_digit c || (c =? 95).
Definition m_ident : matcher := fun t =>
  match t with
  | c :: r => if is_ident_start c then Some (S (span_while is_ident_char r)) else None
  | [] => None
  end.

Definition is_hex (c : N) : bool := is_digit c || ((65 <=? c) && (c <=? 70)).
Definition is_oct (c : N) : bool := (48 <=? c) && (c <=? 55).
Definition is_bin (c : N) : bool := (c =? 48) || (c =? 49).
Definition or_us (p : N -> bool) (c : N) : bool := p c || (c =? 95).

(* prefix, one digit of the base, then digits of the base or '_' *)
Definition m_based (prefix : text) (d : N -> bool) : matcher := fun t =>
  if prefix_eq prefix t then
    match skipn (List.length prefix) t with
    | c :: r => if d c then Some (List.length prefix + 1 + span_while (or_us d) r)%nat else None
    | [] => None
    end
  else None.

Definition m_digits : matcher := fun t =>
  match t with
  | c :: r => if is_digit c then Some (S (span_while (or_us is_digit) r)) else None
  | [] => None
  end.

(* the FixedPoint pattern: digits, '.', one or more of [0-9_] *)
Definition m_fixed : matcher := fun t =>
  match m_digits t with
  | Some n =>
      match skipn n t with
      | 46 :: r =>
          match span_while (or_us is_digit) r with
          | O => None
          | k => Some (n + 1 + k)%nat
          end
      | _ => None
      end
  | None => None
  end.

(* the FloatingPoint pattern: fixed, [eE], optional sign, one or more of [0-9_] *)
Definition m_float : matcher := fun t =>
  match m_fixed t with
  | Some n =>
      match skipn n t with
      | e :: r =>
          if (e =? 101) || (e =? 69) then
            let '(s, r') :=
              match r with
              | c :: r' => if (c =? 43) || (c =? 45) then (1%nat, r') else (O, r)
              | [] => (O, r)
              end in
            match span_while (or_us is_digit) r' with
            | O => None
            | k => Some (n + 1 + s + k)%nat
            end
          else None
      | [] => None
      end
  | None => None
  end.

Definition is_iqm (c : N) : bool :=
  let u := upper c in (u =? 73) || (u =? 81) || (u =? 77).
Definition is_size (c : N) : bool :=
  let u := upper c in (u =? 88) || (u =? 66) || (u =? 87) || (u =? 68) || (u =? 76).

(* incomplete direct address: percent, I Q or M, star; ignore(case) *)
Definition m_addr_incomplete : matcher := fun t =>
  match t with
  | 37 :: l :: 42 :: _ => if is_iqm l then Some 3%nat else None
  | _ => None
  end.

(* zero or more of: '.', one or more digits *)
Fixpoint addr_tail (fuel : nat) (t : text) : nat :=
  match fuel with
  | O => O
  | S f =>
      match t with
      | 46 :: d :: r =>
          if is_digit d then
            let k := span_while is_digit r in
            (2 + k + addr_tail f (skipn k r))%nat
          else O
      | _ => O
      end
  end.

(* direct address: percent, I Q M, optional size X B W D L, digits, dotted digits; ignore(case) *)
Definition m_addr : matcher := fun t =>
  match t with
  | 37 :: l :: r =>
      if is_iqm l then
        let '(s, r') :=
          match r with
          | c :: r' => if is_size c then (1%nat, r') else (O, r)
          | [] => (O, r)
          end in
        match r' with
        | d :: r'' =>
            if is_digit d then
              let k := span_while is_digit r'' in
              Some (2 + s + 1 + k + addr_tail (List.length r'') (skipn k r''))%nat
            else None
        | [] => None
        end
      else None
  | _ => None
  end.

Definition cr : string := String (ascii_of_nat 13) EmptyString.
Definition lf : string := String (ascii_of_nat 10) EmptyString.
Definition ff : string := String (ascii_of_nat 12) EmptyString.
Definition tab : string := String (ascii_of_nat 9) EmptyString.

Open Scope string_scope.

(* The regular expressions this model knows, by their source text (after Rust unescaping of
   "..." literals; r"..." literals are verbatim).  An unknown pattern has no matcher. *)
Definition regex_matcher (pat : string) (ic : bool) : option matcher :=
  if String.eqb pat "\r\n" then Some m_crlf
  else if String.eqb pat "\n" then Some m_lf
  else if String.eqb pat "\f" then Some m_ff
  else if String.eqb pat "[ \t]+" then Some m_ws
  else if String.eqb pat "\(\*(?:[^*]|\*[^\)])*\*\)" then Some m_comment
  else if String.eqb pat "//[^\r\n]*(\r\n|\n)?" then Some m_line_comment
  else if String.eqb pat "'[^']*'" then Some (m_quoted 39)
  else if String.eqb pat """[^""]*""" then Some (m_quoted 34)
  else if String.eqb pat "[A-Za-z_][A-Za-z0-9_]*" then Some m_ident
  else if String.eqb pat "16#[0-9A-F][0-9A-F_]*" then Some (m_based (text_of_string "16#") is_hex)
  else if String.eqb pat "8#[0-7][0-7_]*" then Some (m_based (text_of_string "8#") is_oct)
  else if String.eqb pat "2#[0-1][0-1_]*" then Some (m_based (text_of_string "2#") is_bin)
  else if String.eqb pat "(?:[0-9][0-9_]*)(?:\.[0-9_]+)(?:[eE][+-]?[0-9_]+)" then Some m_float
  else if String.eqb pat "(?:[0-9][0-9_]*)(?:\.[0-9_]+)" then Some m_fixed
  else if String.eqb pat "[0-9][0-9_]*" then Some m_digits
  else if String.eqb pat "%[IQM]\*" && ic then Some m_addr_incomplete
  else if String.eqb pat "%[IQM]([XBWDL])?(\d+(\.\d+)*)" && ic then Some m_addr
  else None.

Close Scope string_scope.

(* ------------------------------------------------------------------------------------ *)
(* longest match over the generated table; ties: literal tokens before regexes, then
   source order (the only ties that occur are keyword-vs-Identifier) *)

Definition lit_candidate (t : text) (row : list N * bool * tok_kind) : option (nat * tok_kind) :=
  let '(p, ic, k) := row in
  match p with
  | [] => None
  | _ => if (if ic then prefix_ci p t else prefix_eq p t) then Some (List.length p, k) else None
  end.

Definition rx_candidate (t : text) (row : string * bool * tok_kind) : option (nat * tok_kind) :=
  let '(pat, ic, k) := row in
  match regex_matcher pat ic with
  | Some m => match m t with
              | Some (S n) => Some (S n, k)
              | _ => None
              end
  | None => None
  end.

Definition better (a : option (nat * tok_kind)) (b : option (nat * tok_kind)) :=
  match a, b with
  | None, _ => b
  | _, None => a
  | Some (n, _), Some (m, _) => if Nat.ltb n m then b else a
  end.

Definition lex_one_with (lits : list (list N * bool * tok_kind))
           (rxs : list (string * bool * tok_kind)) (t : text) : option (nat * tok_kind) :=
  fold_left better (map (rx_candidate t) rxs) (fold_left better (map (lit_candidate t) lits) None).

(* logos does not fall back to '(' once it has entered the comment pattern's loop: an opener whose
   comment never closes rejects (the rejected slice is the rest of the input, see err_len) *)
Definition unclosed_comment (t : text) : bool :=
  match t with
  | 40 :: 42 :: _ => match m_comment t with Some _ => false | None => true end
  | _ => false
  end.

Definition lex_one (t : text) : option (nat * tok_kind) :=
  if unclosed_comment t then None else lex_one_with literal_tokens regex_tokens t.
(* conversion must unfold [lex_one] before it looks inside the table-driven fold *)
Strategy 1000 [lex_one_with].

(* List.length (in characters) of the rejected slice when nothing matches: logos does not back out of
   an unterminated comment or string, the rest of the input is rejected; otherwise one character *)
Definition err_len (t : text) : nat :=
  match t with
  | 40 :: 42 :: _ => List.length t
  | 39 :: _ => List.length t
  | 34 :: _ => List.length t
  | _ => 1%nat
  end.

(* ------------------------------------------------------------------------------------ *)
(* lexer.rs: tokenize, with the running line / column *)

Record token := mkToken {
  t_kind : tok_kind;
  t_start : N;   (* byte offsets into the preprocessed text *)
  t_end : N;
  t_line : N;    (* 0-based *)
  t_col : N;     (* 0-based, bytes since the last line feed *)
  t_text : text
}.

Inductive lex_item :=
  | LTok (t : token)
  | LErr (s e : N) (line col : N) (tx : text).

Fixpoint advance (tx : text) (lc : N * N) : N * N :=
  match tx with
  | [] => lc
  | c :: r => advance r (if c =? 10 then (fst lc + 1, 0) else (fst lc, snd lc + utf8_len c))
  end.

Fixpoint lex_loop_with (one : text -> option (nat * tok_kind))
         (fuel : nat) (t : text) (pos : N) (lc : N * N) : list lex_item :=
  match fuel with
  | O => []
  | S f =>
      match t with
      | [] => []
      | _ :: _ =>
          match one t with
          | Some (n, k) =>
              let tx := firstn n t in
              let e := pos + blen tx in
              LTok (mkToken k pos e (fst lc) (snd lc) tx) :: lex_loop_with one f (skipn n t) e (advance tx lc)
          | None =>
              let n := err_len t in
              let tx := firstn n t in
              let e := pos + blen tx in
              LErr pos e (fst lc) (snd lc) tx :: lex_loop_with one f (skipn n t) e (advance tx lc)
          end
      end
  end.

Definition lex_loop := lex_loop_with lex_one.

Definition lex_items (t : text) : list lex_item := lex_loop (List.length t) t 0 (0, 0).

Definition tokens_of (l : list lex_item) : list token :=
  flat_map (fun i => match i with LTok t => [t] | LErr _ _ _ _ _ => [] end) l.
Definition errors_of (l : list lex_item) : list (N * N) :=
  flat_map (fun i => match i with LTok _ => [] | LErr s e _ _ _ => [(s, e)] end) l.

(* ------------------------------------------------------------------------------------ *)
(* xform_tokens.rs: insert_keyword_statement_terminators *)

Definition kind_eqb (a b : tok_kind) : bool := tok_index a =? tok_index b.

Fixpoint insert_terminators_from (in_end : bool) (ts : list token) : list token :=
  match ts with
  | [] => []
  | tk :: r =>
      if negb in_end && kind_eqb (t_kind tk) KEndIf then
        tk :: insert_terminators_from true r
      else if in_end && negb (kind_eqb (t_kind tk) KSemicolon)
                     && negb (kind_eqb (t_kind tk) KComment)
                     && negb (kind_eqb (t_kind tk) KWhitespace) then
        mkToken KSemicolon (t_start tk) (t_end tk) (t_line tk) (t_col tk) [] :: tk
          :: insert_terminators_from (kind_eqb (t_kind tk) KEndIf) r
      else tk :: insert_terminators_from in_end r
  end.

Definition insert_terminators (ts : list token) : list token := insert_terminators_from false ts.

(* lib.rs: tokenize_program = preprocess; tokenize; insert terminators *)
Definition tokenize_program (t : text) : list token * list (N * N) :=
  let items := lex_items (preprocess t) in
  (insert_terminators (tokens_of items), errors_of items).

(* Domain on which the model is claimed to agree exactly with logos: every non-ASCII character
   lies inside a comment or string token (logos' Unicode case folding and \d are not modelled). *)
Definition item_in_domain (i : lex_item) : bool :=
  match i with
  | LTok tk =>
      kind_eqb (t_kind tk) KComment || kind_eqb (t_kind tk) KSingleByteString
      || kind_eqb (t_kind tk) KDoubleByteString || forallb is_ascii (t_text tk)
  | LErr _ _ _ _ tx => forallb is_ascii tx
  end.
Definition in_domain (t : text) : bool :=
  forallb item_in_domain (lex_items (preprocess t)).

(* the text of a keyword or symbol token as the table spells it (the first pattern of the kind) *)
Definition canonical (k : tok_kind) : text :=
  match find (fun row => kind_eqb (snd row) k) literal_tokens with Some row => fst (fst row) | None => [] end.
(* positions play no role in the grammar: a token without them *)
Definition norm_tok (t : token) : token := mkToken (t_kind t) 0 0 0 0 (t_text t).
