(* Model of compiler/plc2x/src/lsp_project.rs: LspProject::tokenize and From<LspTokenType>.
   A highlighted token is (line, start, length, legend index); the response carries them in the
   LSP relative encoding (deltaLine, deltaStart, length, tokenType, tokenModifiers).
   Executable; no proofs in this file.  u32 casts are not modelled (texts shorter than 2^32 bytes). *)
From Coq Require Import List NArith Bool.
From Verif Require Import Base.Text Gen.GenTokens Gen.GenLegend Model.Lexer.
Import ListNotations.
Open Scope N_scope.

Definition abs_tok := (N * N * N * N)%type.        (* line, start, length, legend index *)
Definition rel_tok := (N * N * N * N * N)%type.    (* deltaLine, deltaStart, length, type, modifiers *)

(* From<LspTokenType> for Option<SemanticToken>: position and length of the token, class from the table *)
Definition sem_abs (tk : token) : list abs_tok :=
  match legend_of (t_kind tk) with
  | Some ty => [(t_line tk, t_col tk, blen (t_text tk), ty)]
  | None => []
  end.

Definition abs_tokens (toks : list token) : list abs_tok := flat_map sem_abs toks.

(* the closure in LspProject::tokenize: differences to the previous highlighted token *)
Fixpoint encode_rel (pl pc : N) (l : list abs_tok) : list rel_tok :=
  match l with
  | [] => []
  | (ln, c, len, ty) :: r =>
      (ln - pl, (if ln =? pl then c - pc else c), len, ty, 0) :: encode_rel ln c r
  end.

Definition semantic_tokens (toks : list token) : list rel_tok := encode_rel 0 0 (abs_tokens toks).

(* what an LSP client does with the data (specification 3.16, "Semantic Tokens") *)
Fixpoint decode_rel (pl pc : N) (l : list rel_tok) : list abs_tok :=
  match l with
  | [] => []
  | (dl, dc, len, ty, _) :: r =>
      let ln := pl + dl in
      let c := if dl =? 0 then pc + dc else dc in
      (ln, c, len, ty) :: decode_rel ln c r
  end.

(* the whole request: a lexical error yields a null result *)
Definition lsp_semantic_tokens (t : text) : option (list rel_tok) :=
  let '(toks, errs) := tokenize_program t in
  match errs with
  | [] => Some (semantic_tokens toks)
  | _ :: _ => None
  end.
