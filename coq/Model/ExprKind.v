(* The transformation xform_resolve_late_bound_expr_kind.rs: a bare identifier in an expression is parsed as a "late bound"
   element; the transformation turns it into a variable or into an enumeration value, depending on the kind of the variable
   the surrounding assignment assigns to.  The resolver is a fold with state: a table from the names of the current unit's
   variables to the kind of their initializer (filled when a function, function block or program is entered, cleared when
   it is left) and the kind of the current assignment's target (set when an assignment starts, reset when it ends).

   The model runs on the stream of events the fold meets, in its order:
     EfEnter vars      a unit starts; vars = (name, kind of initializer) of its variables, in declaration order
     EfExit            the unit ends
     EfAssign t        an assignment starts; t says what its target is
     EfEndAssign       the assignment ends
     EfLate n          a late-bound element named n
   and answers the resolution of every late-bound element, or the failure ("not implemented", P9999) the first event that
   has none raises.  Names are the case-folded keys of the identifiers. *)
From Coq Require Import List NArith Bool.
From Verif Require Import Base.Text.
Import ListNotations.

Inductive vkind := VkNone | VkSimple | VkString | VkEnumValues | VkEnumType | VkFb | VkSubrange | VkStruct | VkArray | VkLate.
Inductive atarget := AtDirect | AtNamed (n : text) | AtArray | AtStruct.
Inductive efact := EfEnter (vars : list (text * vkind)) | EfExit | EfAssign (t : atarget) | EfEndAssign | EfLate (n : text).
Inductive eres := ErVar (n : text) | ErEnum (n : text).

Record estate := mkEState { e_tbl : list (text * vkind); e_cur : vkind }.
Definition einit : estate := mkEState [] VkNone.

(* HashMap::insert, one variable after the other: the last declaration of a name wins *)
Definition insert_all (tbl : list (text * vkind)) (vars : list (text * vkind)) : list (text * vkind) :=
  fold_left (fun t v => v :: t) vars tbl.
Fixpoint find_kind (tbl : list (text * vkind)) (n : text) : vkind :=
  match tbl with
  | [] => VkNone
  | (m, k) :: r => if text_eqb m n then k else find_kind r n
  end.

(* what a late-bound element becomes under the current target kind: Some false = a variable, Some true = an enumeration
   value, None = "not implemented" *)
Definition late_kind (k : vkind) : option bool :=
  match k with
  | VkNone | VkSimple | VkArray => Some false
  | VkEnumType => Some true
  | VkString | VkEnumValues | VkFb | VkSubrange | VkStruct | VkLate => None
  end.

Definition estep (s : estate) (f : efact) : option (estate * list eres) :=
  match f with
  | EfEnter vars => Some (mkEState (insert_all (e_tbl s) vars) (e_cur s), [])
  | EfExit => Some (mkEState [] (e_cur s), [])
  | EfAssign AtDirect => Some (mkEState (e_tbl s) VkNone, [])
  | EfAssign (AtNamed n) => Some (mkEState (e_tbl s) (find_kind (e_tbl s) n), [])
  | EfAssign AtArray | EfAssign AtStruct => None
  | EfEndAssign => Some (mkEState (e_tbl s) VkNone, [])
  | EfLate n => match late_kind (e_cur s) with
                | Some true => Some (s, [ErEnum n])
                | Some false => Some (s, [ErVar n])
                | None => None
                end
  end.

Fixpoint erun (s : estate) (fs : list efact) : option (estate * list eres) :=
  match fs with
  | [] => Some (s, [])
  | f :: r => match estep s f with
              | Some (s1, o1) => match erun s1 r with
                                 | Some (s2, o2) => Some (s2, o1 ++ o2)
                                 | None => None
                                 end
              | None => None
              end
  end.

Definition resolve_expr_kinds (fs : list efact) : option (list eres) :=
  match erun einit fs with Some (_, o) => Some o | None => None end.

(* ---- the same by unit: what the resolution of one unit is, by itself ---- *)
Inductive seg := SLate (n : text) | SAssign (t : atarget) (ls : list text).
Definition flat_seg (g : seg) : list efact :=
  match g with
  | SLate n => [EfLate n]
  | SAssign t ls => EfAssign t :: map EfLate ls ++ [EfEndAssign]
  end.
Definition eunit : Type := (list (text * vkind) * list seg)%type.
Definition flat_unit (u : eunit) : list efact := EfEnter (fst u) :: flat_map flat_seg (snd u) ++ [EfExit].

Definition res_of (b : bool) (n : text) : eres := if b then ErEnum n else ErVar n.
Definition seg_res (tbl : list (text * vkind)) (g : seg) : option (list eres) :=
  match g with
  | SLate n => Some [ErVar n]
  | SAssign AtDirect ls => Some (map ErVar ls)
  | SAssign (AtNamed n) ls =>
      match ls with
      | [] => Some []
      | _ :: _ => match late_kind (find_kind tbl n) with
                  | Some b => Some (map (res_of b) ls)
                  | None => None
                  end
      end
  | SAssign AtArray _ | SAssign AtStruct _ => None
  end.
Fixpoint segs_res (tbl : list (text * vkind)) (gs : list seg) : option (list eres) :=
  match gs with
  | [] => Some []
  | g :: r => match seg_res tbl g with
              | Some o1 => match segs_res tbl r with Some o2 => Some (o1 ++ o2) | None => None end
              | None => None
              end
  end.
Definition unit_res (u : eunit) : option (list eres) := segs_res (insert_all [] (fst u)) (snd u).
Fixpoint units_res (us : list eunit) : option (list eres) :=
  match us with
  | [] => Some []
  | u :: r => match unit_res u with
              | Some o1 => match units_res r with Some o2 => Some (o1 ++ o2) | None => None end
              | None => None
              end
  end.
