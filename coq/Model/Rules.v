(* Models of the semantic rules that look at declarations, invocations and configurations:
     rule_var_decl_const_initialized, rule_var_decl_const_not_fb, rule_var_decl_global_const_requires_external_const,
     rule_program_task_definition_exists, rule_use_declared_enumerated_value, rule_function_block_invocation,
     rule_unsupported_stdlib_type  (compiler/analyzer/src/rule_*.rs).
   Each rule walks the resolved library with the derived traversal and looks only at a few kinds of node; the walk is
   abstracted to the stream of those nodes (the "facts", produced from the real syntax tree by the harness with the same
   traversal), each with the position its diagnostic would point at.  A rule returns its diagnostics as (code, position)
   in the order they are reported:  []  is Ok(()),  a rule that returns at its first problem gives a one-element list.
   Identifiers compare by their lower-case spelling (Id: Eq and Hash).  Problem codes and the list of unsupported
   standard types are regenerated from the repository (Gen/GenRules.v).  Executable; no proofs in this file. *)
From Coq Require Import List NArith Bool.
From Verif Require Import Base.Text Gen.GenRules.
Import ListNotations.

Inductive vclass := VcVar | VcTemp | VcInput | VcOutput | VcInOut | VcExternal | VcGlobal | VcAccess.
Inductive qual := QUnspec | QConst | QRetain | QNonRetain.
Inductive ikind := IkNone | IkSimple | IkString | IkEnumValues | IkEnumType | IkFB | IkSubrange | IkStruct | IkArray | IkLate.
Inductive pkind := PkFunction | PkFB | PkProgram.
Inductive arg := ANamed (n : text) | APos | AOut (n : text).

Record var := mkVar {
  v_name : option text;        (* None: a directly represented variable *)
  v_class : vclass;
  v_qual : qual;
  v_ikind : ikind;
  v_type : text;               (* the type name of a function block instance or of an enumerated type initializer *)
  v_hasinit : bool;
  v_pos : N }.                 (* VarDecl::span() = the identifier *)

Inductive fact :=
  | FEnumAlias (name target : text) (tpos : N)          (* TYPE name : target; *)
  | FEnumValues (name : text) (values : list text)      (* TYPE name : (v1, v2); *)
  | FEnter (k : pkind) (name : text)
  | FExit
  | FVar (v : var)
  | FEdge (n : text)                                     (* an edge-detecting input *)
  | FCall (inst : text) (pos : N) (args : list arg)
  | FEnumInit (ty : text) (tpos : N) (value : option (text * N))
  | FFbInit (ty : text) (tpos : N)
  | FRes (tasks : list text) (progs : list (option (text * N))).

Definition diag := (N * N)%type.          (* problem code, start of the primary label *)

Definition key (n : text) : text := lower_text n.
Definition mem (k : text) (l : list text) : bool := existsb (text_eqb k) l.
Definition todo_diag : diag := (P_NotImplemented, 0%N).

Definition is_const (v : var) : bool := match v_qual v with QConst => true | _ => false end.
Definition is_external (v : var) : bool := match v_class v with VcExternal => true | _ => false end.
Definition is_global (v : var) : bool := match v_class v with VcGlobal => true | _ => false end.
Definition is_fb (v : var) : bool := match v_ikind v with IkFB => true | _ => false end.

(* ---- rule_var_decl_const_initialized: diagnostics accumulate; an initializer kind the rule does not handle returns a
        single 'not implemented' diagnostic at once ---- *)
Inductive cstat := CsOk | CsMissing | CsTodo.
Definition const_status (v : var) : cstat :=
  if is_external v then CsOk
  else if is_const v then
    match v_ikind v with
    | IkSimple | IkString | IkEnumValues | IkEnumType => if v_hasinit v then CsOk else CsMissing
    | _ => CsTodo
    end
  else CsOk.

Fixpoint const_init_go (fs : list fact) (acc : list diag) : list diag :=
  match fs with
  | [] => rev acc
  | FVar v :: r =>
      match const_status v with
      | CsOk => const_init_go r acc
      | CsMissing => const_init_go r ((P_ConstantMustHaveInitializer, v_pos v) :: acc)
      | CsTodo => [todo_diag]
      end
  | _ :: r => const_init_go r acc
  end.
Definition rule_const_init (fs : list fact) : list diag := const_init_go fs [].

(* ---- rule_var_decl_const_not_fb ---- *)
Definition const_fb_diag (f : fact) : list diag :=
  match f with
  | FVar v => if is_const v && is_fb v then [(P_FunctionBlockNotConstant, v_pos v)] else []
  | _ => []
  end.
Definition rule_const_not_fb (fs : list fact) : list diag := flat_map const_fb_diag fs.

(* ---- rule_var_decl_global_const_requires_external_const: first the names of the VAR_GLOBAL CONSTANT variables (a
        directly represented one is 'not implemented'), then the first non-constant external with such a name ---- *)
Fixpoint global_consts (fs : list fact) : option (list text) :=
  match fs with
  | [] => Some []
  | FVar v :: r =>
      if is_global v && is_const v then
        match v_name v with
        | Some n => match global_consts r with Some l => Some (key n :: l) | None => None end
        | None => None
        end
      else global_consts r
  | _ :: r => global_consts r
  end.
Definition ext_bad (cs : list text) (f : fact) : option diag :=
  match f with
  | FVar v =>
      if is_external v && negb (is_const v) then
        match v_name v with
        | Some n => if mem (key n) cs then Some (P_VariableMustBeConst, v_pos v) else None
        | None => None
        end
      else None
  | _ => None
  end.
Fixpoint first_diag (g : fact -> option diag) (fs : list fact) : list diag :=
  match fs with
  | [] => []
  | f :: r => match g f with Some d => [d] | None => first_diag g r end
  end.
Definition rule_global_const (fs : list fact) : list diag :=
  match global_consts fs with
  | None => [todo_diag]
  | Some cs => first_diag (ext_bad cs) fs
  end.

(* ---- rule_program_task_definition_exists: per resource, every WITH task must be a task of that resource ---- *)
Definition task_diags (tasks : list text) (progs : list (option (text * N))) : list diag :=
  flat_map (fun p => match p with
                     | Some (t, pos) => if mem (key t) (map key tasks) then [] else [(P_ProgramMissingTaskConfig, pos)]
                     | None => []
                     end) progs.
Definition task_diag (f : fact) : list diag := match f with FRes tasks progs => task_diags tasks progs | _ => [] end.
Definition rule_task (fs : list fact) : list diag := flat_map task_diag fs.

(* ---- rule_unsupported_stdlib_type ---- *)
Definition stdlib_diag (f : fact) : list diag :=
  match f with
  | FFbInit ty pos => if mem (key ty) unsupported_types then [(P_UnsupportedStdLibType, pos)] else []
  | _ => []
  end.
Definition rule_stdlib (fs : list fact) : list diag := flat_map stdlib_diag fs.

(* ---- rule_use_declared_enumerated_value ---- *)
Inductive edef := EAlias (target : text) (tpos : N) | EValues (vs : list text).
(* HashMap::insert in source order: a later declaration of a name replaces an earlier one *)
Fixpoint enum_defs (fs : list fact) : list (text * edef) :=
  match fs with
  | [] => []
  | FEnumAlias n t p :: r => enum_defs r ++ [(key n, EAlias (key t) p)]
  | FEnumValues n vs :: r => enum_defs r ++ [(key n, EValues (map key vs))]
  | _ :: r => enum_defs r
  end.
Fixpoint elookup (k : text) (m : list (text * edef)) : option edef :=
  match m with
  | [] => None
  | (k', d) :: r => if text_eqb k k' then Some d else elookup k r
  end.
(* find_enum_declaration_values: follow aliases, remembering the names seen *)
Fixpoint chase (m : list (text * edef)) (fuel : nat) (seen : list text) (k : text) (kpos : N) : option (list text + diag) :=
  match fuel with
  | O => None
  | S f =>
      match elookup k m with
      | None => Some (inr (P_EnumNotDeclared, kpos))
      | Some (EValues vs) => Some (inl vs)
      | Some (EAlias t tpos) =>
          if mem t (k :: seen) then Some (inr (P_EnumRecursive, tpos)) else chase m f (k :: seen) t tpos
      end
  end.
Definition enum_init_diag (m : list (text * edef)) (f : fact) : option diag :=
  match f with
  | FEnumInit ty tpos value =>
      match chase m (S (length m)) [] (key ty) tpos with
      | Some (inr d) => Some d
      | Some (inl vs) =>
          match value with
          | Some (v, vpos) => if mem (key v) vs then None else Some (P_EnumValueNotDefined, vpos)
          | None => None
          end
      | None => Some todo_diag        (* never: the fuel is enough, see RulesProofs.chase_fuel *)
      end
  | _ => None
  end.
Definition rule_enum_value (fs : list fact) : list diag := first_diag (enum_init_diag (enum_defs fs)) fs.

(* ---- rule_function_block_invocation ---- *)
Record fbdecl := mkFb { fb_vars : list (option text * vclass); fb_edges : list text }.     (* None: a directly represented variable *)
(* the declarations of a function block: the facts up to its FExit *)
Fixpoint fb_body (fs : list fact) (acc : fbdecl) : fbdecl :=
  match fs with
  | [] => acc
  | FExit :: _ => acc
  | FVar v :: r =>
      fb_body r (mkFb (fb_vars acc ++ [(option_map key (v_name v), v_class v)]) (fb_edges acc))
  | FEdge n :: r => fb_body r (mkFb (fb_vars acc) (fb_edges acc ++ [key n]))
  | _ :: r => fb_body r acc
  end.
Fixpoint fb_defs (fs : list fact) : list (text * fbdecl) :=
  match fs with
  | [] => []
  | FEnter PkFB n :: r => fb_defs r ++ [(key n, fb_body r (mkFb [] []))]
  | _ :: r => fb_defs r
  end.
Fixpoint flookup (k : text) (m : list (text * fbdecl)) : option fbdecl :=
  match m with
  | [] => None
  | (k', d) :: r => if text_eqb k k' then Some d else flookup k r
  end.
Definition class_in (c : vclass) (cs : list vclass) : bool :=
  existsb (fun x => match x, c with
                    | VcVar, VcVar | VcTemp, VcTemp | VcInput, VcInput | VcOutput, VcOutput | VcInOut, VcInOut
                    | VcExternal, VcExternal | VcGlobal, VcGlobal | VcAccess, VcAccess => true
                    | _, _ => false
                    end) cs.
Definition has_var (fb : fbdecl) (k : text) (cs : list vclass) : bool :=
  existsb (fun nv => match fst nv with Some n => text_eqb n k | None => false end && class_in (snd nv) cs) (fb_vars fb).
Definition has_input (fb : fbdecl) (k : text) : bool := has_var fb k [VcInput; VcInOut] || mem k (fb_edges fb).
Definition has_output (fb : fbdecl) (k : text) : bool := has_var fb k [VcOutput].
Definition count_inputs (fb : fbdecl) : nat :=
  length (filter (fun nv => class_in (snd nv) [VcInput]) (fb_vars fb)) + length (fb_edges fb).

Definition formal_names (args : list arg) : list text :=
  flat_map (fun a => match a with ANamed n => [key n] | _ => [] end) args.
Definition out_names (args : list arg) : list text :=
  flat_map (fun a => match a with AOut n => [key n] | _ => [] end) args.
Definition positional (args : list arg) : nat :=
  length (filter (fun a => match a with APos => true | _ => false end) args).

(* check_assignments *)
Definition check_call (fb : fbdecl) (pos : N) (args : list arg) : option diag :=
  let formal := formal_names args in
  let npos := positional args in
  if negb (match formal with [] => true | _ => false end) && negb (Nat.eqb npos 0) then Some (P_FunctionCallMixedArgTypes, pos)
  else if negb (forallb (has_input fb) formal) then Some (P_FunctionInvocationMissingInput, pos)
  else if negb (Nat.eqb npos 0) && negb (Nat.eqb npos (count_inputs fb)) then Some (P_FunctionInvocationRequiresFormal, pos)
  else if negb (forallb (has_output fb) (out_names args)) then Some (P_FunctionInvocationUndefinedOutput, pos)
  else None.

Fixpoint vlookup (k : text) (m : list (text * text)) : option text :=
  match m with
  | [] => None
  | (k', d) :: r => if text_eqb k k' then Some d else vlookup k r
  end.
(* the walk: [inst] maps the instance variables of the unit being visited to their type *)
Fixpoint fb_walk (defs : list (text * fbdecl)) (inst : list (text * text)) (fs : list fact) : list diag :=
  match fs with
  | [] => []
  | FVar v :: r =>
      fb_walk defs (if is_fb v then match v_name v with Some n => (key n, key (v_type v)) :: inst | None => inst end else inst) r
  | FExit :: r => fb_walk defs [] r
  | FCall i pos args :: r =>
      match vlookup (key i) inst with
      | None => [(P_FunctionBlockNotInScope, pos)]
      | Some ty =>
          match flookup ty defs with
          | None => [(P_FunctionBlockNotInScope, pos)]
          | Some fb => match check_call fb pos args with Some d => [d] | None => fb_walk defs inst r end
          end
      end
  | _ :: r => fb_walk defs inst r
  end.
Definition rule_fb_call (fs : list fact) : list diag := fb_walk (fb_defs fs) [] fs.

(* ---- xform_resolve_late_bound_type_initializer: every initializer that names a type not known while parsing is
        replaced by the initializer kind of that type; a name that is no elementary type, no (unsupported) standard
        function block and no declared type is reported (P0022), all of them; a declared type of a kind the
        transformation does not handle yet stops it ('not implemented').  The type table holds the data types (alias
        declarations still unresolved are not entered) and the function blocks; a second declaration of a name stops
        the walk (P0020). ---- *)
Inductive tkind := TkEnum | TkSubrange | TkSimple | TkArray | TkStruct | TkStructInit | TkString | TkLateBound | TkFB.
Inductive tfact :=
  | TDecl (name : text) (k : tkind) (pos : N)
  | TInit (k : ikind) (ty : text) (pos : N).       (* for IkLate: the type name and where it is written *)

Fixpoint tlookup (k : text) (m : list (text * tkind)) : option tkind :=
  match m with
  | [] => None
  | (k', d) :: r => if text_eqb k k' then Some d else tlookup k r
  end.

Fixpoint type_table (fs : list tfact) (acc : list (text * tkind)) : list (text * tkind) + diag :=
  match fs with
  | [] => inl acc
  | TDecl n TkLateBound _ :: r => type_table r acc
  | TDecl n k pos :: r =>
      match tlookup (key n) acc with
      | Some _ => inr (P_DefinitionNameDuplicated, pos)
      | None => type_table r (acc ++ [(key n, k)])
      end
  | TInit _ _ _ :: r => type_table r acc
  end.

Inductive rres := RKind (k : ikind) | RUndeclared | RTodo.
Definition resolve1 (tab : list (text * tkind)) (ty : text) : rres :=
  if mem (key ty) elementary_types then RKind IkSimple
  else if mem (key ty) unsupported_types then RKind IkFB
  else match tlookup (key ty) tab with
       | Some TkEnum => RKind IkEnumType
       | Some TkFB => RKind IkFB
       | Some TkStruct => RKind IkStruct
       | Some TkString => RKind IkString
       | Some TkArray => RKind IkArray
       | Some _ => RTodo
       | None => RUndeclared
       end.

(* the fold: the new initializer kinds in order, or the diagnostics *)
Fixpoint resolve_go (tab : list (text * tkind)) (fs : list tfact) (ds : list diag) (ks : list ikind) : list ikind + list diag :=
  match fs with
  | [] => match ds with [] => inl (rev ks) | _ => inr (rev ds) end
  | TInit IkLate ty pos :: r =>
      match resolve1 tab ty with
      | RKind k => resolve_go tab r ds (k :: ks)
      | RUndeclared => resolve_go tab r ((P_UndeclaredUnknownType, pos) :: ds) (IkLate :: ks)
      | RTodo => match ds with [] => inr [todo_diag] | _ => inr (rev ds) end
      end
  | TInit k _ _ :: r => resolve_go tab r ds (k :: ks)
  | TDecl _ _ _ :: r => resolve_go tab r ds ks
  end.

Definition xform_type_init (fs : list tfact) : list ikind + list diag :=
  match type_table fs [] with
  | inr d => inr [d]
  | inl tab => resolve_go tab fs [] []
  end.
