(* Declaration graph and cycle detection, as in compiler/analyzer/src/xform_toposort_declarations.rs:
   one node per declared or referenced name, edges added by the visitor, petgraph's toposort failing
   exactly on a cycle.  The sort itself is modelled by Kahn's algorithm (petgraph is not transcribed:
   only "an order exists iff there is no cycle" is used, and that is what the theorems establish).
   Executable; no proofs in this file. *)
From Coq Require Import List NArith Bool.
Import ListNotations.
Open Scope N_scope.

Definition edge := (N * N)%type.

Definition mem (v : N) (l : list N) : bool := existsb (N.eqb v) l.

(* no edge into v from a node that is still remaining *)
Definition no_pred (es : list edge) (rem : list N) (v : N) : bool :=
  negb (existsb (fun e : edge => (snd e =? v) && mem (fst e) rem) es).

Fixpoint kahn (fuel : nat) (rem : list N) (es : list edge) : option (list N) :=
  match rem with
  | [] => Some []
  | _ :: _ =>
      match fuel with
      | O => None
      | S f =>
          match find (no_pred es rem) rem with
          | None => None
          | Some v => option_map (cons v) (kahn f (remove N.eq_dec v rem) es)
          end
      end
  end.

Definition toposort (nodes : list N) (es : list edge) : option (list N) :=
  kahn (List.length nodes) nodes es.

(* ---- the graph the transform builds ---- *)
(* what the visitor sees of a declaration; names are lower-cased identifiers interned as numbers *)
Inductive decl :=
  | DAlias (name base : N)                 (* T : Base;  (late bound, enumeration / subrange / array of a named type) *)
  | DStruct (name : N) (elems : list N)    (* T : STRUCT e : E; ... END_STRUCT;  element types *)
  | DPou (name : N) (insts : list N)       (* FUNCTION_BLOCK / PROGRAM / FUNCTION with variables of named types *)
  | DLeaf (name : N).                      (* a type that refers to nothing (enumeration values, ...) *)

(* every edge runs from what is depended on to what depends on it: add_edge(depends_on, this) for aliases,
   add_edge(to, from) for elements and instances (from: the structure or unit, to: the type of the element or instance) *)
Definition edges_of (d : decl) : list edge :=
  match d with
  | DAlias n b => [(b, n)]
  | DStruct n es => map (fun e => (e, n)) es
  | DPou n is => map (fun i => (i, n)) is
  | DLeaf _ => []
  end.
Definition names_of (d : decl) : list N :=
  match d with
  | DAlias n b => [n; b]
  | DStruct n es => n :: es
  | DPou n is => n :: is
  | DLeaf n => [n]
  end.

Definition built_edges (ds : list decl) : list edge := flat_map edges_of ds.
Definition built_nodes (ds : list decl) : list N := nodup N.eq_dec (flat_map names_of ds).

(* Problem::RecursiveCycle (P0010) is reported iff the sort fails *)
Definition reports_cycle (ds : list decl) : bool :=
  match toposort (built_nodes ds) (built_edges ds) with None => true | Some _ => false end.
