(* Model of FileBackedProject::semantic (compiler/plc2x/src/project.rs) as both the command line and the language server use
   it, and of LspProject::semantic (lsp_project.rs): the project is a map from file identifiers to texts; the analysis is
   given the sources in the order of their identifiers (`sort_by_key(|source| source.0.to_string())` -- the map itself iterates
   in an order that changes from run to run), each once; the language server keeps, for the notified document, the
   diagnostics that mention its file.  The analysis of a list of (identifier, text) is a parameter, and so is the order of
   the identifiers (here: of the numbers that stand for them).  Executable; no proofs in this file. *)
From Coq Require Import List NArith Bool.
From Verif Require Import Model.Lsp.
Import ListNotations.
Open Scope N_scope.

(* the identifiers in increasing order, each once *)
Fixpoint insert_key (k : N) (l : list N) : list N :=
  match l with
  | [] => [k]
  | x :: r => if k <? x then k :: l else if k =? x then l else x :: insert_key k r
  end.
Definition canon (l : list N) : list N := fold_right insert_key [] l.

Section Project.
  Variable text : Type.
  Variable A : Type.                                   (* a diagnostic *)
  Variable analysis : list (N * text) -> list A.       (* parse every source, analyze those that parse: Err(diagnostics) or [] *)
  Variable mentions : A -> N -> bool.                  (* d.file_ids().contains(&file_id) *)

  (* sources, sorted by identifier *)
  Definition listing (d : docs text) : list (N * text) :=
    flat_map (fun k => match get text d k with Some t => [(k, t)] | None => [] end) (canon (map fst d)).

  (* FileBackedProject::semantic *)
  Definition semantic (d : docs text) : list A := analysis (listing d).

  (* LspProject::semantic for a file URI: the diagnostics that mention the file (map_diagnostic then maps each one by one) *)
  Definition file_diags (d : docs text) (u : N) : list A := filter (fun a => mentions a u) (semantic d).
End Project.
