(* The instance of the command-line model that the correspondence check runs: contents are numbers;
   the file system and the per-content facts are association lists supplied by the harness. *)
From Coq Require Import List NArith Bool.
From Verif Require Import Model.Cli.
Import ListNotations.
Open Scope N_scope.

Fixpoint assoc {A} (k : N) (l : list (N * A)) (d : A) : A :=
  match l with [] => d | (k', v) :: r => if k' =? k then v else assoc k r d end.

Definition cli_run (cmd : N) (fsl : list (path * node N)) (tok : list (N * list code))
           (perr : list (N * code)) (rerr : list (N * code)) (ana : list code) (ps : list path) : outcome :=
  let fs := fun p => assoc p fsl (Missing N) in
  let tok_errs := fun c => assoc c tok [] in
  let parse_err := fun c => assoc c (map (fun kv => (fst kv, Some (snd kv))) perr) None in
  let render_err := fun c => assoc c (map (fun kv => (fst kv, Some (snd kv))) rerr) None in
  if cmd =? 0 then check N fs tok_errs parse_err (fun _ => ana) ps
  else if cmd =? 1 then tokenize N fs tok_errs ps
  else echo N fs tok_errs parse_err render_err ps.
