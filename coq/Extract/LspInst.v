(* The instance of the language-server model that the correspondence check runs: a document text is
   a number 2*index + (1 if it tokenizes without error); diagnostics are not computed (the skeleton of
   the output -- which frames, for which document / id, with which version -- is what is compared). *)
From Coq Require Import List NArith ZArith Bool.
From Verif Require Import Model.Lsp.
Import ListNotations.
Definition lsp_run (ms : list (msg N)) : list (out unit bool) :=
  snd (run N unit bool (fun _ _ => tt) tt
           (fun o => match o with Some t => N.odd t | None => false end) false [] ms).
Definition lsp_session (fs : list (frame N)) : ended unit bool :=
  session N unit bool (fun _ _ => tt) tt
          (fun o => match o with Some t => N.odd t | None => false end) false [] fs.
