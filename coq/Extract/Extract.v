(* Extraction of the executable models for the correspondence check.
   ExtrOcamlBasic only: bool, option, unit, list, prod, sumbool, sumor map to OCaml's own types
   and andb/orb to && / ||.  nat, positive, N, Z, ascii, string stay the inductive types. *)
From Coq Require Extraction ExtrOcamlBasic.
From Verif Require Import Base.Text Gen.GenTokens Gen.GenLegend Model.Lexer Model.SemTokens Spec.LspClass Model.Decode Gen.GenDecoders Model.Literals Model.TimeRender Model.DurRender Model.Graph Model.Lsp Extract.LspInst Model.Cli Extract.CliInst Model.Analyzer Model.Scope Model.Rules Model.ExprKind Model.DataDecl Model.DeclRules Model.ExprParser Model.StParser Model.StInstance Model.StRender Model.LibRender Proofs.ExprInstance Proofs.StRenderProofs Proofs.LexSpell Proofs.TextRoundTrip.
Extraction Language OCaml.
Extraction "model.ml"
  tok_name tok_index all_kinds
  preprocess lex_items tokens_of errors_of insert_terminators tokenize_program in_domain
  legend legend_of lsp_semantic_tokens decode_rel allowed_classes must_highlight
  decoders cascade enc8 enc16 enc1252 dec8
  integer_new try_hex try_octal try_binary fixed_parse fixed_of_integer try_from_units
  npu_day npu_hour npu_minute npu_second npu_milli date_literal daytime address string_chars seconds_text read_back date_text date_read_back read_milliseconds
  reports_cycle lsp_run lsp_session cli_run
  rule_unique rule_subrange reassemble mkDecl
  rule_symbolic
  rule_const_init rule_const_not_fb rule_global_const rule_task rule_enum_value rule_fb_call rule_stdlib xform_type_init resolve_expr_kinds xform_data_decl rule_struct_unique rule_enum_unique rule_subrange_limits
  parse_expr_text render_expr parse_fb_text parse_fbd_text parse_lib_text parse_lib2_text render_list render_decls render_lib2 render_fb render_text text_ok spell_all norm_tok tok_sep.
