(* What "the legend entry that matches the lexeme's class" means (C15), independent of
   lsp_project.rs: per token kind, the legend names that are acceptable, and whether the kind must be
   highlighted at all.  Word kinds are read off the generated token table (alphabetic literals). *)
From Coq Require Import List NArith Bool String.
From Verif Require Import Base.Text Gen.GenTokens Model.Lexer.
Import ListNotations.
Open Scope string_scope.

Definition is_word_char (c : N) : bool := is_alpha c || is_digit c || N.eqb c 95.
Definition is_word_kind (k : tok_kind) : bool :=
  existsb (fun row : list N * bool * tok_kind =>
             let '(p, _, k') := row in
             kind_eqb k' k && negb (Nat.eqb (List.length p) 0) && forallb is_word_char p) literal_tokens.

Definition mem_kind (k : tok_kind) (l : list tok_kind) : bool := existsb (kind_eqb k) l.

Definition operator_kinds : list tok_kind :=
  [KOr; KXor; KAnd; KMod; KNot; KEqual; KNotEqual; KLess; KGreater; KLessEqual; KGreaterEqual;
   KDiv; KStar; KPlus; KMinus; KPower; KAssignment].
Definition modifier_kinds : list tok_kind := [KRetain; KConstant].
Definition address_kinds : list tok_kind := [KDirectAddress; KDirectAddressIncomplete].
Definition string_type_kinds : list tok_kind := [KString; KWString].

(* acceptable legend names for a kind; [] = must not be highlighted *)
Definition allowed_classes (k : tok_kind) : list string :=
  if kind_eqb k KIdentifier then ["variable"]
  else if kind_eqb k KComment then ["comment"]
  else if mem_kind k address_kinds then ["operator"]
  else if mem_kind k operator_kinds then ["operator"]
  else if mem_kind k modifier_kinds then ["modifier"]
  else if kind_eqb k KRightArrow || kind_eqb k KRange then ["operator"; "keyword"]
  else if mem_kind k string_type_kinds then ["keyword"; "string"]
  else if is_word_kind k then ["keyword"]
  else [].

(* word kinds the server leaves unhighlighted today; tolerated (the property asks for
   consistency of what is highlighted, not for a colour scheme) but pinned: any other kind
   with an acceptable class must be highlighted *)
Definition unhighlighted_today : list tok_kind := [KArray].

Definition must_highlight (k : tok_kind) : bool :=
  match allowed_classes k with [] => false | _ => negb (mem_kind k unhighlighted_today) end.
