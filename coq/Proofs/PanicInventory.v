(* C04: the reviewed inventory of panic-capable constructs in the files an input can reach.  Every
   entry is classified; the generated list (Gen.GenPanicSites, rebuilt from /repo on every run) must be
   exactly this one, so a new unwrap / expect / panic! / todo! in those files breaks the obligation until
   it has been reviewed. *)
From Coq Require Import List String NArith Lia.
From Verif Require Import Base.Text Gen.GenTokens Gen.GenPanicSites Model.Lexer Proofs.LexerTile.
Import ListNotations.
Local Open Scope string_scope.

Definition reviewed_sites : list (string * string * string) :=
  [ (* parse_library: tokens.get(e.location - 1).unwrap().  peg records a failure of `tok`, `id_eq` and `[t]`
       at the position AFTER the offending token of a non-empty input, and `library` accepts the empty token
       list, so e.location >= 1 and e.location - 1 < len.  Exercised by the search: every single token kind and
       every pair of kinds as a whole file, and every generated malformed input. *)
    ("parser/src/parser.rs", "parse_library", "unwrap()");
    (* lazy_static Regex::new on two constant, valid patterns: cannot fail *)
    ("dsl/src/common.rs", "span", "unwrap()");
    ("dsl/src/common.rs", "span", "unwrap()");
    (* sorted_ids: index_to_id has an entry for every node index: add_node inserts it when it creates the node *)
    ("analyzer/src/xform_toposort_declarations.rs", "sorted_ids", "unwrap()");
    (* Source::library: the None arm after the field was just set to Some: unreachable *)
    ("plc2x/src/source.rs", "library", "todo!") ].

Lemma panic_inventory_reviewed : panic_sites = reviewed_sites.
Proof. reflexivity. Qed.

(* the tokenizer model does at most one step per character: the number of items never exceeds the
   number of characters, so tokenizing is linear in the input *)
Lemma tiles_length p lc items t : tiles p lc items t -> (List.length items <= List.length t)%nat.
Proof.
  induction 1 as [|p lc i items rest Hne _ _ _ _ IH]; [apply le_n|].
  cbn [List.length]. rewrite app_length.
  destruct (item_text i) as [|c r]; [congruence|]. cbn [List.length]. lia.
Qed.

Theorem lexer_steps_bounded t : (List.length (lex_items t) <= List.length t)%nat.
Proof. exact (tiles_length _ _ _ _ (lex_items_tile t)). Qed.
