(* C11 / C15: what the server holds for a document after any history, said without the store; the semantic tokens it answers with. *)
From Coq Require Import List NArith ZArith Bool Lia.
From Verif Require Import Model.Lsp Proofs.LspInv.
Import ListNotations.
Open Scope N_scope.

Section Current.
  Variable text D T : Type.
  Variable diag : docs text -> N -> D.
  Variable no_diag : D.
  Variable tokens : option text -> T.
  Variable null_tokens : T.

  Notation step := (step text D T diag no_diag tokens null_tokens).
  Notation run := (run text D T diag no_diag tokens null_tokens).
  Notation msg := (msg text).

  (* what a message does to the contents held for the file document k -- said without the store *)
  Definition after (m : msg) (k : N) (cur : option text) : option text :=
    match m with
    | DidOpen _ u _ t => if u_file u && (u_id u =? k) then Some t else cur
    | DidChange _ u _ cs => if u_file u && (u_id u =? k) then match last (map Some cs) None with Some t => Some t | None => cur end else cur
    | DidClose _ u => if u_file u && (u_id u =? k) then None else cur
    | _ => cur
    end.
  Definition current (ms : list msg) (k : N) (cur : option text) : option text := fold_left (fun c m => after m k c) ms cur.

  Lemma step_get d m k : get text (fst (step d m)) k = after m k (get text d k).
  Proof.
    destruct m as [u v t|u v cs|u|id u|id|id| |id]; cbn [Lsp.step fst after]; try reflexivity.
    - unfold store. destruct (u_file u); cbn [andb]; [|reflexivity]. rewrite (get_put text). reflexivity.
    - destruct (last (map Some cs) None) as [t|].
      + unfold store. destruct (u_file u); cbn [andb]; [|reflexivity]. rewrite (get_put text). reflexivity.
      + destruct (u_file u && (u_id u =? k)); reflexivity.
    - unfold close. destruct (u_file u); cbn [andb]; [|reflexivity]. rewrite (get_remove text). reflexivity.
  Qed.

  Lemma run_get ms : forall d k, get text (fst (run d ms)) k = current ms k (get text d k).
  Proof.
    induction ms as [|m r IH]; intros d k; [reflexivity|]. cbn [Lsp.run]. unfold current. cbn [fold_left].
    pose proof (step_get d m k) as S. destruct (step d m) as [d1 o1]. cbn [fst] in S.
    specialize (IH d1 k). destruct (run d1 r) as [d2 o2]. cbn [fst] in *. rewrite IH, S. reflexivity.
  Qed.

  (* after ANY history, a request for the semantic tokens of a file document is answered from what the history left as that
     document's contents -- the text of its last didOpen / non-empty didChange since it was last closed, nothing when it is
     closed or was never opened -- and from nothing else: no earlier text, no other document *)
  Theorem tokens_of_current ms d id u : u_file u = true ->
    snd (step (fst (run d ms)) (SemTokens _ id u)) = [Reply D T id (tokens (current ms (u_id u) (get text d (u_id u))))].
  Proof. intro Hf. cbn [Lsp.step snd]. rewrite Hf, run_get. reflexivity. Qed.

  (* ... in particular a second didOpen, or a didOpen after a didClose, replaces what was there *)
  Example reopen t1 t2 u v1 v2 : u_file u = true ->
    current [DidOpen _ u v1 t1; DidClose _ u; DidOpen _ u v2 t2] (u_id u) None = Some t2 /\
    current [DidOpen _ u v1 t1; DidOpen _ u v2 t2] (u_id u) None = Some t2 /\
    current [DidOpen _ u v1 t1; DidClose _ u] (u_id u) None = None.
  Proof. intro Hf. unfold current. cbn [fold_left after]. rewrite Hf, N.eqb_refl. cbn. repeat split; reflexivity. Qed.
End Current.
