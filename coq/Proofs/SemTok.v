(* C15: the relative encoding of semantic tokens decodes to exactly the highlighted lexemes, in
   strictly increasing, non-overlapping order -- for every text. *)
From Coq Require Import List NArith Bool Lia String.
From Verif Require Import Base.Text Gen.GenTokens Gen.GenLegend Model.Lexer Model.SemTokens
  Spec.LspClass Proofs.LexerTile Proofs.GenObligations.
Import ListNotations.
Open Scope N_scope.

(* lexicographic order on (line, column) *)
Definition pos_le (a b : N * N) : Prop := fst a < fst b \/ (fst a = fst b /\ snd a <= snd b).
Definition pos_lt (a b : N * N) : Prop := fst a < fst b \/ (fst a = fst b /\ snd a < snd b).

Lemma pos_le_refl a : pos_le a a.
Proof. right; split; [reflexivity | lia]. Qed.
Lemma pos_le_trans a b c : pos_le a b -> pos_le b c -> pos_le a c.
Proof. unfold pos_le; intros [H|[H1 H2]] [K|[K1 K2]]; [left|left|left|right; split]; lia. Qed.
Lemma pos_lt_le a b : pos_lt a b -> pos_le a b.
Proof. unfold pos_lt, pos_le; intros [H|[H1 H2]]; [left|right; split]; lia. Qed.
Lemma pos_lt_le_trans a b c : pos_lt a b -> pos_le b c -> pos_lt a c.
Proof. unfold pos_lt, pos_le; intros [H|[H1 H2]] [K|[K1 K2]]; [left|left|left|right; split]; lia. Qed.

Lemma advance_le tx : forall lc, pos_le lc (advance tx lc).
Proof.
  induction tx as [|c r IH]; intros [l k]; cbn [advance]; [apply pos_le_refl|].
  eapply pos_le_trans; [|apply IH]. cbn [fst snd]. destruct (c =? 10).
  - left; cbn; lia.
  - right; cbn; split; [reflexivity | lia].
Qed.

Lemma advance_lt tx lc : tx <> [] -> pos_lt lc (advance tx lc).
Proof.
  destruct tx as [|c r]; [congruence|]. intros _. destruct lc as [l k]. cbn [advance fst snd].
  eapply pos_lt_le_trans; [|apply advance_le].
  destruct (c =? 10).
  - left; cbn; lia.
  - right; cbn; split; [reflexivity|]. pose proof (utf8_len_pos c). lia.
Qed.

(* ------------------------------------------------------------------------------------ *)
(* round trip of the relative encoding on position-sorted lists *)

Definition apos (a : abs_tok) : N * N := let '(ln, c, _, _) := a in (ln, c).

Fixpoint sorted_from (p : N * N) (l : list abs_tok) : Prop :=
  match l with
  | [] => True
  | a :: r => pos_le p (apos a) /\ sorted_from (apos a) r
  end.

Lemma decode_encode l : forall pl pc,
  sorted_from (pl, pc) l -> decode_rel pl pc (encode_rel pl pc l) = l.
Proof.
  induction l as [|[[[ln c] len] ty] r IH]; intros pl pc H; [reflexivity|].
  cbn [sorted_from apos] in H. destruct H as [Hle Hr].
  cbn [encode_rel decode_rel].
  unfold pos_le in Hle; cbn [fst snd] in Hle.
  destruct (N.eqb_spec ln pl) as [E|NE].
  - subst ln. replace (pl - pl) with 0 by lia. cbn [N.eqb].
    assert (Hc : pc <= c) by (destruct Hle as [?|[_ ?]]; lia).
    replace (pl + 0) with pl by lia. replace (pc + (c - pc)) with c by lia.
    f_equal. apply IH. exact Hr.
  - assert (Hl : pl < ln) by (destruct Hle as [?|[? _]]; [assumption | congruence]).
    destruct (N.eqb_spec (ln - pl) 0) as [Z|_]; [lia|].
    replace (pl + (ln - pl)) with ln by lia.
    f_equal. apply IH. exact Hr.
Qed.

(* no subtraction in the encoder underflows on a sorted list (Rust: u32 `-` would panic) *)
Fixpoint no_underflow (pl pc : N) (l : list abs_tok) : Prop :=
  match l with
  | [] => True
  | (ln, c, _, _) :: r => pl <= ln /\ (ln = pl -> pc <= c) /\ no_underflow ln c r
  end.
Lemma sorted_no_underflow l : forall pl pc, sorted_from (pl, pc) l -> no_underflow pl pc l.
Proof.
  induction l as [|[[[ln c] len] ty] r IH]; intros pl pc H; [exact I|].
  cbn [sorted_from apos] in H. destruct H as [Hle Hr]. cbn [no_underflow].
  unfold pos_le in Hle; cbn [fst snd] in Hle. repeat split; try lia. apply IH; exact Hr.
Qed.

(* ------------------------------------------------------------------------------------ *)
(* tokens produced by the lexer are position-sorted and do not overlap *)

(* [tok_chain p toks]: every token starts at or after [p]; the next one starts at or after the
   position reached by scanning this token's own text from its own start *)
Fixpoint tok_chain (p : N * N) (toks : list token) : Prop :=
  match toks with
  | [] => True
  | tk :: r =>
      pos_le p (t_line tk, t_col tk) /\ t_text tk <> [] /\
      tok_chain (advance (t_text tk) (t_line tk, t_col tk)) r
  end.

Lemma tok_chain_weaken toks : forall p q, pos_le q p -> tok_chain p toks -> tok_chain q toks.
Proof.
  destruct toks as [|tk r]; intros p q Hq H; [exact I|].
  cbn [tok_chain] in *. destruct H as (H1 & H2 & H3). repeat split; try assumption.
  eapply pos_le_trans; eassumption.
Qed.

Lemma tiles_tok_chain p lc items t : tiles p lc items t -> tok_chain lc (tokens_of items).
Proof.
  induction 1 as [|p lc i items rest Hne Hs He Hlc Ht IH]; [exact I|].
  destruct i as [tk|s e l c tx]; cbn [tokens_of flat_map app].
  - cbn [item_text item_lc] in *. cbn [tok_chain]. repeat split.
    + rewrite Hlc. apply pos_le_refl.
    + exact Hne.
    + rewrite Hlc. exact IH.
  - cbn [item_text] in *. eapply tok_chain_weaken; [|exact IH]. apply advance_le.
Qed.

Lemma tok_chain_filter f toks : forall p, tok_chain p toks -> tok_chain p (filter f toks).
Proof.
  induction toks as [|tk r IH]; intros p H; [exact I|].
  cbn [tok_chain] in H. destruct H as (H1 & H2 & H3). cbn [filter]. destruct (f tk).
  - cbn [tok_chain]. repeat split; try assumption. apply IH; exact H3.
  - apply IH. eapply tok_chain_weaken; [|exact H3].
    eapply pos_le_trans; [exact H1 | apply advance_le].
Qed.

Definition highlighted (tk : token) : bool :=
  match legend_of (t_kind tk) with Some _ => true | None => false end.

Lemma abs_tokens_filter toks : abs_tokens toks = abs_tokens (filter highlighted toks).
Proof.
  unfold abs_tokens. induction toks as [|tk r IH]; [reflexivity|].
  cbn [flat_map filter]. unfold highlighted at 1, sem_abs at 1.
  destruct (legend_of (t_kind tk)) eqn:E.
  - cbn [flat_map]. unfold sem_abs at 2. rewrite E. rewrite IH. reflexivity.
  - exact IH.
Qed.

Lemma chain_sorted toks : forall p,
  tok_chain p toks -> sorted_from p (abs_tokens toks).
Proof.
  induction toks as [|tk r IH]; intros p H; [exact I|].
  cbn [tok_chain] in H. destruct H as (H1 & H2 & H3).
  unfold abs_tokens. cbn [flat_map]. unfold sem_abs at 1.
  destruct (legend_of (t_kind tk)).
  - cbn [app sorted_from apos]. split; [exact H1|]. apply IH.
    eapply tok_chain_weaken; [|exact H3]. apply advance_le.
  - cbn [app]. apply IH. eapply tok_chain_weaken; [|exact H3].
    eapply pos_le_trans; [exact H1 | apply advance_le].
Qed.

(* strictly increasing starts and no overlap, stated on the decoded list itself: scanning the
   text of one highlighted lexeme from its start never passes the start of the next *)
Fixpoint strictly_from (p : N * N) (l : list (N * N)) : Prop :=
  match l with
  | [] => True
  | a :: r => pos_lt p a /\ strictly_from a r
  end.

Lemma chain_strict toks : forall tk,
  tok_chain (advance (t_text tk) (t_line tk, t_col tk)) toks -> t_text tk <> [] ->
  strictly_from (t_line tk, t_col tk) (map (fun x => (t_line x, t_col x)) toks).
Proof.
  induction toks as [|x r IH]; intros tk H Hne; [exact I|].
  cbn [tok_chain] in H. destruct H as (H1 & H2 & H3). cbn [map strictly_from]. split.
  - eapply pos_lt_le_trans; [apply advance_lt; exact Hne | exact H1].
  - apply IH; assumption.
Qed.

(* ------------------------------------------------------------------------------------ *)
(* the synthetic ';' is never highlighted, so the inserted terminators do not show *)

Lemma sem_abs_synthetic tk : sem_abs (mkToken KSemicolon (t_start tk) (t_end tk) (t_line tk) (t_col tk) []) = [].
Proof. unfold sem_abs. cbn [t_kind]. rewrite gen_legend_semicolon. reflexivity. Qed.

Lemma abs_tokens_insert ts : forall b,
  abs_tokens (insert_terminators_from b ts) = abs_tokens ts.
Proof.
  unfold abs_tokens. induction ts as [|tk r IH]; intro b; [reflexivity|].
  cbn [insert_terminators_from].
  destruct (negb b && kind_eqb (t_kind tk) KEndIf).
  - cbn [flat_map]. rewrite IH. reflexivity.
  - destruct (b && negb (kind_eqb (t_kind tk) KSemicolon) && negb (kind_eqb (t_kind tk) KComment)
              && negb (kind_eqb (t_kind tk) KWhitespace)).
    + cbn [flat_map]. rewrite sem_abs_synthetic. cbn [app]. rewrite IH. reflexivity.
    + cbn [flat_map]. rewrite IH. reflexivity.
Qed.

(* ------------------------------------------------------------------------------------ *)
(* the theorems about the whole request *)

Theorem semtok_roundtrip (t : text) :
  let toks := fst (tokenize_program t) in
  let lexemes := filter highlighted (tokens_of (lex_items (preprocess t))) in
  decode_rel 0 0 (semantic_tokens toks) = abs_tokens lexemes
  /\ no_underflow 0 0 (abs_tokens toks)
  /\ tok_chain (0, 0) lexemes.
Proof.
  cbv zeta. unfold tokenize_program. cbn [fst]. unfold semantic_tokens, insert_terminators.
  rewrite abs_tokens_insert.
  pose proof (tiles_tok_chain _ _ _ _ (lex_items_tile (preprocess t))) as Hc.
  pose proof (chain_sorted _ _ Hc) as Hs.
  repeat split.
  - rewrite decode_encode by exact Hs. apply abs_tokens_filter.
  - apply sorted_no_underflow. exact Hs.
  - apply tok_chain_filter. exact Hc.
Qed.

Theorem semtok_null_on_error (t : text) :
  lsp_semantic_tokens t = None <-> snd (tokenize_program t) <> [].
Proof.
  unfold lsp_semantic_tokens. destruct (tokenize_program t) as [toks errs]. cbn [snd].
  destruct errs; split; intro H; try discriminate; try congruence; try reflexivity.
Qed.
