(* C10: which stored durations survive rendering -- exactly those without a part finer than a millisecond. *)
From Coq Require Import List ZArith NArith Bool Lia ZifyBool ZifyN.
From Verif Require Import Base.Text Model.Literals Model.DurRender Proofs.LitProofs Proofs.DurRenderProofs.
Import ListNotations.
Open Scope N_scope.
Ltac Zify.zify_post_hook ::= Z.div_mod_to_equations.

(* The library keeps (seconds, nanoseconds); the renderer writes whole_milliseconds() = secs * 1000 + nanos / 10^6 in decimal.
   What is read back is the stored duration exactly when it has no part finer than a millisecond (magnitudes; the sign is
   written and read separately). *)
Theorem stored_duration_round_trip_iff secs nanos ds :
  nanos < 1000000000 -> secs * 1000 + nanos / 1000000 < two64 ->
  Forall (fun x => x < 10) ds -> ds <> [] -> horner 10 ds = secs * 1000 + nanos / 1000000 ->
  (read_milliseconds (digits_text ds) = Some (secs, nanos) <-> nanos mod 1000000 = 0).
Proof.
  intros Hn Hlt Hd Hne Hv. rewrite (milliseconds_read ds Hd Hne) by (rewrite Hv; exact Hlt). rewrite Hv.
  split.
  - intro E. inversion E. lia.
  - intro E. f_equal. f_equal; lia.
Qed.
