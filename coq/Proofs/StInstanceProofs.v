(* C01 / C08 / C04: the statement parser model on the real tokens.  The generic theorems of StExprProofs / StStmtProofs
   instantiated with the token classes of Model/StInstance.v (operator levels from the regenerated precedence table), and the
   end-to-end statement for the entry point the correspondence check runs: for every well-formed spelling of a statement
   list between FUNCTION_BLOCK name and END_FUNCTION_BLOCK, the model returns exactly the list it denotes -- in
   particular it neither rejects it nor runs out of fuel, whatever the size. *)
From Coq Require Import List Arith Lia Bool NArith String.
From Verif Require Import Base.Res Base.Text Gen.GenTokens Gen.GenPrec Model.Lexer Model.Literals Model.ExprParser
  Model.StParser Model.StInstance Proofs.StExprProofs Proofs.StStmtProofs.
Import ListNotations.
Close Scope N_scope.
Open Scope nat_scope.

Notation rsl := (sl token).
Notation rwf_l := (wf_l token tok_class t_text tok_num op_level true).
Notation rabsorbs := (absorbs token).
Notation rflat_l := (flat_l token).
Notation rerase_l := (erase_l token t_text tok_num).
Notation rsize_l := (size_l token).
Notation rtriv := (all_triv token tok_class).
Notation rsx := (StExprProofs.sp token).
Notation rwf := (StExprProofs.wf token tok_class t_text tok_num op_level).
Notation rflat := (StExprProofs.flat token).
Notation rerase := (StExprProofs.erase token t_text tok_num).

(* expressions: any level, any continuation that cannot extend the expression *)
Theorem pexpr_real : forall (s : rsx) q rest f,
  rwf q s -> follow_lt token tok_class op_level q rest -> follow_ok token tok_class s rest -> nosel token tok_class rest ->
  1 + StExprProofs.size token s <= f ->
  pexpr token tok_class t_text tok_num op_level f q (rflat s ++ rest) = Ok (rerase s, rest).
Proof. apply pexpr_spelled. Qed.

(* statement lists *)
Theorem plist_real : forall (l : rsl) rest L,
  rwf_l l -> closer_next token tok_class rest -> (rabsorbs l = true -> st_skip rest = rest) -> rsize_l l <= L ->
  plist token tok_class t_text tok_num op_level L (rflat_l l ++ rest) = Ok (rerase_l l, rest).
Proof. apply plist_spelled. Qed.

(* ---- the wrapper ---- *)
Definition checked_const (c : tcl) : bool :=
  match c with CConst CkInt | CConst CkHex | CConst CkOct | CConst CkBin | CConst CkFixed | CConst CkFloat => true | _ => false end.
Lemma class_by_kind t : checked_const (kind_class (t_kind t)) = false -> tok_class t = kind_class (t_kind t).
Proof. unfold tok_class. destruct (kind_class (t_kind t)) as [| |k| | | | | | | | | | | |o| | |k| | |k|dk| |]; try reflexivity. destruct k; try reflexivity; discriminate. Qed.

Lemma class_fb t : t_kind t = KFunctionBlock -> tok_class t = CKw KwEndPou.
Proof. intro H. rewrite class_by_kind; rewrite H; reflexivity. Qed.
Lemma class_id t : t_kind t = KIdentifier -> tok_class t = CId.
Proof. intro H. rewrite class_by_kind; rewrite H; reflexivity. Qed.
Lemma class_endfb t : t_kind t = KEndFunctionBlock -> tok_class t = CKw KwEndPou.
Proof. intro H. rewrite class_by_kind; rewrite H; reflexivity. Qed.

Lemma skip_all_triv w : rtriv w -> st_skip w = [].
Proof. induction 1 as [|t w Ht _ IH]; [reflexivity|]. unfold st_skip in *. cbn. unfold is_triv. rewrite Ht. exact IH. Qed.

Theorem parse_fb_spelled : forall w00 fb w0 nm w1 (l : rsl) w2 en w3,
  rtriv w00 -> t_kind fb = KFunctionBlock -> rtriv w0 -> t_kind nm = KIdentifier -> rtriv w1 ->
  rwf_l l -> rtriv w2 -> t_kind en = KEndFunctionBlock -> rtriv w3 -> (rabsorbs l = true -> w2 = []) ->
  parse_fb_tokens (w00 ++ fb :: w0 ++ nm :: w1 ++ rflat_l l ++ w2 ++ en :: w3) = OParsed (rerase_l l).
Proof.
  intros w00 fb w0 nm w1 l w2 en w3 H00 Hfb H0 Hnm H1 Hl H2 Hen H3 Habs.
  pose proof (class_fb fb Hfb) as Cfb. pose proof (class_id nm Hnm) as Cnm. pose proof (class_endfb en Hen) as Cen.
  pose proof (wf_l_in_scope token tok_class t_text tok_num op_level l w2 en KwEndPou w3 Hl H2 Cen H3) as Hscope.
  assert (Sfb : solid token tok_class fb) by (unfold solid; rewrite Cfb; discriminate).
  assert (Snm : solid token tok_class nm) by (unfold solid; rewrite Cnm; discriminate).
  assert (Sen : solid token tok_class en) by (unfold solid; rewrite Cen; discriminate).
  unfold parse_fb_tokens, st_skip.
  rewrite (skip_app_triv token tok_class w00 _ H00), (skip_solid token tok_class fb _ Sfb).
  rewrite Hfb. cbn [kind_eqb tok_index N.eqb Pos.eqb]. 
  rewrite (skip_app_triv token tok_class w0 _ H0), (skip_solid token tok_class nm _ Snm).
  rewrite Hnm. cbn [kind_eqb tok_index N.eqb Pos.eqb].
  rewrite (skip_app_triv token tok_class w1 _ H1), (flat_l_skip token tok_class t_text tok_num op_level l _ Hl).
  rewrite Hscope. unfold body.
  rewrite (plist_real l (w2 ++ en :: w3)).
  - rewrite (skip_app_triv token tok_class w2 _ H2), (skip_solid token tok_class en _ Sen).
    rewrite Hen. cbn [kind_eqb tok_index N.eqb Pos.eqb].
    fold st_skip. rewrite (skip_all_triv w3 H3). reflexivity.
  - exact Hl.
  - eapply closer_at; [exact H2 | exact Cen | reflexivity].
  - intro Hb. rewrite (Habs Hb). cbn [app]. apply (skip_solid token tok_class en w3 Sen).
  - pose proof (proj1 (proj2 (size_bound_s token)) l) as B.
    repeat (rewrite app_length || cbn [Datatypes.length]). lia.
Qed.

(* two spellings of the same statement list -- other letter case, other trivia, redundant parentheses: everything the
   erasure forgets -- are read as the same list *)
Corollary parse_fb_respelled : forall w00 fb w0 nm w1 (l : rsl) w2 en w3 w00' fb' w0' nm' w1' (l' : rsl) w2' en' w3',
  rtriv w00 -> t_kind fb = KFunctionBlock -> rtriv w0 -> t_kind nm = KIdentifier -> rtriv w1 ->
  rwf_l l -> rtriv w2 -> t_kind en = KEndFunctionBlock -> rtriv w3 -> (rabsorbs l = true -> w2 = []) ->
  rtriv w00' -> t_kind fb' = KFunctionBlock -> rtriv w0' -> t_kind nm' = KIdentifier -> rtriv w1' ->
  rwf_l l' -> rtriv w2' -> t_kind en' = KEndFunctionBlock -> rtriv w3' -> (rabsorbs l' = true -> w2' = []) ->
  rerase_l l = rerase_l l' ->
  parse_fb_tokens (w00 ++ fb :: w0 ++ nm :: w1 ++ rflat_l l ++ w2 ++ en :: w3) =
  parse_fb_tokens (w00' ++ fb' :: w0' ++ nm' :: w1' ++ rflat_l l' ++ w2' ++ en' :: w3').
Proof.
  intros. rewrite !parse_fb_spelled by assumption. congruence.
Qed.

(* the fuel the entry point supplies (three per token) is enough for every well-formed spelling, of any size and depth *)
Corollary parse_fb_fuel : forall w00 fb w0 nm w1 (l : rsl) w2 en w3,
  rtriv w00 -> t_kind fb = KFunctionBlock -> rtriv w0 -> t_kind nm = KIdentifier -> rtriv w1 ->
  rwf_l l -> rtriv w2 -> t_kind en = KEndFunctionBlock -> rtriv w3 -> (rabsorbs l = true -> w2 = []) ->
  parse_fb_tokens (w00 ++ fb :: w0 ++ nm :: w1 ++ rflat_l l ++ w2 ++ en :: w3) <> OFuel.
Proof. intros. rewrite parse_fb_spelled by assumption. discriminate. Qed.

(* the operator levels the theorems use are those of the regenerated table *)
Lemma op_levels_table :
  map op_level [BOr; BXor; BAnd; BEq; BNe; BLt; BGt; BLe; BGe; BAdd; BSub; BMul; BDiv; BMod; BPow] =
  [0; 1; 2; 3; 3; 4; 4; 4; 4; 5; 5; 6; 6; 6; 7].
Proof. vm_compute. reflexivity. Qed.

(* a concrete spelling: x := a + 1 ; inside a function block, with trivia *)
Definition tkk (k : tok_kind) (tx : text) : token := mkToken k 0%N 0%N 0%N 0%N tx.
Definition ex_ws : list token := [tkk KWhitespace [32%N]].
Definition ex_list : rsl :=
  LOne token (GStmts token
    (SsAssign token (tkk KIdentifier [120%N]) (SsEnd token) ex_ws (tkk KAssignment [58%N; 61%N]) ex_ws
       (SBin token (tkk KPlus [43%N]) BAdd (SName token (tkk KIdentifier [97%N]) ex_ws) [] ex_ws
          (SConst token (tkk KDigits [49%N]) CkInt)))
    (MNil token) ex_ws (tkk KSemicolon [59%N])).
Example ex_wf : rwf_l ex_list.
Proof.
  unfold ex_list, ex_ws.
  repeat first [ progress hnf; match goal with |- _ /\ _ => split | |- True => exact I | _ => idtac end | split ].
  all: try (repeat (apply Forall_cons; [reflexivity|]); apply Forall_nil).
  - vm_compute. repeat constructor.
  - intro H. cbv in H. discriminate H.
Qed.
Example ex_parse :
  parse_fb_tokens ([tkk KFunctionBlock []] ++ ex_ws ++ [tkk KIdentifier [102%N]] ++ ex_ws ++ rflat_l ex_list ++ ex_ws ++ [tkk KEndFunctionBlock []]) =
  OParsed [TAssign [120%N] [] (XBin BAdd (XAtom (LfName [97%N])) (XAtom (LfInt false 1%N)))].
Proof. vm_compute. reflexivity. Qed.
