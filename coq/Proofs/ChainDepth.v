(* C04: what the bound "bracket / statement nesting up to depth 12" does NOT bound.  A chain  x op x op ... op x  of n
   operators of one level has no parenthesis at all, 2n+1 tokens, and the tree the expression parser returns for it
   (left-associative, Annex B.3.1) is n+1 levels deep: the depth of the tree -- which is what the recursive folds and
   visitors of the analyzer and the renderer descend -- grows with the LENGTH of the text, not with its nesting.  This is
   the cause of the recorded finding operator-chain-stack-overflow (a theorem cannot exhibit the native stack; it can say
   what the recursion runs over). *)
From Coq Require Import List Arith Lia Bool.
From Verif Require Import Base.Res Model.ExprParser Proofs.ExprParserProofs.
Import ListNotations.

Section Generic.
  Variable tk : Type.
  Variable B U A : Type.
  Variable triv : tk -> bool.
  Variable bop : tk -> option (nat * B).
  Variable uop : tk -> option U.
  Variable atom : tk -> option (A * bool).
  Variable lp rp : tk -> bool.
  Variable noafter : tk -> bool.

  Notation expr := (expr B U A).
  Notation sp := (sp tk B U A).
  Notation flat := (flat tk B U A).
  Notation erase := (erase tk B U A).
  Notation wf := (wf tk B U A triv bop uop atom lp rp noafter).
  Notation ends_name := (ends_name tk B U A).

  Fixpoint depth (e : expr) : nat :=
    match e with
    | EAtom _ _ _ _ => 1
    | EBin _ _ _ _ l r => S (Nat.max (depth l) (depth r))
    | EUn _ _ _ _ e => S (depth e)
    end.

  (* how deep the parentheses of a spelling nest *)
  Fixpoint parens (s : sp) : nat :=
    match s with
    | SNum _ _ _ _ _ _ | SName _ _ _ _ _ _ _ => 0
    | SParen _ _ _ _ _ _ s _ _ => S (parens s)
    | SUn _ _ _ _ _ _ _ s => parens s
    | SBin _ _ _ _ _ _ _ l _ _ r => Nat.max (parens l) (parens r)
    end.

  Variable t : tk.          (* the operator token *)
  Variable lv : nat.
  Variable o : B.
  Variable x : tk.          (* the operand token: a constant *)
  Variable a : A.

  Fixpoint chain (n : nat) : sp :=
    match n with
    | O => SNum tk B U A x a
    | S n' => SBin tk B U A t lv o (chain n') [] [] (SNum tk B U A x a)
    end.

  (* the tree that leans to the left: ((x o x) o x) o ... *)
  Fixpoint left_tree (n : nat) : expr :=
    match n with
    | O => EAtom B U A a
    | S n' => EBin B U A o (left_tree n') (EAtom B U A a)
    end.

  Lemma chain_erase n : erase (chain n) = left_tree n.
  Proof. induction n as [|n IH]; [reflexivity|]. cbn [chain ExprParserProofs.erase left_tree]. rewrite IH. reflexivity. Qed.

  Lemma chain_ends n : ends_name (chain n) = false.
  Proof. destruct n; reflexivity. Qed.

  Hypothesis Ht : triv t = false.
  Hypothesis Hb : bop t = Some (lv, o).
  Hypothesis Hn : noafter t = false.
  Hypothesis Hx : triv x = false.
  Hypothesis Ha : atom x = Some (a, false).
  Hypothesis Hu : uop x = None.

  Lemma chain_wf n : forall p, p <= lv -> wf p (chain n).
  Proof.
    induction n as [|n IH]; intros p Hp; cbn [chain ExprParserProofs.wf].
    - unfold ExprParserProofs.solid. auto.
    - unfold ExprParserProofs.solid, ExprParserProofs.all_triv. repeat split; auto; try (apply IH; lia).
  Qed.

  Lemma chain_depth n : depth (erase (chain n)) = S n.
  Proof.
    induction n as [|n IH]; [reflexivity|]. cbn [chain ExprParserProofs.erase depth]. rewrite IH. cbn [depth]. lia.
  Qed.

  Lemma chain_parens n : parens (chain n) = 0.
  Proof. induction n as [|n IH]; [reflexivity|]. cbn [chain parens]. rewrite IH. reflexivity. Qed.

  Lemma chain_length n : length (flat (chain n)) = 2 * n + 1.
  Proof.
    induction n as [|n IH]; [reflexivity|]. cbn [chain ExprParserProofs.flat]. rewrite app_length. cbn [app length]. rewrite IH. lia.
  Qed.
End Generic.
