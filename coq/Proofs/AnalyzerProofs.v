(* C02 / C03 / C06: facts about the analyzer pieces modelled in Model/Analyzer.v. *)
From Coq Require Import List NArith ZArith Bool Lia Permutation.
From Verif Require Import Base.Res Model.Analyzer.
Import ListNotations.
Open Scope N_scope.

(* ------------------------------------------------------------------------------------ *)
(* C02: the HashSet scan reports nothing exactly when the names are pairwise distinct *)
Lemma existsb_eqb_In x l : existsb (N.eqb x) l = true <-> In x l.
Proof.
  rewrite existsb_exists. split.
  - intros (y & Hy & E). apply N.eqb_eq in E. subst. exact Hy.
  - intro H. exists x. split; [exact H | apply N.eqb_refl].
Qed.

Lemma dup_scan_nil l : forall seen,
  dup_scan seen l = [] <-> (NoDup l /\ forall x, In x l -> ~ In x seen).
Proof.
  induction l as [|x r IH]; intro seen; cbn [dup_scan].
  - split; [intros _; split; [constructor | intros x []] | reflexivity].
  - destruct (existsb (N.eqb x) seen) eqn:E.
    + split; [discriminate|]. intros [_ H]. apply existsb_eqb_In in E. exfalso. exact (H x (or_introl eq_refl) E).
    + rewrite IH. assert (Hx : ~ In x seen) by (intro Hin; apply existsb_eqb_In in Hin; congruence).
      split.
      * intros [Hnd Hs]. split.
        -- constructor; [|exact Hnd]. intro Hin. exact (Hs x Hin (or_introl eq_refl)).
        -- intros y [<-|Hy]; [exact Hx|]. intro Hys. exact (Hs y Hy (or_intror Hys)).
      * intros [Hnd Hs]. inversion Hnd as [|? ? Hnx Hnr]; subst. split; [exact Hnr|].
        intros y Hy [<-|Hys]; [contradiction | exact (Hs y (or_intror Hy) Hys)].
Qed.

Theorem rule_unique_spec names : rule_unique names = [] <-> NoDup names.
Proof.
  unfold rule_unique. rewrite dup_scan_nil. split; [intros [H _]; exact H | intro H; split; [exact H | intros x _ []]].
Qed.

(* every reported name really is a duplicate, and the verdict does not depend on the order of the elements *)
Lemma dup_scan_sound l : forall seen x, In x (dup_scan seen l) -> In x seen \/ ~ NoDup l.
Proof.
  induction l as [|y r IH]; intros seen x H; cbn [dup_scan] in H; [destruct H|].
  destruct (existsb (N.eqb y) seen) eqn:E.
  - destruct H as [<-|H]; [left; apply existsb_eqb_In; exact E|].
    destruct (IH _ _ H) as [Hs|Hn]; [left; exact Hs | right; intro Hd; inversion Hd; contradiction].
  - destruct (IH _ _ H) as [[<-|Hs]|Hn].
    + right. intro Hd. inversion Hd as [|? ? Hny _]; subst. apply Hny.
      clear -H. revert H. generalize (y :: seen). induction r as [|z r IHr]; intros s H; cbn [dup_scan] in H; [destruct H|].
      destruct (existsb (N.eqb z) s); [destruct H as [<-|H]; [left; reflexivity | right; eapply IHr; exact H] | right; eapply IHr; exact H].
    + left; exact Hs.
    + right; intro Hd; inversion Hd; contradiction.
Qed.

Theorem rule_unique_perm a b : Permutation a b -> (rule_unique a = [] <-> rule_unique b = []).
Proof.
  intro H. rewrite !rule_unique_spec. split; intro Hn; [exact (Permutation_NoDup H Hn) | exact (Permutation_NoDup (Permutation_sym H) Hn)].
Qed.

(* C02: the subrange rule reports exactly when the mathematical minimum is not below the maximum,
   for bounds of any magnitude *)
Definition sval (s : bool * N) : Z := if fst s then (- Z.of_N (snd s))%Z else Z.of_N (snd s).

Theorem rule_subrange_spec lo hi : rule_subrange lo hi = if (sval lo <? sval hi)%Z then 0 else 1.
Proof.
  unfold rule_subrange, is_less, signed_of, sval. destruct lo as [nl vl], hi as [nh vh]. cbn [fst snd].
  destruct nl, nh; cbn [andb];
    destruct (N.eqb_spec vl 0); destruct (N.eqb_spec vh 0); cbn [negb];
    repeat match goal with
           | |- context [N.ltb ?a ?b] => destruct (N.ltb_spec a b)
           | |- context [Z.ltb ?a ?b] => destruct (Z.ltb_spec a b)
           end; try reflexivity; lia.
Qed.

(* ------------------------------------------------------------------------------------ *)
(* C06: a rule of the table shape gives the same verdict for every order of the declarations,
   provided declaration names are unique (so that the lookup does not depend on the order) *)
Section Order.
  Variable D : Type.
  Variable key : D -> N.
  Variable diag : Type.
  Variable check : (N -> option D) -> D -> list diag.
  Hypothesis check_ext : forall f g d, (forall k, f k = g k) -> check f d = check g d.

  Lemma find_decl_In ds k d : NoDup (map key ds) -> In d ds -> key d = k -> find_decl D key ds k = Some d.
  Proof.
    induction ds as [|x r IH]; intros Hnd Hin Hk; [destruct Hin|].
    cbn [map] in Hnd. inversion Hnd as [|? ? Hnx Hnr]; subst. cbn [find_decl].
    destruct Hin as [<-|Hin].
    - rewrite N.eqb_refl. reflexivity.
    - destruct (N.eqb_spec (key x) (key d)) as [E|_]; [|apply IH; [exact Hnr | exact Hin | reflexivity]].
      exfalso. apply Hnx. rewrite E. apply in_map. exact Hin.
  Qed.

  Lemma find_decl_none ds k : (forall d, In d ds -> key d <> k) -> find_decl D key ds k = None.
  Proof.
    induction ds as [|x r IH]; intro H; [reflexivity|]. cbn [find_decl].
    destruct (N.eqb_spec (key x) k) as [E|_]; [exfalso; exact (H x (or_introl eq_refl) E)|].
    apply IH. intros d Hd. apply H. right. exact Hd.
  Qed.

  Lemma find_decl_perm a b : Permutation a b -> NoDup (map key a) -> forall k, find_decl D key a k = find_decl D key b k.
  Proof.
    intros Hp Hnd k.
    assert (Hndb : NoDup (map key b)) by (eapply Permutation_NoDup; [apply Permutation_map; exact Hp | exact Hnd]).
    destruct (find_decl D key a k) as [d|] eqn:Ea.
    - assert (Hin : In d a /\ key d = k).
      { clear -Ea. induction a as [|x r IH]; [discriminate|]. cbn [find_decl] in Ea.
        destruct (N.eqb_spec (key x) k) as [E|_]; [injection Ea as <-; split; [left; reflexivity | exact E]|].
        destruct (IH Ea) as [H1 H2]. split; [right; exact H1 | exact H2]. }
      destruct Hin as [Hin Hk]. symmetry. apply find_decl_In; [exact Hndb | eapply Permutation_in; eassumption | exact Hk].
    - symmetry. apply find_decl_none. intros d Hd Hk.
      assert (Hda : In d a) by (eapply Permutation_in; [apply Permutation_sym; exact Hp | exact Hd]).
      rewrite (find_decl_In a k d Hnd Hda Hk) in Ea. discriminate.
  Qed.

  Lemma flat_map_perm_nil (f : D -> list diag) a b : Permutation a b -> (flat_map f a = [] <-> flat_map f b = []).
  Proof.
    intro Hp. assert (G : forall l, flat_map f l = [] <-> forall d, In d l -> f d = []).
    { induction l as [|x r IH]; cbn [flat_map]; [split; [intros _ d [] | reflexivity]|].
      split.
      - intro H. apply app_eq_nil in H as [H1 H2]. intros d [<-|Hd]; [exact H1 | apply IH; assumption].
      - intro H. rewrite (H x (or_introl eq_refl)). apply IH. intros d Hd. apply H. right. exact Hd. }
    rewrite !G. split; intros H d Hd; apply H; [eapply Permutation_in; [apply Permutation_sym; exact Hp|exact Hd] | eapply Permutation_in; eassumption].
  Qed.

  Theorem verdict_perm a b : Permutation a b -> NoDup (map key a) ->
    verdict D key diag check a = verdict D key diag check b.
  Proof.
    intros Hp Hnd. unfold verdict, run_rule.
    assert (E : flat_map (check (find_decl D key a)) b = flat_map (check (find_decl D key b)) b).
    { apply flat_map_ext. intro d. apply check_ext. apply find_decl_perm; assumption. }
    pose proof (flat_map_perm_nil (check (find_decl D key a)) a b Hp) as H. rewrite E in H.
    destruct (flat_map (check (find_decl D key a)) a); destruct (flat_map (check (find_decl D key b)) b); try reflexivity.
    - destruct H as [H _]. specialize (H eq_refl). discriminate.
    - destruct H as [_ H]. specialize (H eq_refl). discriminate.
  Qed.

  (* and no error is masked by company (C03): a declaration that fails against the table keeps the
     verdict false wherever it stands and whatever accompanies it, as long as the table lookups it makes
     are unchanged *)
  Theorem local_fault_fails ds d : In d ds -> check (find_decl D key ds) d <> [] -> verdict D key diag check ds = false.
  Proof.
    intros Hin Hc. unfold verdict, run_rule.
    destruct (flat_map (check (find_decl D key ds)) ds) eqn:E; [|reflexivity].
    exfalso. apply Hc. clear Hc. revert E Hin. generalize (check (find_decl D key ds)). intros f E Hin.
    induction ds as [|x r IH]; [destruct Hin|].
    cbn [flat_map] in E. apply app_eq_nil in E as [E1 E2].
    destruct Hin as [<-|Hin]; [exact E1 | exact (IH E2 Hin)].
  Qed.
End Order.

(* ------------------------------------------------------------------------------------ *)
(* C03: the re-assembly keeps every declaration exactly once, or reports the duplicate *)
Lemma alookup_aremove_other k k' m : k <> k' -> alookup k (aremove k' m) = alookup k m.
Proof.
  intro H. induction m as [|[a v] r IH]; [reflexivity|]. cbn [aremove alookup].
  destruct (N.eqb_spec a k') as [E|NE].
  - destruct (N.eqb_spec a k); [congruence | exact IH].
  - cbn [alookup]. destruct (N.eqb_spec a k); [reflexivity | exact IH].
Qed.

Definition keys (m : amap) : list N := map fst m.
Definition vals (m : amap) : list decl := map snd m.

Lemma aremove_notin k m : ~ In k (keys m) -> aremove k m = m.
Proof.
  induction m as [|[a v] r IH]; intro H; [reflexivity|]. cbn [aremove keys map fst] in *.
  destruct (N.eqb_spec a k) as [E|_]; [exfalso; apply H; left; exact E|].
  f_equal. apply IH. intro Hin. apply H. right. exact Hin.
Qed.

Lemma take_sorted_perm sorted : forall m, NoDup sorted -> NoDup (keys m) ->
  (forall k, In k (keys m) -> In k sorted) -> Permutation (take_sorted sorted m) (vals m).
Proof.
  induction sorted as [|k r IH]; intros m Hs Hk Hin.
  - destruct m as [|[a v] m']; [constructor|]. exfalso. exact (Hin a (or_introl eq_refl)).
  - inversion Hs as [|? ? Hnk Hsr]; subst. cbn [take_sorted].
    destruct (alookup k m) as [d|] eqn:El.
    + (* split m at k *)
      assert (G : forall m, NoDup (keys m) -> alookup k m = Some d ->
                  Permutation (d :: vals (aremove k m)) (vals m) /\ NoDup (keys (aremove k m)) /\
                  (forall x, In x (keys (aremove k m)) <-> In x (keys m) /\ x <> k)).
      { clear. induction m as [|[a v] m' IHm]; intros Hnd Hl; [discriminate|].
        cbn [keys map fst] in Hnd. inversion Hnd as [|? ? Hna Hnm]; subst. cbn [alookup aremove] in *.
        destruct (N.eqb_spec a k) as [E|NE].
        - inversion Hl; subst. rewrite aremove_notin by exact Hna. split; [|split; [|intro x; split]].
          + apply Permutation_refl.
          + exact Hnm.
          + intro Hx. split; [right; exact Hx | intro; subst; contradiction].
          + intros [[E'|Hx] Hne]; [cbn in E'; congruence | exact Hx].
        - destruct (IHm Hnm Hl) as (P1 & P2 & P3). cbn [vals map snd keys fst]. split; [|split; [|intro x; split]].
          + apply perm_trans with (v :: d :: vals (aremove k m')); [apply perm_swap | apply perm_skip; exact P1].
          + constructor; [|exact P2]. intro Hx. apply P3 in Hx as [Hx _]. contradiction.
          + intros [<-|Hx]; [split; [left; reflexivity | exact NE] | apply P3 in Hx as [Hx Hne]; split; [right; exact Hx | exact Hne]].
          + intros [[<-|Hx] Hne]; [left; reflexivity | right; apply P3; split; assumption]. }
      destruct (G m Hk El) as (P1 & P2 & P3).
      apply perm_trans with (d :: vals (aremove k m)); [|exact P1].
      apply perm_skip. apply IH; [exact Hsr | exact P2|].
      intros x Hx. apply P3 in Hx as [Hx Hne]. destruct (Hin x Hx) as [E|Hr]; [congruence | exact Hr].
    + apply IH; [exact Hsr | exact Hk|]. intros x Hx. destruct (Hin x Hx) as [<-|Hr]; [|exact Hr].
      exfalso. clear -El Hx. induction m as [|[a v] m' IHm]; [destruct Hx|]. cbn [alookup keys map fst] in *.
      destruct (N.eqb_spec a k) as [E|NE]; [discriminate|]. destruct Hx as [E|Hx]; [congruence | exact (IHm El Hx)].
Qed.

(* the three collections after the split: their values are a permutation of the declarations, keys are
   unique and every key is a declared name *)
Lemma alookup_none_notin k m : alookup k m = None -> ~ In k (keys m).
Proof.
  induction m as [|[a v] m IH]; intro H; [intros []|]. cbn [alookup keys map fst] in *.
  destruct (N.eqb_spec a k); [discriminate|]. intros [E|Hx]; [congruence | exact (IH H Hx)].
Qed.

Definition named (ds : list decl) (kd : dkind) (k : N) : Prop := exists d, In d ds /\ d_kind d = kd /\ d_name d = k.

Lemma named_cons_other d r kd k : d_kind d <> kd -> (named (d :: r) kd k <-> named r kd k).
Proof.
  intro H. split; intros (x & Hx & Hk & Hn).
  - destruct Hx as [<-|Hx]; [congruence | exists x; auto].
  - exists x. split; [right; exact Hx | auto].
Qed.

Lemma split_decls_spec ds : forall t pf p t' pf' p',
  split_decls ds t pf p = Ok (t', pf', p') ->
  NoDup (keys t) -> NoDup (keys p) ->
  Permutation (vals t' ++ pf' ++ vals p') (ds ++ vals t ++ pf ++ vals p)
  /\ NoDup (keys t') /\ NoDup (keys p')
  /\ (forall k, In k (keys t') -> In k (keys t) \/ named ds DkType k)
  /\ (forall k, In k (keys p') -> In k (keys p) \/ named ds DkPou k).
Proof.
  induction ds as [|d r IH]; intros t pf p t' pf' p' H Ht Hp.
  - cbn in H. inversion H; subst. cbn [app].
    split; [apply Permutation_refl|]. split; [exact Ht|]. split; [exact Hp|].
    split; intros k Hk; left; exact Hk.
  - cbn [split_decls] in H. destruct (d_kind d) eqn:Ek.
    + unfold insert_unique in H. destruct (alookup (d_name d) t) eqn:El; [discriminate|].
      pose proof (alookup_none_notin _ _ El) as Hn.
      destruct (IH _ _ _ _ _ _ H (NoDup_cons _ Hn Ht) Hp) as (P & N1 & N2 & K1 & K2).
      split; [|split; [exact N1|split; [exact N2|split]]].
      * eapply perm_trans; [exact P|]. cbn [vals map snd app]. apply Permutation_sym. apply Permutation_middle.
      * intros k Hk. destruct (K1 k Hk) as [[E|Hk']|Hnm].
        -- right. exists d. split; [left; reflexivity|]. split; [exact Ek | exact E].
        -- left; exact Hk'.
        -- right. destruct Hnm as (x & Hx & Hxk & Hxn). exists x. split; [right; exact Hx | auto].
      * intros k Hk. destruct (K2 k Hk) as [Hk'|Hnm]; [left; exact Hk'|].
        right. destruct Hnm as (x & Hx & Hxk & Hxn). exists x. split; [right; exact Hx | auto].
    + destruct (IH _ _ _ _ _ _ H Ht Hp) as (P & N1 & N2 & K1 & K2).
      split; [|split; [exact N1|split; [exact N2|split]]].
      * eapply perm_trans; [exact P|]. cbn [app]. rewrite <- !app_assoc. cbn [app].
        apply Permutation_sym.
        apply perm_trans with (r ++ d :: (vals t ++ pf ++ vals p)); [apply Permutation_middle|].
        apply Permutation_app_head.
        apply perm_trans with (vals t ++ d :: pf ++ vals p); [apply Permutation_middle|].
        apply Permutation_app_head. apply Permutation_middle.
      * intros k Hk. destruct (K1 k Hk) as [Hk'|Hnm]; [left; exact Hk'|].
        right. destruct Hnm as (x & Hx & Hxk & Hxn). exists x. split; [right; exact Hx | auto].
      * intros k Hk. destruct (K2 k Hk) as [Hk'|Hnm]; [left; exact Hk'|].
        right. destruct Hnm as (x & Hx & Hxk & Hxn). exists x. split; [right; exact Hx | auto].
    + unfold insert_unique in H. destruct (alookup (d_name d) p) eqn:El; [discriminate|].
      pose proof (alookup_none_notin _ _ El) as Hn.
      destruct (IH _ _ _ _ _ _ H Ht (NoDup_cons _ Hn Hp)) as (P & N1 & N2 & K1 & K2).
      split; [|split; [exact N1|split; [exact N2|split]]].
      * eapply perm_trans; [exact P|]. cbn [vals map snd app]. apply Permutation_sym.
        apply perm_trans with (r ++ d :: (vals t ++ pf ++ vals p)); [apply Permutation_middle|].
        apply Permutation_app_head.
        apply perm_trans with (vals t ++ d :: pf ++ vals p); [apply Permutation_middle|].
        apply Permutation_app_head. apply Permutation_middle.
      * intros k Hk. destruct (K1 k Hk) as [Hk'|Hnm]; [left; exact Hk'|].
        right. destruct Hnm as (x & Hx & Hxk & Hxn). exists x. split; [right; exact Hx | auto].
      * intros k Hk. destruct (K2 k Hk) as [[E|Hk']|Hnm].
        -- right. exists d. split; [left; reflexivity|]. split; [exact Ek | exact E].
        -- left; exact Hk'.
        -- right. destruct Hnm as (x & Hx & Hxk & Hxn). exists x. split; [right; exact Hx | auto].
Qed.

(* success keeps every declaration exactly once (when every type / POU name is a node of the sort) *)
Theorem reassemble_keeps_all sorted ds out :
  reassemble sorted ds = Ok out -> NoDup sorted ->
  (forall d, In d ds -> d_kind d <> DkPostfix -> In (d_name d) sorted) ->
  Permutation out ds.
Proof.
  unfold reassemble. intros H Hs Hall.
  destruct (split_decls ds [] [] []) as [[[t pf] p]| | |] eqn:E; try discriminate.
  inversion H; subst out. clear H.
  destruct (split_decls_spec ds [] [] [] t pf p E (NoDup_nil _) (NoDup_nil _)) as (P & N1 & N2 & K1 & K2).
  cbn [vals map app] in P. rewrite !app_nil_r in P.
  eapply perm_trans; [|exact P].
  apply Permutation_app; [|apply Permutation_app_head].
  - apply take_sorted_perm; [exact Hs | exact N1|]. intros k Hk. destruct (K1 k Hk) as [[]|(d & Hd & Hk1 & <-)].
    apply Hall; [exact Hd | congruence].
  - apply take_sorted_perm; [exact Hs | exact N2|]. intros k Hk. destruct (K2 k Hk) as [[]|(d & Hd & Hk1 & <-)].
    apply Hall; [exact Hd | congruence].
Qed.

(* two declarations of the same name in the same collection are reported, never collapsed *)
Theorem reassemble_duplicate sorted a d1 b d2 c :
  d_kind d1 = d_kind d2 -> d_kind d1 <> DkPostfix -> d_name d1 = d_name d2 ->
  reassemble sorted (a ++ d1 :: b ++ d2 :: c) = Fail.
Proof.
  intros Hk Hnp Hn. unfold reassemble.
  assert (G : forall ds t pf p, (exists x, In x (vals t ++ vals p) /\ d_kind x = d_kind d2 /\ d_name x = d_name d2 /\
                                 (d_kind x = DkType -> In (d_name x) (keys t)) /\ (d_kind x = DkPou -> In (d_name x) (keys p))) ->
             split_decls (ds ++ d2 :: c) t pf p = Fail).
  { induction ds as [|y r IH]; intros t pf p (x & Hx & Hxk & Hxn & Ht & Hp).
    - cbn [app split_decls]. destruct (d_kind d2) eqn:E2.
      + unfold insert_unique. specialize (Ht Hxk). rewrite <- Hxn.
        destruct (alookup (d_name x) t) eqn:El; [reflexivity | exfalso; exact (alookup_none_notin _ _ El Ht)].
      + congruence.
      + unfold insert_unique. specialize (Hp Hxk). rewrite <- Hxn.
        destruct (alookup (d_name x) p) eqn:El; [reflexivity | exfalso; exact (alookup_none_notin _ _ El Hp)].
    - cbn [app split_decls]. destruct (d_kind y) eqn:Ey.
      + unfold insert_unique. destruct (alookup (d_name y) t); [reflexivity|]. apply IH.
        exists x. split; [cbn [vals map snd app]; right; exact Hx|]. split; [exact Hxk|]. split; [exact Hxn|].
        split; [intro K; right; exact (Ht K) | exact Hp].
      + apply IH. exists x. auto.
      + unfold insert_unique. destruct (alookup (d_name y) p); [reflexivity|]. apply IH.
        exists x. split; [cbn [vals map snd]; apply in_app_iff; apply in_app_iff in Hx as [Hx|Hx]; [left; exact Hx | right; right; exact Hx]|].
        split; [exact Hxk|]. split; [exact Hxn|]. split; [exact Ht | intro K; right; exact (Hp K)]. }
  assert (G0 : forall ds t pf p, NoDup (keys t) -> NoDup (keys p) -> split_decls (ds ++ d1 :: b ++ d2 :: c) t pf p = Fail).
  { induction ds as [|y r IH]; intros t pf p Ht Hp.
    - cbn [app split_decls]. destruct (d_kind d1) eqn:E1.
      + unfold insert_unique. destruct (alookup (d_name d1) t); [reflexivity|]. apply G.
        exists d1. split; [cbn [vals map snd app]; left; reflexivity|]. split; [congruence|]. split; [exact Hn|].
        split; [intros _; left; reflexivity | congruence].
      + congruence.
      + unfold insert_unique. destruct (alookup (d_name d1) p); [reflexivity|]. apply G.
        exists d1. split; [apply in_app_iff; right; left; reflexivity|]. split; [congruence|]. split; [exact Hn|].
        split; [congruence | intros _; left; reflexivity].
    - cbn [app split_decls]. destruct (d_kind y).
      + unfold insert_unique. destruct (alookup (d_name y) t) eqn:El; [reflexivity|].
        apply IH; [constructor; [exact (alookup_none_notin _ _ El) | exact Ht] | exact Hp].
      + apply IH; assumption.
      + unfold insert_unique. destruct (alookup (d_name y) p) eqn:El; [reflexivity|].
        apply IH; [exact Ht | constructor; [exact (alookup_none_notin _ _ El) | exact Hp]]. }
  rewrite (G0 a [] [] [] (NoDup_nil _) (NoDup_nil _)). reflexivity.
Qed.
