(* C10: which stored times of day survive rendering -- exactly those without a part finer than a microsecond. *)
From Coq Require Import List ZArith NArith Bool Lia ZifyBool ZifyN.
From Verif Require Import Base.Text Model.Literals Model.TimeRender Proofs.TimeRenderProofs.
Import ListNotations.
Open Scope N_scope.
Ltac Zify.zify_post_hook ::= Z.div_mod_to_equations.

(* The library keeps nanoseconds; the renderer writes as_hms_micro(), i.e. nanos / 1000.  What is read back is the stored time
   exactly when the stored time has no part finer than a microsecond -- both directions: the recorded finding
   render-fractional-time-values is precisely the times with nanos mod 1000 <> 0. *)
Theorem stored_time_round_trip_iff h m sec nanos : h < 24 -> m < 60 -> sec < 60 -> nanos < 1000000000 ->
  (read_back h m sec (nanos / 1000) = Some (h, m, sec, nanos) <-> nanos mod 1000 = 0).
Proof.
  intros Hh Hm Hs Hn.
  rewrite (time_of_day_round_trip h m sec (nanos / 1000) Hh Hm Hs) by lia.
  split.
  - intro E. inversion E. lia.
  - intro E. f_equal. f_equal. lia.
Qed.

Example finer_than_a_microsecond_is_lost : read_back 12 0 0 (500 / 1000) = Some (12, 0, 0, 0).
Proof. vm_compute. reflexivity. Qed.
