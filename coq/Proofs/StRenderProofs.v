(* C10 on the statement sub-language: what the renderer model writes (Model/StRender.v) is a well-formed spelling of the
   tree it was given, so the parser model reads it back as exactly that tree -- for every renderable statement list,
   of any size.  Renderable excludes what the renderer is recorded not to write back faithfully (a negative integer
   constant: '- 5') and what the text cannot express in this sub-language (an empty loop / ELSIF body is written as an
   empty statement, which the spelled lists of StStmtProofs do not cover); the unguarded statement is refuted by a witness. *)
From Coq Require Import List Arith Lia Bool NArith.
From Verif Require Import Base.Res Base.Text Gen.GenTokens Model.Lexer Model.Literals Model.ExprParser Model.StParser
  Model.StInstance Proofs.StExprProofs Proofs.StStmtProofs Proofs.StInstanceProofs Model.StRender Proofs.DecProofs.
Import ListNotations.
Close Scope N_scope.
Open Scope nat_scope.

Notation rwf := (StExprProofs.wf token tok_class t_text tok_num op_level).
Notation rwfpar := (StExprProofs.wfpar token tok_class t_text tok_num op_level).
Notation rwfpars := (StExprProofs.wfpars token tok_class t_text tok_num op_level).
Notation rerase := (StExprProofs.erase token t_text tok_num).
Notation rerasep := (StExprProofs.erasep token t_text tok_num).
Notation reraseps := (StExprProofs.eraseps token t_text tok_num).
Notation rtriv := (all_triv token tok_class).
Notation rends := (ends_name token).

(* ---- induction over trees with nested lists ---- *)
Section SexprInd.
  Variable P : sexpr -> Prop.
  Definition Psel (s : sel sexpr) : Prop := match s with SField _ => True | SIndex es => Forall P es end.
  Definition Ppar (p : param sexpr) : Prop :=
    match p with PPos e | PNamed _ e => P e | POut _ _ _ vs => Forall Psel vs end.
  Hypothesis Hatom : forall l, P (XAtom l).
  Hypothesis Hbin : forall o l r, P l -> P r -> P (XBin o l r).
  Hypothesis Hun : forall o e, P e -> P (XUn o e).
  Hypothesis Hcall : forall f ps, Forall Ppar ps -> P (XCall f ps).
  Hypothesis Hvar : forall n ss, Forall Psel ss -> P (XVar n ss).
  Fixpoint sexpr_ind2 (e : sexpr) : P e :=
    let exprs := fix exprs (l : list sexpr) : Forall P l :=
      match l with [] => Forall_nil _ | x :: r => Forall_cons x (sexpr_ind2 x) (exprs r) end in
    let sels := fix sels (l : list (sel sexpr)) : Forall Psel l :=
      match l with
      | [] => Forall_nil _
      | s :: r => Forall_cons s (match s as s0 return Psel s0 with SField _ => I | SIndex es => exprs es end) (sels r)
      end in
    match e with
    | XAtom l => Hatom l
    | XBin o l r => Hbin o l r (sexpr_ind2 l) (sexpr_ind2 r)
    | XUn o x => Hun o x (sexpr_ind2 x)
    | XCall f ps =>
        Hcall f ps ((fix go (l : list (param sexpr)) : Forall Ppar l :=
                       match l with
                       | [] => Forall_nil _
                       | p :: r => Forall_cons p (match p as p0 return Ppar p0 with
                                                  | PPos e => sexpr_ind2 e
                                                  | PNamed _ e => sexpr_ind2 e
                                                  | POut _ _ _ vs => sels vs
                                                  end) (go r)
                       end) ps)
    | XVar n ss => Hvar n ss (sels ss)
    end.
End SexprInd.

(* ---- which trees the renderer writes back faithfully ---- *)
Definition leaf_ok (l : sleaf) : Prop :=
  match l with
  | LfInt false v => (v < two128)%N      (* the range of the syntax tree's integers *)
  | LfInt true _ => False                (* written '- 5': the recorded gap *)
  | LfTInt k _ v => fam k = TfInt /\ (v < two128)%N       (* a type that takes an integer constant *)
  | LfBits k v => fam k = TfBits /\ (v < two128)%N
  | LfReal _ _ _ => False                (* written by f64's Display: not modelled *)
  | _ => True
  end.

Inductive rexpr : sexpr -> Prop :=
  | RAtom l : leaf_ok l -> rexpr (XAtom l)
  | RBin o l r : rexpr l -> rexpr r -> rexpr (XBin o l r)
  | RUn o x : rexpr x -> rexpr (XUn o x)
  | RCall f ps : Forall rpar ps -> rexpr (XCall f ps)
  | RVar n ss : ss <> [] -> Forall rsel ss -> rexpr (XVar n ss)     (* a variable without selectors is read back as a plain name *)
with rpar : param sexpr -> Prop :=
  | RPPos e : rexpr e -> rpar (PPos e)
  | RPNamed n e : rexpr e -> rpar (PNamed n e)
  | RPOut neg n v vs : Forall rsel vs -> rpar (POut neg n v vs)
with rsel : sel sexpr -> Prop :=
  | RSField f : rsel (SField f)
  | RSIndex es : es <> [] -> Forall rexpr es -> rsel (SIndex es).

(* ---- token facts ---- *)
Lemma class_kwt k c : kind_class k = c -> checked_const c = false -> forall tx, tok_class (tkk k tx) = c.
Proof. intros H Hc tx. rewrite class_by_kind; cbn [t_kind tkk]; rewrite H; [reflexivity | exact Hc]. Qed.

Lemma ws1_triv : rtriv ws1.
Proof. repeat constructor. Qed.
Lemma nl1_triv : rtriv nl1.
Proof. repeat constructor. Qed.
Lemma nil_triv : rtriv [].
Proof. constructor. Qed.
Lemma gap_triv s : rtriv (gap s).
Proof. unfold gap. destruct (rends s); [apply nil_triv | apply ws1_triv]. Qed.
Lemma pgap_triv p : rtriv (pgap p).
Proof. unfold pgap. destruct (pends token p); [apply nil_triv | apply ws1_triv]. Qed.
Lemma gap_nil s : rends s = true -> gap s = [].
Proof. unfold gap. intros ->. reflexivity. Qed.
Lemma pgap_nil p : pends token p = true -> pgap p = [].
Proof. unfold pgap. intros ->. reflexivity. Qed.

Lemma op_tok_bop o : bop_of token tok_class op_level (op_tok o) = Some (op_level o, o).
Proof. destruct o; reflexivity. Qed.
Lemma un_tok_uop o : uop_of token tok_class (un_tok o) = Some o.
Proof. destruct o; reflexivity. Qed.

Lemma tykw_tok_class k : tok_class (tykw_tok k) = CTyKw k.
Proof. destruct k; reflexivity. Qed.

Lemma id_tok_class n : tok_class (id_tok n) = CId.
Proof. reflexivity. Qed.

Lemma str_tok_class c : tok_class (str_tok c) = CConst (str_kind c).
Proof. unfold str_tok, str_kind. destruct (has_quote c); reflexivity. Qed.

Lemma removelast_snoc {A} (l : list A) x : removelast (l ++ [x]) = l.
Proof. apply removelast_last. Qed.

Lemma str_tok_leaf c : leaf_of token t_text tok_num (str_kind c) (str_tok c) = LfStr c.
Proof.
  unfold str_tok, str_kind, leaf_of. destruct (has_quote c); cbn [t_text tkk tl]; rewrite removelast_snoc; reflexivity.
Qed.

Lemma sp_of_un o x : sp_of (XUn o x) =
  SUn token (un_tok o) o ws1 (match x with
                              | XUn _ _ => SParen token lpt ws1 (sp_of x) (gap (sp_of x)) rpt
                              | _ => sp_of x
                              end).
Proof. reflexivity. Qed.

Lemma sp_of_call f p r : sp_of (XCall f (p :: r)) =
  let '(rest, w3) := pars_of (par_of p) r in SCallN token (id_tok f) ws1 lpt ws1 (par_of p) rest w3 rpt.
Proof. reflexivity. Qed.

Lemma sp_of_var n ss : sp_of (XVar n ss) = SVar token (id_tok n) (sels_of ss).
Proof. reflexivity. Qed.

Notation rwfss := (StExprProofs.wfss token tok_class t_text tok_num op_level).
Notation rwfsi := (StExprProofs.wfsi token tok_class t_text tok_num op_level).
Notation rerasess := (StExprProofs.erasess token t_text tok_num).
Notation rerasesi := (StExprProofs.erasesi token t_text tok_num).

Definition expr_good (e : sexpr) : Prop := (forall q, rwf q (sp_of e)) /\ rerase (sp_of e) = e.
Definition sel_good (s : sel sexpr) : Prop :=
  match s with SField _ => True | SIndex es => es <> [] /\ Forall expr_good es end.

Lemma idx_of_spec : forall l prev, Forall expr_good l ->
  let '(m, w) := idx_of prev l in
  rwfsi w m /\ rtriv w /\ rerasesi m = l /\ (rends prev = true -> idx_lead token m w = []).
Proof.
  induction l as [|y l IH]; intros prev Hl; cbn [idx_of].
  - split; [exact I|]. split; [apply gap_triv|]. split; [reflexivity|]. cbn [idx_lead]. apply gap_nil.
  - inversion Hl as [|y' l' (Wy & Ey) Hl']; subst.
    specialize (IH (sp_of y) Hl'). destruct (idx_of (sp_of y) l) as [m w]. destruct IH as (W & T & E & Ld).
    split; [|split; [exact T|split]].
    + cbn [StExprProofs.wfsi]. split; [apply gap_triv|]. split; [reflexivity|]. split; [apply ws1_triv|].
      split; [exact (Wy 0)|]. split; [exact W | exact Ld].
    + change (rerase (sp_of y) :: rerasesi m = y :: l). rewrite Ey, E. reflexivity.
    + cbn [idx_lead]. apply gap_nil.
Qed.

Lemma sels_of_spec : forall l, Forall sel_good l -> rwfss (sels_of l) /\ rerasess (sels_of l) = l.
Proof.
  induction l as [|s l IH]; intro Hl; [split; [exact I | reflexivity]|].
  inversion Hl as [|s' l' Hs Hl']; subst. destruct (IH Hl') as (W & E).
  destruct s as [f|es]; cbn [sels_of].
  - split.
    + cbn [StExprProofs.wfss]. split; [apply nil_triv|]. split; [reflexivity|]. split; [apply nil_triv|]. split; [reflexivity | exact W].
    + change (SField (t_text (id_tok f)) :: rerasess (sels_of l) = SField f :: l). rewrite E. reflexivity.
  - destruct Hs as (Hne & Hes). destruct es as [|x es']; [contradiction Hne; reflexivity|].
    inversion Hes as [|x' es'' (Wx & Ex) Hes']; subst.
    pose proof (idx_of_spec es' (sp_of x) Hes') as S. destruct (idx_of (sp_of x) es') as [m w3]. destruct S as (Wm & T & Em & Ld).
    split.
    + cbn [StExprProofs.wfss]. split; [apply ws1_triv|]. split; [reflexivity|]. split; [apply ws1_triv|]. split; [exact (Wx 0)|].
      split; [exact Wm|]. split; [exact T|]. split; [reflexivity|]. split; [exact Ld | exact W].
    + change (SIndex (rerase (sp_of x) :: rerasesi m) :: rerasess (sels_of l) = SIndex (x :: es') :: l). rewrite Ex, Em, E. reflexivity.
Qed.

Lemma has_sel_of l : l <> [] -> Forall sel_good l -> has_sel token (sels_of l) = true.
Proof.
  destruct l as [|s l]; [intros H; contradiction H; reflexivity|]. intros _ Hl. inversion Hl as [|s' l' Hs _]; subst.
  destruct s as [f|es]; cbn [sels_of]; [reflexivity|]. destruct Hs as (Hne & _). destruct es as [|x es']; [contradiction Hne; reflexivity|].
  destruct (idx_of (sp_of x) es'); reflexivity.
Qed.

Definition par_good (p : param sexpr) : Prop := rwfpar (par_of p) /\ rerasep (par_of p) = p.

Lemma pars_of_spec : forall l prev, Forall par_good l ->
  let '(rest, w3) := pars_of prev l in
  rwfpars w3 rest /\ rtriv w3 /\ reraseps rest = l /\ (pends token prev = true -> lead token rest w3 = []).
Proof.
  induction l as [|q l IH]; intros prev Hl; cbn [pars_of].
  - split; [exact I|]. split; [apply pgap_triv|]. split; [reflexivity|]. cbn [lead]. apply pgap_nil.
  - inversion Hl as [|q' l' (Wq & Eq) Hl']; subst.
    specialize (IH (par_of q) Hl'). destruct (pars_of (par_of q) l) as [rest w3]. destruct IH as (W & T & E & Ld).
    split; [|split; [exact T|split]].
    + cbn [StExprProofs.wfpars]. split; [apply pgap_triv|]. split; [reflexivity|]. split; [apply ws1_triv|].
      split; [exact Wq|]. split; [exact W | exact Ld].
    + change (rerasep (par_of q) :: reraseps rest = q :: l). rewrite Eq, E. reflexivity.
    + cbn [lead]. apply pgap_nil.
Qed.

(* selectors are good when their subscripts are (used for parameters and assignment targets) *)
Lemma sels_good_of (P : sexpr -> Prop) ss : (forall e, P e -> rexpr e -> expr_good e) ->
  Forall (Psel P) ss -> Forall rsel ss -> Forall sel_good ss.
Proof.
  intros HP. induction ss as [|s ss IH]; intros HF HR; [constructor|].
  inversion HF as [|s1 l1 Hs HF']; subst. inversion HR as [|s2 l2 Rs HR']; subst.
  constructor; [|apply IH; assumption].
  destruct s as [f|es]; [exact I|]. inversion Rs as [|es0 Hne Res]; subst. split; [exact Hne|].
  cbn [Psel] in Hs. clear -HP Hs Res. induction es as [|x es IHes]; [constructor|].
  inversion Hs; subst. inversion Res; subst. constructor; [apply HP; assumption | apply IHes; assumption].
Qed.

(* ---- expressions: the rendering is a well-formed spelling of the tree ---- *)
Lemma par_good_from (P : sexpr -> Prop) p : (forall e, P e -> rexpr e -> expr_good e) -> Ppar P p -> rpar p -> par_good p.
Proof.
  intros HP Hp Rp. unfold par_good. destruct p as [e|n e|neg n v vs]; cbn [Ppar par_of StExprProofs.wfpar] in *; inversion Rp; subst.
  - destruct (HP e Hp) as (W & E); [assumption|]. split; [exact (W 0)|]. change (PPos (rerase (sp_of e)) = PPos e). rewrite E; reflexivity.
  - destruct (HP e Hp) as (W & E); [assumption|].
    split; [|change (PNamed (t_text (id_tok n)) (rerase (sp_of e)) = PNamed n e); rewrite E; reflexivity].
    split; [reflexivity|]. split; [apply ws1_triv|]. split; [reflexivity|]. split; [apply ws1_triv | exact (W 0)].
  - destruct (sels_of_spec vs) as (Wv & Ev); [eapply sels_good_of; eassumption|].
    split; [|change (POut (match (if neg then Some (not_t, ws1) else None) with Some _ => true | None => false end) (t_text (id_tok n)) (t_text (id_tok v)) (rerasess (sels_of vs)) = POut neg n v vs); rewrite Ev; destruct neg; reflexivity].
    split; [destruct neg; [split; [reflexivity | apply ws1_triv] | exact I]|].
    split; [reflexivity|]. split; [apply ws1_triv|]. split; [reflexivity|]. split; [apply ws1_triv|]. split; [reflexivity | exact Wv].
Qed.

Lemma sp_of_spec0 : forall e, rexpr e -> expr_good e.
Proof.
  induction e as [l|o l r IHl IHr|o x IHx|f ps IHps|n ss IHss] using sexpr_ind2; intros He; inversion He; subst.
  - (* leaves *)
    unfold expr_good. destruct l as [[|] v|b|c|ty sg lit|k neg v|k v|n]; cbn [leaf_ok] in *; try contradiction; cbn [sp_of leaf_sp].
    + match goal with H : (_ < two128)%N |- _ => destruct (int_tok_ok v H) as (Hc & Hn) end.
      split; [intro q; exact Hc|]. cbn. unfold leaf_of. rewrite Hn. reflexivity.
    + split; [|destruct b; reflexivity]. intro q. cbn. destruct b; repeat split; reflexivity.
    + split; [intro q; apply str_tok_class|]. cbn [StExprProofs.erase]. rewrite str_tok_leaf. reflexivity.
    + match goal with H : _ /\ (_ < two128)%N |- _ => destruct H as (Hf & Hv) end. destruct (int_tok_ok v Hv) as (Hc & Hn).
      split; [|reflexivity]. intro q. cbn [StExprProofs.wf]. split; [apply tykw_tok_class|]. split; [reflexivity|].
      unfold typed_leaf. rewrite Hf, Hc, Hn. destruct neg; [split; reflexivity | reflexivity].
    + match goal with H : _ /\ (_ < two128)%N |- _ => destruct H as (Hf & Hv) end. destruct (int_tok_ok v Hv) as (Hc & Hn).
      split; [|reflexivity]. intro q. cbn [StExprProofs.wf]. split; [apply tykw_tok_class|]. split; [reflexivity|].
      unfold typed_leaf. rewrite Hf, Hc, Hn. reflexivity.
    + split; [|reflexivity]. intro q. split; [reflexivity | apply ws1_triv].
  - (* ( l op r ) *)
    match goal with Hl : rexpr l, Hr : rexpr r |- _ => destruct (IHl Hl) as (Wl & El); destruct (IHr Hr) as (Wr & Er) end.
    unfold expr_good. cbn [sp_of]. split.
    + intro q. cbn [StExprProofs.wf]. repeat split; try reflexivity; try apply ws1_triv; try apply gap_triv.
      * apply op_tok_bop.
      * lia.
      * exact (Wl _).
      * exact (Wr _).
      * apply gap_nil.
      * cbn [StExprProofs.ends_name]. apply gap_nil.
    + change (XBin o (rerase (sp_of l)) (rerase (sp_of r)) = XBin o l r). rewrite El, Er. reflexivity.
  - (* unary operator *)
    match goal with Hx : rexpr x |- _ => destruct (IHx Hx) as (Wx & Ex); rename Hx into Rx end. unfold expr_good. rewrite sp_of_un.
    destruct x as [l|o' l r|o' x'|f ps|n ss].
    + (* a leaf: negative constants are excluded *)
      split; [|cbn [StExprProofs.erase]; rewrite Ex; reflexivity]. intro q.
      cbn [StExprProofs.wf]. split; [apply un_tok_uop|]. split; [apply ws1_triv|].
      inversion Rx; subst. destruct l as [[|] v|b|c|ty sg lit|k neg v|k v|n]; cbn [leaf_ok] in *; try contradiction; exact (Wx 0).
    + split; [|cbn [StExprProofs.erase]; rewrite Ex; reflexivity]. intro q.
      cbn [StExprProofs.wf]. split; [apply un_tok_uop|]. split; [apply ws1_triv|]. exact (Wx 0).
    + (* nested unary: in parentheses *)
      set (sx := sp_of (XUn o' x')) in *.
      split; [|cbn [StExprProofs.erase]; rewrite Ex; reflexivity]. intro q.
      cbn [StExprProofs.wf]. split; [apply un_tok_uop|]. split; [apply ws1_triv|].
      split; [reflexivity|]. split; [reflexivity|]. split; [apply ws1_triv|]. split; [apply gap_triv|]. split; [exact (Wx 0) | apply gap_nil].
    + split; [|cbn [StExprProofs.erase]; rewrite Ex; reflexivity]. intro q.
      cbn [StExprProofs.wf]. split; [apply un_tok_uop|]. split; [apply ws1_triv|].
      pose proof (Wx 0) as W0. cbn [sp_of] in *. destruct ps as [|p0 r0]; [exact W0|]. destruct (_ : rspars * list token); exact W0.
    + split; [|cbn [StExprProofs.erase]; rewrite Ex; reflexivity]. intro q.
      cbn [StExprProofs.wf]. split; [apply un_tok_uop|]. split; [apply ws1_triv|]. pose proof (Wx 0) as W0. rewrite sp_of_var in *. exact W0.
  - (* calls *)
    assert (Hg : Forall par_good ps).
    { match goal with H : Forall rpar ps |- _ => rename H into Rps end.
      clear He. induction ps as [|p r IHr]; [constructor|]. inversion IHps; subst. inversion Rps; subst.
      constructor; [eapply par_good_from; [|eassumption|assumption]; intros e0 Hq1 Hq2; exact (Hq1 Hq2) | apply IHr; assumption]. }
    destruct ps as [|p r].
    + unfold expr_good. cbn [sp_of]. split; [|reflexivity]. intro q. cbn [StExprProofs.wf]. repeat split; try reflexivity; apply ws1_triv.
    + unfold expr_good. rewrite sp_of_call. inversion Hg as [|p' r' (Wp & Ep) Hr]; subst.
      pose proof (pars_of_spec r (par_of p) Hr) as S. destruct (pars_of (par_of p) r) as [rest w3]. destruct S as (W & T & E & Ld).
      split.
      * intro q. cbn [StExprProofs.wf]. split; [reflexivity|]. split; [apply ws1_triv|]. split; [reflexivity|]. split; [apply ws1_triv|].
        split; [exact Wp|]. split; [exact W|]. split; [exact T|]. split; [reflexivity | exact Ld].
      * change (XCall (t_text (id_tok f)) (rerasep (par_of p) :: reraseps rest) = XCall f (p :: r)). rewrite Ep, E. reflexivity.
  - (* variables with selectors *)
    assert (Hg : Forall sel_good ss) by (eapply sels_good_of; [|eassumption|assumption]; intros e0 Hq1 Hq2; exact (Hq1 Hq2)).
    destruct (sels_of_spec ss Hg) as (W & E). unfold expr_good. rewrite sp_of_var. split.
    + intro q. cbn [StExprProofs.wf]. split; [reflexivity|]. split; [exact W|]. apply has_sel_of; assumption.
    + change (XVar (t_text (id_tok n)) (rerasess (sels_of ss)) = XVar n ss). rewrite E. reflexivity.
Qed.

Lemma sp_of_spec : forall e, rexpr e -> forall q, rwf q (sp_of e) /\ rerase (sp_of e) = e.
Proof. intros e He q. destruct (sp_of_spec0 e He) as (W & E). split; [exact (W q) | exact E]. Qed.

(* ---- statements ---- *)
Notation rwf_s := (wf_s token tok_class t_text tok_num op_level).
Notation rwf_m := (wf_m token tok_class t_text tok_num op_level).
Notation rerase_s := (erase_s token t_text tok_num).
Notation rerase_m := (erase_m token t_text tok_num).
Notation rabs := (absorbs token).

Section StmtInd.
  Variable P : stmt -> Prop.
  Hypothesis Hassign : forall v vs e, P (TAssign v vs e).
  Hypothesis Hcall : forall f ps, P (TCall f ps).
  Hypothesis Hif : forall c body eis els,
    Forall P body -> Forall (fun cb : sexpr * list stmt => Forall P (snd cb)) eis -> Forall P els -> P (TIf c body eis els).
  Hypothesis Hcase : forall c gs els,
    Forall (fun g : list csel * list stmt => Forall P (snd g)) gs -> Forall P els -> P (TCase c gs els).
  Hypothesis Hfor : forall v e1 e2 st body, Forall P body -> P (TFor v e1 e2 st body).
  Hypothesis Hwhile : forall c body, Forall P body -> P (TWhile c body).
  Hypothesis Hrepeat : forall body c, Forall P body -> P (TRepeat body c).
  Hypothesis Hexit : P TExit.
  Hypothesis Hreturn : P TReturn.
  Fixpoint stmt_ind2 (s : stmt) : P s :=
    let lst := fix lst (l : list stmt) : Forall P l :=
      match l with [] => Forall_nil _ | x :: r => Forall_cons x (stmt_ind2 x) (lst r) end in
    match s with
    | TAssign v vs e => Hassign v vs e
    | TCall f ps => Hcall f ps
    | TIf c body eis els =>
        Hif c body eis els (lst body)
          ((fix go (l : list (sexpr * list stmt)) : Forall (fun cb : sexpr * list stmt => Forall P (snd cb)) l :=
              match l with
              | [] => Forall_nil _
              | cb :: r => Forall_cons cb (match cb as cb0 return Forall P (snd cb0) with (c0, b0) => lst b0 end) (go r)
              end) eis)
          (lst els)
    | TCase c gs els =>
        Hcase c gs els
          ((fix go (l : list (list csel * list stmt)) : Forall (fun g : list csel * list stmt => Forall P (snd g)) l :=
              match l with
              | [] => Forall_nil _
              | g :: r => Forall_cons g (match g as g0 return Forall P (snd g0) with (s0, b0) => lst b0 end) (go r)
              end) gs)
          (lst els)
    | TFor v e1 e2 st body => Hfor v e1 e2 st body (lst body)
    | TWhile c body => Hwhile c body (lst body)
    | TRepeat body c => Hrepeat body c (lst body)
    | TExit => Hexit
    | TReturn => Hreturn
    end.
End StmtInd.

(* selectors the renderer writes back: no negative bound ('- 5': the recorded gap), bounds in the range of the tree's integers *)
Definition csel_ok (x : csel) : Prop :=
  match x with
  | CsInt n v => n = false /\ (v < two128)%N
  | CsRange n1 v1 n2 v2 => n1 = false /\ (v1 < two128)%N /\ n2 = false /\ (v2 < two128)%N
  | CsEnum _ => True
  end.
Definition sels_ok (ss : list csel) : Prop := ss <> [] /\ Forall csel_ok ss.

Fixpoint rstmt (s : stmt) : Prop :=
  let all := fix all (l : list stmt) : Prop := match l with [] => True | x :: r => rstmt x /\ all r end in
  match s with
  | TAssign _ vs e => Forall rsel vs /\ rexpr e
  | TCall _ ps => Forall rpar ps
  | TIf c body eis els =>
      rexpr c /\ all body /\
      (fix go (l : list (sexpr * list stmt)) : Prop :=
         match l with
         | [] => True
         | (c0, b0) :: r => (rexpr c0 /\ all b0) /\ go r
         end) eis /\
      all els
  | TCase c gs els =>
      rexpr c /\
      (fix go (l : list (list csel * list stmt)) : Prop :=
         match l with
         | [] => True
         | (s0, b0) :: r => (sels_ok s0 /\ all b0) /\ go r
         end) gs /\
      all els
  | TFor _ e1 e2 st body => rexpr e1 /\ rexpr e2 /\ match st with Some e3 => rexpr e3 | None => True end /\ all body
  | TWhile c body => rexpr c /\ all body
  | TRepeat body c => rexpr c /\ all body
  | TExit | TReturn => True
  end.
Fixpoint rall (l : list stmt) : Prop := match l with [] => True | x :: r => rstmt x /\ rall r end.

Lemma rall_forall l : rall l <-> Forall rstmt l.
Proof.
  induction l as [|x r IH]; cbn [rall]; split; intro H.
  - constructor.
  - exact I.
  - destruct H as [H1 H2]. constructor; [exact H1 | apply IH; exact H2].
  - inversion H; subst. split; [assumption | apply IH; assumption].
Qed.

Definition stmt_good (s : stmt) : Prop := rwf_s (ss_of s) /\ rerase_s (ss_of s) = s.

Lemma sgap_triv s : rtriv (sgap s).
Proof. unfold sgap. destruct (sends token s); [apply nil_triv | apply ws1_triv]. Qed.
Lemma sgap_nil s : sends token s = true -> sgap s = [].
Proof. unfold sgap. intros ->. reflexivity. Qed.
Lemma tail_gap_triv l : rtriv (tail_gap l).
Proof. destruct l; [apply nil_triv | apply nl1_triv]. Qed.

Lemma more_of_nil f prev : more_of f prev [] = (MNil token, sgap prev).
Proof. reflexivity. Qed.
Lemma more_of_cons f prev x l : more_of f prev (x :: l) =
  let '(m, w) := more_of f (f x) l in (MCons token (sgap prev) semi_t nl1 (f x) m, w).
Proof. reflexivity. Qed.

Lemma more_of_spec : forall l prev, Forall stmt_good l ->
  let '(m, w) := more_of ss_of prev l in
  rwf_m w m /\ rtriv w /\ rerase_m m = l /\ (sends token prev = true -> lead_m token m w = []).
Proof.
  induction l as [|x l IH]; intros prev Hl.
  - rewrite more_of_nil. split; [exact I|]. split; [apply sgap_triv|]. split; [reflexivity|]. cbn [lead_m]. apply sgap_nil.
  - inversion Hl as [|x' l' (Wx & Ex) Hl']; subst. rewrite more_of_cons.
    specialize (IH (ss_of x) Hl'). destruct (more_of ss_of (ss_of x) l) as [m w].
    destruct IH as (W & T & E & Ld).
    split; [|split; [exact T|split]].
    + cbn [wf_m]. split; [apply sgap_triv|]. split; [reflexivity|]. split; [apply nl1_triv|].
      split; [exact Wx|]. split; [exact W | exact Ld].
    + change (rerase_s (ss_of x) :: rerase_m m = x :: l). rewrite Ex, E. reflexivity.
    + cbn [lead_m]. apply sgap_nil.
Qed.

Lemma list_sp_spec x l : stmt_good x -> Forall stmt_good l ->
  rwf_l (list_sp ss_of x l) /\ rerase_l (list_sp ss_of x l) = x :: l /\ rabs (list_sp ss_of x l) = false.
Proof.
  intros (Wx & Ex) Hl. unfold list_sp. pose proof (more_of_spec l (ss_of x) Hl) as S.
  destruct (more_of ss_of (ss_of x) l) as [m w]. destruct S as (W & T & E & Ld).
  split; [|split; [|reflexivity]].
  - cbn [wf_l wf_g]. split; [reflexivity|]. split; [exact Wx|]. split; [exact W|]. split; [exact T|]. split; [reflexivity | exact Ld].
  - change (rerase_s (ss_of x) :: rerase_m m = x :: l). rewrite Ex, E. reflexivity.
Qed.

Lemma body_sp_spec l : Forall stmt_good l ->
  rwf_l (body_sp ss_of l) /\ rerase_l (body_sp ss_of l) = l /\ (rabs (body_sp ss_of l) = true -> tail_gap l = []).
Proof.
  destruct l as [|x l]; intro H.
  - cbn [body_sp]. split; [|split; [reflexivity | intros _; reflexivity]].
    cbn [wf_l wf_g]. split; [intros _; reflexivity|]. split; [apply nil_triv|]. split; [reflexivity | apply nl1_triv].
  - inversion H; subst. cbn [body_sp]. destruct (list_sp_spec x l) as (W & E & A); try assumption.
    split; [exact W|]. split; [exact E|]. rewrite A. discriminate.
Qed.

Lemma sel_good_of s : rsel s -> sel_good s.
Proof.
  destruct s as [f|es]; intro H; [exact I|]. inversion H; subst. split; [assumption|].
  eapply Forall_impl; [apply sp_of_spec0 | assumption].
Qed.
Lemma sels_good_all vs : Forall rsel vs -> Forall sel_good vs.
Proof. intro H. eapply Forall_impl; [apply sel_good_of | exact H]. Qed.

Lemma par_good_of p : rpar p -> par_good p.
Proof.
  unfold par_good. intro H. inversion H; subst; cbn [par_of StExprProofs.wfpar].
  - destruct (sp_of_spec0 e) as (W & E); [assumption|]. split; [exact (W 0)|]. change (PPos (rerase (sp_of e)) = PPos e). rewrite E; reflexivity.
  - destruct (sp_of_spec0 e) as (W & E); [assumption|].
    split; [|change (PNamed (t_text (id_tok n)) (rerase (sp_of e)) = PNamed n e); rewrite E; reflexivity].
    split; [reflexivity|]. split; [apply ws1_triv|]. split; [reflexivity|]. split; [apply ws1_triv | exact (W 0)].
  - destruct (sels_of_spec vs (sels_good_all vs ltac:(assumption))) as (Wv & Ev).
    split; [|change (POut (match (if neg then Some (not_t, ws1) else None) with Some _ => true | None => false end) (t_text (id_tok n)) (t_text (id_tok v)) (rerasess (sels_of vs)) = POut neg n v vs); rewrite Ev; destruct neg; reflexivity].
    split; [destruct neg; [split; [reflexivity | apply ws1_triv] | exact I]|].
    split; [reflexivity|]. split; [apply ws1_triv|]. split; [reflexivity|]. split; [apply ws1_triv|]. split; [reflexivity | exact Wv].
Qed.

Lemma goods (P : stmt -> Prop) l : (forall s, P s -> rstmt s -> stmt_good s) -> Forall P l -> rall l -> Forall stmt_good l.
Proof.
  intros HP. induction l as [|x r IH]; intros HF HR; [constructor|].
  inversion HF; subst. cbn [rall] in HR. destruct HR as [R1 R2]. constructor; [apply HP; assumption | apply IH; assumption].
Qed.

Lemma eis_sp_nil f lead : eis_sp f lead [] = EINil token.
Proof. reflexivity. Qed.
Lemma eis_sp_cons f lead c b l : eis_sp f lead ((c, b) :: l) =
  EICons token lead (kwt KElsif) ws1 (sp_of c) (gap (sp_of c)) (kwt KThen) nl1 (body_sp f b) (eis_sp f (tail_gap b) l).
Proof. reflexivity. Qed.

Definition eis_cond (l : list (sexpr * list stmt)) : Prop :=
  (fix go (l : list (sexpr * list stmt)) : Prop :=
     match l with
     | [] => True
     | (c0, b0) :: r => (rexpr c0 /\ rall b0) /\ go r
     end) l.

Lemma last_gap_triv l : rtriv (last_gap l).
Proof.
  induction l as [|[c b] l IH]; [apply nl1_triv|]. destruct l as [|cb l']; [apply tail_gap_triv | exact IH].
Qed.

Lemma eis_sp_spec : forall l lead wt, rtriv lead -> eis_cond l ->
  Forall (fun cb : sexpr * list stmt => Forall stmt_good (snd cb)) l ->
  (l <> [] -> last_gap l = [] -> wt = []) ->
  wf_eis token tok_class t_text tok_num op_level wt (eis_sp ss_of lead l) /\ erase_eis token t_text tok_num (eis_sp ss_of lead l) = l.
Proof.
  induction l as [|[c b] l IH]; intros lead wt Hlead HC HG Hwt.
  - rewrite eis_sp_nil. split; [exact I | reflexivity].
  - cbn [eis_cond] in HC. destruct HC as ((Rc & _) & HC'). inversion HG as [|cb l' Gb Gl]; subst. cbn [snd] in Gb.
    destruct (sp_of_spec c Rc 0) as (Wc & Ec). destruct (body_sp_spec b Gb) as (Wb & Eb & Ab).
    assert (Hwt' : l <> [] -> last_gap l = [] -> wt = []).
    { intros Hn Hg. apply Hwt; [discriminate|]. destruct l as [|cb l']; [contradiction Hn; reflexivity | exact Hg]. }
    destruct (IH (tail_gap b) wt (tail_gap_triv b) HC' Gl Hwt') as (W & E).
    rewrite eis_sp_cons. split.
    + cbn [wf_eis]. split; [exact Hlead|]. split; [reflexivity|]. split; [apply ws1_triv|]. split; [exact Wc|].
      split; [apply gap_triv|]. split; [apply gap_nil|]. split; [reflexivity|]. split; [apply nl1_triv|]. split; [exact Wb|]. split; [exact W|].
      intro Ha. specialize (Ab Ha). destruct l as [|[c1 b1] l1].
      * rewrite eis_sp_nil. cbn [eis_lead]. apply Hwt; [discriminate|]. cbn [last_gap]. exact Ab.
      * rewrite eis_sp_cons. cbn [eis_lead]. exact Ab.
    + change ((rerase (sp_of c), rerase_l (body_sp ss_of b)) :: erase_eis token t_text tok_num (eis_sp ss_of (tail_gap b) l) = (c, b) :: l).
      rewrite Ec, Eb, E. reflexivity.
Qed.

(* ---- CASE groups ---- *)
Lemma sint_sp_spec v : (v < two128)%N ->
  wf_int token tok_class (sint_sp false v) /\ erase_int token tok_num (sint_sp false v) = (false, v).
Proof.
  intro Hv. destruct (int_tok_ok v Hv) as (Hc & Hn). cbn [sint_sp wf_int erase_int]. rewrite Hn. split; [exact Hc | reflexivity].
Qed.

Lemma csel_sp_spec x : csel_ok x ->
  wf_sel token tok_class (csel_sp x) /\ erase_sel token t_text tok_num (csel_sp x) = x /\ rtriv (sel_lead x).
Proof.
  destruct x as [n v|n1 v1 n2 v2|n]; cbn [csel_ok].
  - intros (-> & Hv). destruct (sint_sp_spec v Hv) as (W & E). cbn [csel_sp wf_sel erase_sel].
    rewrite E. split; [exact W|]. split; [reflexivity | apply ws1_triv].
  - intros (-> & Hv1 & -> & Hv2). destruct (sint_sp_spec v1 Hv1) as (W1 & E1). destruct (sint_sp_spec v2 Hv2) as (W2 & E2).
    cbn [csel_sp wf_sel erase_sel]. rewrite E1, E2.
    split; [|split; [reflexivity | apply ws1_triv]].
    split; [exact W1|]. split; [apply nil_triv|]. split; [reflexivity|]. split; [apply ws1_triv | exact W2].
  - intros _. split; [reflexivity|]. split; [reflexivity | apply ws1_triv].
Qed.

Lemma msels_sp_spec l : Forall csel_ok l ->
  Forall (wf_ms token tok_class) (msels_sp l) /\ map (erase_ms token t_text tok_num) (msels_sp l) = l.
Proof.
  induction 1 as [|x l Hx _ (W & E)]; [split; [constructor | reflexivity]|].
  destruct (csel_sp_spec x Hx) as (Wx & Ex & Tx). cbn [msels_sp map] in *. split.
  - constructor; [|exact W]. cbn [wf_ms]. split; [apply ws1_triv|]. split; [reflexivity|]. split; [exact Tx | exact Wx].
  - cbn [erase_ms]. rewrite Ex. f_equal. exact E.
Qed.

Lemma cs_sp_nil f lead : cs_sp f lead [] = CaNil token.
Proof. reflexivity. Qed.
Lemma cs_sp_cons f lead ss b l : cs_sp f lead ((ss, b) :: l) =
  CaCons token lead (csel_sp (match ss with [] => CsEnum [] | x :: _ => x end)) (msels_sp (tl ss)) ws1 colon_t
    (match b with [] => nl1 ++ empty_comment :: ws1 | _ :: _ => nl1 end) (body_sp f b) (cs_sp f (tail_gap b) l).
Proof. reflexivity. Qed.

Definition cs_cond (l : list (list csel * list stmt)) : Prop :=
  (fix go (l : list (list csel * list stmt)) : Prop :=
     match l with
     | [] => True
     | (s0, b0) :: r => (sels_ok s0 /\ rall b0) /\ go r
     end) l.

Lemma last_gap_cs_triv l : rtriv (last_gap_cs l).
Proof.
  induction l as [|[c b] l IH]; [apply nl1_triv|]. destruct l as [|cb l']; [apply tail_gap_triv | exact IH].
Qed.

Lemma colon_gap_triv (b : list stmt) : rtriv (match b with [] => nl1 ++ empty_comment :: ws1 | _ :: _ => nl1 end).
Proof. destruct b; repeat constructor. Qed.

Lemma cs_sp_spec : forall l lead wt, rtriv lead -> cs_cond l ->
  Forall (fun g : list csel * list stmt => Forall stmt_good (snd g)) l ->
  (l <> [] -> last_gap_cs l = [] -> wt = []) ->
  wf_cs token tok_class t_text tok_num op_level wt (cs_sp ss_of lead l) /\ erase_cs token t_text tok_num (cs_sp ss_of lead l) = l.
Proof.
  induction l as [|[ss b] l IH]; intros lead wt Hlead HC HG Hwt.
  - rewrite cs_sp_nil. split; [exact I | reflexivity].
  - cbn [cs_cond] in HC. destruct HC as (((Hne & Hss) & _) & HC'). inversion HG as [|g l' Gb Gl]; subst. cbn [snd] in Gb.
    destruct ss as [|x ss']; [contradiction Hne; reflexivity|].
    destruct (csel_sp_spec x (Forall_inv Hss)) as (Wx & Ex & _).
    destruct (msels_sp_spec ss' (Forall_inv_tail Hss)) as (Wm & Em).
    destruct (body_sp_spec b Gb) as (Wb & Eb & Ab).
    assert (Hwt' : l <> [] -> last_gap_cs l = [] -> wt = []).
    { intros Hn Hg. apply Hwt; [discriminate|]. destruct l as [|g l']; [contradiction Hn; reflexivity | exact Hg]. }
    destruct (IH (tail_gap b) wt (tail_gap_triv b) HC' Gl Hwt') as (W & E).
    rewrite cs_sp_cons. cbn [tl]. split.
    + cbn [wf_cs]. split; [exact Hlead|]. split; [exact Wx|]. split; [exact Wm|]. split; [apply ws1_triv|]. split; [reflexivity|].
      split; [apply colon_gap_triv|]. split; [exact Wb|]. split; [exact W|].
      intro Ha. specialize (Ab Ha). destruct l as [|[s1 b1] l1].
      * rewrite cs_sp_nil. cbn [cs_lead]. apply Hwt; [discriminate|]. cbn [last_gap_cs]. exact Ab.
      * rewrite cs_sp_cons. cbn [cs_lead]. exact Ab.
    + change ((erase_sel token t_text tok_num (csel_sp x) :: map (erase_ms token t_text tok_num) (msels_sp ss'), rerase_l (body_sp ss_of b))
                :: erase_cs token t_text tok_num (cs_sp ss_of (tail_gap b) l) = (x :: ss', b) :: l).
      rewrite Ex, Em, Eb, E. reflexivity.
Qed.

Lemma ss_of_call f p r : ss_of (TCall f (p :: r)) =
  let '(rest, w3) := pars_of (par_of p) r in SsCallN token (id_tok f) ws1 lpt ws1 (par_of p) rest w3 rpt.
Proof. reflexivity. Qed.

Theorem ss_of_spec : forall s, rstmt s -> stmt_good s.
Proof.
  induction s as [v vs e|f ps|c body eis els IHb IHe IHl|c gs els IHg IHl|v e1 e2 st body IHb|c body IHb|body c IHb| |] using stmt_ind2; intro R.
  - (* assignment *)
    cbn [rstmt] in R. destruct R as (Rvs & Re). destruct (sp_of_spec e Re 0) as (W & E).
    destruct (sels_of_spec vs (sels_good_all vs Rvs)) as (Wv & Ev). split.
    + cbn [ss_of wf_s]. split; [reflexivity|]. split; [exact Wv|]. split; [apply ws1_triv|]. split; [reflexivity|]. split; [apply ws1_triv | exact W].
    + change (TAssign (t_text (id_tok v)) (rerasess (sels_of vs)) (rerase (sp_of e)) = TAssign v vs e). rewrite Ev, E. reflexivity.
  - (* function-block call *)
    cbn [rstmt] in R. destruct ps as [|p r].
    + split; [|reflexivity]. cbn [ss_of wf_s]. repeat split; try reflexivity; apply ws1_triv.
    + inversion R as [|p' r' Rp Rr]; subst. destruct (par_good_of p Rp) as (Wp & Ep).
      assert (Hr : Forall par_good r) by (eapply Forall_impl; [apply par_good_of | exact Rr]).
      pose proof (pars_of_spec r (par_of p) Hr) as S. unfold stmt_good. rewrite ss_of_call. destruct (pars_of (par_of p) r) as [rest w3]. destruct S as (W & T & E & Ld).
      split.
      * cbn [wf_s]. split; [reflexivity|]. split; [apply ws1_triv|]. split; [reflexivity|]. split; [apply ws1_triv|].
        split; [exact Wp|]. split; [exact W|]. split; [exact T|]. split; [reflexivity | exact Ld].
      * change (TCall (t_text (id_tok f)) (rerasep (par_of p) :: reraseps rest) = TCall f (p :: r)). rewrite Ep, E. reflexivity.
  - (* IF *)
    cbn [rstmt] in R. destruct R as (Rc & Rb & Re & Rl).
    change (eis_cond eis) in Re. change (rall body) in Rb. change (rall els) in Rl.
    destruct (sp_of_spec c Rc 0) as (Wc & Ec).
    assert (Gb : Forall stmt_good body) by (apply (goods _ body (fun s H => H) IHb Rb)).
    assert (Gl : Forall stmt_good els) by (apply (goods _ els (fun s H => H) IHl Rl)).
    assert (Ge : Forall (fun cb : sexpr * list stmt => Forall stmt_good (snd cb)) eis).
    { clear -IHe Re. induction eis as [|[c0 b0] r IH]; [constructor|]. inversion IHe; subst. cbn [eis_cond] in Re.
      destruct Re as ((_ & Rb0) & Rr). constructor; [|apply IH; assumption].
      cbn [snd] in *. apply (goods _ b0 (fun s H => H)); assumption. }
    set (el := match els with [] => ENone token | x :: l' => ESome token (last_gap eis) (kwt KElse) nl1 (list_sp ss_of x l') end).
    set (w4 := match els with [] => last_gap eis | _ :: _ => nl1 end).
    assert (Hwt : el_lead token el w4 = last_gap eis) by (unfold el, w4; destruct els; reflexivity).
    destruct (eis_sp_spec eis nl1 (el_lead token el w4) nl1_triv Re Ge) as (We & Ee).
    { intros _ Hg. rewrite Hwt. exact Hg. }
    assert (Hw4 : rtriv w4) by (unfold w4; destruct els; [apply last_gap_triv | apply nl1_triv]).
    assert (Wel : wf_el token tok_class t_text tok_num op_level w4 el /\ erase_el token t_text tok_num el = els).
    { unfold el. destruct els as [|x l']; [split; [exact I | reflexivity]|].
      destruct (list_sp_spec x l' (Forall_inv Gl) (Forall_inv_tail Gl)) as (W & E & A). split; [|exact E].
      cbn [wf_el]. split; [apply last_gap_triv|]. split; [reflexivity|]. split; [apply nl1_triv|]. split; [exact W|]. rewrite A. discriminate. }
    destruct Wel as (Wel & Eel).
    assert (Wb : wf_b token tok_class t_text tok_num op_level (match body with [] => BNone token | x :: l' => BSome token (list_sp ss_of x l') end) /\
                 erase_b token t_text tok_num (match body with [] => BNone token | x :: l' => BSome token (list_sp ss_of x l') end) = body /\
                 babsorbs token (match body with [] => BNone token | x :: l' => BSome token (list_sp ss_of x l') end) = false).
    { destruct body as [|x l']; [repeat split|].
      destruct (list_sp_spec x l' (Forall_inv Gb) (Forall_inv_tail Gb)) as (W & E & A).
      split; [exact W|]. split; [exact E | exact A]. }
    destruct Wb as (Wb & Eb & Ab).
    change (ss_of (TIf c body eis els)) with
      (SsIf token (kwt KIf) ws1 (sp_of c) (gap (sp_of c)) (kwt KThen) nl1
         (match body with [] => BNone token | x :: l' => BSome token (list_sp ss_of x l') end) (eis_sp ss_of nl1 eis) el w4 (kwt KEndIf)).
    split.
    + cbn [wf_s]. split; [reflexivity|]. split; [apply ws1_triv|]. split; [exact Wc|]. split; [apply gap_triv|].
      split; [apply gap_nil|]. split; [reflexivity|]. split; [apply nl1_triv|]. split; [exact Wb|]. split; [exact We|]. split; [exact Wel|].
      split; [exact Hw4|]. split; [reflexivity|]. intro Hb.
      change (babsorbs token (match body with [] => BNone token | x :: l' => BSome token (list_sp ss_of x l') end) = true) in Hb.
      rewrite Ab in Hb. discriminate Hb.
    + change (TIf (rerase (sp_of c))
                (erase_b token t_text tok_num (match body with [] => BNone token | x :: l' => BSome token (list_sp ss_of x l') end))
                (erase_eis token t_text tok_num (eis_sp ss_of nl1 eis)) (erase_el token t_text tok_num el) = TIf c body eis els).
      rewrite Ec, Eb, Ee, Eel. reflexivity.
  - (* CASE *)
    cbn [rstmt] in R. destruct R as (Rc & Rg & Rl).
    change (cs_cond gs) in Rg. change (rall els) in Rl.
    destruct (sp_of_spec c Rc 0) as (Wc & Ec).
    assert (Gl : Forall stmt_good els) by (apply (goods _ els (fun s H => H) IHl Rl)).
    assert (Gg : Forall (fun g : list csel * list stmt => Forall stmt_good (snd g)) gs).
    { clear -IHg Rg. induction gs as [|[s0 b0] r IH]; [constructor|]. inversion IHg; subst. cbn [cs_cond] in Rg.
      destruct Rg as ((_ & Rb0) & Rr). constructor; [|apply IH; assumption].
      cbn [snd] in *. apply (goods _ b0 (fun s H => H)); assumption. }
    set (el := match els with [] => ENone token | x :: l' => ESome token (last_gap_cs gs) (kwt KElse) nl1 (list_sp ss_of x l') end).
    set (w4 := match els with [] => last_gap_cs gs | _ :: _ => nl1 end).
    assert (Hwt : el_lead token el w4 = last_gap_cs gs) by (unfold el, w4; destruct els; reflexivity).
    destruct (cs_sp_spec gs nl1 (el_lead token el w4) nl1_triv Rg Gg) as (Wg & Eg).
    { intros _ Hg. rewrite Hwt. exact Hg. }
    assert (Hw4 : rtriv w4) by (unfold w4; destruct els; [apply last_gap_cs_triv | apply nl1_triv]).
    assert (Wel : wf_el token tok_class t_text tok_num op_level w4 el /\ erase_el token t_text tok_num el = els).
    { unfold el. destruct els as [|x l']; [split; [exact I | reflexivity]|].
      destruct (list_sp_spec x l' (Forall_inv Gl) (Forall_inv_tail Gl)) as (W & E & A). split; [|exact E].
      cbn [wf_el]. split; [apply last_gap_cs_triv|]. split; [reflexivity|]. split; [apply nl1_triv|]. split; [exact W|]. rewrite A. discriminate. }
    destruct Wel as (Wel & Eel).
    change (ss_of (TCase c gs els)) with
      (SsCase token (kwt KCase) ws1 (sp_of c) (gap (sp_of c)) (kwt KOf) (cs_sp ss_of nl1 gs) el w4 (kwt KEndCase)).
    split.
    + cbn [wf_s]. split; [reflexivity|]. split; [apply ws1_triv|]. split; [exact Wc|]. split; [apply gap_triv|].
      split; [apply gap_nil|]. split; [reflexivity|]. split; [exact Wg|]. split; [exact Wel|]. split; [exact Hw4 | reflexivity].
    + change (TCase (rerase (sp_of c)) (erase_cs token t_text tok_num (cs_sp ss_of nl1 gs)) (erase_el token t_text tok_num el) = TCase c gs els).
      rewrite Ec, Eg, Eel. reflexivity.
  - (* FOR *)
    cbn [rstmt] in R. destruct R as (R1 & R2 & R3 & Rb). change (rall body) in Rb.
    destruct (sp_of_spec e1 R1 0) as (W1 & E1). destruct (sp_of_spec e2 R2 0) as (W2 & E2).
    assert (Gb : Forall stmt_good body) by (apply (goods _ body (fun s H => H) IHb Rb)).
    destruct (body_sp_spec body Gb) as (Wb & Eb & Ab).
    cbn [ss_of]. split.
    + cbn [wf_s]. split; [reflexivity|]. split; [apply ws1_triv|]. split; [reflexivity|]. split; [apply ws1_triv|].
      split; [reflexivity|]. split; [apply ws1_triv|]. split; [exact W1|]. split; [apply gap_triv|]. split; [apply gap_nil|].
      split; [reflexivity|]. split; [apply ws1_triv|]. split; [exact W2|]. split; [apply gap_triv|]. split; [apply gap_nil|].
      split; [destruct st as [e3|]; [|exact I]; destruct (sp_of_spec e3 R3 0) as (W3 & _); cbn [wf_by];
              split; [reflexivity|]; split; [apply ws1_triv|]; split; [exact W3|]; split; [apply gap_triv | apply gap_nil]|].
      split; [reflexivity|]. split; [apply nl1_triv|]. split; [exact Wb|]. split; [apply tail_gap_triv|]. split; [reflexivity | exact Ab].
    + assert (Es : erase_by token t_text tok_num (match st with None => ByNone token | Some e3 => BySome token (kwt KBy) ws1 (sp_of e3) (gap (sp_of e3)) end) = st).
      { destruct st as [e3|]; [|reflexivity]. destruct (sp_of_spec e3 R3 0) as (_ & E3). cbn [erase_by]. rewrite E3. reflexivity. }
      change (TFor (t_text (id_tok v)) (rerase (sp_of e1)) (rerase (sp_of e2))
                (erase_by token t_text tok_num (match st with None => ByNone token | Some e3 => BySome token (kwt KBy) ws1 (sp_of e3) (gap (sp_of e3)) end))
                (rerase_l (body_sp ss_of body)) = TFor v e1 e2 st body).
      rewrite E1, E2, Es, Eb. reflexivity.
  - (* WHILE *)
    cbn [rstmt] in R. destruct R as (Rc & Rb). change (rall body) in Rb.
    destruct (sp_of_spec c Rc 0) as (Wc & Ec).
    assert (Gb : Forall stmt_good body) by (apply (goods _ body (fun s H => H) IHb Rb)).
    destruct (body_sp_spec body Gb) as (Wb & Eb & Ab).
    cbn [ss_of]. split.
    + cbn [wf_s]. split; [reflexivity|]. split; [apply ws1_triv|]. split; [exact Wc|]. split; [apply gap_triv|]. split; [apply gap_nil|].
      split; [reflexivity|]. split; [apply nl1_triv|]. split; [exact Wb|]. split; [apply tail_gap_triv|]. split; [reflexivity | exact Ab].
    + change (TWhile (rerase (sp_of c)) (rerase_l (body_sp ss_of body)) = TWhile c body). rewrite Ec, Eb. reflexivity.
  - (* REPEAT *)
    cbn [rstmt] in R. destruct R as (Rc & Rb). change (rall body) in Rb.
    destruct (sp_of_spec c Rc 0) as (Wc & Ec).
    assert (Gb : Forall stmt_good body) by (apply (goods _ body (fun s H => H) IHb Rb)).
    destruct (body_sp_spec body Gb) as (Wb & Eb & Ab).
    cbn [ss_of]. split.
    + cbn [wf_s]. split; [reflexivity|]. split; [apply nl1_triv|]. split; [exact Wb|]. split; [apply tail_gap_triv|]. split; [reflexivity|].
      split; [apply ws1_triv|]. split; [exact Wc|]. split; [apply gap_triv|]. split; [apply gap_nil|]. split; [reflexivity | exact Ab].
    + change (TRepeat (rerase_l (body_sp ss_of body)) (rerase (sp_of c)) = TRepeat body c). rewrite Ec, Eb. reflexivity.
  - split; reflexivity.
  - split; reflexivity.
Qed.

(* ---- render, then parse ---- *)
Theorem render_is_spelling : forall x l, Forall rstmt (x :: l) ->
  rwf_l (list_sp ss_of x l) /\ rerase_l (list_sp ss_of x l) = x :: l /\ rabs (list_sp ss_of x l) = false.
Proof.
  intros x l Hl. inversion Hl; subst. apply list_sp_spec; [apply ss_of_spec; assumption|].
  eapply Forall_impl; [apply ss_of_spec | assumption].
Qed.

Theorem parse_render_list : forall l rest L, l <> [] -> Forall rstmt l ->
  closer_next token tok_class rest ->
  match l with x :: l' => size_l token (list_sp ss_of x l') <= L | [] => True end ->
  plist token tok_class t_text tok_num op_level L (render_list l ++ rest) = Ok (l, rest).
Proof.
  intros l rest L Hn Hl Hrest HL. destruct l as [|x l0]; [contradiction Hn; reflexivity|].
  destruct (render_is_spelling x l0 Hl) as (W & E & A).
  unfold render_list. rewrite (plist_real _ rest L W Hrest); [rewrite E; reflexivity | rewrite A; discriminate | exact HL].
Qed.

(* the rendered function block body, through the entry point *)
Definition render_fb (name : text) (l : list stmt) : list token :=
  kwt KFunctionBlock :: ws1 ++ id_tok name :: nl1 ++ render_list l ++ nl1 ++ kwt KEndFunctionBlock :: nl1.

Theorem parse_render_fb : forall name l, l <> [] -> Forall rstmt l ->
  parse_fb_tokens (render_fb name l) = OParsed l.
Proof.
  intros name l Hn Hl. destruct l as [|x l0]; [contradiction Hn; reflexivity|].
  destruct (render_is_spelling x l0 Hl) as (W & E & A).
  unfold render_fb, render_list in *.
  pose proof (parse_fb_spelled [] (kwt KFunctionBlock) ws1 (id_tok name) nl1 (list_sp ss_of x l0) nl1 (kwt KEndFunctionBlock) nl1) as P.
  cbn [app] in P. rewrite P; try reflexivity; try apply ws1_triv; try apply nl1_triv; try apply nil_triv; try assumption.
  - rewrite E. reflexivity.
  - rewrite A. discriminate.
Qed.

(* rendering what was read gives the same tokens again: a fixed point after one round *)
Corollary render_fixed_point : forall name l, l <> [] -> Forall rstmt l ->
  match parse_fb_tokens (render_fb name l) with OParsed l' => render_fb name l' = render_fb name l | _ => False end.
Proof. intros name l Hn Hl. rewrite (parse_render_fb name l Hn Hl). reflexivity. Qed.

(* the guard is needed: a negative constant is written '- 5', which does not read back *)
Definition neg_witness : list stmt := [TAssign [120%N] [] (XUn UNot (XAtom (LfInt true 5%N)))].
Theorem render_negative_constant_refuted :
  parse_fb_tokens (render_fb [102%N] neg_witness) <> OParsed neg_witness.
Proof. vm_compute. discriminate. Qed.

(* ... and so is a negative CASE selector, which signed_integer does not read at all: the rendered text is rejected *)
Definition neg_sel_witness : list stmt := [TCase (XAtom (LfName [120%N])) [([CsInt true 5%N], [TExit])] []].
Theorem render_negative_selector_refuted :
  parse_fb_tokens (render_fb [102%N] neg_sel_witness) = ORejected.
Proof. vm_compute. reflexivity. Qed.

(* the premises hold for a concrete, non-trivial list (with an empty loop body and an empty ELSIF body) *)
Definition ex_stmts : list stmt :=
  [TIf (XBin BLt (XAtom (LfName [97%N])) (XAtom (LfInt false 10%N)))
       [TAssign [120%N] [SField [121%N]; SIndex [XAtom (LfInt false 1%N); XVar [105%N] [SField [106%N]]]] (XBin BAdd (XAtom (LfName [120%N])) (XCall [102%N] [PPos (XAtom (LfBool true)); PNamed [110%N] (XUn UNeg (XAtom (LfName [98%N])))]))]
       [(XAtom (LfName [99%N]), [TExit]); (XAtom (LfName [100%N]), [])] [TReturn];
   TWhile (XAtom (LfBool false)) [];
   TCase (XVar [115%N] [SField [116%N]])
     [([CsInt false 1%N; CsRange false 3%N false 5%N; CsEnum [114%N; 101%N; 100%N]], [TExit; TReturn]); ([CsEnum [103%N]], []);
      ([CsInt false 7%N], [TCase (XAtom (LfName [121%N])) [] [TExit]])] [TAssign [120%N] [] (XAtom (LfInt false 0%N))];
   TRepeat [TCall [103%N] [POut true [111%N] [118%N] [SField [119%N]]]] (XAtom (LfName [97%N]))].
Example ex_renderable : Forall rstmt ex_stmts /\ ex_stmts <> [].
Proof.
  split; [|discriminate].
  repeat constructor; cbn; repeat split; try discriminate; try (vm_compute; reflexivity); repeat constructor.
Qed.
Example ex_round_trip : parse_fb_tokens (render_fb [102%N] ex_stmts) = OParsed ex_stmts.
Proof. vm_compute. reflexivity. Qed.
