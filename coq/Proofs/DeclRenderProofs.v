(* C10 on function blocks with variable declarations: what the renderer model writes for the declarations and the
   statements (Model/StRender.v: one block per variable, then the statement list) is a well-formed spelling of them, so the
   parser model reads the rendered function block back as exactly the declarations and statements it was given. *)
From Coq Require Import List Arith Lia Bool NArith.
From Verif Require Import Base.Res Base.Text Gen.GenTokens Model.Lexer Model.Literals Model.ExprParser Model.StParser Model.DeclParser
  Model.StInstance Proofs.StExprProofs Proofs.StStmtProofs Proofs.DeclProofs Proofs.StInstanceProofs Proofs.DeclInstanceProofs
  Model.StRender Proofs.DecProofs Proofs.StRenderProofs.
From Coq Require String.
Import String.StringSyntax.
Import ListNotations.
Close Scope N_scope.
Open Scope nat_scope.

Notation dwf_wb := (wf_wb token tok_class t_text tok_num).
Notation derase_wb := (erase_wb token tok_class t_text tok_num ty_name).

(* ---- type names ---- *)
Lemma elem_kind_type k : In k elem_kinds -> is_type (tok_class (kwt k)) = true.
Proof.
  unfold elem_kinds. cbn [In]. intros H.
  repeat (destruct H as [<- | H]; [vm_compute; reflexivity|]). contradiction H.
Qed.

Lemma ty_tok_elem ty : is_elem ty = true -> is_type (tok_class (ty_tok ty)) = true /\ ty_name (ty_tok ty) = ty.
Proof.
  unfold is_elem, ty_tok. destruct (find (fun k => text_eqb (ty_name (kwt k)) ty) elem_kinds) as [k|] eqn:E; [|discriminate].
  intros _. apply find_some in E. destruct E as (Hin & He). split; [apply elem_kind_type; exact Hin | apply text_eqb_eq; exact He].
Qed.

Lemma ty_tok_named ty : is_elem ty = false -> tok_class (ty_tok ty) = CId /\ t_text (ty_tok ty) = ty.
Proof.
  unfold is_elem, ty_tok. destruct (find (fun k => text_eqb (ty_name (kwt k)) ty) elem_kinds); [discriminate|]. intros _. split; reflexivity.
Qed.

Lemma ty_tok_tyref ty : is_tyref token tok_class (ty_tok ty) /\ type_text token tok_class t_text ty_name (ty_tok ty) = ty.
Proof.
  destruct (is_elem ty) eqn:E.
  - destruct (ty_tok_elem ty E) as (H1 & H2). split; [left; exact H1|]. unfold type_text. rewrite H1. exact H2.
  - destruct (ty_tok_named ty E) as (H1 & H2). split; [right; exact H1|]. unfold type_text. rewrite H1. cbn [is_type]. exact H2.
Qed.

(* ---- which declarations the renderer writes back faithfully ---- *)
Definition const_ok (l : sleaf) : Prop :=
  match l with
  | LfInt false v => (v < two128)%N
  | LfInt true _ => False                  (* written '- 5': the recorded gap *)
  | LfBool _ | LfStr _ => True
  | LfName _ => False                      (* no constant *)
  | LfTInt k _ v => fam k = TfInt /\ (v < two128)%N
  | LfBits k v => fam k = TfBits /\ (v < two128)%N
  | LfReal _ _ _ => False                  (* written by f64's Display: not modelled *)
  end.
Definition init_ok (c : dclass) (i : dinit) : Prop :=
  match c with
  | DcInOut => exists ty, i = DLate ty
  | DcExternal => exists ty, i = DSimple ty None
  | _ => match i with
         | DSimple ty None => is_elem ty = true       (* a named type without value is read back as a late-resolved type *)
         | DSimple _ (Some v) => const_ok v
         | DEnumType ty _ => is_elem ty = false
         | DLate ty => is_elem ty = false
         end
  end.
Definition ditem_ok (d : ditem) : Prop :=
  match d with
  | DVar _ c q i => qual_ok c q = true /\ init_ok c i
  | DEdge _ _ q => qual_ok DcInput q = true
  end.

Lemma const_sp_spec l : const_ok l -> wf_c token tok_class t_text tok_num (const_sp l) /\ erase_c token t_text tok_num (const_sp l) = l.
Proof.
  destruct l as [[|] v|b|c|ty sg lit|k neg v|k v|n]; cbn [const_ok]; try contradiction.
  - intro Hv. destruct (int_tok_ok v Hv) as (Hc & Hn). cbn [const_sp wf_c erase_c]. split; [exact Hc|]. unfold leaf_of. rewrite Hn. reflexivity.
  - intros _. cbn [const_sp wf_c erase_c]. split; [|reflexivity]. destruct b; repeat split; reflexivity.
  - intros _. cbn [const_sp wf_c erase_c]. split; [apply str_tok_class | apply str_tok_leaf].
  - intros (Hf & Hv). destruct (int_tok_ok v Hv) as (Hc & Hn). cbn [const_sp wf_c erase_c]. split; [|reflexivity].
    split; [apply tykw_tok_class|]. split; [reflexivity|]. unfold typed_leaf. rewrite Hf, Hc, Hn. destruct neg; [split; reflexivity | reflexivity].
  - intros (Hf & Hv). destruct (int_tok_ok v Hv) as (Hc & Hn). cbn [const_sp wf_c erase_c]. split; [|reflexivity].
    split; [apply tykw_tok_class|]. split; [reflexivity|]. unfold typed_leaf. rewrite Hf, Hc, Hn. reflexivity.
Qed.

Lemma spec_sp_spec c i : c <> DcInOut -> c <> DcExternal -> init_ok c i ->
  wf_sp token tok_class t_text tok_num (spec_sp i) /\ erase_sp token t_text tok_num ty_name (spec_sp i) = i.
Proof.
  intros H1 H2 Hi. assert (Hi' : match i with
         | DSimple ty None => is_elem ty = true
         | DSimple _ (Some v) => const_ok v
         | DEnumType ty _ => is_elem ty = false
         | DLate ty => is_elem ty = false
         end) by (destruct c; try exact Hi; [contradiction H1 | contradiction H2]; reflexivity).
  clear Hi. destruct i as [ty [v|]|ty v|ty]; cbn [spec_sp].
  - destruct (const_sp_spec v Hi') as (Wc & Ec). destruct (is_elem ty) eqn:E.
    + destruct (ty_tok_elem ty E) as (T1 & T2). cbn [wf_sp erase_sp]. rewrite T2, Ec.
      split; [|reflexivity]. split; [exact T1|]. split; [apply ws1_triv|]. split; [reflexivity|]. split; [apply ws1_triv | exact Wc].
    + destruct (ty_tok_named ty E) as (T1 & T2). cbn [wf_sp erase_sp]. rewrite T2, Ec.
      split; [|reflexivity]. split; [exact T1|]. split; [apply ws1_triv|]. split; [reflexivity|]. split; [apply ws1_triv | exact Wc].
  - rewrite Hi'. destruct (ty_tok_elem ty Hi') as (T1 & T2). cbn [wf_sp erase_sp]. rewrite T2. split; [exact T1 | reflexivity].
  - destruct (ty_tok_named ty Hi') as (T1 & T2). cbn [wf_sp erase_sp]. rewrite T2.
    split; [|reflexivity]. split; [exact T1|]. split; [apply ws1_triv|]. split; [reflexivity|]. split; [apply ws1_triv | reflexivity].
  - destruct (ty_tok_named ty Hi') as (T1 & T2). cbn [wf_sp erase_sp]. rewrite T2. split; [exact T1 | reflexivity].
Qed.

Lemma one_name_spec n : wf_ns token tok_class (one_name n) /\ erase_ns token t_text (one_name n) = [n].
Proof. split; [split; [reflexivity | constructor] | reflexivity]. Qed.

Definition item_class (d : ditem) : dclass := match d with DVar _ c _ _ => c | DEdge _ _ _ => DcInput end.
Definition item_qual (d : ditem) : dqual := match d with DVar _ _ q _ => q | DEdge _ _ q => q end.

Lemma decl_sp_spec d : ditem_ok d ->
  wf_d token tok_class t_text tok_num (item_class d) (decl_sp d) /\
  map (set_qual (item_qual d)) (erase_d token tok_class t_text tok_num ty_name (item_class d) (decl_sp d)) = [d].
Proof.
  destruct d as [n c q i|n rising q]; cbn [ditem_ok item_class item_qual].
  - intros (_ & Hi). destruct c.
    + destruct (spec_sp_spec DcInput i ltac:(discriminate) ltac:(discriminate) Hi) as (W & E). cbn [decl_sp wf_d erase_d]. rewrite E.
      split; [|reflexivity]. split; [left; reflexivity|]. split; [apply one_name_spec|]. split; [apply ws1_triv|]. split; [reflexivity|]. split; [apply ws1_triv | exact W].
    + destruct (spec_sp_spec DcOutput i ltac:(discriminate) ltac:(discriminate) Hi) as (W & E). cbn [decl_sp wf_d erase_d]. rewrite E.
      split; [|reflexivity]. split; [right; left; reflexivity|]. split; [apply one_name_spec|]. split; [apply ws1_triv|]. split; [reflexivity|]. split; [apply ws1_triv | exact W].
    + cbn [init_ok] in Hi. destruct Hi as (ty & ->). destruct (ty_tok_tyref ty) as (T1 & T2). cbn [decl_sp wf_d erase_d]. rewrite T2.
      split; [|reflexivity]. split; [reflexivity|]. split; [apply one_name_spec|]. split; [apply ws1_triv|]. split; [reflexivity|]. split; [apply ws1_triv | exact T1].
    + cbn [init_ok] in Hi. destruct Hi as (ty & ->). destruct (ty_tok_tyref ty) as (T1 & T2). cbn [decl_sp wf_d erase_d]. rewrite T2.
      split; [|reflexivity]. split; [reflexivity|]. split; [reflexivity|]. split; [apply ws1_triv|]. split; [reflexivity|]. split; [apply ws1_triv | exact T1].
    + destruct (spec_sp_spec DcVar i ltac:(discriminate) ltac:(discriminate) Hi) as (W & E). cbn [decl_sp wf_d erase_d]. rewrite E.
      split; [|reflexivity]. split; [right; right; reflexivity|]. split; [apply one_name_spec|]. split; [apply ws1_triv|]. split; [reflexivity|]. split; [apply ws1_triv | exact W].
  - intros _. cbn [decl_sp wf_d erase_d]. split; [|reflexivity].
    split; [reflexivity|]. split; [apply one_name_spec|]. split; [apply ws1_triv|]. split; [reflexivity|]. split; [apply ws1_triv|].
    split; [reflexivity|]. split; [apply ws1_triv|]. destruct rising; reflexivity.
Qed.

Lemma qual_sp_spec q : qual_of token tok_class (qual_sp q) = Some q /\ match qual_sp q with QNone _ => True | QSome _ w _ => rtriv w end.
Proof. destruct q; cbn; split; try reflexivity; try exact I; apply ws1_triv. Qed.

Lemma class_kw_spec c : class_of (tok_class (class_kw c)) = Some c.
Proof. destruct c; reflexivity. Qed.

Lemma wb_sp_spec d : ditem_ok d -> dwf_wb (wb_sp d) /\ derase_wb (wb_sp d) = [d].
Proof.
  intro Hd. destruct (decl_sp_spec d Hd) as (W & E).
  assert (Hq : qual_ok (item_class d) (item_qual d) = true) by (destruct d as [n c q i|n r q]; cbn in *; [exact (proj1 Hd) | exact Hd]).
  unfold wb_sp, block_sp.
  assert (Ecq : (match d with DVar _ c q _ => (c, q) | DEdge _ _ q => (DcInput, q) end) = (item_class d, item_qual d)) by (destruct d; reflexivity).
  rewrite Ecq. destruct (qual_sp_spec (item_qual d)) as (Q1 & Q2).
  split.
  - cbn [wf_wb]. split; [apply nl1_triv|]. exists (item_class d), (item_qual d). cbn [bk_kw bk_q bk_w bk_ds bk_wend bk_end].
    split; [apply class_kw_spec|]. split; [exact Q1|]. split; [exact Hq|]. split; [exact Q2|]. split; [apply nl1_triv|].
    split; [|split; [apply nl1_triv | reflexivity]].
    cbn [wf_ds]. split; [exact W|]. split; [constructor|]. split; [constructor | reflexivity].
  - cbn [erase_wb]. unfold erase_bk. cbn [bk_kw bk_q bk_ds]. rewrite class_kw_spec, Q1. cbn [erase_ds flat_map]. rewrite app_nil_r. exact E.
Qed.

Lemma wbs_spec ds : Forall ditem_ok ds -> Forall dwf_wb (map wb_sp ds) /\ flat_map derase_wb (map wb_sp ds) = ds.
Proof.
  induction 1 as [|d ds Hd _ (W & E)]; [split; [constructor | reflexivity]|].
  destruct (wb_sp_spec d Hd) as (Wd & Ed). cbn [map flat_map]. split; [constructor; assumption|]. rewrite Ed, E. reflexivity.
Qed.

(* ---- render, then parse ---- *)
Definition render_fbd (name : text) (ds : list ditem) (l : list stmt) : list token :=
  kwt KFunctionBlock :: ws1 ++ id_tok name :: render_decls ds ++ nl1 ++ render_list l ++ nl1 ++ kwt KEndFunctionBlock :: nl1.

Theorem parse_render_fbd : forall name ds l, Forall ditem_ok ds -> l <> [] -> Forall rstmt l ->
  parse_fbd_tokens (render_fbd name ds l) = O2Parsed ds l.
Proof.
  intros name ds l Hds Hn Hl. destruct l as [|x l0]; [contradiction Hn; reflexivity|].
  destruct (render_is_spelling x l0 Hl) as (W & E & A). destruct (wbs_spec ds Hds) as (Wd & Ed).
  unfold render_fbd, render_decls, render_list.
  pose proof (parse_fbd_spelled [] (kwt KFunctionBlock) ws1 (id_tok name) (map wb_sp ds) nl1 (list_sp ss_of x l0) nl1 (kwt KEndFunctionBlock) nl1) as P.
  cbn [app] in P. rewrite P; try reflexivity; try apply ws1_triv; try apply nl1_triv; try apply nil_triv; try assumption.
  - rewrite Ed, E. reflexivity.
  - rewrite A. discriminate.
Qed.

Corollary render_fbd_fixed_point : forall name ds l, Forall ditem_ok ds -> l <> [] -> Forall rstmt l ->
  match parse_fbd_tokens (render_fbd name ds l) with
  | O2Parsed ds' l' => render_fbd name ds' l' = render_fbd name ds l
  | _ => False
  end.
Proof. intros name ds l H1 H2 H3. rewrite (parse_render_fbd name ds l H1 H2 H3). reflexivity. Qed.

Local Open Scope string_scope.
(* the guard is needed: a negative initial value is written '- 5', which is no constant *)
Definition neg_init_witness : list ditem := [DVar [120%N] DcVar DqNone (DSimple (text_of_string "INT") (Some (LfInt true 5%N)))].
Definition real_neg_render : list token :=      (* what the renderer writes: '-', blank, digits *)
  kwt KFunctionBlock :: ws1 ++ id_tok [102%N] :: nl1 ++ [kwt KVar] ++ nl1 ++ [id_tok [120%N]] ++ ws1 ++ [colon_t] ++ ws1 ++ [kwt KInt] ++ ws1 ++
  [assign_t] ++ ws1 ++ [minus_t] ++ ws1 ++ [int_tok 5%N] ++ [semi_t] ++ nl1 ++ [kwt KEndVar] ++ nl1 ++ [id_tok [120%N]] ++ ws1 ++ [assign_t] ++ ws1 ++
  [int_tok 1%N] ++ ws1 ++ [semi_t] ++ nl1 ++ [kwt KEndFunctionBlock].
Theorem render_negative_initial_value_refuted : parse_fbd_tokens real_neg_render = O2Rejected.
Proof. vm_compute. reflexivity. Qed.

(* the premises hold for concrete declarations of every class *)
Definition ex_decls : list ditem :=
  [ DVar [97%N] DcInput DqRetain (DSimple (text_of_string "INT") (Some (LfInt false 5%N)));
    DVar [98%N] DcOutput DqNone (DSimple (text_of_string "TIME_OF_DAY") None);
    DVar [99%N] DcInOut DqNone (DLate (text_of_string "BOOL"));
    DVar [100%N] DcExternal DqConst (DSimple [84%N] None);
    DVar [101%N] DcVar DqConst (DEnumType [84%N] [82%N]);
    DVar [102%N] DcVar DqNonRetain (DLate [85%N]);
    DVar [103%N] DcVar DqNone (DSimple [85%N] (Some (LfBool true)));
    DEdge [104%N] true DqRetain; DEdge [105%N] false DqNone ].
Example ex_decls_ok : Forall ditem_ok ex_decls.
Proof. repeat constructor; cbn; try reflexivity; try (eexists; reflexivity); vm_compute; reflexivity. Qed.
Example ex_decls_round_trip : parse_fbd_tokens (render_fbd [102%N] ex_decls ex_stmts) = O2Parsed ex_decls ex_stmts.
Proof. vm_compute. reflexivity. Qed.
