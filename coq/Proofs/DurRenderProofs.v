(* Whatever decimal spelling of a number n of milliseconds below 2^64 the renderer writes, the parser reads  <n> ms  back as
   exactly n milliseconds: n / 1000 seconds and (n mod 1000) * 10^6 nanoseconds. *)
From Coq Require Import List ZArith NArith Bool Lia ZifyBool ZifyN.
From Verif Require Import Base.Text Model.Literals Model.DurRender Proofs.LitProofs.
Import ListNotations.
Open Scope N_scope.
Ltac Zify.zify_post_hook ::= Z.div_mod_to_equations.

Lemma digits_spelled ds : Forall (fun x => x < 10) ds -> spelled ds (digits_text ds).
Proof.
  induction 1 as [|d ds Hd _ IH]; [constructor|]. unfold digits_text. cbn [map]. fold (digits_text ds).
  replace d with (digit_val (d + 48)) at 1.
  - constructor; [unfold is_digit; lia | exact IH].
  - unfold digit_val, is_digit. replace ((48 <=? d + 48) && (d + 48 <=? 57)) with true by lia. lia.
Qed.

Theorem milliseconds_read ds : Forall (fun x => x < 10) ds -> ds <> [] -> horner 10 ds < two64 ->
  read_milliseconds (digits_text ds) = Some (horner 10 ds / 1000, (horner 10 ds mod 1000) * 1000000).
Proof.
  intros Hd Hne Hlt. unfold read_milliseconds.
  rewrite (integer_new_spec ds _ (digits_spelled ds Hd) Hne).
  set (ms := horner 10 ds) in *.
  assert (E1 : ms <? two128 = true) by (unfold two64, two128 in *; lia). rewrite E1.
  unfold fixed_of_integer. assert (E2 : ms <? two64 = true) by lia. rewrite E2.
  unfold try_from_units, npu_milli, ten15, ten9, two63. unfold two64 in Hlt.
  replace (ms * 1000000 + 0 * 1000000 / 1000000000000000) with (ms * 1000000) by lia.
  assert (E3 : ms * 1000000 / 1000000000 <? 9223372036854775808 = true) by lia. rewrite E3.
  f_equal. f_equal; lia.
Qed.

Example milliseconds_examples :
  read_milliseconds [49; 53; 48; 48] = Some (1, 500000000) /\ read_milliseconds [48] = Some (0, 0) /\
  read_milliseconds [56; 54; 52; 48; 48; 48; 48; 49] = Some (86400, 1000000).
Proof. vm_compute. repeat split; reflexivity. Qed.
