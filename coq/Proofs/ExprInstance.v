(* C01 / C08 / C10 (Stage B): the generic parser theorem instantiated with the real token kinds and the
   operator levels of the regenerated precedence table; the expression renderer model; render-then-parse. *)
From Coq Require Import List Arith Lia Bool NArith String.
From Verif Require Import Base.Res Base.Text Gen.GenTokens Gen.GenPrec Model.Lexer Model.ExprParser
  Proofs.GenObligations Proofs.ExprParserProofs.
Import ListNotations.
Close Scope N_scope.
Open Scope nat_scope.

Notation rsp := (sp token binop unop leaf).
Notation rflat := (flat token binop unop leaf).
Notation rerase := (erase token binop unop leaf).
Notation rwf := (wf token binop unop leaf tok_triv tok_bop tok_uop tok_atom tok_lp tok_rp tok_noafter).
Notation rfollow_lt := (follow_lt token binop tok_triv tok_bop).
Notation rfollow_ok := (follow_ok token binop unop leaf tok_triv tok_noafter).

(* ---- the instance of the theorem ---- *)
Theorem parse_expr_spelled : forall (s : rsp) q rest,
  rwf q s -> rfollow_lt q rest -> rfollow_ok s rest ->
  exists f0, forall f, f0 <= f -> parse_expr f q (rflat s ++ rest) = Ok (rerase s, rest).
Proof. intros s q rest. unfold parse_expr. apply parse_spelled. Qed.

(* ---- which real tokens satisfy the class conditions (decided on the regenerated tables) ---- *)
Definition op_kinds : list (tok_kind * nat * binop) :=
  [(KOr, 0, BOr); (KXor, 1, BXor); (KAnd, 2, BAnd); (KEqual, 3, BEq); (KNotEqual, 3, BNe);
   (KLess, 4, BLt); (KGreater, 4, BGt); (KLessEqual, 4, BLe); (KGreaterEqual, 4, BGe);
   (KPlus, 5, BAdd); (KMinus, 5, BSub); (KStar, 6, BMul); (KDiv, 6, BDiv); (KMod, 6, BMod); (KPower, 7, BPow)]%nat.

Definition kind_facts (k : tok_kind) : (option (nat * binop)) * bool * bool * bool * bool :=
  let t := mkToken k 0%N 0%N 0%N 0%N [] in
  (tok_bop t, tok_triv t, tok_noafter t, tok_lp t, tok_rp t).

Lemma facts_by_kind t :
  (tok_bop t, tok_triv t, tok_noafter t, tok_lp t, tok_rp t) = kind_facts (t_kind t).
Proof. reflexivity. Qed.

Lemma op_kinds_facts :
  Forall (fun e : tok_kind * nat * binop => let '(k, lv, o) := e in kind_facts k = (Some (lv, o), false, false, false, false)) op_kinds.
Proof. repeat (apply Forall_cons; [vm_compute; reflexivity|]). apply Forall_nil. Qed.

Lemma op_kind_ok k lv o t : In (k, lv, o) op_kinds -> t_kind t = k ->
  tok_bop t = Some (lv, o) /\ tok_triv t = false /\ tok_noafter t = false.
Proof.
  intros Hin Hk. pose proof (facts_by_kind t) as F. rewrite Hk in F.
  pose proof (proj1 (Forall_forall _ _) op_kinds_facts _ Hin) as G. cbn beta iota in G.
  rewrite G in F. inversion F. repeat split; reflexivity.
Qed.

Lemma digits_ok t : t_kind t = KDigits ->
  tok_triv t = false /\ tok_atom t = Some (LInt (t_text t), false) /\ tok_uop t = None.
Proof. intro H. unfold tok_triv, tok_atom, tok_uop. rewrite H. repeat split; reflexivity. Qed.

Lemma ident_ok t : t_kind t = KIdentifier ->
  tok_triv t = false /\ tok_atom t = Some (LName (t_text t), true) /\ tok_uop t = None.
Proof. intro H. unfold tok_triv, tok_atom, tok_uop. rewrite H. repeat split; reflexivity. Qed.

Lemma lparen_ok t : t_kind t = KLeftParen ->
  tok_triv t = false /\ tok_atom t = None /\ tok_uop t = None /\ tok_lp t = true.
Proof. intro H. unfold tok_triv, tok_atom, tok_uop, tok_lp. rewrite H. repeat split; reflexivity. Qed.

Lemma rparen_ok t : t_kind t = KRightParen ->
  tok_triv t = false /\ tok_rp t = true /\ tok_noafter t = false /\ tok_bop t = None.
Proof.
  intro H. pose proof (facts_by_kind t) as F. rewrite H in F.
  assert (E : kind_facts KRightParen = (None, false, false, false, true)) by (vm_compute; reflexivity).
  rewrite E in F. inversion F. repeat split; reflexivity.
Qed.

Lemma minus_unary_ok t : t_kind t = KMinus -> tok_triv t = false /\ tok_uop t = Some UNeg.
Proof. intro H. unfold tok_triv, tok_uop. rewrite H. split; reflexivity. Qed.
Lemma not_unary_ok t : t_kind t = KNot -> tok_triv t = false /\ tok_uop t = Some UNot.
Proof. intro H. unfold tok_triv, tok_uop. rewrite H. split; reflexivity. Qed.

Lemma trivia_ok t : t_kind t = KWhitespace \/ t_kind t = KNewline \/ t_kind t = KComment -> tok_triv t = true.
Proof. unfold tok_triv. intros [H|[H|H]]; rewrite H; reflexivity. Qed.

(* ---- the expression renderer (renderer.rs: visit_compare_expr / visit_binary_expr / visit_unary_expr,
        write_ws): every binary expression in parentheses, one blank between tokens ---- *)
Definition tokk (k : tok_kind) (tx : text) : token := mkToken k 0%N 0%N 0%N 0%N tx.
Definition ws1 : list token := [tokk KWhitespace [32%N]].

Local Open Scope string_scope.
Definition op_token (o : binop) : token :=
  match o with
  | BOr => tokk KOr (text_of_string "OR") | BXor => tokk KXor (text_of_string "XOR") | BAnd => tokk KAnd (text_of_string "AND")
  | BEq => tokk KEqual (text_of_string "=") | BNe => tokk KNotEqual (text_of_string "<>") | BLt => tokk KLess (text_of_string "<")
  | BGt => tokk KGreater (text_of_string ">") | BLe => tokk KLessEqual (text_of_string "<=") | BGe => tokk KGreaterEqual (text_of_string ">=")
  | BAdd => tokk KPlus (text_of_string "+") | BSub => tokk KMinus (text_of_string "-") | BMul => tokk KStar (text_of_string "*")
  | BDiv => tokk KDiv (text_of_string "/") | BMod => tokk KMod (text_of_string "MOD") | BPow => tokk KPower (text_of_string "**")
  end.
Definition un_token (o : unop) : token :=
  match o with UNeg => tokk KMinus (text_of_string "-") | UNot => tokk KNot (text_of_string "NOT") end.
Close Scope string_scope.

Definition op_level (o : binop) : nat :=
  match o with
  | BOr => 0 | BXor => 1 | BAnd => 2 | BEq | BNe => 3 | BLt | BGt | BLe | BGe => 4
  | BAdd | BSub => 5 | BMul | BDiv | BMod => 6 | BPow => 7
  end.

Definition lpt : token := tokk KLeftParen [40%N].
Definition rpt : token := tokk KRightParen [41%N].

Notation ends := (ends_name token binop unop leaf).

(* the spelling the renderer chooses for a tree *)
Fixpoint spell (e : rexpr) : rsp :=
  match e with
  | EAtom _ _ _ (LInt d) => SNum token binop unop leaf (tokk KDigits d) (LInt d)
  | EAtom _ _ _ (LName n) => SName token binop unop leaf (tokk KIdentifier n) (LName n) ws1
  | EUn _ _ _ o x =>
      let inner := spell x in
      let operand := match x with
                     | EUn _ _ _ _ _ => SParen token binop unop leaf lpt ws1 inner (if ends inner then [] else ws1) rpt
                     | _ => inner
                     end in
      SUn token binop unop leaf (un_token o) o ws1 operand
  | EBin _ _ _ o l r =>
      let sl := spell l in
      let sr := spell r in
      SParen token binop unop leaf lpt ws1
        (SBin token binop unop leaf (op_token o) (op_level o) o sl (if ends sl then [] else ws1) ws1 sr)
        (if ends sr then [] else ws1) rpt
  end.

Definition render_expr (e : rexpr) : list token := rflat (spell e).

Lemma ws1_triv : all_triv token tok_triv ws1.
Proof. repeat constructor. Qed.
Lemma nil_triv : all_triv token tok_triv [].
Proof. constructor. Qed.
Lemma gap_triv (b : bool) : all_triv token tok_triv (if b then [] else ws1).
Proof. destruct b; [apply nil_triv | apply ws1_triv]. Qed.
Lemma gap_nil (b : bool) : b = true -> (if b then [] else ws1) = [].
Proof. intros ->. reflexivity. Qed.

Lemma op_token_facts o : tok_bop (op_token o) = Some (op_level o, o) /\ tok_triv (op_token o) = false /\ tok_noafter (op_token o) = false.
Proof. destruct o; vm_compute; repeat split; reflexivity. Qed.
Lemma un_token_facts o : tok_triv (un_token o) = false /\ tok_uop (un_token o) = Some o.
Proof. destruct o; vm_compute; split; reflexivity. Qed.

Lemma spell_erase e : rerase (spell e) = e.
Proof.
  induction e as [[d|n]|o l IHl r IHr|o x IH]; cbn [spell ExprParserProofs.erase]; try reflexivity.
  - rewrite IHl, IHr. reflexivity.
  - destruct x; cbn [ExprParserProofs.erase]; rewrite IH; reflexivity.
Qed.

(* the rendered spelling is well-formed at every level: every binary expression is parenthesised *)
Lemma wf_num_tok d q : rwf q (SNum token binop unop leaf (tokk KDigits d) (LInt d)).
Proof. cbn [ExprParserProofs.wf]. unfold solid. repeat apply conj; reflexivity. Qed.

Lemma wf_name_tok n q : rwf q (SName token binop unop leaf (tokk KIdentifier n) (LName n) ws1).
Proof. cbn [ExprParserProofs.wf]. unfold solid. repeat apply conj; try reflexivity. apply ws1_triv. Qed.

Lemma rpt_bop : tok_bop rpt = None.
Proof. vm_compute. reflexivity. Qed.

Lemma wf_paren_tok s w2 q : rwf 0 s -> all_triv token tok_triv w2 -> (ends s = true -> w2 = []) ->
  rwf q (SParen token binop unop leaf lpt ws1 s w2 rpt).
Proof.
  intros Hs Hw He. cbn [ExprParserProofs.wf]. unfold solid.
  repeat apply conj; try apply rpt_bop; try reflexivity; try assumption; try apply ws1_triv.
Qed.

Lemma wf_un_tok o s q : is_prim token binop unop leaf s = true -> rwf 0 s ->
  rwf q (SUn token binop unop leaf (un_token o) o ws1 s).
Proof.
  intros Hp Hs. destruct (un_token_facts o) as (Ht & Hu). cbn [ExprParserProofs.wf]. unfold solid.
  repeat apply conj; try assumption. apply ws1_triv.
Qed.

Lemma wf_bin_tok o l w1 r : rwf (op_level o) l -> rwf (S (op_level o)) r -> all_triv token tok_triv w1 ->
  (ends l = true -> w1 = []) ->
  rwf 0 (SBin token binop unop leaf (op_token o) (op_level o) o l w1 ws1 r).
Proof.
  intros Hl Hr Hw He. destruct (op_token_facts o) as (Hb & Ht & Hn). cbn [ExprParserProofs.wf]. unfold solid.
  repeat apply conj; try assumption; try apply ws1_triv. lia.
Qed.

Lemma spell_wf e : forall q, rwf q (spell e).
Proof.
  induction e as [[d|n]|o l IHl r IHr|o x IH]; intro q; cbn [spell].
  - apply wf_num_tok.
  - apply wf_name_tok.
  - apply wf_paren_tok; [|apply gap_triv | apply gap_nil].
    apply wf_bin_tok; [apply IHl | apply IHr | apply gap_triv | apply gap_nil].
  - destruct x as [a|o' l' r'|o' x'].
    + apply wf_un_tok; [destruct a; reflexivity | apply IH].
    + apply wf_un_tok; [reflexivity | apply IH].
    + apply wf_un_tok; [reflexivity|]. apply wf_paren_tok; [apply IH | apply gap_triv | apply gap_nil].
Qed.

(* rendering an expression tree and parsing the result gives the tree back *)
Theorem parse_render : forall (e : rexpr) rest,
  rfollow_lt 0 rest -> rfollow_ok (spell e) rest ->
  exists f0, forall f, f0 <= f -> parse_expr f 0 (render_expr e ++ rest) = Ok (e, rest).
Proof.
  intros e rest Hf Ho. unfold render_expr.
  destruct (parse_expr_spelled (spell e) 0 rest (spell_wf e 0) Hf Ho) as [f0 H].
  exists f0. intros f Hle. rewrite (H f Hle), spell_erase. reflexivity.
Qed.

(* non-vacuity: a spelling with trivia, a comment, redundant parentheses, unary operators and both
   associativity directions; evaluated and matched against the theorem's answer *)
Local Open Scope string_scope.
Definition ex_tokens : list token :=
  let i s := tokk KIdentifier (text_of_string s) in
  let d s := tokk KDigits (text_of_string s) in
  let w := tokk KWhitespace [32%N] in
  let c := tokk KComment (text_of_string "(* c *)") in
  [i "a"; w; tokk KMinus [45%N]; c; i "b"; tokk KMinus [45%N]; w; d "1"; w; tokk KStar [42%N]; lpt; w; tokk KNot [78%N]; w; i "x"; w;
   tokk KOr [79%N]; w; i "y"; rpt; w; tokk KEqual [61%N]; w; d "2"; tokk KSemicolon [59%N]].
Example ex_parse :
  parse_expr 60 0 ex_tokens =
  Ok (EBin _ _ _ BEq
        (EBin _ _ _ BSub (EBin _ _ _ BSub (EAtom _ _ _ (LName (text_of_string "a"))) (EAtom _ _ _ (LName (text_of_string "b"))))
                         (EBin _ _ _ BMul (EAtom _ _ _ (LInt (text_of_string "1")))
                            (EBin _ _ _ BOr (EUn _ _ _ UNot (EAtom _ _ _ (LName (text_of_string "x")))) (EAtom _ _ _ (LName (text_of_string "y"))))))
        (EAtom _ _ _ (LInt (text_of_string "2"))),
      [tokk KSemicolon [59%N]]).
Proof. vm_compute. reflexivity. Qed.
Close Scope string_scope.
