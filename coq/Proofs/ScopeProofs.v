(* The symbol-table walk of rule_use_declared_symbolic_var decides, unit by unit and independently of the
   other units, whether every used name has a declaration in its own unit before it. *)
From Coq Require Import List NArith Bool Permutation.
From Verif Require Import Base.Text Model.Scope.
Import ListNotations.

Lemma found_cons n s st : found n (s :: st) = in_scope n s || found n st.
Proof. reflexivity. Qed.

(* scanning the items of a unit with the scope on top of a stack that holds nothing below *)
Lemma run_items : forall items s below rest,
  (forall n, found n below = false) ->
  run (s :: below) (map item_ev items ++ rest) =
  match first_bad s items with
  | Some b => Some b
  | None => run ((rev (flat_map (fun it => match it with IDecl n => [n] | IUse _ _ => [] end) items) ++ s) :: below) rest
  end.
Proof.
  induction items as [|it items IH]; intros s below rest Hb; cbn [map app first_bad flat_map rev].
  - reflexivity.
  - destruct it as [n|n pos]; cbn [item_ev run st_add].
    + rewrite IH by exact Hb. destruct (first_bad (n :: s) items); [reflexivity|].
      cbn [app rev]. rewrite <- app_assoc. reflexivity.
    + rewrite found_cons, Hb, orb_false_r. destruct (in_scope n s); [|reflexivity].
      rewrite IH by exact Hb. reflexivity.
Qed.

(* one unit: the verdict is the unit's own, and the stack is back to what it was *)
Lemma run_pou p below rest :
  (forall n, found n below = false) ->
  run below (events_of_pou p ++ rest) = match pou_bad p with Some b => Some b | None => run below rest end.
Proof.
  intro Hb. unfold events_of_pou, pou_bad, pou_known.
  destruct (p_name p) as [nm|]; cbn [app run st_add].
  - rewrite <- app_assoc. rewrite run_items by exact Hb.
    destruct (first_bad [nm] (p_items p)); [reflexivity|]. reflexivity.
  - rewrite <- app_assoc. rewrite run_items by exact Hb.
    destruct (first_bad [] (p_items p)); reflexivity.
Qed.

Lemma root_empty : forall n, found n [[]] = false.
Proof. intro n. reflexivity. Qed.

Lemma run_pous ps : forall below, (forall n, found n below = false) ->
  run below (events_of ps) = first_some (map pou_bad ps).
Proof.
  induction ps as [|p ps IH]; intros below Hb; cbn [events_of flat_map map first_some].
  - reflexivity.
  - rewrite run_pou by exact Hb. destruct (pou_bad p); [reflexivity|]. apply IH; exact Hb.
Qed.

(* the rule on a library = the first unit, in visiting order, that uses an undeclared name *)
Theorem rule_symbolic_units ps : rule_symbolic (events_of ps) = first_some (map pou_bad ps).
Proof. apply run_pous, root_empty. Qed.

Lemma first_some_none {A} (l : list (option A)) : first_some l = None <-> Forall (fun o => o = None) l.
Proof.
  induction l as [|[a|] l IH]; cbn [first_some]; split; intro H.
  - constructor.
  - reflexivity.
  - discriminate.
  - inversion H; subst; discriminate.
  - constructor; [reflexivity | apply IH; exact H].
  - inversion H; subst; apply IH; assumption.
Qed.

(* both directions: accepted exactly when every unit is in order *)
Theorem rule_symbolic_exact ps : rule_symbolic (events_of ps) = None <-> forallb pou_ok ps = true.
Proof.
  rewrite rule_symbolic_units, first_some_none, forallb_forall, Forall_forall. split; intros H p Hp.
  - unfold pou_ok. rewrite (H (pou_bad p)); [reflexivity|]. apply in_map; exact Hp.
  - apply in_map_iff in Hp as [q [<- Hq]]. specialize (H q Hq). unfold pou_ok in H. destruct (pou_bad q); [discriminate|reflexivity].
Qed.

(* a faulty unit makes the rule fail in any company and at any position (no masking, no cure from outside) *)
Theorem faulty_unit_fails ps p b : In p ps -> pou_bad p = Some b -> rule_symbolic (events_of ps) <> None.
Proof.
  intros Hin Hb H. apply rule_symbolic_exact in H. rewrite forallb_forall in H. specialize (H p Hin).
  unfold pou_ok in H. rewrite Hb in H. discriminate.
Qed.

(* the verdict does not depend on the order of the units *)
Theorem rule_symbolic_perm ps ps' : Permutation ps ps' ->
  (rule_symbolic (events_of ps) = None <-> rule_symbolic (events_of ps') = None).
Proof.
  intro HP. rewrite !rule_symbolic_exact, !forallb_forall. split; intros H p Hp; apply H.
  - eapply Permutation_in; [apply Permutation_sym; exact HP | exact Hp].
  - eapply Permutation_in; [exact HP | exact Hp].
Qed.

Lemma first_some_single {A} (l : list (option A)) a :
  In (Some a) l -> (forall o, In o l -> o = None \/ o = Some a) -> first_some l = Some a.
Proof.
  induction l as [|[x|] l IH]; intros Hin Hall; cbn [first_some].
  - destruct Hin.
  - destruct (Hall (Some x) (or_introl eq_refl)) as [H|H]; [discriminate | exact H].
  - destruct Hin as [H|H]; [discriminate|]. apply IH; [exact H|]. intros o Ho. apply Hall. right; exact Ho.
Qed.

(* single fault: whatever the order, the name and place reported are those of the one faulty unit *)
Theorem single_fault_reported ps p b :
  In p ps -> pou_bad p = Some b -> (forall q, In q ps -> pou_bad q = None \/ pou_bad q = Some b) ->
  rule_symbolic (events_of ps) = Some b.
Proof.
  intros Hin Hb Hall. rewrite rule_symbolic_units. apply first_some_single.
  - rewrite <- Hb. apply in_map; exact Hin.
  - intros o Ho. apply in_map_iff in Ho as [q [<- Hq]]. apply Hall; exact Hq.
Qed.

Corollary single_fault_perm ps ps' p b :
  Permutation ps ps' -> In p ps -> pou_bad p = Some b -> (forall q, In q ps -> pou_bad q = None \/ pou_bad q = Some b) ->
  rule_symbolic (events_of ps') = Some b.
Proof.
  intros HP Hin Hb Hall. apply single_fault_reported with (p := p).
  - eapply Permutation_in; [exact HP | exact Hin].
  - exact Hb.
  - intros q Hq. apply Hall. eapply Permutation_in; [apply Permutation_sym; exact HP | exact Hq].
Qed.

(* ---- what a unit in order is: every use is the unit's own name or follows a declaration of the name ---- *)
Definition declared_before (n : text) (known : list text) (pre : list item) : Prop :=
  in_scope n known = true \/ exists d, In (IDecl d) pre /\ name_eqb n d = true.

Lemma in_scope_cons n d known : in_scope n (d :: known) = name_eqb n d || in_scope n known.
Proof. reflexivity. Qed.

Theorem first_bad_spec : forall items known,
  first_bad known items = None <->
  (forall pre n pos post, items = pre ++ IUse n pos :: post -> declared_before n known pre).
Proof.
  induction items as [|it items IH]; intro known; cbn [first_bad].
  - split; [|reflexivity]. intros _ pre n pos post H. destruct pre; discriminate.
  - destruct it as [d|n0 pos0].
    + rewrite IH. split; intros H pre n pos post E.
      * destruct pre as [|x pre]; [discriminate|]. injection E as <- E.
        destruct (H pre n pos post E) as [Hk|[d' [Hin Heq]]].
        -- rewrite in_scope_cons in Hk. apply orb_true_iff in Hk as [Hk|Hk].
           ++ right. exists d. split; [left; reflexivity | exact Hk].
           ++ left; exact Hk.
        -- right. exists d'. split; [right; exact Hin | exact Heq].
      * destruct (H (IDecl d :: pre) n pos post) as [Hk|[d' [Hin Heq]]]; [rewrite E; reflexivity | |].
        -- left. rewrite in_scope_cons, Hk. apply orb_true_r.
        -- destruct Hin as [Hin|Hin].
           ++ injection Hin as <-. left. rewrite in_scope_cons, Heq. reflexivity.
           ++ right. exists d'. split; assumption.
    + destruct (in_scope n0 known) eqn:Hs.
      * rewrite IH. split; intros H pre n pos post E.
        -- destruct pre as [|x pre].
           ++ injection E as <- <- <-. left; exact Hs.
           ++ injection E as <- E. destruct (H pre n pos post E) as [Hk|[d' [Hin Heq]]]; [left; exact Hk|].
              right. exists d'. split; [right; exact Hin | exact Heq].
        -- destruct (H (IUse n0 pos0 :: pre) n pos post) as [Hk|[d' [Hin Heq]]]; [rewrite E; reflexivity | left; exact Hk |].
           destruct Hin as [Hin|Hin]; [discriminate|]. right. exists d'. split; assumption.
      * split; [discriminate|]. intro H. exfalso.
        destruct (H [] n0 pos0 items eq_refl) as [Hk|[d' [Hin _]]]; [congruence | destruct Hin].
Qed.

(* identifiers compare without regard to letter case *)
Lemma name_eqb_recase a a' b : lower_text a = lower_text a' -> name_eqb a b = name_eqb a' b.
Proof. unfold name_eqb. intros ->. reflexivity. Qed.

Lemma name_eqb_sym a b : name_eqb a b = name_eqb b a.
Proof.
  unfold name_eqb. destruct (text_eqb (lower_text a) (lower_text b)) eqn:E.
  - apply text_eqb_eq in E. rewrite E. symmetry. apply text_eqb_refl.
  - destruct (text_eqb (lower_text b) (lower_text a)) eqn:E'; [|reflexivity].
    apply text_eqb_eq in E'. rewrite E', text_eqb_refl in E. discriminate.
Qed.

(* a concrete library: the second unit uses a name only the first declares *)
Example leak_is_reported :
  rule_symbolic (events_of [mkPou (Some [80]) [IDecl [120]; IUse [88] 7];
                            mkPou (Some [81]) [IDecl [121]; IUse [120] 42]]) = Some (42, [120])%N.
Proof. vm_compute. reflexivity. Qed.
