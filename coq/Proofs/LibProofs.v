(* C01 / C08 / C04: a library of function blocks and programs, on the real tokens.  For every well-formed spelling of a
   sequence of units -- FUNCTION_BLOCK / PROGRAM name, declaration blocks, statements (or none), END_FUNCTION_BLOCK /
   END_PROGRAM -- with any trivia between and around them, the entry point the correspondence check runs returns exactly the
   units the spelling denotes, in order. *)
From Coq Require Import List Arith Lia Bool NArith.
From Verif Require Import Base.Res Base.Text Gen.GenTokens Gen.GenPrec Model.Lexer Model.Literals Model.ExprParser
  Model.StParser Model.DeclParser Model.StInstance Proofs.StExprProofs Proofs.StStmtProofs Proofs.StInstanceProofs Proofs.DeclProofs
  Proofs.TypeProofs Proofs.DeclInstanceProofs.
Import ListNotations.
Close Scope N_scope.
Open Scope nat_scope.

Notation rscoped := (scoped token tok_class).

Record sunit := mkSUnit {
  su_kw : token; su_w0 : list token; su_nm : token; su_blocks : list rwb; su_w1 : list token; su_body : option rsl;
  su_w2 : list token; su_en : token }.

Definition flat_body (b : option rsl) : list token := match b with Some l => rflat_l l | None => [] end.
Definition flat_u (u : sunit) : list token :=
  su_kw u :: su_w0 u ++ su_nm u :: rflat_wbs (su_blocks u) ++ su_w1 u ++ flat_body (su_body u) ++ su_w2 u ++ [su_en u].

Definition kind_of (u : sunit) : option ukind :=
  if kind_eqb (t_kind (su_kw u)) KFunctionBlock then (if kind_eqb (t_kind (su_en u)) KEndFunctionBlock then Some UFb else None)
  else if kind_eqb (t_kind (su_kw u)) KProgram then (if kind_eqb (t_kind (su_en u)) KEndProgram then Some UProgram else None)
  else None.

Definition wf_u (u : sunit) : Prop :=
  kind_of u <> None /\ rtriv (su_w0 u) /\ t_kind (su_nm u) = KIdentifier /\ Forall rwf_wb (su_blocks u) /\ rtriv (su_w1 u) /\
  match su_body u with
  | Some l => rwf_l l /\ (rabsorbs l = true -> su_w2 u = [])
  | None => su_w1 u = []                     (* without statements there is one slot of trivia before the closing keyword *)
  end /\ rtriv (su_w2 u).

Definition erase_u (u : sunit) : unit_ :=
  mkUnit (match kind_of u with Some k => k | None => UFb end) (t_text (su_nm u)) (flat_map rerase_wb (su_blocks u))
    (match su_body u with Some l => rerase_l l | None => [] end).

Definition size_u (u : sunit) : nat :=
  size_wbs token (su_blocks u) + 1 + match su_body u with Some l => rsize_l l | None => 1 end.

Lemma kind_eqb_eq a b : kind_eqb a b = true -> a = b.
Proof. destruct a; destruct b; try reflexivity; intro H; vm_compute in H; discriminate H. Qed.

Lemma class_of_kw u : kind_of u <> None ->
  tok_class (su_kw u) = CKw KwEndPou /\ tok_class (su_en u) = CKw KwEndPou.
Proof.
  unfold kind_of. intro H.
  destruct (kind_eqb (t_kind (su_kw u)) KFunctionBlock) eqn:E1.
  - destruct (kind_eqb (t_kind (su_en u)) KEndFunctionBlock) eqn:E2; [|contradiction H; reflexivity].
    apply kind_eqb_eq in E1. apply kind_eqb_eq in E2. split; rewrite class_by_kind; rewrite ?E1, ?E2; reflexivity.
  - destruct (kind_eqb (t_kind (su_kw u)) KProgram) eqn:E3; [|contradiction H; reflexivity].
    destruct (kind_eqb (t_kind (su_en u)) KEndProgram) eqn:E2; [|contradiction H; reflexivity].
    apply kind_eqb_eq in E3. apply kind_eqb_eq in E2. split; rewrite class_by_kind; rewrite ?E3, ?E2; reflexivity.
Qed.

(* the closing keyword starts no statement and no declaration block *)
Lemma body_none_at F en r : tok_class en = CKw KwEndPou ->
  body token tok_class t_text tok_num op_level (S F) (en :: r) = Ok ([], en :: r).
Proof.
  intro H. unfold body. rewrite (plist_fails token tok_class t_text tok_num op_level F en r); [reflexivity | rewrite H; reflexivity | rewrite H; discriminate | rewrite H; discriminate].
Qed.

Theorem parse_unit_spelled u rest F : wf_u u -> size_u u + 1 <= F ->
  parse_unit F (flat_u u ++ rest) = UOk (erase_u u) rest.
Proof.
  intros (Hk & H0 & Hnm & Hbl & H1 & Hbody & H2) HF.
  destruct (class_of_kw u Hk) as (Ckw & Cen). pose proof (class_id _ Hnm) as Cnm.
  assert (Snm : solid token tok_class (su_nm u)) by (unfold solid; rewrite Cnm; discriminate).
  assert (Sen : solid token tok_class (su_en u)) by (unfold solid; rewrite Cen; discriminate).
  unfold size_u in HF. unfold erase_u.
  destruct u as [kw w0 nm bl w1 bd w2 en]. cbn [su_kw su_w0 su_nm su_blocks su_w1 su_body su_w2 su_en] in *.
  unfold flat_u. cbn [su_kw su_w0 su_nm su_blocks su_w1 su_body su_w2 su_en app].
  set (tail := w1 ++ flat_body bd ++ w2 ++ en :: rest).
  replace ((w0 ++ nm :: rflat_wbs bl ++ w1 ++ flat_body bd ++ w2 ++ [en]) ++ rest) with (w0 ++ nm :: rflat_wbs bl ++ tail)
    by (unfold tail; repeat (rewrite <- app_assoc; cbn [app]); reflexivity).
  (* the keyword pair *)
  assert (Hpair : exists uk endk,
            (if kind_eqb (t_kind kw) KFunctionBlock then Some (UFb, KEndFunctionBlock)
             else if kind_eqb (t_kind kw) KProgram then Some (UProgram, KEndProgram) else None) = Some (uk, endk) /\
            kind_eqb (t_kind en) endk = true /\ kind_of (mkSUnit kw w0 nm bl w1 bd w2 en) = Some uk).
  { unfold kind_of in *. cbn [su_kw su_en] in *. destruct (kind_eqb (t_kind kw) KFunctionBlock).
    - destruct (kind_eqb (t_kind en) KEndFunctionBlock) eqn:E; [|contradiction Hk; reflexivity]. exists UFb, KEndFunctionBlock. auto.
    - destruct (kind_eqb (t_kind kw) KProgram); [|contradiction Hk; reflexivity].
      destruct (kind_eqb (t_kind en) KEndProgram) eqn:E; [|contradiction Hk; reflexivity]. exists UProgram, KEndProgram. auto. }
  destruct Hpair as (uk & endk & Epair & Eend & Ekind). rewrite Ekind.
  unfold parse_unit. rewrite Epair. unfold st_skip at 1.
  rewrite (skip_app_triv token tok_class w0 _ H0), (skip_solid token tok_class nm _ Snm). rewrite Hnm.
  cbn [kind_eqb tok_index N.eqb Pos.eqb].
  (* what follows the blocks starts no block, and the statements (or none) are read up to the closing keyword *)
  assert (Hnb : no_block_next token tok_class tail).
  { unfold tail. destruct bd as [l|]; cbn [flat_body].
    - destruct Hbody as (Hl & _). apply stmt_list_no_block; assumption.
    - subst w1. cbn [app]. unfold no_block_next. rewrite (skip_app_triv token tok_class w2 _ H2), (skip_solid token tok_class en _ Sen), Cen. reflexivity. }
  assert (Hbd : body token tok_class t_text tok_num op_level F (st_skip tail) =
                Ok (match bd with Some l => rerase_l l | None => [] end, w2 ++ en :: rest) \/
                (bd = None /\ body token tok_class t_text tok_num op_level F (st_skip tail) = Ok ([], en :: rest))).
  { unfold tail, st_skip. destruct bd as [l|]; cbn [flat_body].
    - left. destruct Hbody as (Hl & Habs).
      rewrite (skip_app_triv token tok_class w1 _ H1), (flat_l_skip token tok_class t_text tok_num op_level l _ Hl).
      unfold body. rewrite (plist_real l (w2 ++ en :: rest)); [reflexivity | exact Hl | eapply closer_at; [exact H2 | exact Cen | reflexivity] | | lia].
      intro Hb. rewrite (Habs Hb). cbn [app]. apply (skip_solid token tok_class en rest Sen).
    - right. split; [reflexivity|]. subst w1. cbn [app]. rewrite (skip_app_triv token tok_class w2 _ H2), (skip_solid token tok_class en _ Sen).
      destruct F as [|F']; [lia|]. apply body_none_at. exact Cen. }
  assert (Hend : forall r3, r3 = w2 ++ en :: rest \/ r3 = en :: rest ->
            match st_skip r3 with
            | e :: r4 => if kind_eqb (t_kind e) endk then UOk (mkUnit uk (t_text nm) (flat_map rerase_wb bl) (match bd with Some l => rerase_l l | None => [] end)) r4 else UFail
            | [] => UFail
            end = UOk (mkUnit uk (t_text nm) (flat_map rerase_wb bl) (match bd with Some l => rerase_l l | None => [] end)) rest).
  { intros r3 [-> | ->]; unfold st_skip; rewrite ?(skip_app_triv token tok_class w2 _ H2), (skip_solid token tok_class en _ Sen), Eend; reflexivity. }
  destruct bl as [|[bw b] bl'].
  - change (rflat_wbs [] ++ tail) with tail.
    assert (Hnb' : no_block_next token tok_class (st_skip tail)) by (unfold no_block_next, st_skip in *; rewrite skip_skip; exact Hnb).
    pose proof (blocks_spelled token tok_class t_text tok_num ty_name [] (Forall_nil _) [] (st_skip tail) F Hnb') as B.
    change (rflat_wbs [] ++ st_skip tail) with (st_skip tail) in B. rewrite B by (cbn; lia).
    cbn [app flat_map].
    assert (Ess : st_skip (st_skip tail) = st_skip tail) by (apply skip_skip). rewrite Ess.
    destruct Hbd as [Hb | (-> & Hb)]; rewrite Hb; apply Hend; auto.
  - pose proof (Forall_inv Hbl) as (Hbw & Hb). pose proof (Forall_inv_tail Hbl) as Hbl'.
    assert (E2 : st_skip (rflat_wbs (WB token bw b :: bl') ++ tail) = rflat_wbs (WB token [] b :: bl') ++ tail).
    { unfold flat_wbs, st_skip. cbn [map List.concat flat_wb app]. rewrite <- !app_assoc.
      rewrite (skip_app_triv token tok_class bw _ Hbw). apply (flat_bk_skip token tok_class t_text tok_num b _ Hb). }
    rewrite E2.
    assert (Hbl0 : Forall rwf_wb (WB token [] b :: bl')) by (constructor; [split; [constructor | exact Hb] | exact Hbl']).
    rewrite (blocks_spelled token tok_class t_text tok_num ty_name _ Hbl0 [] tail F Hnb).
    + cbn [app]. destruct Hbd as [Hb1 | (-> & Hb1)]; rewrite Hb1; apply Hend; auto.
    + cbn [size_wbs] in *. lia.
Qed.

(* ---- the size of a unit is bounded by its number of tokens ---- *)
Lemma size_u_len u : size_u u <= 3 * List.length (flat_u u).
Proof.
  unfold size_u, flat_u. pose proof (size_wbs_len token (su_blocks u)) as B.
  repeat (rewrite app_length || cbn [List.length]). destruct (su_body u) as [l|]; cbn [flat_body List.length].
  - pose proof (proj1 (proj2 (size_bound_s token)) l) as Bl. lia.
  - lia.
Qed.

(* ---- a unit is inside the model's scope ---- *)
Lemma scoped_u u : wf_u u -> rscoped (flat_u u).
Proof.
  intros (Hk & H0 & Hnm & Hbl & H1 & Hbody & H2). destruct (class_of_kw u Hk) as (Ckw & Cen). pose proof (class_id _ Hnm) as Cnm.
  unfold flat_u.
  assert (Sb : rscoped (flat_body (su_body u))).
  { destruct (su_body u) as [l|]; cbn [flat_body]; [|apply scoped_nil]. destruct Hbody as (Hl & _).
    exact (proj1 (proj2 (wf_scoped_s token tok_class t_text tok_num op_level)) l true Hl). }
  apply scoped_cons; [rewrite Ckw; reflexivity|]. apply scoped_app; [apply scoped_triv; exact H0|].
  apply scoped_cons; [rewrite Cnm; reflexivity|]. apply scoped_app; [apply (scoped_wbs token tok_class t_text tok_num); exact Hbl|].
  apply scoped_app; [apply scoped_triv; exact H1|]. apply scoped_app; [exact Sb|]. apply scoped_app; [apply scoped_triv; exact H2|].
  apply scoped_tok. rewrite Cen. reflexivity.
Qed.

(* ---- the library ---- *)
Inductive swu := WU (w : list token) (u : sunit).
Definition flat_wu (x : swu) : list token := match x with WU w u => w ++ flat_u u end.
Definition flat_lib (l : list swu) : list token := List.concat (map flat_wu l).
Definition wf_wu (x : swu) : Prop := match x with WU w u => rtriv w /\ wf_u u end.
Definition erase_wu (x : swu) : unit_ := match x with WU _ u => erase_u u end.

Lemma flat_u_skip u r : wf_u u -> st_skip (flat_u u ++ r) = flat_u u ++ r.
Proof.
  intros (Hk & _). destruct (class_of_kw u Hk) as (Ckw & _). unfold flat_u. cbn [app]. apply skip_solid. unfold solid. rewrite Ckw. discriminate.
Qed.

Lemma units_spelled l : Forall wf_wu l -> forall acc wend F n, rtriv wend ->
  (forall x, In x l -> match x with WU _ u => size_u u + 1 <= F end) -> List.length l < n ->
  units F n acc (flat_lib l ++ wend) = LOk (acc ++ map erase_wu l) wend.
Proof.
  induction l as [|[w u] l IH]; intros Hl acc wend F n Hwend HF Hn.
  - destruct n as [|n]; [cbn in Hn; lia|]. cbn [flat_lib map List.concat app units]. rewrite (skip_all_triv wend Hwend).
    cbn [parse_unit]. rewrite app_nil_r. reflexivity.
  - destruct n as [|n]; [cbn in Hn; lia|]. cbn [List.length] in Hn.
    pose proof (Forall_inv Hl) as (Hw & Hu). pose proof (Forall_inv_tail Hl) as Hl'.
    unfold flat_lib. cbn [map List.concat flat_wu]. fold (flat_lib l).
    replace (((w ++ flat_u u) ++ flat_lib l) ++ wend) with (w ++ flat_u u ++ (flat_lib l ++ wend))
      by (repeat (rewrite <- app_assoc; cbn [app]); reflexivity).
    cbn [units]. unfold st_skip at 1. rewrite (skip_app_triv token tok_class w _ Hw). fold (st_skip (flat_u u ++ flat_lib l ++ wend)).
    rewrite (flat_u_skip u _ Hu).
    rewrite (parse_unit_spelled u (flat_lib l ++ wend) F Hu) by (exact (HF (WU w u) (or_introl eq_refl))).
    rewrite (IH Hl' (acc ++ [erase_u u]) wend F n Hwend) by (try lia; intros x Hx; apply HF; right; exact Hx).
    cbn [map erase_wu]. rewrite <- app_assoc. reflexivity.
Qed.

Lemma scoped_lib l : Forall wf_wu l -> rscoped (flat_lib l).
Proof.
  induction 1 as [|[w u] l (Hw & Hu) _ IH]; [apply scoped_nil|].
  unfold flat_lib. cbn [map List.concat flat_wu]. fold (flat_lib l).
  apply scoped_app; [apply scoped_app; [apply scoped_triv; exact Hw | apply scoped_u; exact Hu] | exact IH].
Qed.

Lemma flat_lib_len l x : In x l -> match x with WU _ u => List.length (flat_u u) <= List.length (flat_lib l) end.
Proof.
  induction l as [|[w u] l IH]; [intros []|]. unfold flat_lib. cbn [map List.concat flat_wu]. fold (flat_lib l).
  destruct x as [w' u']. intros [E | Hx]; repeat rewrite app_length.
  - injection E as -> ->. lia.
  - specialize (IH Hx). change (List.length (flat_u u') <= List.length (flat_lib l)) in IH. lia.
Qed.

Lemma lib_len l : List.length l <= List.length (flat_lib l).
Proof.
  induction l as [|[w u] l IH]; [apply Nat.le_refl|]. unfold flat_lib. cbn [map List.concat flat_wu List.length]. fold (flat_lib l).
  repeat rewrite app_length. unfold flat_u. cbn [List.length]. lia.
Qed.

Theorem parse_lib_spelled : forall (l : list swu) wend, Forall wf_wu l -> rtriv wend ->
  parse_lib_tokens (flat_lib l ++ wend) = O3Parsed (map erase_wu l).
Proof.
  intros l wend Hl Hwend. unfold parse_lib_tokens.
  assert (Hsc : in_scope token tok_class (flat_lib l ++ wend) = true).
  { apply in_scope_scoped; [apply scoped_lib; exact Hl|]. unfold in_scope.
    pose proof (scoped_triv token tok_class wend Hwend false []) as S. rewrite app_nil_r in S. rewrite S. destruct (is_nil token wend); reflexivity. }
  rewrite Hsc.
  rewrite (units_spelled l Hl [] wend _ _ Hwend).
  - cbn [app]. rewrite (skip_all_triv wend Hwend). reflexivity.
  - intros [w u] Hx. pose proof (size_u_len u) as B. pose proof (flat_lib_len l (WU w u) Hx) as B2. change (List.length (flat_u u) <= List.length (flat_lib l)) in B2.
    rewrite app_length. lia.
  - pose proof (lib_len l). rewrite app_length. lia.
Qed.

Corollary parse_lib_respelled : forall (l l' : list swu) wend wend', Forall wf_wu l -> rtriv wend -> Forall wf_wu l' -> rtriv wend' ->
  map erase_wu l = map erase_wu l' -> parse_lib_tokens (flat_lib l ++ wend) = parse_lib_tokens (flat_lib l' ++ wend').
Proof. intros. rewrite !parse_lib_spelled by assumption. congruence. Qed.

Corollary parse_lib_fuel : forall (l : list swu) wend, Forall wf_wu l -> rtriv wend -> parse_lib_tokens (flat_lib l ++ wend) <> O3Fuel.
Proof. intros. rewrite parse_lib_spelled by assumption. discriminate. Qed.

(* a concrete library: the function block of DeclInstanceProofs and a program without statements *)
Definition ex_unit1 : sunit :=
  mkSUnit (tkk KFunctionBlock []) ex_ws (tkk KIdentifier [102%N]) ex_blocks ex_ws (Some ex_list) ex_ws (tkk KEndFunctionBlock []).
Definition ex_unit2 : sunit :=
  mkSUnit (tkk KProgram []) ex_ws (tkk KIdentifier [112%N]) [] [] None ex_ws (tkk KEndProgram []).
Example ex_lib_wf : Forall wf_wu [WU ex_ws ex_unit1; WU ex_ws ex_unit2].
Proof.
  assert (T : rtriv ex_ws) by (repeat constructor).
  constructor; [|constructor; [|constructor]].
  - split; [exact T|]. unfold wf_u, ex_unit1. cbn [su_kw su_w0 su_nm su_blocks su_w1 su_body su_w2 su_en].
    split; [unfold kind_of; cbn; discriminate|]. split; [exact T|]. split; [reflexivity|]. split; [apply ex_blocks_wf|]. split; [exact T|].
    split; [|exact T]. split; [apply ex_wf|]. intro H. vm_compute in H. discriminate H.
  - split; [exact T|]. unfold wf_u, ex_unit2. cbn [su_kw su_w0 su_nm su_blocks su_w1 su_body su_w2 su_en].
    split; [unfold kind_of; cbn; discriminate|]. split; [exact T|]. split; [reflexivity|]. split; [constructor|]. split; [constructor|].
    split; [reflexivity | exact T].
Qed.
Example ex_lib_parse :
  match parse_lib_tokens (flat_lib [WU ex_ws ex_unit1; WU ex_ws ex_unit2] ++ ex_ws) with
  | O3Parsed [u1; u2] => u_kind u1 = UFb /\ u_kind u2 = UProgram /\ u_body u2 = [] /\ List.length (u_decls u1) = 4
  | _ => False
  end.
Proof. vm_compute. repeat split. Qed.

(* ---- functions:  FUNCTION name : type  blocks  statements  END_FUNCTION ---- *)
Notation rwf_fwb := (wf_fwb token tok_class t_text tok_num).
Notation ris_tyref := (is_tyref token tok_class).
Notation rtype_text := (type_text token tok_class t_text ty_name).
Notation rsize_l := (StStmtProofs.size_l token).

Record sfunc := mkSFunc {
  sf_kw : token; sf_w0 : list token; sf_nm : token; sf_w1 : list token; sf_colon : token; sf_w2 : list token; sf_ty : token;
  sf_blocks : list rwb; sf_w3 : list token; sf_body : rsl; sf_w4 : list token; sf_en : token }.
Definition flat_f (u : sfunc) : list token :=
  sf_kw u :: sf_w0 u ++ sf_nm u :: sf_w1 u ++ sf_colon u :: sf_w2 u ++ sf_ty u :: rflat_wbs (sf_blocks u) ++ sf_w3 u ++ rflat_l (sf_body u) ++
  sf_w4 u ++ [sf_en u].
Definition wf_f (u : sfunc) : Prop :=
  t_kind (sf_kw u) = KFunction /\ rtriv (sf_w0 u) /\ t_kind (sf_nm u) = KIdentifier /\ rtriv (sf_w1 u) /\ tok_class (sf_colon u) = CColon /\
  rtriv (sf_w2 u) /\ ris_tyref (sf_ty u) /\ Forall rwf_fwb (sf_blocks u) /\ rtriv (sf_w3 u) /\ rwf_l (sf_body u) /\
  (rabsorbs (sf_body u) = true -> sf_w4 u = []) /\ rtriv (sf_w4 u) /\ t_kind (sf_en u) = KEndFunction.
Definition erase_f (u : sfunc) : func_ :=
  mkFunc (t_text (sf_nm u)) (rtype_text (sf_ty u)) (flat_map rerase_wb (sf_blocks u)) (rerase_l (sf_body u)).
Definition size_f (u : sfunc) : nat := size_wbs token (sf_blocks u) + 1 + rsize_l (sf_body u).

Lemma class_function t : t_kind t = KFunction -> tok_class t = CKw KwEndPou.
Proof. intro H. rewrite class_by_kind; rewrite H; reflexivity. Qed.
Lemma class_endfunction t : t_kind t = KEndFunction -> tok_class t = CKw KwEndPou.
Proof. intro H. rewrite class_by_kind; rewrite H; reflexivity. Qed.

Theorem parse_function_spelled u rest F : wf_f u -> size_f u + 1 <= F ->
  parse_function F (flat_f u ++ rest) = FOk (erase_f u) rest.
Proof.
  intros (Hk & H0 & Hnm & H1 & Hcolon & H2 & Hty & Hbl & H3 & Hl & Habs & H4 & Hen) HF.
  pose proof (class_id _ Hnm) as Cnm. pose proof (class_endfunction _ Hen) as Cen.
  assert (Snm : solid token tok_class (sf_nm u)) by (unfold solid; rewrite Cnm; discriminate).
  assert (Sen : solid token tok_class (sf_en u)) by (unfold solid; rewrite Cen; discriminate).
  assert (Scolon : solid token tok_class (sf_colon u)) by (unfold solid; rewrite Hcolon; discriminate).
  pose proof (tyref_solid token tok_class (sf_ty u) Hty) as Sty.
  unfold size_f in HF. unfold erase_f.
  destruct u as [kw w0 nm w1 colon w2 ty bl w3 bd w4 en]. cbn [sf_kw sf_w0 sf_nm sf_w1 sf_colon sf_w2 sf_ty sf_blocks sf_w3 sf_body sf_w4 sf_en] in *.
  unfold flat_f. cbn [sf_kw sf_w0 sf_nm sf_w1 sf_colon sf_w2 sf_ty sf_blocks sf_w3 sf_body sf_w4 sf_en app].
  set (tail := w3 ++ rflat_l bd ++ w4 ++ en :: rest).
  replace ((w0 ++ nm :: w1 ++ colon :: w2 ++ ty :: rflat_wbs bl ++ w3 ++ rflat_l bd ++ w4 ++ [en]) ++ rest)
    with (w0 ++ nm :: w1 ++ colon :: w2 ++ ty :: rflat_wbs bl ++ tail)
    by (unfold tail; repeat (rewrite <- app_assoc; cbn [app]); reflexivity).
  unfold parse_function. rewrite Hk. cbn [kind_eqb tok_index N.eqb Pos.eqb].
  unfold st_skip at 1. rewrite (skip_app_triv token tok_class w0 _ H0), (skip_solid token tok_class nm _ Snm). rewrite Hnm.
  cbn [kind_eqb tok_index N.eqb Pos.eqb].
  rewrite (next_is_at token tok_class _ w1 colon _ H1 Scolon) by (rewrite Hcolon; reflexivity).
  unfold st_skip at 1. rewrite (skip_app_triv token tok_class w2 _ H2), (skip_solid token tok_class ty _ Sty).
  assert (Ety : (if is_type (tok_class ty) then Some (ty_name ty) else match tok_class ty with CId => Some (t_text ty) | _ => None end) = Some (rtype_text ty)).
  { unfold type_text. destruct Hty as [Ht | Ht]; [rewrite Ht; reflexivity|]. rewrite Ht. reflexivity. }
  rewrite Ety.
  assert (Hnb : no_block_next token tok_class tail) by (unfold tail; apply stmt_list_no_block; assumption).
  assert (Hbd : plist token tok_class t_text tok_num op_level F (st_skip tail) = Ok (rerase_l bd, w4 ++ en :: rest)).
  { unfold tail, st_skip. rewrite (skip_app_triv token tok_class w3 _ H3), (flat_l_skip token tok_class t_text tok_num op_level bd _ Hl).
    rewrite (plist_real bd (w4 ++ en :: rest)); [reflexivity | exact Hl | eapply closer_at; [exact H4 | exact Cen | reflexivity] | | lia].
    intro Hb. rewrite (Habs Hb). cbn [app]. apply (skip_solid token tok_class en rest Sen). }
  assert (Hend : match st_skip (w4 ++ en :: rest) with
            | e :: r5 => if kind_eqb (t_kind e) KEndFunction then FOk (mkFunc (t_text nm) (rtype_text ty) (flat_map rerase_wb bl) (rerase_l bd)) r5 else FFail
            | [] => FFail
            end = FOk (mkFunc (t_text nm) (rtype_text ty) (flat_map rerase_wb bl) (rerase_l bd)) rest).
  { unfold st_skip. rewrite (skip_app_triv token tok_class w4 _ H4), (skip_solid token tok_class en _ Sen), Hen. reflexivity. }
  destruct bl as [|[bw b] bl'].
  - change (rflat_wbs [] ++ tail) with tail.
    assert (Hnb' : no_block_next token tok_class (st_skip tail)) by (unfold no_block_next, st_skip in *; rewrite skip_skip; exact Hnb).
    pose proof (fblocks_spelled token tok_class t_text tok_num ty_name [] (Forall_nil _) [] (st_skip tail) F Hnb') as B.
    change (rflat_wbs [] ++ st_skip tail) with (st_skip tail) in B. rewrite B by (cbn; lia).
    cbn [app flat_map].
    assert (Ess : st_skip (st_skip tail) = st_skip tail) by (apply skip_skip). rewrite Ess. rewrite Hbd. exact Hend.
  - pose proof (Forall_inv Hbl) as (Hbw & Hb). pose proof (Forall_inv_tail Hbl) as Hbl'.
    assert (E2 : st_skip (rflat_wbs (WB token bw b :: bl') ++ tail) = rflat_wbs (WB token [] b :: bl') ++ tail).
    { unfold flat_wbs, st_skip. cbn [map List.concat flat_wb app]. rewrite <- !app_assoc.
      rewrite (skip_app_triv token tok_class bw _ Hbw). apply (flat_bk_skip token tok_class t_text tok_num b _ (proj1 Hb)). }
    rewrite E2.
    assert (Hbl0 : Forall rwf_fwb (WB token [] b :: bl')) by (constructor; [split; [constructor | exact Hb] | exact Hbl']).
    rewrite (fblocks_spelled token tok_class t_text tok_num ty_name _ Hbl0 [] tail F Hnb).
    + cbn [app]. rewrite Hbd. exact Hend.
    + cbn [size_wbs] in *. lia.
Qed.

Lemma size_f_len u : size_f u <= 3 * List.length (flat_f u).
Proof.
  unfold size_f, flat_f. pose proof (size_wbs_len token (sf_blocks u)) as B.
  repeat (rewrite app_length || cbn [List.length]). pose proof (proj1 (proj2 (size_bound_s token)) (sf_body u)) as Bl. lia.
Qed.

Lemma fwbs_wbs l : Forall rwf_fwb l -> Forall rwf_wb l.
Proof. intro H. eapply Forall_impl; [|exact H]. apply wf_fwb_wb. Qed.

Notation rhfh := (hfh token tok_class).
Lemma hfh_triv_app w r : rtriv w -> rhfh r -> rhfh (w ++ r).
Proof. intros Hw Hr. destruct w as [|t w]; [exact Hr|]. cbn [app]. unfold hfh. rewrite (Forall_inv Hw). discriminate. Qed.

Lemma flat_l_hfh (l : rsl) r : rwf_l l -> rhfh (rflat_l l ++ r).
Proof.
  intros Hl.
  assert (G : forall g r0, wf_g token tok_class t_text tok_num op_level true g -> rhfh (flat_g token g ++ r0)).
  { intros [w1 semi w2|s m w0 semi] r0; cbn [wf_g flat_g].
    - intros (Hw1 & _ & Hsemi & _). rewrite (Hw1 eq_refl). cbn [app]. unfold hfh. rewrite Hsemi. discriminate.
    - intros (_ & Hs & _). rewrite <- !app_assoc.
      destruct s; cbn [wf_s flat_s] in Hs; (try destruct Hs as (Hs & _)); cbn [flat_s app]; unfold hfh; rewrite Hs; discriminate. }
  destruct l as [g|g l].
  - change (rflat_l (LOne token g)) with (flat_g token g). change (wf_g token tok_class t_text tok_num op_level true g) in Hl. apply G. exact Hl.
  - change (rflat_l (LCons token g l)) with (flat_g token g ++ flat_l token l).
    change (wf_g token tok_class t_text tok_num op_level true g /\ wf_l token tok_class t_text tok_num op_level (gempty token g) l) in Hl.
    destruct Hl as (Hg & _). rewrite <- app_assoc. apply G. exact Hg.
Qed.

Lemma flat_wbs_hfh l r : Forall rwf_wb l -> rhfh r -> rhfh (rflat_wbs l ++ r).
Proof.
  intros Hl Hr. destruct l as [|[w b] l]; [exact Hr|]. destruct (Forall_inv Hl) as (Hw & c & q & Hc & _).
  unfold flat_wbs. cbn [map List.concat flat_wb]. rewrite <- !app_assoc. apply hfh_triv_app; [exact Hw|].
  unfold flat_bk. cbn [app]. unfold hfh. destruct (tok_class (bk_kw token b)); try discriminate Hc. discriminate.
Qed.

Lemma scoped_f u : wf_f u -> rscoped (flat_f u).
Proof.
  intros (Hk & H0 & Hnm & H1 & Hcolon & H2 & Hty & Hbl & H3 & Hl & Habs & H4 & Hen).
  pose proof (class_id _ Hnm) as Cnm. pose proof (class_endfunction _ Hen) as Cen. pose proof (class_function _ Hk) as Ckw.
  unfold flat_f.
  apply scoped_cons; [rewrite Ckw; reflexivity|]. apply scoped_app; [apply scoped_triv; exact H0|].
  apply scoped_cons; [rewrite Cnm; reflexivity|]. apply scoped_app; [apply scoped_triv; exact H1|].
  apply scoped_cons; [rewrite Hcolon; reflexivity|]. apply scoped_app; [apply scoped_triv; exact H2|].
  (* the type: a type keyword is followed by no '#' (a block keyword, a statement or the closing keyword follow) *)
  change (sf_ty u :: rflat_wbs (sf_blocks u) ++ sf_w3 u ++ rflat_l (sf_body u) ++ sf_w4 u ++ [sf_en u])
    with ([sf_ty u] ++ (rflat_wbs (sf_blocks u) ++ sf_w3 u ++ rflat_l (sf_body u) ++ sf_w4 u ++ [sf_en u])).
  assert (Srest : rscoped (rflat_wbs (sf_blocks u) ++ sf_w3 u ++ rflat_l (sf_body u) ++ sf_w4 u ++ [sf_en u])).
  { apply scoped_app; [apply (scoped_wbs token tok_class t_text tok_num); apply fwbs_wbs; exact Hbl|].
    apply scoped_app; [apply scoped_triv; exact H3|].
    apply scoped_app; [exact (proj1 (proj2 (wf_scoped_s token tok_class t_text tok_num op_level)) (sf_body u) true Hl)|].
    apply scoped_app; [apply scoped_triv; exact H4|]. apply scoped_tok. rewrite Cen. reflexivity. }
  apply (scoped2_then token tok_class); [apply scoped2_tyref; exact Hty | exact Srest | |].
  - destruct (rflat_wbs (sf_blocks u)); [destruct (sf_w3 u); [destruct (rflat_l (sf_body u)); [destruct (sf_w4 u)|]|]|]; discriminate.
  - apply flat_wbs_hfh; [apply fwbs_wbs; exact Hbl|]. apply hfh_triv_app; [exact H3|]. apply flat_l_hfh. exact Hl.
Qed.

(* ---- libraries with TYPE blocks ---- *)
Notation rtb := (stblock token).
Notation rwf_tb := (wf_tb token tok_class t_text tok_num is_int_ty).
Notation rflat_tb := (flat_tb token).
Notation rerase_tb := (erase_tb token tok_class t_text tok_num ty_name).

Inductive selem := SeTypes (b : rtb) | SeUnit (u : sunit) | SeFunc (f : sfunc).
Definition flat_e (e : selem) : list token := match e with SeTypes b => rflat_tb b | SeUnit u => flat_u u | SeFunc f => flat_f f end.
Definition wf_e (e : selem) : Prop := match e with SeTypes b => rwf_tb b | SeUnit u => wf_u u | SeFunc f => wf_f f end.
Definition erase_e (e : selem) : elem := match e with SeTypes b => ETypes (rerase_tb b) | SeUnit u => EUnit (erase_u u) | SeFunc f => EFunc (erase_f f) end.
Definition size_e (e : selem) : nat := match e with SeTypes b => size_tb token b | SeUnit u => size_u u | SeFunc f => size_f f end.

Inductive swe := WE (w : list token) (e : selem).
Definition flat_we (x : swe) : list token := match x with WE w e => w ++ flat_e e end.
Definition flat_lib2 (l : list swe) : list token := List.concat (map flat_we l).
Definition wf_we (x : swe) : Prop := match x with WE w e => rtriv w /\ wf_e e end.
Definition erase_we (x : swe) : elem := match x with WE _ e => erase_e e end.

Lemma flat_e_skip e r : wf_e e -> st_skip (flat_e e ++ r) = flat_e e ++ r.
Proof.
  destruct e as [b|u|fn]; cbn [wf_e flat_e].
  - intros (Hk & _). unfold flat_tb. cbn [app]. apply skip_solid. unfold solid. rewrite Hk. discriminate.
  - apply flat_u_skip.
  - intros (Hk & _). unfold flat_f. cbn [app]. apply skip_solid. unfold solid. rewrite (class_function _ Hk). discriminate.
Qed.

Lemma unit_not_function u : kind_of u <> None -> kind_eqb (t_kind (su_kw u)) KFunction = false.
Proof.
  unfold kind_of. intro H. destruct (kind_eqb (t_kind (su_kw u)) KFunctionBlock) eqn:E1.
  - apply kind_eqb_eq in E1. rewrite E1. reflexivity.
  - destruct (kind_eqb (t_kind (su_kw u)) KProgram) eqn:E2; [|contradiction H; reflexivity]. apply kind_eqb_eq in E2. rewrite E2. reflexivity.
Qed.

Lemma elements_spelled l : Forall wf_we l -> forall acc wend F n, rtriv wend ->
  (forall x, In x l -> match x with WE _ e => size_e e + 1 <= F end) -> List.length l < n ->
  elements F n acc (flat_lib2 l ++ wend) = L2Ok (acc ++ map erase_we l) wend.
Proof.
  induction l as [|[w e] l IH]; intros Hl acc wend F n Hwend HF Hn.
  - destruct n as [|n]; [cbn in Hn; lia|]. cbn [flat_lib2 map List.concat app elements]. rewrite (skip_all_triv wend Hwend).
    cbn [type_block parse_unit]. rewrite app_nil_r. reflexivity.
  - destruct n as [|n]; [cbn in Hn; lia|]. cbn [List.length] in Hn.
    pose proof (Forall_inv Hl) as (Hw & He). pose proof (Forall_inv_tail Hl) as Hl'.
    unfold flat_lib2. cbn [map List.concat flat_we]. fold (flat_lib2 l).
    replace (((w ++ flat_e e) ++ flat_lib2 l) ++ wend) with (w ++ flat_e e ++ (flat_lib2 l ++ wend))
      by (repeat (rewrite <- app_assoc; cbn [app]); reflexivity).
    cbn [elements]. unfold st_skip at 1 2 3. rewrite (skip_app_triv token tok_class w _ Hw). fold (st_skip (flat_e e ++ flat_lib2 l ++ wend)).
    rewrite (flat_e_skip e _ He).
    pose proof (HF (WE w e) (or_introl eq_refl)) as HFe. cbn in HFe.
    assert (IHn : forall acc', elements F n acc' (flat_lib2 l ++ wend) = L2Ok (acc' ++ map erase_we l) wend)
      by (intro acc'; apply IH; try assumption; try lia; intros x Hx; apply HF; right; exact Hx).
    destruct e as [b|u|fn]; cbn [wf_e flat_e erase_e size_e] in *.
    + rewrite (type_block_at token tok_class t_text tok_num ty_name is_int_ty b (flat_lib2 l ++ wend) F He) by lia.
      rewrite IHn. cbn [map erase_we erase_e]. rewrite <- app_assoc. reflexivity.
    + destruct He as (Hk & Hrest). destruct (class_of_kw u Hk) as (Ckw & _).
      assert (Ef : type_block token tok_class t_text tok_num ty_name is_int_ty F (flat_u u ++ flat_lib2 l ++ wend) = DFail).
      { unfold flat_u. cbn [app]. apply type_block_fails. rewrite Ckw. reflexivity. }
      rewrite Ef.
      assert (Eff : parse_function F (flat_u u ++ flat_lib2 l ++ wend) = FFail).
      { unfold flat_u. cbn [app]. unfold parse_function. rewrite (unit_not_function u Hk). reflexivity. }
      rewrite Eff. rewrite (parse_unit_spelled u (flat_lib2 l ++ wend) F (conj Hk Hrest)) by lia.
      rewrite IHn. cbn [map erase_we erase_e]. rewrite <- app_assoc. reflexivity.
    + pose proof (class_function _ (proj1 He)) as Ckw.
      assert (Ef : type_block token tok_class t_text tok_num ty_name is_int_ty F (flat_f fn ++ flat_lib2 l ++ wend) = DFail).
      { unfold flat_f. cbn [app]. apply type_block_fails. rewrite Ckw. reflexivity. }
      rewrite Ef. rewrite (parse_function_spelled fn (flat_lib2 l ++ wend) F He) by lia.
      rewrite IHn. cbn [map erase_we erase_e]. rewrite <- app_assoc. reflexivity.
Qed.

Lemma scoped_e e : wf_e e -> rscoped (flat_e e).
Proof. destruct e; cbn [wf_e flat_e]; [apply scoped_tb | apply scoped_u | apply scoped_f]. Qed.

Lemma scoped_lib2 l : Forall wf_we l -> rscoped (flat_lib2 l).
Proof.
  induction 1 as [|[w e] l (Hw & He) _ IH]; [apply scoped_nil|].
  unfold flat_lib2. cbn [map List.concat flat_we]. fold (flat_lib2 l).
  apply scoped_app; [apply scoped_app; [apply scoped_triv; exact Hw | apply scoped_e; exact He] | exact IH].
Qed.

Lemma size_e_len e : size_e e <= 3 * List.length (flat_e e).
Proof.
  destruct e as [b|u|fn]; cbn [size_e flat_e]; [|apply size_u_len|apply size_f_len]. pose proof (size_tb_len token b). lia.
Qed.

Lemma flat_lib2_len l x : In x l -> match x with WE _ e => List.length (flat_e e) <= List.length (flat_lib2 l) end.
Proof.
  induction l as [|[w e] l IH]; [intros []|]. unfold flat_lib2. cbn [map List.concat flat_we]. fold (flat_lib2 l).
  destruct x as [w' e']. intros [E | Hx]; repeat rewrite app_length.
  - injection E as -> ->. lia.
  - specialize (IH Hx). change (List.length (flat_e e') <= List.length (flat_lib2 l)) in IH. lia.
Qed.

Lemma flat_e_pos e : wf_e e -> 1 <= List.length (flat_e e).
Proof. destruct e as [b|u|fn]; cbn [flat_e]; intros _; [unfold flat_tb | unfold flat_u | unfold flat_f]; cbn [List.length]; lia. Qed.

Lemma lib2_len l : Forall wf_we l -> List.length l <= List.length (flat_lib2 l).
Proof.
  induction 1 as [|[w e] l (Hw & He) _ IH]; [apply Nat.le_refl|]. unfold flat_lib2. cbn [map List.concat flat_we List.length]. fold (flat_lib2 l).
  repeat rewrite app_length. pose proof (flat_e_pos e He). lia.
Qed.

Theorem parse_lib2_spelled : forall (l : list swe) wend, Forall wf_we l -> rtriv wend ->
  parse_lib2_tokens (flat_lib2 l ++ wend) = O4Parsed (map erase_we l).
Proof.
  intros l wend Hl Hwend. unfold parse_lib2_tokens.
  assert (Hsc : in_scope token tok_class (flat_lib2 l ++ wend) = true).
  { apply in_scope_scoped; [apply scoped_lib2; exact Hl|]. unfold in_scope.
    pose proof (scoped_triv token tok_class wend Hwend false []) as S. rewrite app_nil_r in S. rewrite S. destruct (is_nil token wend); reflexivity. }
  rewrite Hsc.
  rewrite (elements_spelled l Hl [] wend _ _ Hwend).
  - cbn [app]. rewrite (skip_all_triv wend Hwend). reflexivity.
  - intros [w e] Hx. pose proof (size_e_len e) as B. pose proof (flat_lib2_len l (WE w e) Hx) as B2.
    change (List.length (flat_e e) <= List.length (flat_lib2 l)) in B2. rewrite app_length. lia.
  - pose proof (lib2_len l Hl). rewrite app_length. lia.
Qed.

Corollary parse_lib2_respelled : forall (l l' : list swe) wend wend', Forall wf_we l -> rtriv wend -> Forall wf_we l' -> rtriv wend' ->
  map erase_we l = map erase_we l' -> parse_lib2_tokens (flat_lib2 l ++ wend) = parse_lib2_tokens (flat_lib2 l' ++ wend').
Proof. intros. rewrite !parse_lib2_spelled by assumption. congruence. Qed.

Corollary parse_lib2_fuel : forall (l : list swe) wend, Forall wf_we l -> rtriv wend -> parse_lib2_tokens (flat_lib2 l ++ wend) <> O4Fuel.
Proof. intros. rewrite parse_lib2_spelled by assumption. discriminate. Qed.

(* a concrete TYPE block:  TYPE Lvl : INT ( -1 .. 5 ) := 2 ; Col : ( r , g ) ; Arr : ARRAY [ 1 .. 2 ] OF BOOL ; Al : Col ; END_TYPE *)
Definition ex_si (v : N) : StStmtProofs.sint token := SiPlain token (tkk KDigits [(48 + v)%N]).
Definition ex_tblock : rtb :=
  mkTBlock token (tkk KType []) ex_ws
    (TsSome token
       (StSubrange token (tkk KIdentifier [76%N]) ex_ws (tkk KColon [58%N]) ex_ws (tkk KInt []) ex_ws (tkk KLeftParen [40%N]) ex_ws
          (SRange token (SiMinus token (tkk KMinus [45%N]) [] (tkk KDigits [49%N])) ex_ws (tkk KRange [46%N; 46%N]) ex_ws (ex_si 5))
          ex_ws (tkk KRightParen [41%N]) (DfSome token _ ex_ws (tkk KAssignment [58%N; 61%N]) ex_ws (ex_si 2)))
       [ TmMore token ex_ws (tkk KSemicolon [59%N]) ex_ws
           (StEnum token (tkk KIdentifier [67%N]) ex_ws (tkk KColon [58%N]) ex_ws (tkk KLeftParen [40%N]) ex_ws
              (mkNames token (tkk KIdentifier [114%N]) [NmMore token ex_ws (tkk KComma [44%N]) ex_ws (tkk KIdentifier [103%N])])
              ex_ws (tkk KRightParen [41%N]) (DfNone token _));
         TmMore token ex_ws (tkk KSemicolon [59%N]) ex_ws
           (StArray token (tkk KIdentifier [65%N]) ex_ws (tkk KColon [58%N]) ex_ws (tkk KArray []) ex_ws (tkk KLeftBracket [91%N]) ex_ws
              (RsSome token (SRange token (ex_si 1) ex_ws (tkk KRange [46%N; 46%N]) ex_ws (ex_si 2)) []) ex_ws (tkk KRightBracket [93%N]) ex_ws
              (tkk KOf []) ex_ws (tkk KBool []));
         TmMore token ex_ws (tkk KSemicolon [59%N]) ex_ws
           (StLate token (tkk KIdentifier [66%N]) ex_ws (tkk KColon [58%N]) ex_ws (tkk KIdentifier [67%N])) ]
       ex_ws (tkk KSemicolon [59%N]))
    ex_ws (tkk KEndType []).
Example ex_tblock_wf : rwf_tb ex_tblock.
Proof.
  assert (T : rtriv ex_ws) by (repeat constructor).
  unfold ex_tblock. cbn -[ex_ws].
  repeat match goal with |- _ /\ _ => split | |- Forall _ _ => constructor | |- rtriv ex_ws => exact T | |- _ = _ => reflexivity | |- _ <> _ => discriminate end.
  all: try exact T. all: try reflexivity. all: try (repeat constructor).
Qed.
Example ex_lib2_wf : Forall wf_we [WE ex_ws (SeTypes ex_tblock); WE ex_ws (SeUnit ex_unit2)].
Proof.
  assert (T : rtriv ex_ws) by (repeat constructor).
  constructor; [split; [exact T | exact ex_tblock_wf]|]. constructor; [|constructor].
  split; [exact T|]. exact (proj2 (Forall_inv (Forall_inv_tail ex_lib_wf))).
Qed.
Example ex_lib2_parse :
  match parse_lib2_tokens (flat_lib2 [WE ex_ws (SeTypes ex_tblock); WE ex_ws (SeUnit ex_unit2)] ++ ex_ws) with
  | O4Parsed [ETypes [TdSubrange _ _ lo hi (Some d); TdEnum _ vs None; TdArray _ [_] _; TdLate _ _]; EUnit u] =>
      lo = (true, 1%N) /\ hi = (false, 5%N) /\ d = (false, 2%N) /\ List.length vs = 2 /\ u_kind u = UProgram
  | _ => False
  end.
Proof. vm_compute. repeat split. Qed.
