(* Completeness of the search `reach` of Model/DataDecl.v: with fuel above the number of nodes not yet seen, the result
   contains the frontier, what was seen, and is closed under the edges -- hence everything reachable from the frontier. *)
From Coq Require Import List NArith Bool Lia.
From Verif Require Import Base.Text Gen.GenRules Model.Rules Model.DataDecl.
Import ListNotations.
Close Scope N_scope.
Open Scope nat_scope.

Lemma mem_In n l : mem n l = true <-> In n l.
Proof.
  unfold mem. rewrite existsb_exists. split.
  - intros (x & Hx & E). apply text_eqb_eq in E. subst. exact Hx.
  - intro H. exists n. split; [exact H | apply text_eqb_refl].
Qed.

Lemma mem_false n l : mem n l = false <-> ~ In n l.
Proof. rewrite <- mem_In. destruct (mem n l); split; intro H; try reflexivity; try discriminate; try (intro X; discriminate X); contradiction H; reflexivity. Qed.

Lemma succs_iff edges n x : In x (succs edges n) <-> In (n, x) edges.
Proof.
  unfold succs. split.
  - intro H. apply in_map_iff in H. destruct H as ([b a] & <- & Hf). apply filter_In in Hf. destruct Hf as (Hin & E).
    cbn [fst snd] in *. apply text_eqb_eq in E. subst. exact Hin.
  - intro H. apply in_map_iff. exists (n, x). split; [reflexivity|]. apply filter_In. split; [exact H | apply text_eqb_refl].
Qed.

(* how many of the nodes are not yet seen *)
Definition unseen (N seen : list text) : nat := length (filter (fun n => negb (mem n seen)) N).

Lemma unseen_le N seen : unseen N seen <= length N.
Proof. unfold unseen. induction N as [|n N IH]; [apply le_n|]. cbn [filter length]. destruct (negb (mem n seen)); cbn [length]; lia. Qed.

Lemma unseen_app_le N seen more : unseen N (seen ++ more) <= unseen N seen.
Proof.
  unfold unseen. induction N as [|n N IH]; [apply le_n|]. cbn [filter].
  destruct (mem n seen) eqn:E1.
  - assert (E2 : mem n (seen ++ more) = true) by (apply mem_In; apply in_or_app; left; apply mem_In; exact E1). rewrite E2. exact IH.
  - destruct (mem n (seen ++ more)); cbn [negb length]; lia.
Qed.

Lemma unseen_app_lt N seen more z : In z N -> ~ In z seen -> In z more -> unseen N (seen ++ more) < unseen N seen.
Proof.
  unfold unseen. induction N as [|n N IH]; intros Hz Hs Hm; [destruct Hz|]. cbn [filter].
  destruct Hz as [-> | Hz].
  - assert (E1 : mem z seen = false) by (apply mem_false; exact Hs).
    assert (E2 : mem z (seen ++ more) = true) by (apply mem_In; apply in_or_app; right; exact Hm).
    rewrite E1, E2. cbn [negb length]. pose proof (unseen_app_le N seen more) as L. unfold unseen in L. lia.
  - specialize (IH Hz Hs Hm). destruct (mem n seen) eqn:E1.
    + assert (E2 : mem n (seen ++ more) = true) by (apply mem_In; apply in_or_app; left; apply mem_In; exact E1). rewrite E2. exact IH.
    + destruct (mem n (seen ++ more)); cbn [negb length]; lia.
Qed.

Definition closed (edges : list (text * text)) (R : list text) : Prop := forall x y, In x R -> In (x, y) edges -> In y R.

Lemma reach_complete edges N : (forall b a, In (b, a) edges -> In a N) ->
  forall fuel frontier seen,
    (forall x y, In x seen -> In (x, y) edges -> In y seen \/ In y frontier) ->
    (forall x, In x frontier -> In x N) ->
    unseen N seen < fuel ->
    let R := reach edges fuel frontier seen in
    (forall x, In x seen -> In x R) /\ (forall x, In x frontier -> In x R) /\ closed edges R.
Proof.
  intro HN. induction fuel as [|fuel IH]; intros frontier seen Hinv Hfr Hfuel; [lia|]. cbn [reach].
  destruct (filter (fun n => negb (mem n seen)) frontier) as [|z fresh] eqn:E.
  - (* every frontier name is seen already *)
    assert (Hsub : forall x, In x frontier -> In x seen).
    { intros x Hx. destruct (mem x seen) eqn:Em; [apply mem_In; exact Em|].
      assert (In x (filter (fun n => negb (mem n seen)) frontier)) by (apply filter_In; split; [exact Hx | rewrite Em; reflexivity]).
      rewrite E in H. destruct H. }
    cbn zeta. split; [auto|]. split; [exact Hsub|]. intros x y Hx Hxy. destruct (Hinv x y Hx Hxy) as [H | H]; [exact H | apply Hsub; exact H].
  - rewrite <- E. set (fr := filter (fun n => negb (mem n seen)) frontier) in *.
    assert (Hfr_in : forall x, In x fr -> In x frontier /\ ~ In x seen).
    { intros x Hx. apply filter_In in Hx. destruct Hx as (H1 & H2). split; [exact H1|]. apply mem_false. destruct (mem x seen); [discriminate | reflexivity]. }
    assert (Hz : In z fr) by (rewrite E; left; reflexivity).
    specialize (IH (flat_map (succs edges) fr) (seen ++ fr)).
    assert (I1 : forall x y, In x (seen ++ fr) -> In (x, y) edges -> In y (seen ++ fr) \/ In y (flat_map (succs edges) fr)).
    { intros x y Hx Hxy. apply in_app_or in Hx. destruct Hx as [Hx | Hx].
      - destruct (Hinv x y Hx Hxy) as [H | H]; [left; apply in_or_app; left; exact H|].
        destruct (mem y seen) eqn:Em; [left; apply in_or_app; left; apply mem_In; exact Em|].
        left. apply in_or_app. right. apply filter_In. split; [exact H | rewrite Em; reflexivity].
      - right. apply in_flat_map. exists x. split; [exact Hx | apply succs_iff; exact Hxy]. }
    assert (I2 : forall x, In x (flat_map (succs edges) fr) -> In x N).
    { intros x Hx. apply in_flat_map in Hx. destruct Hx as (w & _ & Hx). apply succs_iff in Hx. eapply HN; exact Hx. }
    assert (I3 : unseen N (seen ++ fr) < fuel).
    { destruct (Hfr_in z Hz) as (Hzf & Hzs). pose proof (unseen_app_lt N seen fr z (Hfr z Hzf) Hzs Hz). lia. }
    destruct (IH I1 I2 I3) as (R1 & R2 & R3). cbn zeta. split; [|split; [|exact R3]].
    + intros x Hx. apply R1. apply in_or_app. left. exact Hx.
    + intros x Hx. destruct (mem x seen) eqn:Em.
      * apply R1. apply in_or_app. left. apply mem_In. exact Em.
      * apply R1. apply in_or_app. right. apply filter_In. split; [exact Hx | rewrite Em; reflexivity].
Qed.

(* reachability along the edges *)
Inductive epath (edges : list (text * text)) : text -> text -> Prop :=
  | ep_refl n : epath edges n n
  | ep_step r b a : epath edges r b -> In (b, a) edges -> epath edges r a.

Lemma closed_epath edges R r x : closed edges R -> In r R -> epath edges r x -> In x R.
Proof. intros Hc Hr Hp. induction Hp as [n|r b a _ IH Hba]; [exact Hr|]. eapply Hc; [apply IH; exact Hr | exact Hba]. Qed.

Lemma node_in nodes n : node_data nodes n <> None -> In n (map fst nodes).
Proof.
  induction nodes as [|[m d] l IH]; cbn [node_data map fst]; [intro H; contradiction H; reflexivity|].
  destruct (text_eqb m n) eqn:E; [intros _; left; apply text_eqb_eq; exact E | intro H; right; apply IH; exact H].
Qed.

Theorem reach_from_complete s r x :
  (forall b a, In (b, a) (d_edges s) -> node_data (d_nodes s) a <> None) -> node_data (d_nodes s) r <> None ->
  epath (d_edges s) r x -> In x (reach_from s r).
Proof.
  intros He Hr Hp. unfold reach_from.
  pose proof (node_in (d_nodes s)) as Hnode.
  pose proof (reach_complete (d_edges s) (map fst (d_nodes s)) (fun b a H => Hnode a (He b a H)) (S (length (d_nodes s))) [r] []) as RC.
  destruct RC as (_ & R2 & R3).
  - intros x0 y [].
  - intros x0 [<- | []]. apply Hnode. exact Hr.
  - pose proof (unseen_le (map fst (d_nodes s)) []) as L. rewrite map_length in L. lia.
  - eapply closed_epath; [exact R3 | apply R2; left; reflexivity | exact Hp].
Qed.
