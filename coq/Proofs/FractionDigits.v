(* The digits the renderer writes for the fraction of a second (Model/TimeRender.v fraction_of_second): digits, length and value,
   for EVERY number of microseconds below 10^6, by a general argument about digit lists (a list is its significant part followed
   by zeros; cutting it anywhere inside the zeros keeps the value, scaled) -- no enumeration. *)
From Coq Require Import List ZArith NArith Bool Lia Arith ZifyBool ZifyN ZifyNat.
From Verif Require Import Base.Text Model.Literals Model.TimeRender Proofs.LitProofs.
Import ListNotations.
Open Scope N_scope.
Ltac Zify.zify_post_hook ::= Z.div_mod_to_equations.

(* ---- lists of digits ---- *)
Lemma horner_from_app base a l1 l2 : horner_from base a (l1 ++ l2) = horner_from base (horner_from base a l1) l2.
Proof. unfold horner_from. apply fold_left_app. Qed.

Lemma horner_zeros base a m : horner_from base a (repeat 0 m) = a * base ^ N.of_nat m.
Proof.
  revert a. induction m as [|m IH]; intro a.
  - cbn. lia.
  - cbn [repeat]. unfold horner_from in *. cbn [fold_left]. rewrite IH. rewrite Nat2N.inj_succ, N.pow_succ_r'. lia.
Qed.

Lemma horner_app_zeros base l m : horner base (l ++ repeat 0 m) = horner base l * base ^ N.of_nat m.
Proof. unfold horner. rewrite horner_from_app. apply horner_zeros. Qed.

Lemma drop_zeros_split l : l = repeat 0 (length l - length (drop_zeros l)) ++ drop_zeros l /\ (length (drop_zeros l) <= length l)%nat.
Proof.
  induction l as [|x r [IH1 IH2]]; [split; reflexivity|].
  destruct x as [|p].
  - cbn [drop_zeros length]. split; [|lia].
    replace (S (length r) - length (drop_zeros r))%nat with (S (length r - length (drop_zeros r))) by lia.
    cbn [repeat app]. f_equal. exact IH1.
  - cbn [drop_zeros length]. split; [|lia]. replace (S (length r) - S (length r))%nat with 0%nat by lia. reflexivity.
Qed.

Lemma rev_repeat {A} (x : A) m : rev (repeat x m) = repeat x m.
Proof.
  induction m as [|m IH]; [reflexivity|]. cbn [repeat rev]. rewrite IH.
  clear IH. induction m as [|m IH]; [reflexivity|]. cbn [repeat app]. f_equal. exact IH.
Qed.

Lemma firstn_repeat_le {A} (x : A) m j : (m <= j)%nat -> firstn m (repeat x j) = repeat x m.
Proof.
  revert j. induction m as [|m IH]; intros j H; [reflexivity|]. destruct j as [|j]; [lia|].
  cbn [repeat firstn]. f_equal. apply IH. lia.
Qed.

(* a digit list is its significant part followed by zeros; cutting it anywhere inside the zeros keeps the value, scaled *)
Lemma cut_in_zeros (ds : list N) n :
  let k := length (drop_zeros (rev ds)) in
  (k <= n <= length ds)%nat ->
  horner 10 (firstn n ds) * 10 ^ N.of_nat (length ds - n) = horner 10 ds.
Proof.
  intros k Hn. destruct (drop_zeros_split (rev ds)) as [E Hle]. rewrite rev_length in E, Hle.
  set (D := drop_zeros (rev ds)) in *. fold k in E, Hle. set (j := (length ds - k)%nat) in *.
  assert (Eds : ds = rev D ++ repeat 0 j).
  { rewrite <- (rev_involutive ds), E, rev_app_distr, rev_repeat. reflexivity. }
  assert (Hk : length (rev D) = k) by (rewrite rev_length; reflexivity).
  assert (Hlen : length ds = (k + j)%nat) by lia.
  rewrite Eds at 1 3. rewrite firstn_app, Hk.
  rewrite (firstn_all2 (rev D)) by lia.
  assert (Ef : firstn (n - k) (repeat 0 j) = repeat 0 (n - k)).
  { apply firstn_repeat_le. lia. }
  rewrite Ef, !horner_app_zeros. rewrite <- N.mul_assoc, <- N.pow_add_r. f_equal. f_equal. lia.
Qed.

(* ---- the six digits of a number of microseconds ---- *)
Lemma digits6_value m : m < 1000000 -> horner 10 (digits6 m) = m.
Proof. intro H. unfold digits6, horner, horner_from. cbn [fold_left]. lia. Qed.

Lemma digits6_digits m : Forall (fun x => x < 10) (digits6 m).
Proof. unfold digits6. repeat constructor; apply N.mod_lt; lia. Qed.

Lemma digits6_length m : length (digits6 m) = 6%nat.
Proof. reflexivity. Qed.

Lemma Forall_firstn_ {A} (P : A -> Prop) n l : Forall P l -> Forall P (firstn n l).
Proof.
  intro H. rewrite <- (firstn_skipn n l) in H. apply Forall_app in H. exact (proj1 H).
Qed.

Definition frac_len (m : N) : nat := Nat.max 2 (length (drop_zeros (rev (digits6 m)))).

Lemma frac_len_bounds m : (2 <= frac_len m <= 6)%nat /\ (length (drop_zeros (rev (digits6 m))) <= frac_len m)%nat.
Proof.
  unfold frac_len. destruct (drop_zeros_split (rev (digits6 m))) as [_ H]. rewrite rev_length, digits6_length in H. lia.
Qed.

Theorem fraction_facts m : m < 1000000 ->
  Forall (fun x => x < 10) (fraction_of_second m) /\
  (2 <= length (fraction_of_second m) <= 6)%nat /\
  horner 10 (fraction_of_second m) * 10 ^ N.of_nat (15 - length (fraction_of_second m)) = m * 1000000000.
Proof.
  intro H. destruct (frac_len_bounds m) as [[B1 B2] B3].
  change (fraction_of_second m) with (firstn (frac_len m) (digits6 m)).
  assert (L : length (firstn (frac_len m) (digits6 m)) = frac_len m) by (rewrite firstn_length, digits6_length; lia).
  split; [apply Forall_firstn_; apply digits6_digits|]. split; [lia|]. rewrite L.
  pose proof (cut_in_zeros (digits6 m) (frac_len m)) as Cz. cbv zeta in Cz. rewrite digits6_length in Cz.
  specialize (Cz (conj B3 B2)). rewrite (digits6_value m H) in Cz.
  replace (15 - frac_len m)%nat with ((6 - frac_len m) + 9)%nat by lia.
  rewrite Nat2N.inj_add, N.pow_add_r, N.mul_assoc, Cz. reflexivity.
Qed.
