(* C11 / C06: what the analysis is given depends on the current contents only -- not on the order in which the documents were
   stored, changed, closed and opened again -- because the sources are sorted by identifier before they are analyzed.  With
   this the history independence of the language server (LspInv.run_same) holds for EVERY analysis, without assuming that
   the analysis is insensitive to the order of its input; and the command line, which fills the same project from files and
   calls the same function, analyzes the same list. *)
From Coq Require Import List NArith ZArith Bool Lia Sorting.Sorted.
From Verif Require Import Model.Lsp Proofs.LspInv Model.Project.
Import ListNotations.
Open Scope N_scope.

Lemma insert_key_in k l x : In x (insert_key k l) <-> x = k \/ In x l.
Proof.
  induction l as [|y r IH]; cbn [insert_key].
  - split; [intros [<-|[]]; left; reflexivity | intros [->|[]]; left; reflexivity].
  - destruct (N.ltb_spec k y) as [Hlt|Hge].
    + split; [intros [<-|H]; [left; reflexivity | right; exact H] | intros [->|H]; [left; reflexivity | right; exact H]].
    + destruct (N.eqb_spec k y) as [E|NE].
      * subst y. split; [intro H; right; exact H | intros [->|H]; [left; reflexivity | exact H]].
      * cbn [In]. rewrite IH. tauto.
Qed.

Lemma canon_in l x : In x (canon l) <-> In x l.
Proof.
  induction l as [|y r IH]; [reflexivity|]. cbn [canon fold_right]. rewrite insert_key_in. fold (canon r). rewrite IH. cbn [In]. split; intros [H|H]; auto.
Qed.

Lemma insert_key_sorted k l : StronglySorted N.lt l -> StronglySorted N.lt (insert_key k l).
Proof.
  induction l as [|y r IH]; intro H; cbn [insert_key].
  - constructor; [constructor | constructor].
  - inversion H as [|? ? Hr Hall]; subst.
    destruct (N.ltb_spec k y) as [Hlt|Hge].
    + constructor; [exact H|]. constructor; [exact Hlt|]. rewrite Forall_forall in *. intros z Hz. specialize (Hall z Hz). lia.
    + destruct (N.eqb_spec k y) as [E|NE]; [exact H|].
      constructor; [exact (IH Hr)|]. rewrite Forall_forall in *. intros z Hz. apply insert_key_in in Hz. destruct Hz as [->|Hz]; [lia | exact (Hall z Hz)].
Qed.

Lemma canon_sorted l : StronglySorted N.lt (canon l).
Proof. induction l as [|y r IH]; [constructor|]. cbn [canon fold_right]. apply insert_key_sorted. exact IH. Qed.

(* two strictly increasing lists with the same elements are the same list *)
Lemma sorted_unique a : forall b, StronglySorted N.lt a -> StronglySorted N.lt b -> (forall x, In x a <-> In x b) -> a = b.
Proof.
  induction a as [|x a IH]; intros b Ha Hb Hin.
  - destruct b as [|y b]; [reflexivity|]. exfalso. exact (proj2 (Hin y) (or_introl eq_refl)).
  - destruct b as [|y b]; [exfalso; exact (proj1 (Hin x) (or_introl eq_refl))|].
    inversion Ha as [|? ? Ha' Hxa]; subst. inversion Hb as [|? ? Hb' Hyb]; subst.
    rewrite Forall_forall in Hxa, Hyb.
    assert (E : x = y).
    { destruct (proj1 (Hin x) (or_introl eq_refl)) as [E|Hx]; [symmetry; exact E|].
      destruct (proj2 (Hin y) (or_introl eq_refl)) as [E|Hy]; [exact E|].
      specialize (Hyb x Hx). specialize (Hxa y Hy). lia. }
    subst y. f_equal. apply IH; [exact Ha' | exact Hb'|].
    intro z. split; intro Hz.
    + destruct (proj1 (Hin z) (or_intror Hz)) as [E|H]; [|exact H]. subst z. specialize (Hxa x Hz). lia.
    + destruct (proj2 (Hin z) (or_intror Hz)) as [E|H]; [|exact H]. subst z. specialize (Hyb x Hz). lia.
Qed.

Section ProjectProofs.
  Variable text : Type.
  Variable A : Type.
  Variable analysis : list (N * text) -> list A.
  Variable mentions : A -> N -> bool.

  Lemma get_some_in (d : docs text) k : In k (map fst d) <-> get text d k <> None.
  Proof.
    induction d as [|[k' t] r IH]; cbn [map fst get In]; [split; [intros [] | intro H; exact (H eq_refl)]|].
    destruct (N.eqb_spec k' k) as [E|NE].
    - split; [intros _; discriminate | intros _; left; exact E].
    - rewrite <- IH. split; [intros [E|H]; [contradiction | exact H] | intro H; right; exact H].
  Qed.

  (* the list the analysis is given is a function of the contents *)
  Theorem listing_ext (a b : docs text) : same_contents text a b -> listing text a = listing text b.
  Proof.
    intro H. unfold listing.
    assert (Hc : canon (map fst a) = canon (map fst b)).
    { apply sorted_unique; [apply canon_sorted | apply canon_sorted|]. intro x. rewrite !canon_in, !get_some_in, (H x). reflexivity. }
    rewrite Hc. apply flat_map_ext. intro k. rewrite (H k). reflexivity.
  Qed.

  (* it holds every stored document once, with its current text, in the order of the identifiers *)
  Theorem listing_spec (d : docs text) k t : In (k, t) (listing text d) <-> get text d k = Some t.
  Proof.
    unfold listing. rewrite in_flat_map. split.
    - intros (k' & Hk & Hin). destruct (get text d k') as [t'|] eqn:E; [|destruct Hin]. destruct Hin as [Hin|[]]. inversion Hin; subst. exact E.
    - intro E. exists k. split; [apply canon_in, get_some_in; congruence | rewrite E; left; reflexivity].
  Qed.

  Theorem listing_keys (d : docs text) : StronglySorted N.lt (map fst (listing text d)).
  Proof.
    unfold listing. pose proof (canon_sorted (map fst d)) as Hs. induction (canon (map fst d)) as [|k r IH]; [constructor|].
    inversion Hs as [|? ? Hr Hall]; subst. cbn [flat_map]. destruct (get text d k) as [t|]; [|exact (IH Hr)].
    cbn [app map fst]. constructor; [exact (IH Hr)|]. rewrite Forall_forall in *. intros z Hz.
    apply in_map_iff in Hz. destruct Hz as ([k' t'] & <- & Hin). apply in_flat_map in Hin. destruct Hin as (k'' & Hk'' & Hin).
    destruct (get text d k''); [|destruct Hin]. destruct Hin as [Hin|[]]. inversion Hin; subst. exact (Hall _ Hk'').
  Qed.

  Theorem file_diags_ext (a b : docs text) u : same_contents text a b ->
    file_diags text A analysis mentions a u = file_diags text A analysis mentions b u.
  Proof. intro H. unfold file_diags, semantic. rewrite (listing_ext a b H). reflexivity. Qed.

  (* history independence for every analysis: servers whose stored contents agree write the same frames for every further
     message sequence, what they publish being the analysis of the sorted sources restricted to the notified file *)
  Theorem run_same_sorted (T : Type) no_diag tokens (null_tokens : T) (ms : list (msg text)) (a b : docs text) :
    same_contents text a b ->
    same_contents text (fst (run text (list A) T (file_diags text A analysis mentions) no_diag tokens null_tokens a ms))
                       (fst (run text (list A) T (file_diags text A analysis mentions) no_diag tokens null_tokens b ms)) /\
    snd (run text (list A) T (file_diags text A analysis mentions) no_diag tokens null_tokens a ms)
    = snd (run text (list A) T (file_diags text A analysis mentions) no_diag tokens null_tokens b ms).
  Proof. apply run_same. intros x y u H. apply file_diags_ext. exact H. Qed.

  (* the command line fills the same kind of project from files and calls the same function: when the files hold what the
     documents hold, the analysis is given the same list, so the diagnostics that mention a file are the same *)
  Theorem same_as_check (lsp files : docs text) u : same_contents text lsp files ->
    file_diags text A analysis mentions lsp u = filter (fun x => mentions x u) (semantic text A analysis files).
  Proof. intro H. rewrite (file_diags_ext lsp files u H). reflexivity. Qed.
End ProjectProofs.

(* non-vacuity: an analysis that is sensitive to the order of its input (it reports the first source only) still gives the same
   answer whatever the order in which the documents were stored *)
Example ex_order_sensitive_analysis :
  let analysis := fun l : list (N * nat) => match l with [] => [] | (k, t) :: _ => [(k, t)] end in
  let mentions := fun (a : N * nat) (u : N) => fst a =? u in
  let a := put nat (put nat [] 2 20%nat) 1 10%nat in
  let b := put nat (put nat (put nat [] 1 11%nat) 2 20%nat) 1 10%nat in
  same_contents nat a b /\ listing nat a = [(1, 10%nat); (2, 20%nat)] /\
  file_diags nat (N * nat) analysis mentions a 1 = [(1, 10%nat)] /\ file_diags nat (N * nat) analysis mentions b 1 = [(1, 10%nat)].
Proof.
  cbv zeta. split; [|vm_compute; repeat split; reflexivity].
  intro u. rewrite !get_put. destruct (1 =? u); [reflexivity|]. destruct (2 =? u); [reflexivity|]. destruct (1 =? u); reflexivity.
Qed.
