(* Theorems about the rule models of Model/Rules.v: for every list of facts (no bound)
     - what each rule accepts, stated declaratively (C02);
     - a fault is reported whatever accompanies it (C03);
     - the verdict does not depend on the order of the facts / of the units (C06). *)
From Coq Require Import List NArith Bool Arith Lia Permutation.
From Coq Require String.
Import String.StringSyntax.
From Verif Require Import Base.Text Gen.GenRules Model.Rules.
Import ListNotations.

(* ---- lists ---- *)
Lemma mem_In k l : mem k l = true <-> In k l.
Proof.
  unfold mem. rewrite existsb_exists. split.
  - intros (x & Hx & E). apply text_eqb_eq in E. subst. exact Hx.
  - intro H. exists k. split; [exact H | apply text_eqb_refl].
Qed.

Lemma mem_false k l : mem k l = false <-> ~ In k l.
Proof.
  rewrite <- mem_In. destruct (mem k l); split; intro H.
  - discriminate H.
  - contradiction H. reflexivity.
  - intro H'. discriminate H'.
  - reflexivity.
Qed.

Lemma flat_map_nil {A B} (f : A -> list B) l : flat_map f l = [] <-> forall x, In x l -> f x = [].
Proof.
  induction l as [|a l IH]; cbn [flat_map]; split; intro H.
  - intros x [].
  - reflexivity.
  - apply app_eq_nil in H. destruct H as [H1 H2]. intros x [<- | Hx]; [exact H1 | apply IH; assumption].
  - rewrite (H a (or_introl eq_refl)). cbn [app]. apply IH. intros x Hx. apply H. right. exact Hx.
Qed.

Lemma flat_map_perm {A B} (f : A -> list B) l l' : Permutation l l' -> Permutation (flat_map f l) (flat_map f l').
Proof.
  induction 1 as [|x l l' _ IH|x y l|l l' l'' _ IH1 _ IH2]; cbn [flat_map].
  - constructor.
  - apply Permutation_app_head. exact IH.
  - rewrite !app_assoc. apply Permutation_app_tail. apply Permutation_app_comm.
  - eapply Permutation_trans; eassumption.
Qed.

Lemma concat_perm {A} (us us' : list (list A)) : Permutation us us' -> Permutation (concat us) (concat us').
Proof.
  induction 1 as [|x l l' _ IH|x y l|l l' l'' _ IH1 _ IH2]; cbn [concat].
  - constructor.
  - apply Permutation_app_head. exact IH.
  - rewrite !app_assoc. apply Permutation_app_tail. apply Permutation_app_comm.
  - eapply Permutation_trans; eassumption.
Qed.

Lemma perm_nil_iff {A} (l l' : list A) : Permutation l l' -> (l = [] <-> l' = []).
Proof.
  intro H. split; intros ->.
  - apply Permutation_nil. exact H.
  - apply Permutation_nil. apply Permutation_sym. exact H.
Qed.

(* ---- rules that look at each fact by itself: rule_var_decl_const_not_fb, rule_program_task_definition_exists,
        rule_unsupported_stdlib_type ---- *)
Section PerFact.
  Variable g : fact -> list diag.
  Definition per_fact (fs : list fact) : list diag := flat_map g fs.

  (* the diagnostics of a library are those of its parts, in order: nothing is added, dropped or hidden *)
  Lemma per_fact_app a b : per_fact (a ++ b) = per_fact a ++ per_fact b.
  Proof. apply flat_map_app. Qed.

  Lemma per_fact_units us : per_fact (concat us) = flat_map per_fact us.
  Proof. induction us as [|u us IH]; [reflexivity|]. cbn [concat flat_map]. rewrite per_fact_app, IH. reflexivity. Qed.

  (* a fault in one part is reported whatever the other parts are *)
  Lemma per_fact_not_masked a u b d : In d (per_fact u) -> In d (per_fact (a ++ u ++ b)).
  Proof. intro H. rewrite !per_fact_app. apply in_or_app. right. apply in_or_app. left. exact H. Qed.

  (* any order of the units gives the same diagnostics (as a multiset), hence the same verdict *)
  Lemma per_fact_perm us us' : Permutation us us' -> Permutation (per_fact (concat us)) (per_fact (concat us')).
  Proof. intro H. apply flat_map_perm. apply concat_perm. exact H. Qed.

  Lemma per_fact_perm_facts fs fs' : Permutation fs fs' -> Permutation (per_fact fs) (per_fact fs').
  Proof. apply flat_map_perm. Qed.
End PerFact.

Lemma rule_const_not_fb_is : rule_const_not_fb = per_fact const_fb_diag.  Proof. reflexivity. Qed.
Lemma rule_task_is : rule_task = per_fact task_diag.  Proof. reflexivity. Qed.
Lemma rule_stdlib_is : rule_stdlib = per_fact stdlib_diag.  Proof. reflexivity. Qed.

(* P0017 exactly for the CONSTANT function block instances *)
Theorem rule_const_not_fb_exact fs :
  rule_const_not_fb fs = [] <-> forall v, In (FVar v) fs -> is_const v = true -> is_fb v = false.
Proof.
  unfold rule_const_not_fb. rewrite flat_map_nil. split.
  - intros H v Hv Hc. specialize (H _ Hv). cbn [const_fb_diag] in H. rewrite Hc in H. cbn [andb] in H.
    destruct (is_fb v); [discriminate H | reflexivity].
  - intros H [a1 a2 a3|a1 a2|a1 a2| |v|a1|a1 a2 a3|a1 a2 a3|a1 a2|a1 a2] Hx; try reflexivity. cbn [const_fb_diag].
    destruct (is_const v) eqn:Ec; [|reflexivity]. rewrite (H v Hx Ec). reflexivity.
Qed.

Theorem rule_const_not_fb_reports fs v :
  In (FVar v) fs -> is_const v = true -> is_fb v = true -> In (P_FunctionBlockNotConstant, v_pos v) (rule_const_not_fb fs).
Proof.
  intros Hv Hc Hf. unfold rule_const_not_fb. apply in_flat_map. exists (FVar v). split; [exact Hv|].
  cbn [const_fb_diag]. rewrite Hc, Hf. left. reflexivity.
Qed.

(* P0011 exactly for the programs associated with a task their resource does not declare *)
Definition task_known (tasks : list text) (t : text) : Prop := exists t', In t' tasks /\ key t' = key t.

Lemma mem_map_key t tasks : mem (key t) (map key tasks) = true <-> task_known tasks t.
Proof.
  rewrite mem_In, in_map_iff. unfold task_known. split; intros (t' & A & B); exists t'; split; auto.
Qed.

Theorem rule_task_exact fs :
  rule_task fs = [] <->
  forall tasks progs, In (FRes tasks progs) fs -> forall t pos, In (Some (t, pos)) progs -> task_known tasks t.
Proof.
  unfold rule_task. rewrite flat_map_nil. split.
  - intros H tasks progs Hr t pos Hp. specialize (H _ Hr). cbn [task_diag] in H. unfold task_diags in H.
    rewrite flat_map_nil in H. specialize (H _ Hp). cbn in H. apply mem_map_key.
    destruct (mem (key t) (map key tasks)); [reflexivity | discriminate H].
  - intros H [a1 a2 a3|a1 a2|a1 a2| |a1|a1|a1 a2 a3|a1 a2 a3|a1 a2|tasks progs] Hx; try reflexivity. cbn [task_diag]. unfold task_diags. apply flat_map_nil.
    intros [[t pos]|] Hp; [|reflexivity]. cbn. rewrite (proj2 (mem_map_key t tasks) (H _ _ Hx _ _ Hp)). reflexivity.
Qed.

(* P0029 exactly for the instances of an unsupported standard function block *)
Theorem rule_stdlib_exact fs :
  rule_stdlib fs = [] <-> forall ty pos, In (FFbInit ty pos) fs -> ~ In (key ty) unsupported_types.
Proof.
  unfold rule_stdlib. rewrite flat_map_nil. split.
  - intros H ty pos Hx. specialize (H _ Hx). cbn [stdlib_diag] in H. apply mem_false.
    destruct (mem (key ty) unsupported_types); [discriminate H | reflexivity].
  - intros H [a1 a2 a3|a1 a2|a1 a2| |a1|a1|a1 a2 a3|a1 a2 a3|ty pos|a1 a2] Hx; try reflexivity. cbn [stdlib_diag].
    rewrite (proj2 (mem_false _ _) (H _ _ Hx)). reflexivity.
Qed.

(* ---- rule_var_decl_const_initialized ---- *)
Definition missing_diag (f : fact) : list diag :=
  match f with
  | FVar v => match const_status v with CsMissing => [(P_ConstantMustHaveInitializer, v_pos v)] | _ => [] end
  | _ => []
  end.
Definition no_todo (fs : list fact) : Prop := forall v, In (FVar v) fs -> const_status v <> CsTodo.

Lemma const_init_go_spec : forall fs acc, no_todo fs -> const_init_go fs acc = rev acc ++ flat_map missing_diag fs.
Proof.
  induction fs as [|f fs IH]; intros acc Hn; cbn [const_init_go flat_map].
  - rewrite app_nil_r. reflexivity.
  - assert (Hn' : no_todo fs) by (intros v Hv; apply Hn; right; exact Hv).
    destruct f as [a1 a2 a3|a1 a2|a1 a2| |v|a1|a1 a2 a3|a1 a2 a3|a1 a2|a1 a2]; cbn [missing_diag app]; try (apply IH; exact Hn').
    destruct (const_status v) eqn:E.
    + apply IH. exact Hn'.
    + rewrite IH by exact Hn'. cbn [rev]. rewrite <- app_assoc. reflexivity.
    + exfalso. exact (Hn v (or_introl eq_refl) E).
Qed.

(* without an initializer kind the rule does not handle, the diagnostics are those of the single declarations, in order *)
Theorem rule_const_init_per_fact fs : no_todo fs -> rule_const_init fs = flat_map missing_diag fs.
Proof. intro H. unfold rule_const_init. rewrite const_init_go_spec by exact H. reflexivity. Qed.

Lemma const_init_go_todo : forall fs acc, ~ no_todo fs -> const_init_go fs acc = [todo_diag].
Proof.
  induction fs as [|f fs IH]; intros acc Hn.
  - exfalso. apply Hn. intros v [].
  - destruct f as [a1 a2 a3|a1 a2|a1 a2| |v|a1|a1 a2 a3|a1 a2 a3|a1 a2|a1 a2]; cbn [const_init_go];
      try (apply IH; intro H; apply Hn; intros v0 [E|Hv]; [discriminate E | exact (H v0 Hv)]).
    destruct (const_status v) eqn:E; try reflexivity.
    + apply IH. intro H. apply Hn. intros v0 [E0|Hv]; [injection E0 as <-; rewrite E; discriminate | exact (H v0 Hv)].
    + apply IH. intro H. apply Hn. intros v0 [E0|Hv]; [injection E0 as <-; rewrite E; discriminate | exact (H v0 Hv)].
Qed.

Lemma cstat_dec (v : var) : {const_status v = CsTodo} + {const_status v <> CsTodo}.
Proof. destruct (const_status v); [right | right | left]; try discriminate; reflexivity. Qed.

Lemma no_todo_dec fs : {no_todo fs} + {~ no_todo fs}.
Proof.
  induction fs as [|f fs [IH|IH]].
  - left. intros v [].
  - destruct f as [a1 a2 a3|a1 a2|a1 a2| |v|a1|a1 a2 a3|a1 a2 a3|a1 a2|a1 a2]; try (left; intros v0 [E|Hv]; [discriminate E | exact (IH v0 Hv)]).
    destruct (cstat_dec v) as [E|E].
    + right. intro H. exact (H v (or_introl eq_refl) E).
    + left. intros v0 [E0|Hv]; [injection E0 as <-; exact E | exact (IH v0 Hv)].
  - right. intro H. apply IH. intros v Hv. apply H. right. exact Hv.
Qed.

(* accepted exactly when every constant that is not external has an initial value *)
Theorem rule_const_init_exact fs :
  rule_const_init fs = [] <-> forall v, In (FVar v) fs -> const_status v = CsOk.
Proof.
  destruct (no_todo_dec fs) as [Hn|Hn].
  - rewrite (rule_const_init_per_fact fs Hn), flat_map_nil. split.
    + intros H v Hv. specialize (H _ Hv). cbn [missing_diag] in H. pose proof (Hn v Hv) as Ht.
      destruct (const_status v); [reflexivity | discriminate H | contradiction Ht; reflexivity].
    + intros H [a1 a2 a3|a1 a2|a1 a2| |v|a1|a1 a2 a3|a1 a2 a3|a1 a2|a1 a2] Hx; try reflexivity. cbn [missing_diag]. rewrite (H v Hx). reflexivity.
  - unfold rule_const_init. rewrite (const_init_go_todo fs [] Hn). split; [discriminate|].
    intro H. exfalso. apply Hn. intros v Hv. rewrite (H v Hv). discriminate.
Qed.

(* the verdict does not depend on the order of the declarations, and a fault is not hidden by what accompanies it *)
Theorem rule_const_init_perm fs fs' : Permutation fs fs' -> (rule_const_init fs = [] <-> rule_const_init fs' = []).
Proof.
  intro H. rewrite !rule_const_init_exact. split; intros A v Hv; apply A.
  - eapply Permutation_in; [apply Permutation_sym; exact H | exact Hv].
  - eapply Permutation_in; [exact H | exact Hv].
Qed.

Theorem rule_const_init_not_masked a u b : rule_const_init u <> [] -> rule_const_init (a ++ u ++ b) <> [].
Proof.
  intros H E. apply H. apply rule_const_init_exact. intros v Hv.
  apply (proj1 (rule_const_init_exact _) E). apply in_or_app. right. apply in_or_app. left. exact Hv.
Qed.

(* ---- rule_var_decl_global_const_requires_external_const ---- *)
Definition gconst (v : var) : bool := is_global v && is_const v.
Definition ext_nonconst (v : var) : bool := is_external v && negb (is_const v).

Lemma global_consts_none fs : global_consts fs = None <-> exists v, In (FVar v) fs /\ gconst v = true /\ v_name v = None.
Proof.
  induction fs as [|f fs IH]; cbn [global_consts].
  - split; [discriminate | intros (v & [] & _)].
  - destruct f as [a1 a2 a3|a1 a2|a1 a2| |v|a1|a1 a2 a3|a1 a2 a3|a1 a2|a1 a2];
      try (rewrite IH; split; intros (v0 & Hv & R); exists v0; (split; [|exact R]); [right; exact Hv | destruct Hv as [E|Hv]; [discriminate E | exact Hv]]).
    fold (gconst v). destruct (gconst v) eqn:Eg.
    + destruct (v_name v) as [n|] eqn:En.
      * destruct (global_consts fs) as [l|] eqn:El.
        -- split; [discriminate|]. intros (v0 & [E0|Hv] & G & Nn).
           ++ injection E0 as <-. rewrite En in Nn. discriminate.
           ++ assert (X : Some l = None) by (apply IH; exists v0; auto). discriminate X.
        -- split; [|reflexivity]. intros _. destruct (proj1 IH eq_refl) as (v0 & Hv & R). exists v0. split; [right; exact Hv | exact R].
      * split; [|reflexivity]. intros _. exists v. split; [left; reflexivity | split; assumption].
    + rewrite IH. split; intros (v0 & Hv & R).
      * exists v0. split; [right; exact Hv | exact R].
      * destruct Hv as [E0|Hv]; [injection E0 as <-; destruct R as (G & _); rewrite Eg in G; discriminate | exists v0; split; assumption].
Qed.

Lemma global_consts_some fs cs : global_consts fs = Some cs ->
  forall k, In k cs <-> exists v n, In (FVar v) fs /\ gconst v = true /\ v_name v = Some n /\ key n = k.
Proof.
  revert cs. induction fs as [|f fs IH]; intros cs; cbn [global_consts].
  - intros [= <-] k. split; [intros [] | intros (v & n & [] & _)].
  - destruct f as [a1 a2 a3|a1 a2|a1 a2| |v|a1|a1 a2 a3|a1 a2 a3|a1 a2|a1 a2];
      try (intros H k; rewrite (IH cs H k); split; intros (v0 & n1 & Hv & R); exists v0, n1; (split; [|exact R]);
           [right; exact Hv | destruct Hv as [E|Hv]; [discriminate E | exact Hv]]).
    fold (gconst v). destruct (gconst v) eqn:Eg.
    + destruct (v_name v) as [n|] eqn:En; [|discriminate]. destruct (global_consts fs) as [l|] eqn:El; [|discriminate].
      intros [= <-] k. cbn [In]. rewrite (IH l eq_refl k). split.
      * intros [<- | (v0 & n0 & Hv & R)]; [exists v, n; repeat split; auto | exists v0, n0; split; [right; exact Hv | exact R]].
      * intros (v0 & n0 & [E0|Hv] & G & Nn & K).
        -- injection E0 as <-. rewrite En in Nn. injection Nn as <-. left. exact K.
        -- right. exists v0, n0. auto.
    + intros H k. rewrite (IH cs H k). split; intros (v0 & n & Hv & R).
      * exists v0, n. split; [right; exact Hv | exact R].
      * destruct Hv as [E0|Hv]; [injection E0 as <-; destruct R as (G & _); rewrite Eg in G; discriminate | exists v0, n; split; assumption].
Qed.

Lemma first_diag_nil g fs : first_diag g fs = [] <-> forall f, In f fs -> g f = None.
Proof.
  induction fs as [|f fs IH]; cbn [first_diag]; split; intro H.
  - intros f [].
  - reflexivity.
  - destruct (g f) eqn:E; [discriminate|]. intros f0 [<- | Hf]; [exact E | apply IH; assumption].
  - rewrite (H f (or_introl eq_refl)). apply IH. intros f0 Hf. apply H. right. exact Hf.
Qed.

(* accepted exactly when no constant global is directly represented and no non-constant external carries the name of a
   constant global: a statement about the set of declarations, not about their order *)
Theorem rule_global_const_exact fs :
  rule_global_const fs = [] <->
  (forall v, In (FVar v) fs -> gconst v = true -> v_name v <> None) /\
  (forall e n, In (FVar e) fs -> ext_nonconst e = true -> v_name e = Some n ->
   forall v m, In (FVar v) fs -> gconst v = true -> v_name v = Some m -> key m <> key n).
Proof.
  unfold rule_global_const. destruct (global_consts fs) as [cs|] eqn:E.
  - pose proof (global_consts_some fs cs E) as S.
    assert (Hdirect : forall v, In (FVar v) fs -> gconst v = true -> v_name v <> None).
    { intros v Hv G Nn. assert (X : global_consts fs = None) by (apply global_consts_none; exists v; auto). rewrite E in X. discriminate. }
    rewrite first_diag_nil. split.
    + intro H. split; [exact Hdirect|]. intros e n He Hx Hn v m Hv G Hm K.
      specialize (H _ He). cbn [ext_bad] in H. fold (ext_nonconst e) in H. rewrite Hx, Hn in H.
      assert (Hin : In (key n) cs) by (apply S; exists v, m; repeat split; auto).
      apply mem_In in Hin. rewrite Hin in H. discriminate.
    + intros (_ & H) [a1 a2 a3|a1 a2|a1 a2| |e|a1|a1 a2 a3|a1 a2 a3|a1 a2|a1 a2] He; try reflexivity. cbn [ext_bad]. fold (ext_nonconst e).
      destruct (ext_nonconst e) eqn:Hx; [|reflexivity]. destruct (v_name e) as [n|] eqn:Hn; [|reflexivity].
      destruct (mem (key n) cs) eqn:Hm; [|reflexivity]. exfalso.
      apply mem_In in Hm. apply S in Hm. destruct Hm as (v & m & Hv & G & Nm & K). exact (H e n He Hx Hn v m Hv G Nm K).
  - split; [discriminate|]. intros (H & _). exfalso.
    apply global_consts_none in E. destruct E as (v & Hv & G & Nn). exact (H v Hv G Nn).
Qed.

Theorem rule_global_const_perm fs fs' : Permutation fs fs' -> (rule_global_const fs = [] <-> rule_global_const fs' = []).
Proof.
  intro P. assert (I : forall f, In f fs <-> In f fs') by (intro f; split; apply Permutation_in; [exact P | apply Permutation_sym; exact P]).
  rewrite !rule_global_const_exact. split; intros (A & B); split.
  - intros v Hv. apply A. apply I. exact Hv.
  - intros e n He Hx Hn v m Hv. apply (B e n (proj2 (I _) He) Hx Hn v m (proj2 (I _) Hv)).
  - intros v Hv. apply A. apply I. exact Hv.
  - intros e n He Hx Hn v m Hv. apply (B e n (proj1 (I _) He) Hx Hn v m (proj1 (I _) Hv)).
Qed.

(* a non-constant external of a constant global is reported whatever else the library holds (more declarations can only
   add constant globals) *)
Theorem rule_global_const_not_masked a u b : rule_global_const u <> [] -> rule_global_const (a ++ u ++ b) <> [].
Proof.
  intros H E. apply H. apply rule_global_const_exact. apply rule_global_const_exact in E. destruct E as (A & B).
  assert (I : forall f, In f u -> In f (a ++ u ++ b)) by (intros f Hf; apply in_or_app; right; apply in_or_app; left; exact Hf).
  split.
  - intros v Hv. apply A. apply I. exact Hv.
  - intros e n He Hx Hn v m Hv. apply (B e n (I _ He) Hx Hn v m (I _ Hv)).
Qed.

(* ---- rule_use_declared_enumerated_value ---- *)
Local Open Scope nat_scope.
(* the declarative reading: the name leads through aliases to an enumeration with values *)
Inductive resolves (m : list (text * edef)) : text -> list text -> Prop :=
  | RValues k vs : elookup k m = Some (EValues vs) -> resolves m k vs
  | RAlias k t p vs : elookup k m = Some (EAlias t p) -> resolves m t vs -> resolves m k vs.

Definition step (m : list (text * edef)) (k : text) : option text :=
  match elookup k m with Some (EAlias t _) => Some t | _ => None end.
Fixpoint after (m : list (text * edef)) (n : nat) (k : text) : option text :=
  match n with
  | O => Some k
  | S n' => match step m k with Some t => after m n' t | None => None end
  end.

Lemma after_add m a : forall b k, after m (a + b) k = match after m a k with Some k' => after m b k' | None => None end.
Proof.
  induction a as [|a IH]; intros b k; [reflexivity|]. cbn [Nat.add after]. destruct (step m k) as [t|]; [apply IH | reflexivity].
Qed.

Lemma resolves_after m k vs : resolves m k vs -> exists d kv, after m d k = Some kv /\ elookup kv m = Some (EValues vs).
Proof.
  induction 1 as [k vs H|k t p vs H _ (d & kv & A & V)].
  - exists 0, k. split; [reflexivity | exact H].
  - exists (S d), kv. split; [|exact V]. cbn [after]. unfold step. rewrite H. exact A.
Qed.

(* on a cycle of aliases every name has a successor: no enumeration with values is ever reached *)
Lemma cycle_no_values m c t : after m (S c) t = Some t -> forall d kv, after m d t = Some kv -> step m kv <> None.
Proof.
  intros Hc d. induction d as [d IH] using lt_wf_ind. intros kv Hd.
  destruct (le_lt_dec d c) as [Hle|Hgt].
  - (* inside the first round: kv still has (S c - d) >= 1 steps to go *)
    assert (E : S c = d + S (c - d)) by lia. rewrite E, after_add, Hd in Hc. cbn [after] in Hc.
    destruct (step m kv); [discriminate | discriminate Hc].
  - assert (E : d = S c + (d - S c)) by lia. rewrite E, after_add, Hc in Hd. exact (IH (d - S c) ltac:(lia) kv Hd).
Qed.

Lemma values_no_step m kv vs : elookup kv m = Some (EValues vs) -> step m kv = None.
Proof. intro H. unfold step. rewrite H. reflexivity. Qed.

Lemma resolves_not_on_cycle m c t vs : after m (S c) t = Some t -> resolves m t vs -> False.
Proof.
  intros Hc R. destruct (resolves_after m t vs R) as (d & kv & A & V).
  exact (cycle_no_values m c t Hc d kv A (values_no_step m kv vs V)).
Qed.

Lemma elookup_in k m d : elookup k m = Some d -> In k (map fst m).
Proof.
  induction m as [|[k' d'] m IH]; cbn [elookup map fst]; [discriminate|].
  destruct (text_eqb k k') eqn:E; [apply text_eqb_eq in E; subst; intros _; left; reflexivity | intro H; right; apply IH; exact H].
Qed.

(* the walk through the aliases always ends within the fuel the rule model gives it *)
Lemma chase_total m : forall f seen k p, NoDup seen -> ~ In k seen -> incl seen (map fst m) ->
  length m < length seen + f -> chase m f seen k p <> None.
Proof.
  induction f as [|f IH]; intros seen k p Hnd Hk Hincl Hlen.
  - exfalso. pose proof (NoDup_incl_length Hnd Hincl) as L. rewrite map_length in L. lia.
  - cbn [chase]. destruct (elookup k m) as [[t tp|vs]|] eqn:E; try discriminate.
    destruct (mem t (k :: seen)) eqn:M; [discriminate|].
    apply IH.
    + constructor; assumption.
    + apply mem_false. exact M.
    + intros x [<- | Hx]; [eapply elookup_in; exact E | apply Hincl; exact Hx].
    + cbn [length]. lia.
Qed.

Lemma chase_sound m : forall f seen k p vs, chase m f seen k p = Some (inl vs) -> resolves m k vs.
Proof.
  induction f as [|f IH]; intros seen k p vs; cbn [chase]; [discriminate|].
  destruct (elookup k m) as [[t tp|vs']|] eqn:E; try discriminate.
  - destruct (mem t (k :: seen)); [discriminate|]. intro H. eapply RAlias; [exact E | eapply IH; exact H].
  - intros [= <-]. apply RValues. exact E.
Qed.

Lemma chase_complete m : forall k vs, resolves m k vs ->
  forall f seen p, NoDup seen -> incl seen (map fst m) -> (forall s, In s seen -> exists n, after m (S n) s = Some k) ->
  length m < length seen + f -> chase m f seen k p = Some (inl vs).
Proof.
  induction 1 as [k vs H|k t tp vs H R IH]; intros f seen p Hnd Hincl Hreach Hlen.
  - destruct f as [|f]; [exfalso; pose proof (NoDup_incl_length Hnd Hincl) as L; rewrite map_length in L; lia|].
    cbn [chase]. rewrite H. reflexivity.
  - assert (Hk : ~ In k seen).
    { intro Hin. destruct (Hreach k Hin) as (n & A). eapply resolves_not_on_cycle; [exact A | eapply RAlias; eassumption]. }
    assert (Hnd' : NoDup (k :: seen)) by (constructor; assumption).
    assert (Hincl' : incl (k :: seen) (map fst m)) by (intros x [<- | Hx]; [eapply elookup_in; exact H | apply Hincl; exact Hx]).
    assert (Hstep : step m k = Some t) by (unfold step; rewrite H; reflexivity).
    destruct f as [|f]; [exfalso; pose proof (NoDup_incl_length Hnd' Hincl') as L; rewrite map_length in L; cbn [length] in L; lia|].
    cbn [chase]. rewrite H.
    assert (Hreach' : forall s, In s (k :: seen) -> exists n, after m (S n) s = Some t).
    { intros s [<- | Hs].
      - exists 0. cbn [after]. rewrite Hstep. reflexivity.
      - destruct (Hreach s Hs) as (n & A). exists (S n). replace (S (S n)) with (S n + 1) by lia. rewrite after_add, A. cbn [after]. rewrite Hstep. reflexivity. }
    assert (M : mem t (k :: seen) = false).
    { apply mem_false. intro Hin. destruct (Hreach' t Hin) as (n & A). exact (resolves_not_on_cycle m n t vs A R). }
    rewrite M. apply IH; try assumption. cbn [length]. lia.
Qed.

Theorem chase_exact m k p vs : chase m (S (length m)) [] k p = Some (inl vs) <-> resolves m k vs.
Proof.
  split; [apply chase_sound|]. intro R. apply (chase_complete m k vs R); [constructor | intros x [] | intros s [] | cbn [length]; lia].
Qed.

Theorem chase_fuel m k p : chase m (S (length m)) [] k p <> None.
Proof. apply chase_total; [constructor | intros [] | intros x [] | cbn [length]; lia]. Qed.

(* accepted exactly when the type of every enumerated initial value leads through aliases to an enumeration, and the
   value, if there is one, is among its values *)
Definition init_ok (m : list (text * edef)) (ty : text) (value : option (text * N)) : Prop :=
  exists vs, resolves m (key ty) vs /\ match value with Some (v, _) => In (key v) vs | None => True end.

Lemma resolves_fun m k vs : resolves m k vs -> forall vs', resolves m k vs' -> vs = vs'.
Proof.
  induction 1 as [k vs H|k t p vs H _ IH]; intros vs' R'; inversion R' as [k0 vs0 H0|k0 t0 p0 vs0 H0 R0]; subst.
  - rewrite H in H0. injection H0 as <-. reflexivity.
  - rewrite H in H0. discriminate.
  - rewrite H in H0. discriminate.
  - rewrite H in H0. injection H0 as <- <-. apply IH. exact R0.
Qed.

Theorem rule_enum_value_exact fs :
  rule_enum_value fs = [] <-> forall ty tpos value, In (FEnumInit ty tpos value) fs -> init_ok (enum_defs fs) ty value.
Proof.
  unfold rule_enum_value. set (m := enum_defs fs). rewrite first_diag_nil. split.
  - intros H ty tpos value Hin. specialize (H _ Hin). cbn [enum_init_diag] in H.
    destruct (chase m (S (length m)) [] (key ty) tpos) as [[vs|d]|] eqn:E; try discriminate.
    exists vs. split; [apply (chase_sound _ _ _ _ _ _ E)|].
    destruct value as [[v vpos]|]; [|exact I]. destruct (mem (key v) vs) eqn:M; [apply mem_In; exact M | discriminate].
  - intros H [a1 a2 a3|a1 a2|a1 a2| |a1|a1|a1 a2 a3|ty tpos value|a1 a2|a1 a2] Hin; try reflexivity.
    destruct (H ty tpos value Hin) as (vs & R & V). cbn [enum_init_diag].
    rewrite (proj2 (chase_exact m (key ty) tpos vs) R).
    destruct value as [[v vpos]|]; [|reflexivity]. rewrite (proj2 (mem_In _ _) V). reflexivity.
Qed.

(* the enumerations as a table: the order of the declarations plays no role when their names are distinct *)
Definition edef_of (f : fact) : list (text * edef) :=
  match f with
  | FEnumAlias n t p => [(key n, EAlias (key t) p)]
  | FEnumValues n vs => [(key n, EValues (map key vs))]
  | _ => []
  end.

Lemma enum_defs_rev fs : enum_defs fs = rev (flat_map edef_of fs).
Proof.
  induction fs as [|f fs IH]; [reflexivity|]. cbn [flat_map]. rewrite rev_app_distr, <- IH.
  destruct f; cbn [enum_defs edef_of rev app]; try (rewrite app_nil_r; reflexivity); reflexivity.
Qed.

Lemma enum_defs_perm fs fs' : Permutation fs fs' -> Permutation (enum_defs fs) (enum_defs fs').
Proof.
  intro H. rewrite !enum_defs_rev. eapply Permutation_trans; [apply Permutation_sym, Permutation_rev|].
  eapply Permutation_trans; [|apply Permutation_rev]. apply flat_map_perm. exact H.
Qed.

Lemma elookup_In m : NoDup (map fst m) -> forall k d, elookup k m = Some d <-> In (k, d) m.
Proof.
  induction m as [|[k' d'] m IH]; intros Hnd k d; cbn [elookup In].
  - split; [discriminate | intros []].
  - cbn [map fst] in Hnd. inversion Hnd as [|x l Hn Hnd']; subst. destruct (text_eqb k k') eqn:E.
    + apply text_eqb_eq in E. subst k'. split.
      * intros [= <-]. left. reflexivity.
      * intros [[= <-] | Hin]; [reflexivity|]. exfalso. apply Hn. apply in_map_iff. exists (k, d). split; [reflexivity | exact Hin].
    + rewrite (IH Hnd' k d). split; [intro H; right; exact H|]. intros [[= <- <-] | Hin]; [|exact Hin].
      rewrite text_eqb_refl in E. discriminate.
Qed.

Lemma elookup_perm m m' : Permutation m m' -> NoDup (map fst m) -> forall k, elookup k m = elookup k m'.
Proof.
  intros P Hnd k.
  assert (Hnd' : NoDup (map fst m')) by (eapply Permutation_NoDup; [apply Permutation_map; exact P | exact Hnd]).
  destruct (elookup k m) as [d|] eqn:E.
  - symmetry. apply (elookup_In m' Hnd'). eapply Permutation_in; [exact P|]. apply (elookup_In m Hnd). exact E.
  - destruct (elookup k m') as [d'|] eqn:E'; [|reflexivity].
    apply (elookup_In m' Hnd') in E'. apply (Permutation_in _ (Permutation_sym P)) in E'. apply (elookup_In m Hnd) in E'.
    rewrite E in E'. discriminate.
Qed.

Lemma resolves_ext m m' : (forall k, elookup k m = elookup k m') -> forall k vs, resolves m k vs -> resolves m' k vs.
Proof.
  intros H k vs R. induction R as [k vs E|k t p vs E _ IH].
  - apply RValues. rewrite <- H. exact E.
  - eapply RAlias; [rewrite <- H; exact E | exact IH].
Qed.

Theorem rule_enum_value_perm fs fs' : Permutation fs fs' -> NoDup (map fst (enum_defs fs)) ->
  (rule_enum_value fs = [] <-> rule_enum_value fs' = []).
Proof.
  intros P Hnd. pose proof (elookup_perm _ _ (enum_defs_perm fs fs' P) Hnd) as L.
  assert (L' : forall k, elookup k (enum_defs fs') = elookup k (enum_defs fs)) by (intro k; symmetry; apply L).
  rewrite !rule_enum_value_exact. split; intros H ty tpos value Hin.
  - destruct (H ty tpos value (Permutation_in _ (Permutation_sym P) Hin)) as (vs & R & V).
    exists vs. split; [eapply resolves_ext; [exact L | exact R] | exact V].
  - destruct (H ty tpos value (Permutation_in _ P Hin)) as (vs & R & V).
    exists vs. split; [eapply resolves_ext; [exact L' | exact R] | exact V].
Qed.

(* ---- rule_function_block_invocation ---- *)
Theorem check_call_exact fb pos args :
  check_call fb pos args = None <->
  (formal_names args = [] \/ positional args = 0) /\
  (forall n, In n (formal_names args) -> has_input fb n = true) /\
  (positional args = 0 \/ positional args = count_inputs fb) /\
  (forall n, In n (out_names args) -> has_output fb n = true).
Proof.
  unfold check_call.
  set (formal := formal_names args). set (npos := positional args). set (outs := out_names args).
  assert (Hi : forallb (has_input fb) formal = true <-> forall n, In n formal -> has_input fb n = true) by apply forallb_forall.
  assert (Ho : forallb (has_output fb) outs = true <-> forall n, In n outs -> has_output fb n = true) by apply forallb_forall.
  assert (Hf : (match formal with [] => true | _ => false end) = true <-> formal = [])
    by (destruct formal; split; intro; try reflexivity; discriminate).
  assert (H0 : Nat.eqb npos 0 = true <-> npos = 0) by apply Nat.eqb_eq.
  assert (Hc : Nat.eqb npos (count_inputs fb) = true <-> npos = count_inputs fb) by apply Nat.eqb_eq.
  destruct (match formal with [] => true | _ => false end); destruct (Nat.eqb npos 0); destruct (Nat.eqb npos (count_inputs fb));
    destruct (forallb (has_input fb) formal); destruct (forallb (has_output fb) outs); cbn [negb andb];
    intuition (try discriminate; try congruence).
Qed.

(* leaving a unit forgets its instances: the walk over a library is the walk over its units, one after the other *)
Lemma fb_walk_exit defs : forall a inst r,
  fb_walk defs inst (a ++ FExit :: r) = match fb_walk defs inst a with [] => fb_walk defs [] r | d => d end.
Proof.
  induction a as [|f a IH]; intros inst r; [reflexivity|].
  destruct f as [a1 a2 a3|a1 a2|a1 a2| |v|a1|i pos args|a1 a2 a3|a1 a2|a1 a2]; cbn [app fb_walk]; try apply IH.
  destruct (vlookup (key i) inst) as [ty|]; [|reflexivity]. destruct (flookup ty defs) as [fb|]; [|reflexivity].
  destruct (check_call fb pos args); [reflexivity | apply IH].
Qed.

Definition close (b : list fact) : list fact := b ++ [FExit].
Definition stream (bs : list (list fact)) : list fact := concat (map close bs).
Fixpoint first_nonempty (l : list (list diag)) : list diag :=
  match l with [] => [] | [] :: r => first_nonempty r | d :: _ => d end.

Lemma fb_walk_units defs bs : fb_walk defs [] (stream bs) = first_nonempty (map (fb_walk defs []) bs).
Proof.
  induction bs as [|b bs IH]; [reflexivity|]. unfold stream, close in *. cbn [map concat].
  rewrite <- app_assoc. cbn [app]. rewrite fb_walk_exit, IH. cbn [first_nonempty].
  destruct (fb_walk defs [] b); reflexivity.
Qed.

Lemma first_nonempty_nil l : first_nonempty l = [] <-> forall d, In d l -> d = [].
Proof.
  induction l as [|d l IH]; cbn [first_nonempty]; split; intro H.
  - intros d [].
  - reflexivity.
  - destruct d as [|x d]; [|discriminate]. intros d' [<- | Hd]; [reflexivity | apply IH; assumption].
  - rewrite (H d (or_introl eq_refl)). apply IH. intros d' Hd. apply H. right. exact Hd.
Qed.

(* the function block table of a library is the union of the tables of its units *)
Lemma fb_body_exit : forall a r acc, fb_body (a ++ FExit :: r) acc = fb_body (a ++ [FExit]) acc.
Proof.
  induction a as [|f a IH]; intros r acc; [reflexivity|].
  destruct f; cbn [app fb_body]; try apply IH; reflexivity.
Qed.

Lemma fb_defs_exit : forall a r, fb_defs (a ++ FExit :: r) = fb_defs r ++ fb_defs (a ++ [FExit]).
Proof.
  induction a as [|f a IH]; intro r.
  - cbn [app fb_defs]. rewrite app_nil_r. reflexivity.
  - destruct f as [a1 a2 a3|a1 a2|[| |] n| |v|a1|a1 a2 a3|a1 a2 a3|a1 a2|a1 a2]; cbn [app fb_defs]; try apply IH.
    rewrite IH, fb_body_exit, app_assoc. reflexivity.
Qed.

Lemma fb_defs_stream bs : fb_defs (stream bs) = concat (rev (map (fun b => fb_defs (close b)) bs)).
Proof.
  induction bs as [|b bs IH]; [reflexivity|]. unfold stream, close in *. cbn [map concat rev].
  rewrite <- app_assoc. cbn [app]. rewrite fb_defs_exit, IH, concat_app. cbn [concat]. rewrite app_nil_r. reflexivity.
Qed.

Lemma fb_defs_perm bs bs' : Permutation bs bs' -> Permutation (fb_defs (stream bs)) (fb_defs (stream bs')).
Proof.
  intro P. rewrite !fb_defs_stream. apply concat_perm.
  eapply Permutation_trans; [apply Permutation_sym, Permutation_rev|].
  eapply Permutation_trans; [|apply Permutation_rev]. apply Permutation_map. exact P.
Qed.

Lemma flookup_In m : NoDup (map fst m) -> forall k d, flookup k m = Some d <-> In (k, d) m.
Proof.
  induction m as [|[k' d'] m IH]; intros Hnd k d; cbn [flookup In].
  - split; [discriminate | intros []].
  - cbn [map fst] in Hnd. inversion Hnd as [|x l Hn Hnd']; subst. destruct (text_eqb k k') eqn:E.
    + apply text_eqb_eq in E. subst k'. split.
      * intros [= <-]. left. reflexivity.
      * intros [[= <-] | Hin]; [reflexivity|]. exfalso. apply Hn. apply in_map_iff. exists (k, d). split; [reflexivity | exact Hin].
    + rewrite (IH Hnd' k d). split; [intro H; right; exact H|]. intros [[= <- <-] | Hin]; [|exact Hin].
      rewrite text_eqb_refl in E. discriminate.
Qed.

Lemma flookup_perm m m' : Permutation m m' -> NoDup (map fst m) -> forall k, flookup k m = flookup k m'.
Proof.
  intros P Hnd k.
  assert (Hnd' : NoDup (map fst m')) by (eapply Permutation_NoDup; [apply Permutation_map; exact P | exact Hnd]).
  destruct (flookup k m) as [d|] eqn:E.
  - symmetry. apply (flookup_In m' Hnd'). eapply Permutation_in; [exact P|]. apply (flookup_In m Hnd). exact E.
  - destruct (flookup k m') as [d'|] eqn:E'; [|reflexivity].
    apply (flookup_In m' Hnd') in E'. apply (Permutation_in _ (Permutation_sym P)) in E'. apply (flookup_In m Hnd) in E'.
    rewrite E in E'. discriminate.
Qed.

Lemma fb_walk_ext defs defs' : (forall k, flookup k defs = flookup k defs') ->
  forall fs inst, fb_walk defs inst fs = fb_walk defs' inst fs.
Proof.
  intros H. induction fs as [|f fs IH]; intro inst; [reflexivity|].
  destruct f as [a1 a2 a3|a1 a2|a1 a2| |v|a1|i pos args|a1 a2 a3|a1 a2|a1 a2]; cbn [fb_walk]; try apply IH.
  destruct (vlookup (key i) inst) as [ty|]; [|reflexivity]. rewrite <- H. destruct (flookup ty defs) as [fb|]; [|reflexivity].
  destruct (check_call fb pos args); [reflexivity | apply IH].
Qed.

(* the verdict on a library of units: every unit passes by itself against the table of function blocks *)
Theorem rule_fb_call_units bs :
  rule_fb_call (stream bs) = [] <-> forall b, In b bs -> fb_walk (fb_defs (stream bs)) [] b = [].
Proof.
  unfold rule_fb_call. rewrite fb_walk_units, first_nonempty_nil. split.
  - intros H b Hb. apply H. apply in_map. exact Hb.
  - intros H d Hd. apply in_map_iff in Hd. destruct Hd as (b & <- & Hb). apply H. exact Hb.
Qed.

(* the order of the units plays no role when the function blocks have distinct names *)
Theorem rule_fb_call_perm bs bs' : Permutation bs bs' -> NoDup (map fst (fb_defs (stream bs))) ->
  (rule_fb_call (stream bs) = [] <-> rule_fb_call (stream bs') = []).
Proof.
  intros P Hnd. pose proof (flookup_perm _ _ (fb_defs_perm bs bs' P) Hnd) as L.
  rewrite !rule_fb_call_units. split; intros H b Hb.
  - rewrite <- (fb_walk_ext _ _ L). apply H. eapply Permutation_in; [apply Permutation_sym; exact P | exact Hb].
  - rewrite (fb_walk_ext _ _ L). apply H. eapply Permutation_in; [exact P | exact Hb].
Qed.

(* a unit with a bad invocation is reported in any company that leaves the table of function blocks as it is *)
Theorem rule_fb_call_not_masked bs b : In b bs -> fb_walk (fb_defs (stream bs)) [] b <> [] -> rule_fb_call (stream bs) <> [].
Proof. intros Hb H E. apply H. apply (proj1 (rule_fb_call_units bs) E). exact Hb. Qed.

(* ---- the premises are satisfiable, and the rules fire, on concrete facts ---- *)
Local Open Scope N_scope.
Definition ex_color : text := [67; 111; 108; 111; 114]%N.      (* Color *)
Definition ex_red : text := [82; 101; 100]%N.                  (* Red *)
Definition ex_facts : list fact :=
  [ FEnumValues ex_color [ex_red; [71]%N];
    FEnumAlias [76]%N (map upper ex_color) 10;
    FEnter PkFB [70; 98]%N;
    FVar (mkVar (Some [97]%N) VcInput QUnspec IkSimple [] false 20);
    FEdge [99]%N;
    FVar (mkVar (Some [111]%N) VcOutput QUnspec IkSimple [] false 30);
    FExit;
    FEnter PkProgram [80]%N;
    FVar (mkVar (Some [105]%N) VcVar QUnspec IkFB [102; 66]%N false 40);
    FFbInit [102; 66]%N 41;
    FVar (mkVar (Some [120]%N) VcVar QConst IkEnumType [76]%N true 50);
    FEnumInit [108]%N 51 (Some (map upper ex_red, 52%N));
    FCall [73]%N 60 [ANamed [65]%N; ANamed [67]%N; AOut [79]%N];
    FCall [105]%N 61 [APos; APos];
    FExit;
    FRes [[116]%N] [Some ([84]%N, 70%N); None] ].
Example ex_all_rules_accept :
  rule_const_init ex_facts = [] /\ rule_const_not_fb ex_facts = [] /\ rule_global_const ex_facts = [] /\ rule_task ex_facts = [] /\
  rule_enum_value ex_facts = [] /\ rule_fb_call ex_facts = [] /\ rule_stdlib ex_facts = [].
Proof. vm_compute. repeat split. Qed.
Example ex_rules_fire :
  rule_fb_call (ex_facts ++ [FCall [105]%N 80 [APos]]) = [(P_FunctionBlockNotInScope, 80%N)] /\
  rule_task [FRes [[116]%N] [Some ([117]%N, 71%N)]] = [(P_ProgramMissingTaskConfig, 71%N)] /\
  rule_enum_value [FEnumAlias [97]%N [98]%N 1; FEnumAlias [98]%N [65]%N 2; FEnumInit [97]%N 3 None] = [(P_EnumRecursive, 2%N)] /\
  rule_global_const [FVar (mkVar (Some [103]%N) VcGlobal QConst IkSimple [] true 5); FVar (mkVar (Some [71]%N) VcExternal QUnspec IkSimple [] false 6)]
    = [(P_VariableMustBeConst, 6%N)].
Proof. vm_compute. repeat split. Qed.

(* ---- the models report only problems the rule modules name (the table is regenerated from the sources) ---- *)
Local Open Scope string_scope.
Definition lookup_rule (name : String.string) : list N * bool :=
  match find (fun x => String.eqb (fst x) name) rule_problems with Some x => snd x | None => ([], false) end.
Definition code_allowed (name : String.string) (c : N) : Prop :=
  In c (fst (lookup_rule name)) \/ (snd (lookup_rule name) = true /\ c = P_NotImplemented).

Lemma first_diag_in g fs d : In d (first_diag g fs) -> exists f, In f fs /\ g f = Some d.
Proof.
  induction fs as [|f fs IH]; cbn [first_diag]; [intros []|].
  destruct (g f) as [d'|] eqn:E.
  - intros [<- | []]. exists f. split; [left; reflexivity | exact E].
  - intro H. destruct (IH H) as (f0 & Hf & G). exists f0. split; [right; exact Hf | exact G].
Qed.

Theorem rule_const_not_fb_codes fs d : In d (rule_const_not_fb fs) -> code_allowed "rule_var_decl_const_not_fb" (fst d).
Proof.
  unfold rule_const_not_fb. rewrite in_flat_map. intros (f & _ & H). destruct f; try contradiction. cbn [const_fb_diag] in H.
  destruct (is_const v && is_fb v); [|contradiction]. destruct H as [<- | []]. left. vm_compute. auto.
Qed.

Theorem rule_task_codes fs d : In d (rule_task fs) -> code_allowed "rule_program_task_definition_exists" (fst d).
Proof.
  unfold rule_task. rewrite in_flat_map. intros (f & _ & H). destruct f; try contradiction. cbn [task_diag] in H. unfold task_diags in H.
  apply in_flat_map in H. destruct H as ([[t pos]|] & _ & H); [|contradiction].
  destruct (mem (key t) (map key tasks)); [contradiction|]. destruct H as [<- | []]. left. vm_compute. auto.
Qed.

Theorem rule_stdlib_codes fs d : In d (rule_stdlib fs) -> code_allowed "rule_unsupported_stdlib_type" (fst d).
Proof.
  unfold rule_stdlib. rewrite in_flat_map. intros (f & _ & H). destruct f; try contradiction. cbn [stdlib_diag] in H.
  destruct (mem (key ty) unsupported_types); [|contradiction]. destruct H as [<- | []]. left. vm_compute. auto.
Qed.

Lemma const_init_go_codes : forall fs acc d, (forall x, In x acc -> fst x = P_ConstantMustHaveInitializer) ->
  In d (const_init_go fs acc) -> fst d = P_ConstantMustHaveInitializer \/ fst d = P_NotImplemented.
Proof.
  induction fs as [|f fs IH]; intros acc d Hacc; cbn [const_init_go].
  - intro H. left. apply Hacc. apply in_rev. exact H.
  - destruct f as [a1 a2 a3|a1 a2|a1 a2| |v|a1|a1 a2 a3|a1 a2 a3|a1 a2|a1 a2]; try (apply IH; exact Hacc).
    destruct (const_status v).
    + apply IH. exact Hacc.
    + apply IH. intros x [<- | Hx]; [reflexivity | apply Hacc; exact Hx].
    + intros [<- | []]. right. reflexivity.
Qed.

Theorem rule_const_init_codes fs d : In d (rule_const_init fs) -> code_allowed "rule_var_decl_const_initialized" (fst d).
Proof.
  intro H. destruct (const_init_go_codes fs [] d (fun x (Hx : In x []) => match Hx with end) H) as [E|E]; rewrite E.
  - left. vm_compute. auto.
  - right. vm_compute. auto.
Qed.

Theorem rule_global_const_codes fs d : In d (rule_global_const fs) -> code_allowed "rule_var_decl_global_const_requires_external_const" (fst d).
Proof.
  unfold rule_global_const. destruct (global_consts fs) as [cs|].
  - intro H. apply first_diag_in in H. destruct H as (f & _ & G). destruct f; try discriminate. cbn [ext_bad] in G.
    destruct (is_external v && negb (is_const v)); [|discriminate]. destruct (v_name v); [|discriminate].
    destruct (mem (key t) cs); [|discriminate]. injection G as <-. left. vm_compute. auto.
  - intros [<- | []]. right. vm_compute. auto.
Qed.

Lemma chase_codes m : forall f seen k p d, chase m f seen k p = Some (inr d) -> fst d = P_EnumNotDeclared \/ fst d = P_EnumRecursive.
Proof.
  induction f as [|f IH]; intros seen k p d; cbn [chase]; [discriminate|].
  destruct (elookup k m) as [[t tp|vs]|]; try discriminate.
  - destruct (mem t (k :: seen)); [intros [= <-]; right; reflexivity | apply IH].
  - intros [= <-]. left. reflexivity.
Qed.

Theorem rule_enum_value_codes fs d : In d (rule_enum_value fs) -> code_allowed "rule_use_declared_enumerated_value" (fst d).
Proof.
  unfold rule_enum_value. intro H. apply first_diag_in in H. destruct H as (f & _ & G). destruct f; try discriminate.
  cbn [enum_init_diag] in G. set (m := enum_defs fs) in *.
  destruct (chase m (S (length m)) [] (key ty) tpos) as [[vs|d']|] eqn:E.
  - destruct value as [[v vpos]|]; [|discriminate]. destruct (mem (key v) vs); [discriminate|]. injection G as <-. left. vm_compute. auto.
  - injection G as <-. destruct (chase_codes _ _ _ _ _ _ E) as [X|X]; rewrite X; left; vm_compute; auto.
  - exfalso. exact (chase_fuel m (key ty) tpos E).
Qed.

Lemma check_call_codes fb pos args d : check_call fb pos args = Some d ->
  In (fst d) [P_FunctionCallMixedArgTypes; P_FunctionInvocationMissingInput; P_FunctionInvocationRequiresFormal; P_FunctionInvocationUndefinedOutput].
Proof.
  unfold check_call.
  repeat match goal with |- context [if ?c then _ else _] => destruct c end; intros [= <-]; cbn; auto.
Qed.

Lemma fb_walk_codes defs : forall fs inst d, In d (fb_walk defs inst fs) -> code_allowed "rule_function_block_invocation" (fst d).
Proof.
  induction fs as [|f fs IH]; intros inst d; cbn [fb_walk]; [intros []|].
  destruct f as [a1 a2 a3|a1 a2|a1 a2| |v|a1|i pos args|a1 a2 a3|a1 a2|a1 a2]; try apply IH.
  destruct (vlookup (key i) inst) as [ty|]; [|intros [<- | []]; left; vm_compute; auto 6].
  destruct (flookup ty defs) as [fb|]; [|intros [<- | []]; left; vm_compute; auto 6].
  destruct (check_call fb pos args) as [d'|] eqn:E; [|apply IH].
  intros [<- | []]. left. pose proof (check_call_codes _ _ _ _ E) as H. cbn in H.
  destruct H as [<- | [<- | [<- | [<- | []]]]]; vm_compute; auto 6.
Qed.

Theorem rule_fb_call_codes fs d : In d (rule_fb_call fs) -> code_allowed "rule_function_block_invocation" (fst d).
Proof. apply fb_walk_codes. Qed.

(* ---- xform_resolve_late_bound_type_initializer ---- *)
Local Open Scope nat_scope.
Definition decl_of (f : tfact) : list (text * tkind) :=
  match f with
  | TDecl n TkLateBound _ => []
  | TDecl n k _ => [(key n, k)]
  | TInit _ _ _ => []
  end.
Definition decls (fs : list tfact) : list (text * tkind) := flat_map decl_of fs.

Lemma tlookup_none k m : tlookup k m = None <-> ~ In k (map fst m).
Proof.
  induction m as [|[k' d] m IH]; cbn [tlookup map fst In]; [split; [intros _ [] | reflexivity]|].
  destruct (text_eqb k k') eqn:E.
  - apply text_eqb_eq in E. subst. split; [discriminate | intro H; contradiction H; left; reflexivity].
  - rewrite IH. split.
    + intros H [<- | Hin]; [rewrite text_eqb_refl in E; discriminate | exact (H Hin)].
    + intros H Hin. apply H. right. exact Hin.
Qed.

Lemma NoDup_app_snoc {A} (l : list A) x : NoDup l -> ~ In x l -> NoDup (l ++ [x]).
Proof.
  induction 1 as [|y l Hy Hnd IH]; intro Hx; cbn [app].
  - constructor; [intros [] | constructor].
  - constructor.
    + intro Hin. apply in_app_or in Hin. destruct Hin as [Hin | [<- | []]]; [exact (Hy Hin) | apply Hx; left; reflexivity].
    + apply IH. intro Hin. apply Hx. right. exact Hin.
Qed.

(* the table is the list of the declared types when their names are distinct; otherwise the walk stops at a duplicate *)
Lemma type_table_spec : forall fs acc,
  match type_table fs acc with
  | inl tab => tab = acc ++ decls fs /\ (NoDup (map fst acc) -> NoDup (map fst tab))
  | inr d => fst d = P_DefinitionNameDuplicated /\ ~ NoDup (map fst (acc ++ decls fs))
  end.
Proof.
  induction fs as [|f fs IH]; intro acc; cbn [type_table].
  - unfold decls. cbn [flat_map]. rewrite app_nil_r. split; [reflexivity | exact (fun H => H)].
  - assert (Skip : decl_of f = [] -> match type_table fs acc with
                     | inl tab => tab = acc ++ decls (f :: fs) /\ (NoDup (map fst acc) -> NoDup (map fst tab))
                     | inr d => fst d = P_DefinitionNameDuplicated /\ ~ NoDup (map fst (acc ++ decls (f :: fs)))
                     end).
    { intro E. unfold decls. cbn [flat_map]. rewrite E. cbn [app]. apply IH. }
    destruct f as [n k pos|k ty pos]; [|apply Skip; reflexivity].
    assert (Add : forall k0, decl_of (TDecl n k0 pos) = [(key n, k0)] ->
                  match (match tlookup (key n) acc with Some _ => inr (P_DefinitionNameDuplicated, pos) | None => type_table fs (acc ++ [(key n, k0)]) end) with
                  | inl tab => tab = acc ++ decls (TDecl n k0 pos :: fs) /\ (NoDup (map fst acc) -> NoDup (map fst tab))
                  | inr d => fst d = P_DefinitionNameDuplicated /\ ~ NoDup (map fst (acc ++ decls (TDecl n k0 pos :: fs)))
                  end).
    { intros k0 E. unfold decls. cbn [flat_map]. rewrite E. cbn [app]. fold (decls fs).
      destruct (tlookup (key n) acc) as [d|] eqn:L.
      - split; [reflexivity|]. intro Hnd. rewrite map_app in Hnd. cbn [map fst] in Hnd.
        apply NoDup_remove_2 in Hnd. apply Hnd. apply in_or_app. left.
        destruct (in_dec (list_eq_dec N.eq_dec) (key n) (map fst acc)) as [Hin|Hn]; [exact Hin|].
        apply tlookup_none in Hn. rewrite Hn in L. discriminate.
      - specialize (IH (acc ++ [(key n, k0)])). rewrite <- app_assoc in IH. cbn [app] in IH.
        destruct (type_table fs (acc ++ [(key n, k0)])) as [tab|d].
        + destruct IH as (E1 & E2). split; [exact E1|]. intro Hnd. apply E2. rewrite map_app. cbn [map fst].
          apply NoDup_app_snoc; [exact Hnd|]. apply tlookup_none. exact L.
        + exact IH. }
    destruct k; try (apply Add; reflexivity). apply Skip. reflexivity.
Qed.

Definition new_kind (tab : list (text * tkind)) (f : tfact) : list ikind :=
  match f with
  | TInit IkLate ty _ => match resolve1 tab ty with RKind k => [k] | _ => [IkLate] end
  | TInit k _ _ => [k]
  | TDecl _ _ _ => []
  end.
Definition undeclared_diag (tab : list (text * tkind)) (f : tfact) : list diag :=
  match f with
  | TInit IkLate ty pos => match resolve1 tab ty with RUndeclared => [(P_UndeclaredUnknownType, pos)] | _ => [] end
  | _ => []
  end.
Definition no_rtodo (tab : list (text * tkind)) (fs : list tfact) : Prop :=
  forall ty pos, In (TInit IkLate ty pos) fs -> resolve1 tab ty <> RTodo.

Definition answer (ds : list diag) (ks : list ikind) : list ikind + list diag :=
  match ds with [] => inl ks | _ => inr ds end.

Lemma answer_snoc ds d ks : answer (ds ++ [d]) ks = inr (ds ++ [d]).
Proof. unfold answer. destruct (ds ++ [d]) eqn:E; [destruct ds; discriminate | reflexivity]. Qed.

Lemma resolve_go_spec tab : forall fs ds ks, no_rtodo tab fs ->
  resolve_go tab fs ds ks = answer (rev ds ++ flat_map (undeclared_diag tab) fs) (rev ks ++ flat_map (new_kind tab) fs).
Proof.
  induction fs as [|f fs IH]; intros ds ks Hn.
  - cbn [resolve_go flat_map]. rewrite !app_nil_r. destruct ds as [|d ds]; [reflexivity|]. cbn [rev]. rewrite answer_snoc. reflexivity.
  - assert (Hn' : no_rtodo tab fs) by (intros ty pos H; apply (Hn ty pos); right; exact H).
    destruct f as [n k pos|k ty pos].
    + cbn [resolve_go flat_map undeclared_diag new_kind app]. apply IH. exact Hn'.
    + destruct k; cbn [resolve_go flat_map undeclared_diag new_kind app];
        try (rewrite IH by exact Hn'; cbn [rev]; rewrite <- app_assoc; reflexivity).
      destruct (resolve1 tab ty) eqn:E.
      * rewrite IH by exact Hn'. cbn [rev app]. rewrite <- app_assoc. reflexivity.
      * rewrite IH by exact Hn'. cbn [rev app]. rewrite <- !app_assoc. reflexivity.
      * exfalso. exact (Hn ty pos (or_introl eq_refl) E).
Qed.

(* with distinct type names and no type of a kind the transformation does not handle: the answer is the list of the new
   initializer kinds, or the list of ALL references to undeclared types, in order *)
Theorem xform_type_init_spec fs : NoDup (map fst (decls fs)) -> no_rtodo (decls fs) fs ->
  xform_type_init fs = answer (flat_map (undeclared_diag (decls fs)) fs) (flat_map (new_kind (decls fs)) fs).
Proof.
  intros Hnd Hn. unfold xform_type_init. pose proof (type_table_spec fs []) as S.
  destruct (type_table fs []) as [tab|d].
  - destruct S as (-> & _). cbn [app]. rewrite resolve_go_spec by exact Hn. reflexivity.
  - destruct S as (_ & S). contradiction.
Qed.

(* two declarations of one type name are diagnosed (P0020), never collapsed into one *)
Theorem xform_type_init_duplicate fs : ~ NoDup (map fst (decls fs)) ->
  exists d, xform_type_init fs = inr [d] /\ fst d = P_DefinitionNameDuplicated.
Proof.
  intro Hd. unfold xform_type_init. pose proof (type_table_spec fs []) as S.
  destruct (type_table fs []) as [tab|d].
  - destruct S as (-> & S). exfalso. apply Hd. apply S. constructor.
  - exists d. split; [reflexivity | exact (proj1 S)].
Qed.

(* what 'undeclared' means *)
Lemma resolve1_undeclared tab ty :
  resolve1 tab ty = RUndeclared <->
  ~ In (key ty) elementary_types /\ ~ In (key ty) unsupported_types /\ ~ In (key ty) (map fst tab).
Proof.
  unfold resolve1. destruct (mem (key ty) elementary_types) eqn:E1.
  - split; [discriminate|]. intros (H & _). apply mem_In in E1. contradiction.
  - destruct (mem (key ty) unsupported_types) eqn:E2.
    + split; [discriminate|]. intros (_ & H & _). apply mem_In in E2. contradiction.
    + apply mem_false in E1. apply mem_false in E2. destruct (tlookup (key ty) tab) as [k|] eqn:L.
      * split; [destruct k; discriminate|]. intros (_ & _ & H). apply tlookup_none in H. rewrite H in L. discriminate.
      * apply tlookup_none in L. split; [intros _; auto | reflexivity].
Qed.

(* accepted exactly when every referenced type is elementary, a standard function block, or declared *)
Theorem xform_type_init_accepts fs : NoDup (map fst (decls fs)) -> no_rtodo (decls fs) fs ->
  ((exists ks, xform_type_init fs = inl ks) <->
   forall ty pos, In (TInit IkLate ty pos) fs -> resolve1 (decls fs) ty <> RUndeclared).
Proof.
  intros Hnd Hn. rewrite (xform_type_init_spec fs Hnd Hn). unfold answer. split.
  - intros (ks & H) ty pos Hin E.
    assert (X : In (P_UndeclaredUnknownType, pos) (flat_map (undeclared_diag (decls fs)) fs)).
    { apply in_flat_map. exists (TInit IkLate ty pos). split; [exact Hin|]. cbn [undeclared_diag]. rewrite E. left. reflexivity. }
    destruct (flat_map (undeclared_diag (decls fs)) fs); [contradiction X | discriminate H].
  - intro H. assert (X : flat_map (undeclared_diag (decls fs)) fs = []).
    { apply flat_map_nil. intros [n k pos|k ty pos] Hin; [reflexivity|]. destruct k; try reflexivity. cbn [undeclared_diag].
      destruct (resolve1 (decls fs) ty) eqn:E; try reflexivity. exfalso. exact (H ty pos Hin E). }
    rewrite X. eexists. reflexivity.
Qed.

(* every reference to an undeclared type is reported, whatever else the library holds: none hides another *)
Theorem xform_type_init_reports fs ty pos : NoDup (map fst (decls fs)) -> no_rtodo (decls fs) fs ->
  In (TInit IkLate ty pos) fs -> resolve1 (decls fs) ty = RUndeclared ->
  exists ds, xform_type_init fs = inr ds /\ In (P_UndeclaredUnknownType, pos) ds.
Proof.
  intros Hnd Hn Hin E. rewrite (xform_type_init_spec fs Hnd Hn).
  assert (X : In (P_UndeclaredUnknownType, pos) (flat_map (undeclared_diag (decls fs)) fs)).
  { apply in_flat_map. exists (TInit IkLate ty pos). split; [exact Hin|]. cbn [undeclared_diag]. rewrite E. left. reflexivity. }
  unfold answer. destruct (flat_map (undeclared_diag (decls fs)) fs) as [|d l]; [contradiction X|]. eexists. split; [reflexivity | exact X].
Qed.

(* the order of the declarations and of the references plays no role *)
Lemma tlookup_In m : NoDup (map fst m) -> forall k d, tlookup k m = Some d <-> In (k, d) m.
Proof.
  induction m as [|[k' d'] m IH]; intros Hnd k d; cbn [tlookup In].
  - split; [discriminate | intros []].
  - cbn [map fst] in Hnd. inversion Hnd as [|x l Hn Hnd']; subst. destruct (text_eqb k k') eqn:E.
    + apply text_eqb_eq in E. subst k'. split.
      * intros [= <-]. left. reflexivity.
      * intros [[= <-] | Hin]; [reflexivity|]. exfalso. apply Hn. apply in_map_iff. exists (k, d). split; [reflexivity | exact Hin].
    + rewrite (IH Hnd' k d). split; [intro H; right; exact H|]. intros [[= <- <-] | Hin]; [|exact Hin].
      rewrite text_eqb_refl in E. discriminate.
Qed.

Lemma tlookup_perm m m' : Permutation m m' -> NoDup (map fst m) -> forall k, tlookup k m = tlookup k m'.
Proof.
  intros P Hnd k.
  assert (Hnd' : NoDup (map fst m')) by (eapply Permutation_NoDup; [apply Permutation_map; exact P | exact Hnd]).
  destruct (tlookup k m) as [d|] eqn:E.
  - symmetry. apply (tlookup_In m' Hnd'). eapply Permutation_in; [exact P|]. apply (tlookup_In m Hnd). exact E.
  - destruct (tlookup k m') as [d'|] eqn:E'; [|reflexivity].
    apply (tlookup_In m' Hnd') in E'. apply (Permutation_in _ (Permutation_sym P)) in E'. apply (tlookup_In m Hnd) in E'.
    rewrite E in E'. discriminate.
Qed.

Lemma resolve1_ext tab tab' ty : (forall k, tlookup k tab = tlookup k tab') -> resolve1 tab ty = resolve1 tab' ty.
Proof. intro H. unfold resolve1. rewrite H. reflexivity. Qed.

Theorem xform_type_init_perm fs fs' : Permutation fs fs' -> NoDup (map fst (decls fs)) -> no_rtodo (decls fs) fs ->
  match xform_type_init fs, xform_type_init fs' with
  | inl ks, inl ks' => Permutation ks ks'
  | inr ds, inr ds' => Permutation ds ds'
  | _, _ => False
  end.
Proof.
  intros P Hnd Hn.
  assert (Pd : Permutation (decls fs) (decls fs')) by (apply flat_map_perm; exact P).
  assert (Hnd' : NoDup (map fst (decls fs'))) by (eapply Permutation_NoDup; [apply Permutation_map; exact Pd | exact Hnd]).
  pose proof (tlookup_perm _ _ Pd Hnd) as L.
  assert (R : forall ty, resolve1 (decls fs) ty = resolve1 (decls fs') ty) by (intro ty; apply resolve1_ext; exact L).
  assert (Hn' : no_rtodo (decls fs') fs').
  { intros ty pos Hin. rewrite <- R. apply (Hn ty pos). eapply Permutation_in; [apply Permutation_sym; exact P | exact Hin]. }
  rewrite (xform_type_init_spec fs Hnd Hn), (xform_type_init_spec fs' Hnd' Hn').
  assert (EU : forall f, undeclared_diag (decls fs') f = undeclared_diag (decls fs) f).
  { intros [n k pos|k ty pos]; [reflexivity|]. destruct k; try reflexivity. cbn [undeclared_diag]. rewrite R. reflexivity. }
  assert (EK : forall f, new_kind (decls fs') f = new_kind (decls fs) f).
  { intros [n k pos|k ty pos]; [reflexivity|]. destruct k; try reflexivity. cbn [new_kind]. rewrite R. reflexivity. }
  rewrite (flat_map_ext _ _ EU), (flat_map_ext _ _ EK).
  pose proof (flat_map_perm (undeclared_diag (decls fs)) _ _ P) as PU.
  pose proof (flat_map_perm (new_kind (decls fs)) _ _ P) as PK.
  unfold answer.
  destruct (flat_map (undeclared_diag (decls fs)) fs) as [|d l] eqn:E1; destruct (flat_map (undeclared_diag (decls fs)) fs') as [|d' l'] eqn:E2.
  - exact PK.
  - apply Permutation_nil in PU. discriminate PU.
  - apply Permutation_sym, Permutation_nil in PU. discriminate PU.
  - exact PU.
Qed.

(* the transformation model reports only problems the module names *)
Theorem xform_type_init_codes fs ds d : xform_type_init fs = inr ds -> In d ds ->
  In (fst d) [P_DefinitionNameDuplicated; P_UndeclaredUnknownType; P_NotImplemented].
Proof.
  unfold xform_type_init. pose proof (type_table_spec fs []) as S. destruct (type_table fs []) as [tab|d0].
  - clear S. assert (G : forall fs ds0 ks ds1, (forall x, In x ds0 -> fst x = P_UndeclaredUnknownType) ->
                       resolve_go tab fs ds0 ks = inr ds1 -> forall x, In x ds1 -> fst x = P_UndeclaredUnknownType \/ fst x = P_NotImplemented).
    { induction fs0 as [|f fs0 IH]; intros ds0 ks ds1 H0; cbn [resolve_go].
      - destruct ds0 as [|d1 ds0]; [discriminate|]. intros [= <-] x Hx. left. apply H0. apply in_rev. exact Hx.
      - destruct f as [n k pos|k ty pos]; [apply IH; exact H0|].
        destruct k; try (apply IH; exact H0).
        destruct (resolve1 tab ty).
        + apply IH. exact H0.
        + apply IH. intros x [<- | Hx]; [reflexivity | apply H0; exact Hx].
        + destruct ds0 as [|d1 ds0].
          * intros [= <-] x [<- | []]. right. reflexivity.
          * intros [= <-] x Hx. left. apply H0. apply in_rev. exact Hx. }
    intros H Hin. destruct (G fs [] [] ds (fun x (Hx : In x []) => match Hx with end) H d Hin) as [E|E]; rewrite E; cbn; auto.
  - intros [= <-] [<- | []]. rewrite (proj1 S). cbn. auto.
Qed.

Example ex_type_resolution :
  let fs := [TDecl [84; 97]%N TkEnum 1%N; TDecl [70]%N TkFB 2%N; TInit IkLate [116; 65]%N 3%N; TInit IkLate [102]%N 4%N;
             TInit IkLate [105; 110; 116]%N 5%N; TInit IkLate [84; 79; 78]%N 6%N; TInit IkSimple [] 0%N] in
  xform_type_init fs = inl [IkEnumType; IkFB; IkSimple; IkFB; IkSimple] /\
  xform_type_init (fs ++ [TInit IkLate [120]%N 9%N; TInit IkLate [121]%N 10%N]) = inr [(P_UndeclaredUnknownType, 9%N); (P_UndeclaredUnknownType, 10%N)] /\
  xform_type_init (fs ++ [TDecl [116; 97]%N TkStruct 11%N]) = inr [(P_DefinitionNameDuplicated, 11%N)] /\
  NoDup (map fst (decls fs)) /\ no_rtodo (decls fs) fs.
Proof.
  cbn zeta. split; [vm_compute; reflexivity|]. split; [vm_compute; reflexivity|]. split; [vm_compute; reflexivity|]. split.
  - vm_compute. repeat constructor; cbn; intuition discriminate.
  - intros ty pos [H|[H|[H|[H|[H|[H|[H|[]]]]]]]]; try discriminate H; injection H as <- <-; vm_compute; discriminate.
Qed.
