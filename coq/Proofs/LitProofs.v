(* C09: the literal conversions return the mathematical value or fail; they never wrap. *)
From Coq Require Import List ZArith NArith Bool Lia ZifyBool ZifyN.
From Verif Require Import Base.Text Model.Literals.
Import ListNotations.
Open Scope N_scope.
Ltac Zify.zify_post_hook ::= Z.div_mod_to_equations.

(* the mathematical value of a digit list in a base (Horner), unbounded *)
Definition horner_from (base : N) (a : N) (ds : list N) : N := fold_left (fun x d => x * base + d) ds a.
Definition horner (base : N) (ds : list N) : N := horner_from base 0 ds.

Lemma horner_from_ge base a ds : 1 <= base -> a <= horner_from base a ds.
Proof.
  intro Hb. revert a. induction ds as [|d r IH]; intro a; cbn [horner_from fold_left]; [lia|].
  fold (horner_from base (a * base + d) r). specialize (IH (a * base + d)). nia.
Qed.

Lemma fold_checked_none bound base ds : fold_left (checked_step bound base) ds None = None.
Proof. induction ds as [|d r IH]; [reflexivity | exact IH]. Qed.

Lemma fold_checked_spec bound base ds : 1 <= base -> forall a, a < bound ->
  fold_left (checked_step bound base) ds (Some a) =
  if horner_from base a ds <? bound then Some (horner_from base a ds) else None.
Proof.
  intro Hb. induction ds as [|d r IH]; intros a Ha.
  - cbn. destruct (N.ltb_spec a bound); [reflexivity | lia].
  - cbn [fold_left checked_step horner_from]. fold (horner_from base (a * base + d) r).
    destruct (N.ltb_spec (a * base + d) bound) as [H|H].
    + apply IH. exact H.
    + rewrite fold_checked_none.
      pose proof (horner_from_ge base (a * base + d) r Hb).
      destruct (N.ltb_spec (horner_from base (a * base + d) r) bound); [lia | reflexivity].
Qed.

(* parsing a non-empty digit string: the value when it fits, failure when it does not *)
Theorem parse_radix_spec bound base ds : 1 <= base -> 0 < bound -> ds <> [] ->
  parse_radix bound base ds = if horner base ds <? bound then Some (horner base ds) else None.
Proof.
  intros Hb H0 Hne. unfold parse_radix, horner. destruct ds as [|d r]; [congruence|].
  apply fold_checked_spec; assumption.
Qed.

Corollary parse_radix_fits bound base ds : 1 <= base -> 0 < bound -> ds <> [] ->
  horner base ds < bound -> parse_radix bound base ds = Some (horner base ds).
Proof.
  intros. rewrite parse_radix_spec by assumption. destruct (N.ltb_spec (horner base ds) bound); [reflexivity|lia].
Qed.
Corollary parse_radix_overflow bound base ds : 1 <= base -> 0 < bound -> ds <> [] ->
  bound <= horner base ds -> parse_radix bound base ds = None.
Proof.
  intros. rewrite parse_radix_spec by assumption. destruct (N.ltb_spec (horner base ds) bound); [lia|reflexivity].
Qed.

(* underscores are ignored wherever they stand: a spelling is a digit string with '_' inserted *)
Inductive spelled : list N -> text -> Prop :=
  | sp_nil : spelled [] []
  | sp_us ds tx : spelled ds tx -> spelled ds (95 :: tx)
  | sp_digit c ds tx : is_digit c = true -> spelled ds tx -> spelled (digit_val c :: ds) (c :: tx).

Lemma spelled_filter ds tx : spelled ds tx -> map digit_val (filter is_digit tx) = ds.
Proof.
  induction 1 as [|ds tx H IH|c ds tx Hc H IH]; [reflexivity | exact IH |].
  cbn [filter]. rewrite Hc. cbn [map]. rewrite IH. reflexivity.
Qed.

Theorem integer_new_spec ds tx : spelled ds tx -> ds <> [] ->
  integer_new tx = if horner 10 ds <? two128 then Some (horner 10 ds) else None.
Proof.
  intros H Hne. unfold integer_new. rewrite (spelled_filter _ _ H).
  apply parse_radix_spec; [lia | reflexivity | exact Hne].
Qed.

(* based literals: digits of the base (as characters) with '_' inserted, after the prefix *)
Inductive spelled_in (isd : N -> bool) : list N -> text -> Prop :=
  | spi_nil : spelled_in isd [] []
  | spi_us ds tx : spelled_in isd ds tx -> spelled_in isd ds (95 :: tx)
  | spi_digit c ds tx : isd c = true -> c <> 95 -> spelled_in isd ds tx ->
      spelled_in isd (digit_val c :: ds) (c :: tx).

Lemma spelled_in_filter isd ds tx : spelled_in isd ds tx ->
  forallb isd (filter not_us tx) = true /\ map digit_val (filter not_us tx) = ds.
Proof.
  induction 1 as [|ds tx H [IH1 IH2]|c ds tx Hc Hn H [IH1 IH2]]; [split; reflexivity | split; assumption |].
  assert (Hu : not_us c = true) by (unfold not_us; destruct (N.eqb_spec c 95); [congruence | reflexivity]).
  cbn [filter]. rewrite Hu. cbn [forallb map]. rewrite Hc, IH1, IH2. split; reflexivity.
Qed.

Lemma prefix_eq_app p t : prefix_eq p (p ++ t) = true.
Proof. induction p as [|x p IH]; cbn; [reflexivity|]. rewrite N.eqb_refl. exact IH. Qed.
Lemma skipn_app_exact (A : Type) (p t : list A) : skipn (List.length p) (p ++ t) = t.
Proof. induction p as [|x p IH]; [reflexivity | exact IH]. Qed.

Theorem try_based_spec prefix isd base ds tx : 1 <= base -> spelled_in isd ds tx -> ds <> [] ->
  try_based prefix isd base (prefix ++ tx) =
  if horner base ds <? two128 then Some (horner base ds) else None.
Proof.
  intros Hb H Hne. unfold try_based. rewrite prefix_eq_app, skipn_app_exact.
  destruct (spelled_in_filter _ _ _ H) as [H1 H2]. rewrite H1, H2.
  apply parse_radix_spec; [exact Hb | reflexivity | exact Hne].
Qed.

Theorem try_hex_spec ds tx : spelled_in is_hexdigit ds tx -> ds <> [] ->
  try_hex ([49; 54; 35] ++ tx) = if horner 16 ds <? two128 then Some (horner 16 ds) else None.
Proof. intros H Hne. apply try_based_spec; [lia | exact H | exact Hne]. Qed.
Theorem try_octal_spec ds tx : spelled_in is_octdigit ds tx -> ds <> [] ->
  try_octal ([56; 35] ++ tx) = if horner 8 ds <? two128 then Some (horner 8 ds) else None.
Proof. intros H Hne. apply try_based_spec; [lia | exact H | exact Hne]. Qed.
Theorem try_binary_spec ds tx : spelled_in is_bindigit ds tx -> ds <> [] ->
  try_binary ([50; 35] ++ tx) = if horner 2 ds <? two128 then Some (horner 2 ds) else None.
Proof. intros H Hne. apply try_based_spec; [lia | exact H | exact Hne]. Qed.

(* ---- fixed point ---- *)
Lemma horner_from_app base a x y : horner_from base a (x ++ y) = horner_from base (horner_from base a x) y.
Proof. unfold horner_from. apply fold_left_app. Qed.

Lemma horner_from_zeros base a k : horner_from base a (repeat 0 k) = a * base ^ N.of_nat k.
Proof.
  revert a. induction k as [|k IH]; intro a.
  - cbn. lia.
  - cbn [repeat horner_from fold_left]. fold (horner_from base (a * base + 0) (repeat 0 k)). rewrite IH.
    replace (N.of_nat (S k)) with (N.succ (N.of_nat k)) by lia. rewrite N.pow_succ_r'. lia.
Qed.

Lemma horner_bound ds : Forall (fun d => d < 10) ds -> horner 10 ds < 10 ^ N.of_nat (List.length ds).
Proof.
  unfold horner. assert (G : forall a k, a < 10 ^ k -> Forall (fun d => d < 10) ds ->
                          horner_from 10 a ds < 10 ^ (k + N.of_nat (List.length ds))).
  { induction ds as [|d r IH]; intros a k Ha Hf.
    - cbn. rewrite N.add_0_r. exact Ha.
    - inversion Hf as [|? ? Hd Hr]; subst. cbn [horner_from fold_left List.length].
      fold (horner_from 10 (a * 10 + d) r).
      replace (k + N.of_nat (S (List.length r))) with ((k + 1) + N.of_nat (List.length r)) by lia.
      apply IH; [|exact Hr]. rewrite N.pow_add_r. change (10 ^ 1) with 10. lia. }
  intro Hf. specialize (G 0 0). cbn [N.add] in G. apply G; [cbn; lia | exact Hf].
Qed.

Definition digits_text (ds : list N) : text := map (fun d => d + 48) ds.

Lemma digits_text_props ds : Forall (fun d => d < 10) ds ->
  forallb is_digit (digits_text ds) = true /\ map digit_val (digits_text ds) = ds
  /\ filter (fun c => is_digit c || (c =? 46)) (digits_text ds) = digits_text ds
  /\ split_once_dot (digits_text ds) = None.
Proof.
  induction 1 as [|d r Hd Hr (IH1 & IH2 & IH3 & IH4)]; [repeat split; reflexivity|].
  assert (Hdig : is_digit (d + 48) = true) by (unfold is_digit; lia).
  cbn [digits_text map forallb filter split_once_dot]. fold (digits_text r).
  rewrite Hdig. cbn [orb andb]. rewrite IH1, IH2, IH3, IH4.
  assert (Hv : digit_val (d + 48) = d) by (unfold digit_val; rewrite Hdig; lia).
  rewrite Hv. destruct (N.eqb_spec (d + 48) 46) as [E|_]; [lia|]. repeat split; reflexivity.
Qed.

Lemma digits_text_length ds : List.length (digits_text ds) = List.length ds.
Proof. unfold digits_text. apply map_length. Qed.

Lemma parse_u64_digits ds : Forall (fun d => d < 10) ds -> ds <> [] ->
  parse_u64 (digits_text ds) = if horner 10 ds <? two64 then Some (horner 10 ds) else None.
Proof.
  intros Hf Hne. unfold parse_u64. destruct (digits_text_props ds Hf) as (H1 & H2 & _ & _).
  rewrite H1, H2. apply parse_radix_spec; [lia | reflexivity | exact Hne].
Qed.

Lemma filter_app_dot w d : Forall (fun x => x < 10) w -> Forall (fun x => x < 10) d ->
  filter (fun c => is_digit c || (c =? 46)) (digits_text w ++ 46 :: digits_text d) = digits_text w ++ 46 :: digits_text d.
Proof.
  intros Hw Hd. rewrite filter_app. destruct (digits_text_props w Hw) as (_ & _ & H3 & _).
  destruct (digits_text_props d Hd) as (_ & _ & H3' & _). rewrite H3. cbn [filter]. 
  replace (is_digit 46 || (46 =? 46)) with true by reflexivity. rewrite H3'. reflexivity.
Qed.

Lemma split_once_dot_app w d : Forall (fun x => x < 10) w ->
  split_once_dot (digits_text w ++ 46 :: d) = Some (digits_text w, d).
Proof.
  induction 1 as [|x r Hx Hr IH]; [reflexivity|].
  cbn [digits_text map app split_once_dot]. fold (digits_text r).
  destruct (N.eqb_spec (x + 48) 46) as [E|_]; [lia|]. rewrite IH. reflexivity.
Qed.

(* "w.d" with at most 15 fractional digits: the whole part when it fits in 64 bits, the fraction
   scaled to 10^-15 exactly; more than 15 fractional digits are rejected, never rounded *)
Theorem fixed_parse_spec w d : Forall (fun x => x < 10) w -> Forall (fun x => x < 10) d -> w <> [] ->
  fixed_parse (digits_text w ++ 46 :: digits_text d) =
  if Nat.ltb 15 (List.length d) then None
  else if horner 10 w <? two64 then Some (horner 10 w, horner 10 d * 10 ^ N.of_nat (15 - List.length d))
  else None.
Proof.
  intros Hw Hd Hne. unfold fixed_parse. rewrite filter_app_dot by assumption.
  rewrite split_once_dot_app by assumption. rewrite parse_u64_digits by assumption.
  rewrite !digits_text_length.
  destruct (Nat.ltb_spec 15 (List.length d)) as [Hl|Hl]; [destruct (horner 10 w <? two64); reflexivity|].
  destruct (horner 10 w <? two64) eqn:Ew; [|reflexivity].
  set (k := (15 - List.length d)%nat).
  assert (Hpad : digits_text d ++ repeat 48 k = digits_text (d ++ repeat 0 k)).
  { unfold digits_text. rewrite map_app. f_equal. clear. induction k; [reflexivity | cbn; f_equal; assumption]. }
  rewrite Hpad.
  assert (Hf : Forall (fun x => x < 10) (d ++ repeat 0 k)).
  { apply Forall_app; split; [exact Hd|]. clear. induction k; constructor; [lia | assumption]. }
  assert (Hne2 : d ++ repeat 0 k <> []).
  { destruct d; [|discriminate]. cbn [app]. unfold k. cbn. discriminate. }
  rewrite parse_u64_digits by assumption.
  unfold horner at 1 2. rewrite horner_from_app, horner_from_zeros. fold (horner 10 d).
  pose proof (horner_bound d Hd) as Hb.
  assert (Hlt : horner 10 d * 10 ^ N.of_nat k < two64).
  { assert (Hk : N.of_nat (List.length d) + N.of_nat k = 15) by (unfold k; lia).
    assert (H15 : horner 10 d * 10 ^ N.of_nat k < 10 ^ 15).
    { rewrite <- Hk, N.pow_add_r. apply N.mul_lt_mono_pos_r; [|exact Hb]. apply N.neq_0_lt_0, N.pow_nonzero; lia. }
    eapply N.lt_trans; [exact H15|]. reflexivity. }
  destruct (N.ltb_spec (horner 10 d * 10 ^ N.of_nat k) two64); [reflexivity | lia].
Qed.

(* ---- durations ---- *)
(* the exact value in nanoseconds of (w + f / 10^15) units of npu nanoseconds, rounded down *)
Definition exact_nanos (w f npu : N) : N := (w * ten15 + f) * npu / ten15.

Theorem try_from_units_spec w f npu :
  try_from_units (w, f) npu =
  if exact_nanos w f npu / ten9 <? two63
  then Some (exact_nanos w f npu / ten9, exact_nanos w f npu mod ten9) else None.
Proof.
  unfold try_from_units, exact_nanos.
  assert (E : w * npu + f * npu / ten15 = (w * ten15 + f) * npu / ten15).
  { replace ((w * ten15 + f) * npu) with (f * npu + w * npu * ten15) by lia.
    rewrite N.div_add by (unfold ten15; lia). lia. }
  rewrite E. reflexivity.
Qed.

Corollary try_from_units_exact w f npu s n :
  try_from_units (w, f) npu = Some (s, n) -> s * ten9 + n = exact_nanos w f npu /\ n < ten9.
Proof.
  rewrite try_from_units_spec. destruct (_ <? two63); [|discriminate]. intro H; inversion H; subst.
  unfold ten9. split; [|apply N.mod_lt; lia].
  pose proof (N.div_mod (exact_nanos w f npu) 1000000000). lia.
Qed.

(* ---- dates and times of day ---- *)
Definition valid_date (y m d : N) : Prop :=
  y <= 9999 /\ 1 <= m <= 12 /\ 1 <= d <= days_in_month y m.

Theorem date_literal_spec y m d :
  (valid_date y m d -> date_literal y m d = Some (y, m, d)) /\
  (~ valid_date y m d -> date_literal y m d = None).
Proof.
  unfold valid_date, date_literal. split; intro H.
  - destruct H as (H1 & H2 & H3).
    replace ((y <=? 9999) && (1 <=? m) && (m <=? 12) && (1 <=? d) && (d <=? days_in_month y m)) with true by lia.
    reflexivity.
  - destruct ((y <=? 9999) && (1 <=? m) && (m <=? 12) && (1 <=? d) && (d <=? days_in_month y m)) eqn:E;
      [exfalso; apply H; lia | reflexivity].
Qed.

Theorem daytime_spec h m sw sf :
  daytime h m (sw, sf) = if (h <? 24) && (m <? 60) && (sw <? 60) then Some (h, m, sw, sf / 1000000) else None.
Proof. reflexivity. Qed.

(* ---- strings ---- *)
Lemma removelast_snoc (A : Type) (l : list A) x : removelast (l ++ [x]) = l.
Proof. apply removelast_last. Qed.
Theorem string_chars_spec q body : string_chars (q :: body ++ [q]) = body.
Proof. unfold string_chars. cbn [tl]. apply removelast_last. Qed.
