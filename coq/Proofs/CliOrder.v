(* C13: the verdict of check does not depend on the order of the path arguments (given an analysis whose verdict does not). *)
From Coq Require Import List NArith Bool Permutation.
From Verif Require Import Model.Cli.
Import ListNotations.
Open Scope N_scope.

Section Order.
  Variable C : Type.
  Variable fs : path -> node C.
  Variable tok_errs : C -> list code.
  Variable parse_err : C -> option code.
  Variable analysis : list C -> list code.

  Notation enumerate := (enumerate C fs).
  Notation enumerate_all := (enumerate_all C fs).
  Notation read := (read C fs).
  Notation read_all := (read_all C fs).
  Notation create_project := (create_project C fs).
  Notation parse_diag := (parse_diag C tok_errs parse_err).
  Notation semantic := (semantic C tok_errs parse_err analysis).
  Notation check := (check C fs tok_errs parse_err analysis).

  Definition en_files (p : path) : list path := match enumerate p with inl l => l | inr _ => [] end.
  Definition en_errs (p : path) : list code := match enumerate p with inl _ => [] | inr e => [e] end.
  Definition rd_files (p : path) : list C := match read p with inl c => [c] | inr _ => [] end.
  Definition rd_errs (p : path) : list code := match read p with inl _ => [] | inr e => [e] end.

  Lemma enumerate_all_flat ps : enumerate_all ps = (flat_map en_files ps, flat_map en_errs ps).
  Proof.
    induction ps as [|p r IH]; [reflexivity|]. cbn [Cli.enumerate_all flat_map]. rewrite IH.
    unfold en_files, en_errs. destruct (enumerate p); reflexivity.
  Qed.

  Lemma read_all_flat ps : read_all ps = (flat_map rd_files ps, flat_map rd_errs ps).
  Proof.
    induction ps as [|p r IH]; [reflexivity|]. cbn [Cli.read_all flat_map]. rewrite IH.
    unfold rd_files, rd_errs. destruct (read p); reflexivity.
  Qed.

  Lemma create_project_flat ps :
    create_project ps =
    match flat_map en_errs ps with
    | _ :: _ => inr (flat_map en_errs ps)
    | [] => match flat_map rd_errs (flat_map en_files ps) with
            | _ :: _ => inr (flat_map rd_errs (flat_map en_files ps))
            | [] => inl (flat_map rd_files (flat_map en_files ps))
            end
    end.
  Proof. unfold Cli.create_project. rewrite enumerate_all_flat, read_all_flat. reflexivity. Qed.

  Lemma perm_nil_iff {A} (l l' : list A) : Permutation l l' -> (l = [] <-> l' = []).
  Proof.
    intro P. split; intro E; subst.
    - apply Permutation_nil. exact P.
    - apply Permutation_nil. apply Permutation_sym. exact P.
  Qed.

  (* the project of a permuted argument list: it fails when the other fails, and otherwise holds a permutation of the files *)
  Lemma create_project_perm ps ps' : Permutation ps ps' ->
    match create_project ps, create_project ps' with
    | inl cs, inl cs' => Permutation cs cs'
    | inr _, inr _ => True
    | _, _ => False
    end.
  Proof.
    intro P. rewrite !create_project_flat.
    pose proof (Permutation_flat_map en_errs P) as Pe.
    pose proof (Permutation_flat_map en_files P) as Pf.
    pose proof (Permutation_flat_map rd_errs Pf) as Pr.
    pose proof (Permutation_flat_map rd_files Pf) as Pc.
    pose proof (perm_nil_iff _ _ Pe) as Ne. pose proof (perm_nil_iff _ _ Pr) as Nr.
    destruct (flat_map en_errs ps) as [|e es]; destruct (flat_map en_errs ps') as [|e' es']; try exact I;
      try (exfalso; destruct Ne as [N1 N2]; (discriminate (N1 eq_refl) || discriminate (N2 eq_refl))).
    destruct (flat_map rd_errs (flat_map en_files ps)) as [|x xs]; destruct (flat_map rd_errs (flat_map en_files ps')) as [|x' xs']; try exact I;
      try (exfalso; destruct Nr as [N1 N2]; (discriminate (N1 eq_refl) || discriminate (N2 eq_refl))).
    exact Pc.
  Qed.

  Lemma flat_map_nil {A B} (f : A -> list B) l : flat_map f l = [] <-> forall x, In x l -> f x = [].
  Proof.
    induction l as [|a l IH]; cbn [flat_map]; [split; [intros _ x []|reflexivity]|].
    split.
    - intro H. apply app_eq_nil in H. destruct H as [H1 H2]. intros x [<-|Hx]; [exact H1|]. apply (proj1 IH H2 x Hx).
    - intro H. rewrite (H a (or_introl eq_refl)). cbn [app]. apply IH. intros x Hx. apply H. right. exact Hx.
  Qed.

  Lemma filter_all {A} (f : A -> bool) l : (forall x, In x l -> f x = true) -> filter f l = l.
  Proof.
    induction l as [|a l IH]; intro H; [reflexivity|]. cbn [filter]. rewrite (H a (or_introl eq_refl)). f_equal.
    apply IH. intros x Hx. apply H. right. exact Hx.
  Qed.

  (* the semantic check is clean exactly when every file parses and the analysis of all of them is clean *)
  Lemma semantic_nil cs : semantic cs = [] <-> (forall c, In c cs -> parse_diag c = []) /\ analysis cs = [].
  Proof.
    unfold Cli.semantic. split.
    - intro H.
      assert (Hp : flat_map parse_diag cs = []).
      { destruct (filter (parses C tok_errs parse_err) cs) as [|l ls]; destruct (flat_map parse_diag cs) as [|d ds]; try reflexivity; try discriminate H.
        destruct (analysis (l :: ls)); [discriminate H|discriminate H]. }
      pose proof (proj1 (flat_map_nil _ _) Hp) as Ha. split; [exact Ha|].
      assert (Hf : filter (parses C tok_errs parse_err) cs = cs).
      { apply filter_all. intros x Hx. unfold parses. rewrite (Ha x Hx). reflexivity. }
      rewrite Hf, Hp in H. destruct cs as [|c cs']; destruct (analysis _) eqn:E; try reflexivity; try discriminate H.
    - intros [Ha Hn].
      assert (Hp : flat_map parse_diag cs = []) by (apply flat_map_nil; exact Ha).
      assert (Hf : filter (parses C tok_errs parse_err) cs = cs).
      { apply filter_all. intros x Hx. unfold parses. rewrite (Ha x Hx). reflexivity. }
      rewrite Hf, Hp, Hn. destruct cs; reflexivity.
  Qed.

  Hypothesis analysis_order : forall l l', Permutation l l' -> (analysis l = [] <-> analysis l' = []).

  (* the verdict of check does not depend on the order of the path arguments *)
  Theorem check_order ps ps' : Permutation ps ps' ->
    (exit (check ps) = 0 <-> exit (check ps') = 0) /\ (ok_line (check ps) = ok_line (check ps')).
  Proof.
    intro P. pose proof (create_project_perm ps ps' P) as Q. unfold Cli.check.
    destruct (create_project ps) as [cs|ds]; destruct (create_project ps') as [cs'|ds']; try contradiction.
    - assert (E : semantic cs = [] <-> semantic cs' = []).
      { rewrite !semantic_nil. split; intros [Ha Hn]; split.
        + intros c Hc. apply Ha. apply (Permutation_in c (Permutation_sym Q) Hc).
        + apply (proj1 (analysis_order cs cs' Q) Hn).
        + intros c Hc. apply Ha. apply (Permutation_in c Q Hc).
        + apply (proj2 (analysis_order cs cs' Q) Hn). }
      destruct (semantic cs) as [|d l]; destruct (semantic cs') as [|d' l']; cbn; try (split; [tauto|reflexivity]).
      * exfalso. destruct E as [E1 _]. discriminate (E1 eq_refl).
      * exfalso. destruct E as [_ E2]. discriminate (E2 eq_refl).
    - cbn. split; [tauto|reflexivity].
  Qed.
End Order.
