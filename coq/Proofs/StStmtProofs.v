(* The statement layer of Model/StParser.v: every well-formed spelling of a statement list is parsed to the list it
   denotes, leaving exactly the rest, with an explicit fuel bound (the number of nodes of the spelled tree).
   Spelled statements record the tokens and the trivia at every slot; lists are written in the usual form
   s1 ; s2 ; ... sn ;  (one `semisep` group; empty statements are outside this theorem, inside the model). *)
From Coq Require Import List Arith Lia Bool NArith.
From Verif Require Import Base.Res Base.Text Model.ExprParser Model.StParser Proofs.StExprProofs.
Import ListNotations.
Close Scope N_scope.
Open Scope nat_scope.

Section G.
  Variable tk : Type.
  Variable cl : tk -> tcl.
  Variable txt : tk -> text.
  Variable num : tk -> N.
  Variable lvl : binop -> nat.

  Notation skip := (skip tk cl).
  Notation next_is := (next_is tk cl).
  Notation ident := (ident tk cl txt).
  Notation call_tail := (call_tail tk cl txt).
  Notation pexpr := (pexpr tk cl txt num lvl).
  Notation pe0 := (pe0 tk cl).
  Notation assign := (assign tk cl txt).
  Notation sels_loop := (sels_loop tk cl txt).
  Notation pvariable := (pvariable tk cl txt).
  Notation fbcall := (fbcall tk cl txt).
  Notation opt_list := (opt_list tk).
  Notation elsif1 := (elsif1 tk cl).
  Notation elsifs_more := (elsifs_more tk cl).
  Notation elsifs := (elsifs tk cl).
  Notation else_part := (else_part tk cl).
  Notation if_tail := (if_tail tk cl).
  Notation signed_int := (signed_int tk cl num).
  Notation case_sel := (case_sel tk cl txt num).
  Notation csels_more := (csels_more tk cl txt num).
  Notation case_elem := (case_elem tk cl txt num).
  Notation cases_more := (cases_more tk cl txt num).
  Notation cases := (cases tk cl txt num).
  Notation case_tail := (case_tail tk cl txt num).
  Notation for_tail := (for_tail tk cl txt).
  Notation while_tail := (while_tail tk cl).
  Notation repeat_tail := (repeat_tail tk cl).
  Notation stmt1 := (stmt1 tk cl txt num).
  Notation stmts_more := (stmts_more tk cl).
  Notation group := (group tk cl).
  Notation groups_more := (groups_more tk cl).
  Notation stmt_list := (stmt_list tk cl).
  Notation plist := (plist tk cl txt num lvl).

  Notation sp := (sp tk).
  Notation spar := (spar tk).
  Notation spars := (spars tk).
  Notation ssels := (ssels tk).
  Notation flatss := (flatss tk).
  Notation erasess := (erasess tk txt num).
  Notation sizess := (sizess tk).
  Notation wfss := (wfss tk cl txt num lvl).
  Notation nosel := (nosel tk cl).
  Notation flat := (flat tk).
  Notation flatp := (flatp tk).
  Notation flatps := (flatps tk).
  Notation erase := (erase tk txt num).
  Notation erasep := (erasep tk txt num).
  Notation eraseps := (eraseps tk txt num).
  Notation size := (size tk).
  Notation sizep := (sizep tk).
  Notation sizeps := (sizeps tk).
  Notation ends_name := (ends_name tk).
  Notation pends := (pends tk).
  Notation lead := (lead tk).
  Notation wf := (wf tk cl txt num lvl).
  Notation wfpar := (wfpar tk cl txt num lvl).
  Notation wfpars := (wfpars tk cl txt num lvl).
  Notation all_triv := (all_triv tk cl).
  Notation solid := (solid tk cl).
  Notation follow_lt := (follow_lt tk cl lvl).
  Notation follow_name := (follow_name tk cl).
  Notation follow_ok := (follow_ok tk cl).

  (* ---- spelled statements ---- *)
  Inductive sby := ByNone | BySome (k : tk) (w1 : list tk) (e : sp) (w2 : list tk).

  (* CASE selectors: signed integers, subranges, enumerated values without type prefix *)
  (* SiMinus has a slot where the grammar admits no trivia (well-formed only when it is empty): the renderer writes a blank there *)
  Inductive sint := SiPlain (d : tk) | SiPlus (p d : tk) | SiMinus (m : tk) (w : list tk) (d : tk).
  Inductive ssel := SelInt (i : sint) | SelRange (i1 : sint) (w1 : list tk) (dots : tk) (w2 : list tk) (i2 : sint) | SelEnum (n : tk).
  Inductive smsel := MSel (w1 : list tk) (comma : tk) (w2 : list tk) (x : ssel).      (* _ ',' _ selector *)

  Definition flat_int (i : sint) : list tk := match i with SiPlain d => [d] | SiPlus p d => [p; d] | SiMinus m w d => m :: w ++ [d] end.
  Definition erase_int (i : sint) : bool * N :=
    match i with SiPlain d => (false, num d) | SiPlus _ d => (false, num d) | SiMinus _ _ d => (true, num d) end.
  Definition wf_int (i : sint) : Prop :=
    match i with
    | SiPlain d => cl d = CConst CkInt
    | SiPlus p d => cl p = COp BAdd /\ cl d = CConst CkInt
    | SiMinus m w d => cl m = CMinus /\ w = [] /\ cl d = CConst CkInt
    end.
  Definition flat_sel (x : ssel) : list tk :=
    match x with
    | SelInt i => flat_int i
    | SelRange i1 w1 dots w2 i2 => flat_int i1 ++ w1 ++ dots :: w2 ++ flat_int i2
    | SelEnum n => [n]
    end.
  Definition erase_sel (x : ssel) : csel :=
    match x with
    | SelInt i => CsInt (fst (erase_int i)) (snd (erase_int i))
    | SelRange i1 _ _ _ i2 => CsRange (fst (erase_int i1)) (snd (erase_int i1)) (fst (erase_int i2)) (snd (erase_int i2))
    | SelEnum n => CsEnum (txt n)
    end.
  Definition wf_sel (x : ssel) : Prop :=
    match x with
    | SelInt i => wf_int i
    | SelRange i1 w1 dots w2 i2 => wf_int i1 /\ all_triv w1 /\ cl dots = CRange /\ all_triv w2 /\ wf_int i2
    | SelEnum n => cl n = CId
    end.
  Definition flat_ms (m : smsel) : list tk := match m with MSel w1 comma w2 x => w1 ++ comma :: w2 ++ flat_sel x end.
  Definition erase_ms (m : smsel) : csel := match m with MSel _ _ _ x => erase_sel x end.
  Definition wf_ms (m : smsel) : Prop :=
    match m with MSel w1 comma w2 x => all_triv w1 /\ cl comma = CComma /\ all_triv w2 /\ wf_sel x end.
  Definition flat_mss (ms : list smsel) : list tk := concat (map flat_ms ms).

  Inductive ss :=
    | SsAssign (v : tk) (vs : ssels) (w1 : list tk) (a : tk) (w2 : list tk) (e : sp)
    | SsCall0 (f : tk) (w1 : list tk) (lp : tk) (w2 : list tk) (rp : tk)
    | SsCallN (f : tk) (w1 : list tk) (lp : tk) (w2 : list tk) (p : spar) (ps : spars) (w3 : list tk) (rp : tk)
    | SsIf (k : tk) (w1 : list tk) (c : sp) (w2 : list tk) (th : tk) (w3 : list tk) (b : sob) (eis : seis) (el : sels)
           (w4 : list tk) (en : tk)
    | SsCase (k : tk) (w1 : list tk) (c : sp) (w2 : list tk) (o : tk) (cs : scases) (el : sels) (w4 : list tk) (en : tk)
    | SsFor (k : tk) (w1 : list tk) (v : tk) (w2 : list tk) (a : tk) (w3 : list tk) (e1 : sp) (w4 : list tk) (to : tk)
            (w5 : list tk) (e2 : sp) (w6 : list tk) (st : sby) (d : tk) (w7 : list tk) (body : sl) (w8 : list tk) (en : tk)
    | SsWhile (k : tk) (w1 : list tk) (c : sp) (w2 : list tk) (d : tk) (w3 : list tk) (body : sl) (w4 : list tk) (en : tk)
    | SsRepeat (k : tk) (w1 : list tk) (body : sl) (w2 : list tk) (u : tk) (w3 : list tk) (c : sp) (w4 : list tk) (en : tk)
    | SsExit (k : tk)
    | SsReturn (k : tk)
  with sl := LOne (g : sg) | LCons (g : sg) (l : sl)                 (* statements_or_empty()+ *)
  with sg := GEmpty (w1 : list tk) (semi : tk) (w2 : list tk)        (* _ ';' _ *)
          | GStmts (s : ss) (m : smore) (w : list tk) (semi : tk)    (* semisep(statement) *)
  with smore := MNil | MCons (w1 : list tk) (semi : tk) (w2 : list tk) (s : ss) (m : smore)
  with sob := BNone | BSome (l : sl)
  with seis := EINil
    | EICons (w0 : list tk) (k : tk) (w1 : list tk) (c : sp) (w2 : list tk) (th : tk) (w3 : list tk) (body : sl) (r : seis)
  with sels := ENone | ESome (w0 : list tk) (k : tk) (w1 : list tk) (body : sl)
  with scases := CaNil                                               (* case_element ** _ *)
    | CaCons (w0 : list tk) (x : ssel) (ms : list smsel) (w1 : list tk) (colon : tk) (w2 : list tk) (body : sl) (r : scases).

  Scheme ss_mut := Induction for ss Sort Prop
  with sl_mut := Induction for sl Sort Prop
  with sg_mut := Induction for sg Sort Prop
  with smore_mut := Induction for smore Sort Prop
  with sob_mut := Induction for sob Sort Prop
  with seis_mut := Induction for seis Sort Prop
  with sels_mut := Induction for sels Sort Prop
  with scases_mut := Induction for scases Sort Prop.
  Combined Scheme ss_mutind from ss_mut, sl_mut, sg_mut, smore_mut, sob_mut, seis_mut, sels_mut, scases_mut.

  Definition flat_by (b : sby) : list tk :=
    match b with ByNone => [] | BySome k w1 e w2 => k :: w1 ++ flat e ++ w2 end.

  Fixpoint flat_s (s : ss) : list tk :=
    match s with
    | SsAssign v vs w1 a w2 e => v :: flatss vs ++ w1 ++ a :: w2 ++ flat e
    | SsCall0 f w1 lp w2 rp => f :: w1 ++ lp :: w2 ++ [rp]
    | SsCallN f w1 lp w2 p ps w3 rp => f :: w1 ++ lp :: w2 ++ flatp p ++ flatps ps ++ w3 ++ [rp]
    | SsIf k w1 c w2 th w3 b eis el w4 en =>
        k :: w1 ++ flat c ++ w2 ++ th :: w3 ++ flat_b b ++ flat_eis eis ++ flat_el el ++ w4 ++ [en]
    | SsCase k w1 c w2 o cs el w4 en => k :: w1 ++ flat c ++ w2 ++ o :: flat_cs cs ++ flat_el el ++ w4 ++ [en]
    | SsFor k w1 v w2 a w3 e1 w4 to w5 e2 w6 st d w7 body w8 en =>
        k :: w1 ++ v :: w2 ++ a :: w3 ++ flat e1 ++ w4 ++ to :: w5 ++ flat e2 ++ w6 ++ flat_by st ++ d :: w7 ++ flat_l body ++ w8 ++ [en]
    | SsWhile k w1 c w2 d w3 body w4 en => k :: w1 ++ flat c ++ w2 ++ d :: w3 ++ flat_l body ++ w4 ++ [en]
    | SsRepeat k w1 body w2 u w3 c w4 en => k :: w1 ++ flat_l body ++ w2 ++ u :: w3 ++ flat c ++ w4 ++ [en]
    | SsExit k => [k]
    | SsReturn k => [k]
    end
  with flat_l (l : sl) : list tk :=
    match l with LOne g => flat_g g | LCons g l => flat_g g ++ flat_l l end
  with flat_g (g : sg) : list tk :=
    match g with GEmpty w1 semi w2 => w1 ++ semi :: w2 | GStmts s m w semi => flat_s s ++ flat_m m ++ w ++ [semi] end
  with flat_m (m : smore) : list tk :=
    match m with MNil => [] | MCons w1 semi w2 s m => w1 ++ semi :: w2 ++ flat_s s ++ flat_m m end
  with flat_b (b : sob) : list tk :=
    match b with BNone => [] | BSome l => flat_l l end
  with flat_eis (e : seis) : list tk :=
    match e with
    | EINil => []
    | EICons w0 k w1 c w2 th w3 body r => w0 ++ k :: w1 ++ flat c ++ w2 ++ th :: w3 ++ flat_l body ++ flat_eis r
    end
  with flat_el (e : sels) : list tk :=
    match e with ENone => [] | ESome w0 k w1 body => w0 ++ k :: w1 ++ flat_l body end
  with flat_cs (e : scases) : list tk :=
    match e with
    | CaNil => []
    | CaCons w0 x ms w1 colon w2 body r => w0 ++ flat_sel x ++ flat_mss ms ++ w1 ++ colon :: w2 ++ flat_l body ++ flat_cs r
    end.

  Definition erase_by (b : sby) : option sexpr := match b with ByNone => None | BySome _ _ e _ => Some (erase e) end.

  Fixpoint erase_s (s : ss) : stmt :=
    match s with
    | SsAssign v vs _ _ _ e => TAssign (txt v) (erasess vs) (erase e)
    | SsCall0 f _ _ _ _ => TCall (txt f) []
    | SsCallN f _ _ _ p ps _ _ => TCall (txt f) (erasep p :: eraseps ps)
    | SsIf _ _ c _ _ _ b eis el _ _ => TIf (erase c) (erase_b b) (erase_eis eis) (erase_el el)
    | SsCase _ _ c _ _ cs el _ _ => TCase (erase c) (erase_cs cs) (erase_el el)
    | SsFor _ _ v _ _ _ e1 _ _ _ e2 _ st _ _ body _ _ => TFor (txt v) (erase e1) (erase e2) (erase_by st) (erase_l body)
    | SsWhile _ _ c _ _ _ body _ _ => TWhile (erase c) (erase_l body)
    | SsRepeat _ _ body _ _ _ c _ _ => TRepeat (erase_l body) (erase c)
    | SsExit _ => TExit
    | SsReturn _ => TReturn
    end
  with erase_l (l : sl) : list stmt :=
    match l with LOne g => erase_g g | LCons g l => erase_g g ++ erase_l l end
  with erase_g (g : sg) : list stmt :=
    match g with GEmpty _ _ _ => [] | GStmts s m _ _ => erase_s s :: erase_m m end
  with erase_m (m : smore) : list stmt :=
    match m with MNil => [] | MCons _ _ _ s m => erase_s s :: erase_m m end
  with erase_b (b : sob) : list stmt :=
    match b with BNone => [] | BSome l => erase_l l end
  with erase_eis (e : seis) : list (sexpr * list stmt) :=
    match e with EINil => [] | EICons _ _ _ c _ _ _ body r => (erase c, erase_l body) :: erase_eis r end
  with erase_el (e : sels) : list stmt :=
    match e with ENone => [] | ESome _ _ _ body => erase_l body end
  with erase_cs (e : scases) : list (list csel * list stmt) :=
    match e with
    | CaNil => []
    | CaCons _ x ms _ _ _ body r => (erase_sel x :: map erase_ms ms, erase_l body) :: erase_cs r
    end.

  Definition size_by (b : sby) : nat := match b with ByNone => 0 | BySome _ _ e _ => 1 + size e end.

  Fixpoint size_s (s : ss) : nat :=
    match s with
    | SsAssign _ vs _ _ _ e => 2 + sizess vs + size e
    | SsCall0 _ _ _ _ _ => 2
    | SsCallN _ _ _ _ p ps _ _ => 2 + sizep p + sizeps ps
    | SsIf _ _ c _ _ _ b eis el _ _ => 3 + size c + size_b b + size_eis eis + size_el el
    | SsCase _ _ c _ _ cs el _ _ => 3 + size c + size_cs cs + size_el el
    | SsFor _ _ _ _ _ _ e1 _ _ _ e2 _ st _ _ body _ _ => 3 + size e1 + size e2 + size_by st + size_l body
    | SsWhile _ _ c _ _ _ body _ _ => 2 + size c + size_l body
    | SsRepeat _ _ body _ _ _ c _ _ => 2 + size c + size_l body
    | SsExit _ | SsReturn _ => 1
    end
  with size_l (l : sl) : nat :=
    match l with LOne g => 1 + size_g g | LCons g l => 1 + size_g g + size_l l end
  with size_g (g : sg) : nat :=
    match g with GEmpty _ _ _ => 1 | GStmts s m _ _ => size_s s + size_m m end
  with size_m (m : smore) : nat :=
    match m with MNil => 1 | MCons _ _ _ s m => 1 + size_s s + size_m m end
  with size_b (b : sob) : nat :=
    match b with BNone => 1 | BSome l => 1 + size_l l end
  with size_eis (e : seis) : nat :=
    match e with EINil => 1 | EICons _ _ _ c _ _ _ body r => 2 + size c + size_l body + size_eis r end
  with size_el (e : sels) : nat :=
    match e with ENone => 1 | ESome _ _ _ body => 1 + size_l body end
  with size_cs (e : scases) : nat :=
    match e with CaNil => 1 | CaCons _ _ ms _ _ _ body r => 2 + length ms + size_l body + size_cs r end.

  (* a statement that ends in an expression ending in an identifier: the trivia after it is recorded at the identifier *)
  Definition sends (s : ss) : bool := match s with SsAssign _ _ _ _ _ e => ends_name e | _ => false end.
  Definition lead_m (m : smore) (w : list tk) : list tk := match m with MNil => w | MCons w1 _ _ _ _ => w1 end.

  Definition wf_by (b : sby) : Prop :=
    match b with
    | ByNone => True
    | BySome k w1 e w2 => cl k = CKw KwBy /\ all_triv w1 /\ wf 0 e /\ all_triv w2 /\ (ends_name e = true -> w2 = [])
    end.

  (* a list that ends in an empty statement: the `_` after its ';' has read the trivia that follows *)
  Definition gempty (g : sg) : bool := match g with GEmpty _ _ _ => true | GStmts _ _ _ _ => false end.
  Fixpoint absorbs (l : sl) : bool := match l with LOne g => gempty g | LCons _ l => absorbs l end.
  Definition babsorbs (b : sob) : bool := match b with BNone => false | BSome l => absorbs l end.
  Definition el_lead (el : sels) (w4 : list tk) : list tk := match el with ENone => w4 | ESome w0 _ _ _ => w0 end.
  Definition cs_lead (e : scases) (wt : list tk) : list tk := match e with CaNil => wt | CaCons w0 _ _ _ _ _ _ _ => w0 end.
  Definition eis_lead (e : seis) (wt : list tk) : list tk := match e with EINil => wt | EICons w0 _ _ _ _ _ _ _ _ => w0 end.

  (* [pe]: the list starts here or the previous group was an empty statement (which has read the trivia before this one);
     a `semisep` group can only stand there -- two adjacent ones are one group *)
  Fixpoint wf_s (s : ss) : Prop :=
    match s with
    | SsAssign v vs w1 a w2 e => cl v = CId /\ wfss vs /\ all_triv w1 /\ cl a = CAssign /\ all_triv w2 /\ wf 0 e
    | SsCall0 f w1 lp w2 rp => cl f = CId /\ all_triv w1 /\ cl lp = CLP /\ all_triv w2 /\ cl rp = CRP
    | SsCallN f w1 lp w2 p ps w3 rp =>
        cl f = CId /\ all_triv w1 /\ cl lp = CLP /\ all_triv w2 /\ wfpar p /\ wfpars w3 ps /\ all_triv w3 /\
        cl rp = CRP /\ (pends p = true -> lead ps w3 = [])
    | SsIf k w1 c w2 th w3 b eis el w4 en =>
        cl k = CKw KwIf /\ all_triv w1 /\ wf 0 c /\ all_triv w2 /\ (ends_name c = true -> w2 = []) /\
        cl th = CKw KwThen /\ all_triv w3 /\ wf_b b /\ wf_eis (el_lead el w4) eis /\ wf_el w4 el /\ all_triv w4 /\
        cl en = CKw KwEndIf /\ (babsorbs b = true -> eis_lead eis (el_lead el w4) = [])
    | SsCase k w1 c w2 o cs el w4 en =>
        cl k = CKw KwCase /\ all_triv w1 /\ wf 0 c /\ all_triv w2 /\ (ends_name c = true -> w2 = []) /\
        cl o = CKw KwOf /\ wf_cs (el_lead el w4) cs /\ wf_el w4 el /\ all_triv w4 /\ cl en = CKw KwEndCase
    | SsFor k w1 v w2 a w3 e1 w4 to w5 e2 w6 st d w7 body w8 en =>
        cl k = CKw KwFor /\ all_triv w1 /\ cl v = CId /\ all_triv w2 /\ cl a = CAssign /\ all_triv w3 /\
        wf 0 e1 /\ all_triv w4 /\ (ends_name e1 = true -> w4 = []) /\ cl to = CKw KwTo /\ all_triv w5 /\
        wf 0 e2 /\ all_triv w6 /\ (ends_name e2 = true -> w6 = []) /\ wf_by st /\ cl d = CKw KwDo /\ all_triv w7 /\
        wf_l true body /\ all_triv w8 /\ cl en = CKw KwEndFor /\ (absorbs body = true -> w8 = [])
    | SsWhile k w1 c w2 d w3 body w4 en =>
        cl k = CKw KwWhile /\ all_triv w1 /\ wf 0 c /\ all_triv w2 /\ (ends_name c = true -> w2 = []) /\
        cl d = CKw KwDo /\ all_triv w3 /\ wf_l true body /\ all_triv w4 /\ cl en = CKw KwEndWhile /\
        (absorbs body = true -> w4 = [])
    | SsRepeat k w1 body w2 u w3 c w4 en =>
        cl k = CKw KwRepeat /\ all_triv w1 /\ wf_l true body /\ all_triv w2 /\ cl u = CKw KwUntil /\ all_triv w3 /\
        wf 0 c /\ all_triv w4 /\ (ends_name c = true -> w4 = []) /\ cl en = CKw KwEndRepeat /\
        (absorbs body = true -> w2 = [])
    | SsExit k => cl k = CKw KwExit
    | SsReturn k => cl k = CKw KwReturn
    end
  with wf_l (pe : bool) (l : sl) : Prop :=
    match l with
    | LOne g => wf_g pe g
    | LCons g l => wf_g pe g /\ wf_l (gempty g) l
    end
  with wf_g (pe : bool) (g : sg) : Prop :=
    match g with
    | GEmpty w1 semi w2 => (pe = true -> w1 = []) /\ all_triv w1 /\ cl semi = CSemi /\ all_triv w2
    | GStmts s m w semi =>
        pe = true /\ wf_s s /\ wf_m w m /\ all_triv w /\ cl semi = CSemi /\ (sends s = true -> lead_m m w = [])
    end
  with wf_m (w : list tk) (m : smore) : Prop :=
    match m with
    | MNil => True
    | MCons w1 semi w2 s m =>
        all_triv w1 /\ cl semi = CSemi /\ all_triv w2 /\ wf_s s /\ wf_m w m /\ (sends s = true -> lead_m m w = [])
    end
  with wf_b (b : sob) : Prop :=
    match b with BNone => True | BSome l => wf_l true l end
  with wf_eis (wt : list tk) (e : seis) : Prop :=
    match e with
    | EINil => True
    | EICons w0 k w1 c w2 th w3 body r =>
        all_triv w0 /\ cl k = CKw KwElsif /\ all_triv w1 /\ wf 0 c /\ all_triv w2 /\ (ends_name c = true -> w2 = []) /\
        cl th = CKw KwThen /\ all_triv w3 /\ wf_l true body /\ wf_eis wt r /\ (absorbs body = true -> eis_lead r wt = [])
    end
  with wf_el (w4 : list tk) (e : sels) : Prop :=
    match e with
    | ENone => True
    | ESome w0 k w1 body => all_triv w0 /\ cl k = CKw KwElse /\ all_triv w1 /\ wf_l true body /\ (absorbs body = true -> w4 = [])
    end
  with wf_cs (wt : list tk) (e : scases) : Prop :=
    match e with
    | CaNil => True
    | CaCons w0 x ms w1 colon w2 body r =>
        all_triv w0 /\ wf_sel x /\ Forall wf_ms ms /\ all_triv w1 /\ cl colon = CColon /\ all_triv w2 /\
        wf_l true body /\ wf_cs wt r /\ (absorbs body = true -> cs_lead r wt = [])
    end.

  (* ---- what may follow ---- *)
  Definition starter (k : kw) : bool :=
    match k with KwIf | KwCase | KwFor | KwWhile | KwRepeat | KwExit | KwReturn => true | _ => false end.
  (* a token at which statement() fails at once *)
  Definition nonstart (c : tcl) : bool :=
    match c with CId => false | CKw k => negb (starter k) | _ => true end.
  (* the first token of an integer or subrange selector of a CASE element *)
  Definition sel_start (c : tcl) : bool := match c with CConst CkInt | COp BAdd | CMinus => true | _ => false end.
  Definition colon_or_comma (c : tcl) : bool := match c with CColon | CComma => true | _ => false end.
  (* no statement starts here: a token at which statement() fails at once, or a name before ':' or ',' (an enumerated
     value as CASE selector) *)
  Definition nostart (rest : list tk) : Prop :=
    match skip rest with
    | t :: r => match cl t with
                | CId => match skip r with c :: _ => colon_or_comma (cl c) = true | [] => False end
                | c => nonstart c = true
                end
    | [] => True
    end.
  (* the keyword that closes the construct a list stands in *)
  Definition kw_closer (rest : list tk) : Prop :=
    match skip rest with t :: _ => match cl t with CKw k => starter k = false | _ => False end | [] => False end.
  (* ... or the selector of the next CASE element *)
  Definition closer_next (rest : list tk) : Prop :=
    match skip rest with
    | t :: r => match cl t with
                | CKw k => starter k = false
                | CId => match skip r with c :: _ => colon_or_comma (cl c) = true | [] => False end
                | c => sel_start c = true
                end
    | [] => False
    end.

  Lemma kw_closer_next rest : kw_closer rest -> closer_next rest.
  Proof.
    unfold kw_closer, closer_next. destruct (skip rest) as [|t r]; [exact (fun H => H)|]. destruct (cl t); try contradiction. exact (fun H => H).
  Qed.

  Lemma closer_nostart rest : closer_next rest -> nostart rest.
  Proof.
    unfold closer_next, nostart. destruct (skip rest) as [|t r]; [contradiction|].
    destruct (cl t) as [| |k0| | | | | | | | | | | |o| | |k| | | |dk| |]; try (exact (fun H => H)); cbn; try discriminate; try reflexivity.
    intro H. rewrite H. reflexivity.
  Qed.

  Lemma kw_closer_at w t r k : all_triv w -> cl t = CKw k -> starter k = false -> kw_closer (w ++ t :: r).
  Proof.
    intros Hw Ht Hk. unfold kw_closer. rewrite (skip_app_triv tk cl w _ Hw).
    rewrite (skip_solid tk cl t r) by (unfold StExprProofs.solid; rewrite Ht; discriminate). rewrite Ht. exact Hk.
  Qed.

  Lemma closer_at w t r k : all_triv w -> cl t = CKw k -> starter k = false -> closer_next (w ++ t :: r).
  Proof. intros Hw Ht Hk. apply kw_closer_next. eapply kw_closer_at; eassumption. Qed.

  Lemma skip_skip ts : skip (skip ts) = skip ts.
  Proof.
    induction ts as [|t r IH]; [reflexivity|]. cbn. destruct (is_triv tk cl t) eqn:E; [exact IH|]. cbn. rewrite E. reflexivity.
  Qed.

  Lemma next_is_skip c ts : next_is c (skip ts) = next_is c ts.
  Proof. unfold StParser.next_is. rewrite skip_skip. reflexivity. Qed.

  (* statement() fails at once on a token that starts no statement *)
  Lemma stmt1_fails pe pl f t r : nonstart (cl t) = true -> stmt1 pe pl f (t :: r) = Fail.
  Proof.
    intro H. unfold StParser.stmt1, StParser.assign, StParser.pvariable, StParser.fbcall, StParser.ident.
    destruct (cl t) as [| |k0| | | | | | | | | | | |o| | |k| | | |dk| |]; cbn in H; try discriminate; try reflexivity.
    destruct k; cbn in H; try discriminate; reflexivity.
  Qed.

  (* a name before ':' or ',' is no assignment and no call *)
  Lemma stmt1_name_fails pe pl f t r c r' : cl t = CId -> skip r = c :: r' -> colon_or_comma (cl c) = true ->
    stmt1 pe pl (S f) (t :: r) = Fail.
  Proof.
    intros Ht Er Hc. unfold StParser.stmt1, StParser.assign, StParser.pvariable, StParser.fbcall, StParser.call_tail, StParser.next_is.
    rewrite (ident_at tk cl txt t r Ht). cbn [StParser.sels_loop]. rewrite Er, Ht.
    destruct (cl c) eqn:Ec; try discriminate Hc; cbn; rewrite ?Er, ?Ec; cbn; rewrite ?Er, ?Ec; reflexivity.
  Qed.

  Lemma stmt1_fails_skip pe pl f rest : 1 <= f -> nostart rest -> stmt1 pe pl f (skip rest) = Fail.
  Proof.
    intro Hf. unfold nostart. destruct (skip rest) as [|t r] eqn:E; [intros _; reflexivity|].
    destruct (cl t) eqn:Ec; intro H; try (apply stmt1_fails; rewrite Ec; exact H).
    destruct (skip r) as [|c r'] eqn:Er; [contradiction|]. destruct f as [|f]; [lia|]. eapply stmt1_name_fails; eassumption.
  Qed.

  (* statement_list() fails at once where no statement and no ';' starts *)
  Lemma plist_fails L t r : nonstart (cl t) = true -> cl t <> CSemi -> cl t <> CTriv -> plist (S L) (t :: r) = Fail.
  Proof.
    intros H Hs Ht. cbn [StParser.plist]. unfold StParser.stmt_list, StParser.group, StParser.next_is.
    rewrite (skip_solid tk cl t r Ht).
    assert (E : is_semi (cl t) = false) by (destruct (cl t); try reflexivity; contradiction).
    rewrite E. rewrite stmt1_fails by exact H. reflexivity.
  Qed.

  (* ---- expressions and lists in context ---- *)
  Definition stopc (c : tcl) : bool := match c with CKw _ | CSemi => true | _ => false end.

  Lemma stop_solid t : stopc (cl t) = true -> solid t.
  Proof. unfold StExprProofs.solid. destruct (cl t); try discriminate; intros _ H; discriminate. Qed.

  Lemma kw_solid t k : cl t = CKw k -> solid t.
  Proof. intro H. unfold StExprProofs.solid. rewrite H. discriminate. Qed.

  Lemma expr_at e w t r F : wf 0 e -> all_triv w -> (ends_name e = true -> w = []) -> stopc (cl t) = true -> 1 + size e <= F ->
    pexpr F 0 (flat e ++ w ++ t :: r) = Ok (erase e, w ++ t :: r).
  Proof.
    intros He Hw Hend Ht HF. pose proof (stop_solid t Ht) as Hs.
    apply pexpr_spelled; try assumption.
    - unfold StExprProofs.follow_lt. rewrite (skip_app_triv tk cl w _ Hw), (skip_solid tk cl t r Hs).
      unfold StParser.bop_of. destruct (cl t); try discriminate; exact I.
    - intro E. rewrite (Hend E). cbn [app]. split; [apply skip_solid; exact Hs|].
      unfold noafter. destruct (cl t); try discriminate; reflexivity.
    - apply nosel_at; [exact Hw | exact Hs|]. destruct (cl t); try discriminate; exact I.
  Qed.

  Lemma pe0_at w0 e w t r F : all_triv w0 -> wf 0 e -> all_triv w -> (ends_name e = true -> w = []) -> stopc (cl t) = true ->
    1 + size e <= F -> pe0 (pexpr F) (w0 ++ flat e ++ w ++ t :: r) = Ok (erase e, w ++ t :: r).
  Proof.
    intros Hw0 He Hw Hend Ht HF. unfold StParser.pe0. rewrite (skip_app_triv tk cl w0 _ Hw0).
    rewrite (flat_skip tk cl txt num lvl e 0 _ He). apply expr_at; assumption.
  Qed.

  (* the first token of a statement is an identifier or a keyword that starts a statement *)
  Lemma flat_s_head s r : wf_s s -> exists t r', flat_s s ++ r = t :: r' /\ solid t /\ is_semi (cl t) = false.
  Proof.
    destruct s; cbn [wf_s flat_s]; intro H.
    all: try (destruct H as (H & _)).
    all: eexists _, _; (split; [cbn [app]; reflexivity|]); unfold StExprProofs.solid; rewrite H; split; [discriminate | reflexivity].
  Qed.

  Lemma flat_g_head g r : wf_g true g -> exists t r', flat_g g ++ r = t :: r' /\ solid t.
  Proof.
    destruct g as [w1 semi w2|s m w semi]; cbn [wf_g flat_g].
    - intros (Hw1 & _ & Hsemi & _). rewrite (Hw1 eq_refl). cbn [app]. eexists semi, _. split; [reflexivity|].
      unfold StExprProofs.solid. rewrite Hsemi. discriminate.
    - intros (_ & Hs & _). rewrite <- !app_assoc.
      destruct (flat_s_head s (flat_m m ++ w ++ [semi] ++ r) Hs) as (t & r' & E & Ht & _). exists t, r'. split; assumption.
  Qed.

  Lemma flat_l_skip l r : wf_l true l -> skip (flat_l l ++ r) = flat_l l ++ r.
  Proof.
    destruct l as [g|g l]; cbn [wf_l flat_l].
    - intro Hg. destruct (flat_g_head g r Hg) as (t & r' & E & Ht). rewrite E. apply skip_solid. exact Ht.
    - intros (Hg & _). rewrite <- app_assoc. destruct (flat_g_head g (flat_l l ++ r) Hg) as (t & r' & E & Ht). rewrite E. apply skip_solid. exact Ht.
  Qed.

  (* after a `semisep` group the next group, if any, is an empty statement: no statement starts there *)
  Lemma wf_false_nostart l r : wf_l false l -> nostart (flat_l l ++ r).
  Proof.
    assert (G : forall g r0, wf_g false g -> nostart (flat_g g ++ r0)).
    { intros [w1 semi w2|s m w semi] r0; cbn [wf_g flat_g].
      - intros (_ & Hw1 & Hsemi & _). unfold nostart. rewrite <- app_assoc. cbn [app]. rewrite (skip_app_triv tk cl w1 _ Hw1).
        rewrite (skip_solid tk cl semi _) by (unfold StExprProofs.solid; rewrite Hsemi; discriminate). rewrite Hsemi. reflexivity.
      - intros (H & _). discriminate H. }
    destruct l as [g|g l]; cbn [wf_l flat_l]; [apply G|]. intros (Hg & _). rewrite <- app_assoc. apply G. exact Hg.
  Qed.

  Definition semi_next (s : ss) (rest : list tk) : Prop :=
    exists w semi r, rest = w ++ semi :: r /\ all_triv w /\ cl semi = CSemi /\ (sends s = true -> w = []).

  (* what follows a group inside a list *)
  Definition gfollow (g : sg) (rest : list tk) : Prop :=
    match g with GEmpty _ _ _ => skip rest = rest | GStmts _ _ _ _ => nostart rest end.

  (* ---- CASE selectors ---- *)
  Lemma signed_int_at i r : wf_int i -> signed_int (flat_int i ++ r) = Some (erase_int i, r).
  Proof.
    destruct i as [d|p d|m w d]; cbn [wf_int flat_int erase_int app]; unfold StParser.signed_int.
    - intro Hd. rewrite Hd. reflexivity.
    - intros (Hp & Hd). rewrite Hp, Hd. reflexivity.
    - intros (Hm & -> & Hd). cbn [app]. rewrite Hm, Hd. reflexivity.
  Qed.

  Lemma flat_int_head i r : wf_int i -> exists t r', flat_int i ++ r = t :: r' /\ solid t /\ sel_start (cl t) = true.
  Proof.
    destruct i as [d|p d|m w d]; cbn [wf_int flat_int app].
    - intro Hd. exists d, r. unfold StExprProofs.solid. rewrite Hd. repeat split; discriminate.
    - intros (Hp & _). exists p, (d :: r). unfold StExprProofs.solid. rewrite Hp. repeat split; discriminate.
    - intros (Hm & _). exists m, ((w ++ [d]) ++ r). unfold StExprProofs.solid. rewrite Hm. repeat split; discriminate.
  Qed.

  Lemma flat_sel_head x r : wf_sel x -> exists t r', flat_sel x ++ r = t :: r' /\ solid t.
  Proof.
    destruct x as [i|i1 w1 dots w2 i2|n]; cbn [wf_sel flat_sel].
    - intro Hi. destruct (flat_int_head i r Hi) as (t & r' & E & Ht & _). exists t, r'. split; assumption.
    - intros (Hi & _). rewrite <- app_assoc. destruct (flat_int_head i1 ((w1 ++ dots :: w2 ++ flat_int i2) ++ r) Hi) as (t & r' & E & Ht & _).
      exists t, r'. split; assumption.
    - intro Hn. exists n, r. split; [reflexivity|]. unfold StExprProofs.solid. rewrite Hn. discriminate.
  Qed.

  Lemma case_sel_at x w t r : wf_sel x -> all_triv w -> colon_or_comma (cl t) = true ->
    case_sel (flat_sel x ++ w ++ t :: r) = Some (erase_sel x, w ++ t :: r).
  Proof.
    intros Hx Hw Ht.
    assert (Hst : solid t) by (unfold StExprProofs.solid; destruct (cl t); try discriminate; discriminate).
    assert (Hnr : is_range (cl t) = false) by (destruct (cl t); try discriminate; reflexivity).
    destruct x as [i|i1 w1 dots w2 i2|n]; cbn [wf_sel flat_sel erase_sel] in *; unfold StParser.case_sel.
    - rewrite (signed_int_at i _ Hx). destruct (erase_int i) as [ng v]. cbn [fst snd].
      rewrite (next_is_not tk cl _ w t r Hw Hst Hnr). reflexivity.
    - destruct Hx as (Hi1 & Hw1 & Hdots & Hw2 & Hi2).
      replace ((flat_int i1 ++ w1 ++ dots :: w2 ++ flat_int i2) ++ w ++ t :: r)
        with (flat_int i1 ++ w1 ++ dots :: w2 ++ flat_int i2 ++ w ++ t :: r)
        by (repeat (rewrite <- app_assoc; cbn [app]); reflexivity).
      rewrite (signed_int_at i1 _ Hi1). destruct (erase_int i1) as [ng1 v1]. cbn [fst snd].
      assert (Hsd : solid dots) by (unfold StExprProofs.solid; rewrite Hdots; discriminate).
      rewrite (next_is_at tk cl _ w1 dots _ Hw1 Hsd) by (rewrite Hdots; reflexivity).
      rewrite (skip_app_triv tk cl w2 _ Hw2).
      destruct (flat_int_head i2 (w ++ t :: r) Hi2) as (t2 & r2 & E2 & Ht2 & _).
      assert (Hsk : skip (flat_int i2 ++ w ++ t :: r) = flat_int i2 ++ w ++ t :: r) by (rewrite E2; apply skip_solid; exact Ht2).
      rewrite Hsk, (signed_int_at i2 _ Hi2). destruct (erase_int i2) as [ng2 v2]. reflexivity.
    - cbn [app]. unfold StParser.signed_int. rewrite Hx. rewrite (ident_at tk cl txt n _ Hx). reflexivity.
  Qed.

  (* what follows a selector inside a case list: trivia, then ',' or ':' *)
  Lemma mss_follow ms w1 colon r : Forall wf_ms ms -> all_triv w1 -> cl colon = CColon ->
    exists fw ft fr, flat_mss ms ++ w1 ++ colon :: r = fw ++ ft :: fr /\ all_triv fw /\ colon_or_comma (cl ft) = true.
  Proof.
    intros Hms Hw1 Hcolon. destruct ms as [|[mw1 comma mw2 mx] ms'].
    - exists w1, colon, r. cbn [flat_mss map concat app]. rewrite Hcolon. split; [reflexivity|]. split; [exact Hw1 | reflexivity].
    - apply Forall_inv in Hms. destruct Hms as (Hmw1 & Hcomma & _).
      eexists mw1, comma, _. unfold flat_mss. cbn [map concat flat_ms]. rewrite <- !app_assoc. cbn [app].
      split; [reflexivity|]. rewrite Hcomma. split; [exact Hmw1 | reflexivity].
  Qed.

  Lemma csels_more_at ms : Forall wf_ms ms -> forall acc w1 colon r f, all_triv w1 -> cl colon = CColon -> length ms < f ->
    csels_more f acc (flat_mss ms ++ w1 ++ colon :: r) = Ok (acc ++ map erase_ms ms, w1 ++ colon :: r).
  Proof.
    induction ms as [|[mw1 comma mw2 mx] ms' IH]; intros Hms acc w1 colon r f Hw1 Hcolon Hf.
    - destruct f as [|f]; [cbn in Hf; lia|]. cbn [flat_mss map concat app StParser.csels_more].
      assert (Hsc : solid colon) by (unfold StExprProofs.solid; rewrite Hcolon; discriminate).
      rewrite (next_is_not tk cl _ w1 colon r Hw1 Hsc) by (rewrite Hcolon; reflexivity). rewrite app_nil_r. reflexivity.
    - destruct f as [|f]; [cbn in Hf; lia|]. cbn [length] in Hf.
      pose proof (Forall_inv Hms) as (Hmw1 & Hcomma & Hmw2 & Hmx). pose proof (Forall_inv_tail Hms) as Hms'.
      unfold flat_mss. cbn [map concat flat_ms]. fold (flat_mss ms').
      replace (((mw1 ++ comma :: mw2 ++ flat_sel mx) ++ flat_mss ms') ++ w1 ++ colon :: r)
        with (mw1 ++ comma :: mw2 ++ flat_sel mx ++ flat_mss ms' ++ w1 ++ colon :: r)
        by (repeat (rewrite <- app_assoc; cbn [app]); reflexivity).
      cbn [StParser.csels_more].
      assert (Hsc : solid comma) by (unfold StExprProofs.solid; rewrite Hcomma; discriminate).
      rewrite (next_is_at tk cl _ mw1 comma _ Hmw1 Hsc) by (rewrite Hcomma; reflexivity).
      rewrite (skip_app_triv tk cl mw2 _ Hmw2).
      destruct (flat_sel_head mx (flat_mss ms' ++ w1 ++ colon :: r) Hmx) as (tx & rx & Ex & Htx).
      assert (Hsk : skip (flat_sel mx ++ flat_mss ms' ++ w1 ++ colon :: r) = flat_sel mx ++ flat_mss ms' ++ w1 ++ colon :: r)
        by (rewrite Ex; apply skip_solid; exact Htx).
      rewrite Hsk.
      destruct (mss_follow ms' w1 colon r Hms' Hw1 Hcolon) as (fw & ft & fr & Ef & Hfw & Hft).
      rewrite Ef, (case_sel_at mx fw ft fr Hmx Hfw Hft), <- Ef.
      rewrite (IH Hms' (acc ++ [erase_sel mx]) w1 colon r f Hw1 Hcolon) by lia.
      cbn [map erase_ms]. rewrite <- app_assoc. reflexivity.
  Qed.

  (* the selector of a CASE element closes the statement list before it *)
  Lemma sel_closer w0 x ms w1 colon r : all_triv w0 -> wf_sel x -> Forall wf_ms ms -> all_triv w1 -> cl colon = CColon ->
    closer_next (w0 ++ flat_sel x ++ flat_mss ms ++ w1 ++ colon :: r).
  Proof.
    intros Hw0 Hx Hms Hw1 Hcolon. unfold closer_next. rewrite (skip_app_triv tk cl w0 _ Hw0).
    destruct x as [i|i1 xw1 dots xw2 i2|n]; cbn [wf_sel flat_sel] in *.
    - destruct (flat_int_head i (flat_mss ms ++ w1 ++ colon :: r) Hx) as (t & r' & E & Ht & Hs). rewrite E, (skip_solid tk cl t r' Ht).
      destruct (cl t) as [| |k0| | | | | | | | | | | |o| | |k| | | |dk| |]; try discriminate Hs; exact Hs.
    - destruct Hx as (Hi1 & _). rewrite <- app_assoc.
      destruct (flat_int_head i1 ((xw1 ++ dots :: xw2 ++ flat_int i2) ++ flat_mss ms ++ w1 ++ colon :: r) Hi1) as (t & r' & E & Ht & Hs).
      rewrite E, (skip_solid tk cl t r' Ht).
      destruct (cl t) as [| |k0| | | | | | | | | | | |o| | |k| | | |dk| |]; try discriminate Hs; exact Hs.
    - cbn [app]. rewrite (skip_solid tk cl n _) by (unfold StExprProofs.solid; rewrite Hx; discriminate). rewrite Hx.
      destruct (mss_follow ms w1 colon r Hms Hw1 Hcolon) as (fw & ft & fr & Ef & Hfw & Hft).
      rewrite Ef, (skip_app_triv tk cl fw _ Hfw). rewrite (skip_solid tk cl ft fr); [exact Hft|].
      unfold StExprProofs.solid. destruct (cl ft); try discriminate Hft; discriminate.
  Qed.

  (* ---- the main induction ---- *)
  Definition P_s (s : ss) : Prop :=
    wf_s s -> forall rest, semi_next s rest -> forall F L f, size_s s <= F -> size_s s <= L -> size_s s <= f ->
    stmt1 (pexpr F) (plist L) f (flat_s s ++ rest) = Ok (erase_s s, rest).
  Definition P_l (l : sl) : Prop :=
    (wf_l true l -> forall rest, closer_next rest -> (absorbs l = true -> skip rest = rest) ->
     forall L, size_l l <= L -> plist L (flat_l l ++ rest) = Ok (erase_l l, rest)) /\
    (forall pe, wf_l pe l -> forall rest, closer_next rest -> (absorbs l = true -> skip rest = rest) ->
     forall acc F L f0 f, size_l l <= F -> size_l l <= L -> size_l l <= f0 -> size_l l <= f ->
     groups_more (stmt1 (pexpr F) (plist L) f0) f acc (flat_l l ++ rest) = Ok (acc ++ erase_l l, rest)).
  Definition P_g (g : sg) : Prop :=
    forall pe, wf_g pe g -> forall rest, gfollow g rest ->
    forall F L f0 f, size_g g <= F -> size_g g <= L -> size_g g <= f0 -> size_g g <= f ->
    group (stmt1 (pexpr F) (plist L) f0) f (flat_g g ++ rest) = Ok (erase_g g, rest).
  Definition P_m (m : smore) : Prop :=
    forall w, wf_m w m -> all_triv w -> forall semi rest acc, cl semi = CSemi -> nostart rest ->
    forall F L f0 f, size_m m <= F -> size_m m <= L -> size_m m <= f0 -> size_m m <= f ->
    stmts_more (stmt1 (pexpr F) (plist L) f0) f acc (flat_m m ++ w ++ semi :: rest) = Ok (acc ++ erase_m m, w ++ semi :: rest).
  Definition P_b (b : sob) : Prop :=
    wf_b b -> forall rest, kw_closer rest -> (babsorbs b = true -> skip rest = rest) -> forall L, size_b b <= L ->
    opt_list (plist L) (skip (flat_b b ++ rest)) = Ok (erase_b b, match b with BNone => skip rest | BSome _ => rest end).
  Definition else_or_end (t : tk) : Prop := cl t = CKw KwElse \/ cl t = CKw KwEndIf.
  Definition P_eis (e : seis) : Prop :=
    forall wt, wf_eis wt e -> all_triv wt -> forall t0 r0, else_or_end t0 ->
    forall F L f, size_eis e <= F -> size_eis e <= L -> size_eis e <= f ->
    (forall acc, elsifs_more (pexpr F) (plist L) f acc (flat_eis e ++ wt ++ t0 :: r0) = Ok (acc ++ erase_eis e, wt ++ t0 :: r0)) /\
    elsifs (pexpr F) (plist L) f (skip (flat_eis e ++ wt ++ t0 :: r0)) =
      Ok (erase_eis e, match e with EINil => skip (wt ++ t0 :: r0) | _ => wt ++ t0 :: r0 end).
  Definition end_kw (k : kw) : Prop := k = KwEndIf \/ k = KwEndCase.
  Definition P_el (e : sels) : Prop :=
    forall w4, wf_el w4 e -> forall en r ke, all_triv w4 -> cl en = CKw ke -> end_kw ke -> forall L, size_el e <= L ->
    else_part (plist L) (flat_el e ++ w4 ++ en :: r) = Ok (erase_el e, w4 ++ en :: r).
  Definition else_or_endcase (t : tk) : Prop := cl t = CKw KwElse \/ cl t = CKw KwEndCase.
  Definition P_cs (e : scases) : Prop :=
    forall wt, wf_cs wt e -> all_triv wt -> forall t0 r0, else_or_endcase t0 ->
    forall L f, size_cs e <= L -> size_cs e <= f ->
    (forall acc, cases_more (plist L) f acc (flat_cs e ++ wt ++ t0 :: r0) = Ok (acc ++ erase_cs e, wt ++ t0 :: r0)) /\
    cases (plist L) f (skip (flat_cs e ++ wt ++ t0 :: r0)) =
      Ok (erase_cs e, match e with CaNil => skip (wt ++ t0 :: r0) | _ => wt ++ t0 :: r0 end).

  Lemma stmt1_kw pe pl f t r k : cl t = CKw k ->
    stmt1 pe pl f (t :: r) =
    match k with
    | KwIf => if_tail pe pl f r
    | KwCase => case_tail pe pl f r
    | KwFor => for_tail pe pl r
    | KwWhile => while_tail pe pl r
    | KwRepeat => repeat_tail pe pl r
    | KwExit => Ok (TExit, r)
    | KwReturn => Ok (TReturn, r)
    | _ => Fail
    end.
  Proof.
    intro H. unfold StParser.stmt1, StParser.assign, StParser.pvariable, StParser.fbcall, StParser.ident. rewrite H. destruct k; reflexivity.
  Qed.

  Lemma else_part_skip pl ts :
    match else_part pl ts with
    | Ok (l, r) => exists r', else_part pl (skip ts) = Ok (l, r') /\ skip r' = skip r
    | Fail => else_part pl (skip ts) = Fail
    | Panic => else_part pl (skip ts) = Panic
    | OutOfFuel => else_part pl (skip ts) = OutOfFuel
    end.
  Proof.
    unfold StParser.else_part. rewrite next_is_skip. destruct (next_is (is_kw KwElse) ts) as [r|].
    - destruct (pl (skip r)) as [[a b]| | |]; try reflexivity.
      + exists b. split; reflexivity.
      + exists (skip ts). split; [reflexivity | apply skip_skip].
    - exists (skip ts). split; [reflexivity | apply skip_skip].
  Qed.

  (* no group starts at the keyword that closes the construct, or at the selector of the next CASE element *)
  Lemma groups_stop pe pl f0 f acc rest : 1 <= f0 -> closer_next rest ->
    groups_more (stmt1 pe pl f0) (S f) acc rest = Ok (acc, rest).
  Proof.
    intros Hf0 Hrest. cbn [StParser.groups_more]. unfold StParser.group, StParser.next_is.
    pose proof (closer_nostart rest Hrest) as Hns.
    unfold closer_next in Hrest. destruct (skip rest) as [|t0 r0] eqn:Er; [contradiction|].
    assert (Hsemi : is_semi (cl t0) = false) by (destruct (cl t0); try reflexivity; cbn in Hrest; discriminate Hrest).
    rewrite Hsemi.
    destruct rest as [|x xs]; [discriminate|].
    cbn in Er. destruct (is_triv tk cl x) eqn:Ex.
    - rewrite stmt1_fails; [reflexivity|]. unfold is_triv in Ex. destruct (cl x); try discriminate; reflexivity.
    - injection Er as -> ->. pose proof (stmt1_fails_skip pe pl f0 (t0 :: r0) Hf0 Hns) as HF. cbn [StParser.skip] in HF.
      rewrite Ex in HF. rewrite HF. reflexivity.
  Qed.

  Lemma closer_skip w t r k : all_triv w -> cl t = CKw k -> w = [] -> skip (w ++ t :: r) = w ++ t :: r.
  Proof. intros _ Ht ->. cbn [app]. apply skip_solid. unfold StExprProofs.solid. rewrite Ht. discriminate. Qed.

  Lemma size_m_pos m : 1 <= size_m m.
  Proof. destruct m; cbn [size_m]; lia. Qed.
  Lemma size_g_pos g : 1 <= size_g g.
  Proof. destruct g as [|s m w semi]; cbn [size_g]; [lia|]. pose proof (size_m_pos m). lia. Qed.

  Lemma main_s : (forall s, P_s s) /\ (forall l, P_l l) /\ (forall g, P_g g) /\ (forall m, P_m m) /\ (forall b, P_b b) /\
                 (forall e, P_eis e) /\ (forall e, P_el e) /\ (forall e, P_cs e).
  Proof.
    apply ss_mutind.
    - (* assignment *)
      intros v vs w1 a w2 e (Hv & Hvs & Hw1 & Ha & Hw2 & He) rest (w & semi & r & -> & Hw & Hsemi & Hsend) F L f HF _ Hf.
      cbn [size_s] in HF, Hf. cbn [flat_s erase_s app sends] in *.
      assert (Hsa : solid a) by (unfold StExprProofs.solid; rewrite Ha; discriminate).
      unfold StParser.stmt1, StParser.assign, StParser.pvariable. rewrite (ident_at tk cl txt v _ Hv).
      replace ((flatss vs ++ w1 ++ a :: w2 ++ flat e) ++ w ++ semi :: r) with (flatss vs ++ w1 ++ a :: w2 ++ flat e ++ w ++ semi :: r)
        by (repeat (rewrite <- app_assoc; cbn [app]); reflexivity).
      rewrite (sels_spelled tk cl txt num lvl vs (w1 ++ a :: w2 ++ flat e ++ w ++ semi :: r) [] F f Hvs);
        [ | apply nosel_at; [exact Hw1 | exact Hsa | rewrite Ha; exact I] | lia | lia].
      cbn [app]. rewrite (next_is_at tk cl _ w1 a _ Hw1 Hsa) by (rewrite Ha; reflexivity).
      rewrite (pe0_at w2 e w semi r F Hw2 He Hw Hsend) by (try lia; rewrite Hsemi; reflexivity). reflexivity.
    - (* call without parameters *)
      intros f0 w1 lp w2 rp (Hf & Hw1 & Hlp & Hw2 & Hrp) rest (w & semi & r & -> & Hw & Hsemi & _) F L f HF _ Hf'.
      cbn [size_s] in HF, Hf'. cbn [flat_s erase_s app].
      assert (Hsl : solid lp) by (unfold StExprProofs.solid; rewrite Hlp; discriminate).
      assert (Hsr : solid rp) by (unfold StExprProofs.solid; rewrite Hrp; discriminate).
      assert (Hss : solid semi) by (unfold StExprProofs.solid; rewrite Hsemi; discriminate).
      (* the call is what prim reads for the same tokens *)
      pose proof (proj1 (main tk cl txt num lvl)) as M. destruct (M (SCall0 tk f0 w1 lp w2 rp)) as [_ MB].
      assert (Hprim : prim tk cl txt num (pexpr F) f (flat (SCall0 tk f0 w1 lp w2 rp) ++ w ++ semi :: r) =
                      Ok (XCall (txt f0) [], w ++ semi :: r)).
      { apply MB; [cbn; tauto | intro E; discriminate E | apply nosel_at; [exact Hw | exact Hss | rewrite Hsemi; exact I] | cbn; lia | cbn; lia]. }
      cbn [StExprProofs.flat app StParser.prim] in Hprim. rewrite Hf in Hprim.
      unfold StParser.stmt1, StParser.assign, StParser.pvariable. rewrite (ident_at tk cl txt f0 _ Hf).
      rewrite <- !app_assoc in *. cbn [app] in *.
      (* no selector and no ':=' after the name: not an assignment *)
      destruct f as [|f']; [lia|].
      assert (Hsel : forall X, sels_loop (pexpr F) (S f') [] (w1 ++ lp :: X) = Ok ([], w1 ++ lp :: X)).
      { intro X. cbn [StParser.sels_loop]. rewrite (skip_app_triv tk cl w1 _ Hw1), (skip_solid tk cl lp _ Hsl), Hlp. reflexivity. }
      rewrite Hsel.
      rewrite (next_is_not tk cl _ w1 lp _ Hw1 Hsl) by (rewrite Hlp; reflexivity).
      rewrite Hf. unfold StParser.fbcall. rewrite (ident_at tk cl txt f0 _ Hf).
      repeat (rewrite <- app_assoc; cbn [app]). repeat (rewrite <- app_assoc in Hprim; cbn [app] in Hprim).
      match type of Hprim with context [call_tail ?a ?b ?c] => destruct (call_tail a b c) as [[ps' r']| | |] end; try discriminate.
      + injection Hprim as <- <-. reflexivity.
      + exfalso. revert Hprim. repeat match goal with |- context [match ?x with _ => _ end] => destruct x end; discriminate.
    - (* call with parameters *)
      intros f0 w1 lp w2 p ps w3 rp Hwf rest (w & semi & r & -> & Hw & Hsemi & _) F L f HF _ Hf. cbn [size_s] in HF, Hf.
      pose proof Hwf as (Hf0 & Hw1 & Hlp & _).
      assert (Hsl : solid lp) by (unfold StExprProofs.solid; rewrite Hlp; discriminate).
      assert (Hss : solid semi) by (unfold StExprProofs.solid; rewrite Hsemi; discriminate).
      pose proof (proj1 (main tk cl txt num lvl)) as M. destruct (M (SCallN tk f0 w1 lp w2 p ps w3 rp)) as [_ MB].
      assert (Hprim : prim tk cl txt num (pexpr F) f (flat (SCallN tk f0 w1 lp w2 p ps w3 rp) ++ w ++ semi :: r) =
                      Ok (XCall (txt f0) (erasep p :: eraseps ps), w ++ semi :: r)).
      { assert (Esz : size (SCallN tk f0 w1 lp w2 p ps w3 rp) = 2 + sizep p + sizeps ps) by reflexivity.
        apply MB; [exact Hwf | intro E; discriminate E | apply nosel_at; [exact Hw | exact Hss | rewrite Hsemi; exact I] | rewrite Esz; lia | rewrite Esz; lia]. }
      assert (Efl : flat (SCallN tk f0 w1 lp w2 p ps w3 rp) = f0 :: w1 ++ lp :: w2 ++ flatp p ++ flatps ps ++ w3 ++ [rp]) by reflexivity.
      rewrite Efl in Hprim. cbn [app StParser.prim] in Hprim. rewrite Hf0 in Hprim.
      cbn [flat_s erase_s app]. unfold StParser.stmt1, StParser.assign, StParser.pvariable. rewrite (ident_at tk cl txt f0 _ Hf0).
      rewrite <- !app_assoc in *. cbn [app] in *.
      destruct f as [|f']; [lia|].
      assert (Hsel : forall X, sels_loop (pexpr F) (S f') [] (w1 ++ lp :: X) = Ok ([], w1 ++ lp :: X)).
      { intro X. cbn [StParser.sels_loop]. rewrite (skip_app_triv tk cl w1 _ Hw1), (skip_solid tk cl lp _ Hsl), Hlp. reflexivity. }
      rewrite Hsel.
      rewrite (next_is_not tk cl _ w1 lp _ Hw1 Hsl) by (rewrite Hlp; reflexivity).
      rewrite Hf0. unfold StParser.fbcall. rewrite (ident_at tk cl txt f0 _ Hf0).
      repeat (rewrite <- app_assoc; cbn [app]). repeat (rewrite <- app_assoc in Hprim; cbn [app] in Hprim).
      match type of Hprim with context [call_tail ?a ?b ?c] => destruct (call_tail a b c) as [[ps' r']| | |] end; try discriminate.
      + injection Hprim as <- <-. reflexivity.
      + exfalso. revert Hprim. repeat match goal with |- context [match ?x with _ => _ end] => destruct x end; discriminate.
    - (* IF *)
      intros k w1 c w2 th w3 b IHb eis IHeis el IHel w4 en
             (Hk & Hw1 & Hc & Hw2 & Hcend & Hth & Hw3 & Hb & Heis & Hel & Hw4 & Hen & Habs) rest _ F L f HF HL Hf.
      cbn [size_s] in HF, HL, Hf. cbn [flat_s erase_s app].
      rewrite (stmt1_kw _ _ _ k _ KwIf Hk). unfold StParser.if_tail.
      set (R2 := flat_el el ++ w4 ++ en :: rest).
      set (R1 := flat_eis eis ++ R2).
      replace ((w1 ++ flat c ++ w2 ++ th :: w3 ++ flat_b b ++ flat_eis eis ++ flat_el el ++ w4 ++ [en]) ++ rest)
        with (w1 ++ flat c ++ w2 ++ th :: w3 ++ flat_b b ++ R1)
        by (unfold R1, R2; repeat (rewrite <- app_assoc; cbn [app]); reflexivity).
      rewrite (pe0_at w1 c w2 th _ F Hw1 Hc Hw2 Hcend) by (try lia; rewrite Hth; reflexivity).
      rewrite (next_is_at tk cl _ w2 th _ Hw2 (kw_solid th _ Hth)) by (rewrite Hth; reflexivity).
      rewrite (skip_app_triv tk cl w3 _ Hw3).
      (* R2 = (the slot before ELSE / END_IF) ++ that keyword :: ... *)
      assert (HR2 : exists t0 r0, R2 = el_lead el w4 ++ t0 :: r0 /\ else_or_end t0 /\ all_triv (el_lead el w4)).
      { unfold R2. destruct el as [|ew0 ek ew1 ebody]; cbn [flat_el el_lead app wf_el] in *.
        - exists en, rest. split; [reflexivity|]. split; [right; exact Hen | exact Hw4].
        - destruct Hel as (Hew0 & Hek & _). eexists ek, _. rewrite <- !app_assoc. cbn [app]. split; [reflexivity|]. split; [left; exact Hek | exact Hew0]. }
      destruct HR2 as (t0 & r0 & ER2 & Ht0 & Hlead).
      assert (Ht0k : exists k0, cl t0 = CKw k0 /\ starter k0 = false) by (destruct Ht0 as [E|E]; eexists; (split; [exact E | reflexivity])).
      destruct Ht0k as (k0 & Ek0 & Sk0).
      assert (HR1 : kw_closer R1).
      { unfold R1. rewrite ER2. destruct eis as [|ew0 ek ew1 ec ew2 eth ew3 ebody er]; cbn [flat_eis app wf_eis] in *.
        - eapply kw_closer_at; [exact Hlead | exact Ek0 | exact Sk0].
        - destruct Heis as (Hew0 & Hek & _). rewrite <- !app_assoc. cbn [app]. eapply kw_closer_at; [exact Hew0 | exact Hek | reflexivity]. }
      assert (HR1s : babsorbs b = true -> skip R1 = R1).
      { intro Hb1. specialize (Habs Hb1). unfold R1. rewrite ER2.
        destruct eis as [|ew0 ek ew1 ec ew2 eth ew3 ebody er]; cbn [flat_eis app eis_lead wf_eis] in *.
        - rewrite Habs. cbn [app]. apply skip_solid. unfold StExprProofs.solid. rewrite Ek0. discriminate.
        - destruct Heis as (_ & Hek & _). rewrite Habs. cbn [app]. apply skip_solid. unfold StExprProofs.solid. rewrite Hek. discriminate. }
      rewrite (IHb Hb R1 HR1 HR1s L) by lia.
      assert (Hsk : skip (match b with BNone => skip R1 | BSome _ => R1 end) = skip R1) by (destruct b; [apply skip_skip | reflexivity]).
      rewrite Hsk. destruct (IHeis (el_lead el w4) Heis Hlead t0 r0 Ht0 F L f) as [_ HE]; try lia.
      unfold R1. rewrite ER2. rewrite HE. rewrite <- ER2.
      (* the else part and END_IF, from R2 or from skip R2 *)
      assert (Hend : forall r4, r4 = R2 \/ r4 = skip R2 ->
                match else_part (plist L) r4 with
                | Ok (els, r5) => match next_is (is_kw KwEndIf) r5 with
                                  | Some r6 => Ok (TIf (erase c) (erase_b b) (erase_eis eis) els, r6)
                                  | None => Fail
                                  end
                | Fail => Fail | Panic => Panic | OutOfFuel => OutOfFuel
                end = Ok (TIf (erase c) (erase_b b) (erase_eis eis) (erase_el el), rest)).
      { intros r4 [-> | ->].
        - unfold R2. rewrite (IHel w4 Hel en rest KwEndIf Hw4 Hen (or_introl eq_refl) L) by lia.
          rewrite (next_is_at tk cl _ w4 en rest Hw4 (kw_solid en _ Hen)) by (rewrite Hen; reflexivity). reflexivity.
        - pose proof (else_part_skip (plist L) R2) as HS. unfold R2 in HS at 1.
          rewrite (IHel w4 Hel en rest KwEndIf Hw4 Hen (or_introl eq_refl) L) in HS by lia. destruct HS as (r' & HS1 & HS2).
          rewrite HS1. unfold StParser.next_is. rewrite HS2.
          change (match skip (w4 ++ en :: rest) with
                  | [] => None
                  | t :: r => if is_kw KwEndIf (cl t) then Some r else None
                  end) with (next_is (is_kw KwEndIf) (w4 ++ en :: rest)).
          rewrite (next_is_at tk cl _ w4 en rest Hw4 (kw_solid en _ Hen)) by (rewrite Hen; reflexivity). reflexivity. }
      apply Hend. destruct eis; [right | left]; reflexivity.
    - (* CASE *)
      intros k w1 c w2 o cs IHcs el IHel w4 en (Hk & Hw1 & Hc & Hw2 & Hcend & Ho & Hcs & Hel & Hw4 & Hen) rest _ F L f HF HL Hf.
      cbn [size_s] in HF, HL, Hf. cbn [flat_s erase_s app].
      rewrite (stmt1_kw _ _ _ k _ KwCase Hk). unfold StParser.case_tail.
      set (R2 := flat_el el ++ w4 ++ en :: rest).
      set (R1 := flat_cs cs ++ R2).
      replace ((w1 ++ flat c ++ w2 ++ o :: flat_cs cs ++ flat_el el ++ w4 ++ [en]) ++ rest)
        with (w1 ++ flat c ++ w2 ++ o :: R1)
        by (unfold R1, R2; repeat (rewrite <- app_assoc; cbn [app]); reflexivity).
      rewrite (pe0_at w1 c w2 o _ F Hw1 Hc Hw2 Hcend) by (try lia; rewrite Ho; reflexivity).
      rewrite (next_is_at tk cl _ w2 o _ Hw2 (kw_solid o _ Ho)) by (rewrite Ho; reflexivity).
      assert (HR2 : exists t0 r0, R2 = el_lead el w4 ++ t0 :: r0 /\ else_or_endcase t0 /\ all_triv (el_lead el w4)).
      { unfold R2. destruct el as [|ew0 ek ew1 ebody]; cbn [flat_el el_lead app wf_el] in *.
        - exists en, rest. split; [reflexivity|]. split; [right; exact Hen | exact Hw4].
        - destruct Hel as (Hew0 & Hek & _). eexists ek, _. rewrite <- !app_assoc. cbn [app]. split; [reflexivity|]. split; [left; exact Hek | exact Hew0]. }
      destruct HR2 as (t0 & r0 & ER2 & Ht0 & Hlead).
      destruct (IHcs (el_lead el w4) Hcs Hlead t0 r0 Ht0 L f) as [_ HE]; try lia.
      unfold R1. rewrite ER2. rewrite HE. rewrite <- ER2.
      assert (Hend : forall r4, r4 = R2 \/ r4 = skip R2 ->
                match else_part (plist L) r4 with
                | Ok (els, r5) => match next_is (is_kw KwEndCase) r5 with
                                  | Some r6 => Ok (TCase (erase c) (erase_cs cs) els, r6)
                                  | None => Fail
                                  end
                | Fail => Fail | Panic => Panic | OutOfFuel => OutOfFuel
                end = Ok (TCase (erase c) (erase_cs cs) (erase_el el), rest)).
      { intros r4 [-> | ->].
        - unfold R2. rewrite (IHel w4 Hel en rest KwEndCase Hw4 Hen (or_intror eq_refl) L) by lia.
          rewrite (next_is_at tk cl _ w4 en rest Hw4 (kw_solid en _ Hen)) by (rewrite Hen; reflexivity). reflexivity.
        - pose proof (else_part_skip (plist L) R2) as HS. unfold R2 in HS at 1.
          rewrite (IHel w4 Hel en rest KwEndCase Hw4 Hen (or_intror eq_refl) L) in HS by lia. destruct HS as (r' & HS1 & HS2).
          rewrite HS1. unfold StParser.next_is. rewrite HS2.
          change (match skip (w4 ++ en :: rest) with
                  | [] => None
                  | t :: r => if is_kw KwEndCase (cl t) then Some r else None
                  end) with (next_is (is_kw KwEndCase) (w4 ++ en :: rest)).
          rewrite (next_is_at tk cl _ w4 en rest Hw4 (kw_solid en _ Hen)) by (rewrite Hen; reflexivity). reflexivity. }
      apply Hend. destruct cs; [right | left]; reflexivity.
    - (* FOR *)
      intros k w1 v w2 a w3 e1 w4 to w5 e2 w6 st d w7 body IHbody w8 en
             (Hk & Hw1 & Hv & Hw2 & Ha & Hw3 & He1 & Hw4 & He1end & Hto & Hw5 & He2 & Hw6 & He2end & Hst & Hd & Hw7 & Hbody & Hw8 & Hen & Habs)
             rest _ F L f HF HL _.
      cbn [size_s] in HF, HL. cbn [flat_s erase_s app].
      rewrite (stmt1_kw _ _ _ k _ KwFor Hk). unfold StParser.for_tail.
      assert (Hsv : solid v) by (unfold StExprProofs.solid; rewrite Hv; discriminate).
      assert (Hsa : solid a) by (unfold StExprProofs.solid; rewrite Ha; discriminate).
      set (R3 := d :: w7 ++ flat_l body ++ w8 ++ en :: rest).
      replace ((w1 ++ v :: w2 ++ a :: w3 ++ flat e1 ++ w4 ++ to :: w5 ++ flat e2 ++ w6 ++ flat_by st ++ d :: w7 ++ flat_l body ++ w8 ++ [en]) ++ rest)
        with (w1 ++ v :: w2 ++ a :: w3 ++ flat e1 ++ w4 ++ to :: w5 ++ flat e2 ++ w6 ++ flat_by st ++ R3)
        by (unfold R3; repeat (rewrite <- app_assoc; cbn [app]); reflexivity).
      rewrite (skip_app_triv tk cl w1 _ Hw1), (skip_solid tk cl v _ Hsv), (ident_at tk cl txt v _ Hv).
      rewrite (next_is_at tk cl _ w2 a _ Hw2 Hsa) by (rewrite Ha; reflexivity).
      rewrite (pe0_at w3 e1 w4 to _ F Hw3 He1 Hw4 He1end) by (try lia; rewrite Hto; reflexivity).
      rewrite (next_is_at tk cl _ w4 to _ Hw4 (kw_solid to _ Hto)) by (rewrite Hto; reflexivity).
      assert (Hbody' : plist L (flat_l body ++ w8 ++ en :: rest) = Ok (erase_l body, w8 ++ en :: rest)).
      { apply (proj1 IHbody); [exact Hbody | | | lia].
        - eapply closer_at; [exact Hw8 | exact Hen | reflexivity].
        - intro Hb. eapply closer_skip; [exact Hw8 | exact Hen | exact (Habs Hb)]. }
      destruct st as [|bk bw1 be bw2]; cbn [flat_by erase_by size_by app wf_by] in *.
      + unfold R3. rewrite (pe0_at w5 e2 w6 d _ F Hw5 He2 Hw6 He2end) by (try lia; rewrite Hd; reflexivity).
        rewrite (next_is_not tk cl _ w6 d _ Hw6 (kw_solid d _ Hd)) by (rewrite Hd; reflexivity).
        rewrite (next_is_at tk cl _ w6 d _ Hw6 (kw_solid d _ Hd)) by (rewrite Hd; reflexivity).
        rewrite (skip_app_triv tk cl w7 _ Hw7), (flat_l_skip body _ Hbody), Hbody'.
        rewrite (next_is_at tk cl _ w8 en rest Hw8 (kw_solid en _ Hen)) by (rewrite Hen; reflexivity). reflexivity.
      + destruct Hst as (Hbk & Hbw1 & Hbe & Hbw2 & Hbend).
        repeat (rewrite <- app_assoc; cbn [app]).
        rewrite (pe0_at w5 e2 w6 bk _ F Hw5 He2 Hw6 He2end) by (try lia; rewrite Hbk; reflexivity).
        rewrite (next_is_at tk cl _ w6 bk _ Hw6 (kw_solid bk _ Hbk)) by (rewrite Hbk; reflexivity).
        unfold R3. rewrite (pe0_at bw1 be bw2 d _ F Hbw1 Hbe Hbw2 Hbend) by (try lia; rewrite Hd; reflexivity).
        rewrite (next_is_at tk cl _ bw2 d _ Hbw2 (kw_solid d _ Hd)) by (rewrite Hd; reflexivity).
        rewrite (skip_app_triv tk cl w7 _ Hw7), (flat_l_skip body _ Hbody), Hbody'.
        rewrite (next_is_at tk cl _ w8 en rest Hw8 (kw_solid en _ Hen)) by (rewrite Hen; reflexivity). reflexivity.
    - (* WHILE *)
      intros k w1 c w2 d w3 body IHbody w4 en (Hk & Hw1 & Hc & Hw2 & Hcend & Hd & Hw3 & Hbody & Hw4 & Hen & Habs) rest _ F L f HF HL _.
      cbn [size_s] in HF, HL. cbn [flat_s erase_s app].
      rewrite (stmt1_kw _ _ _ k _ KwWhile Hk). unfold StParser.while_tail.
      replace ((w1 ++ flat c ++ w2 ++ d :: w3 ++ flat_l body ++ w4 ++ [en]) ++ rest)
        with (w1 ++ flat c ++ w2 ++ d :: w3 ++ flat_l body ++ w4 ++ en :: rest)
        by (repeat (rewrite <- app_assoc; cbn [app]); reflexivity).
      rewrite (pe0_at w1 c w2 d _ F Hw1 Hc Hw2 Hcend) by (try lia; rewrite Hd; reflexivity).
      rewrite (next_is_at tk cl _ w2 d _ Hw2 (kw_solid d _ Hd)) by (rewrite Hd; reflexivity).
      rewrite (skip_app_triv tk cl w3 _ Hw3), (flat_l_skip body _ Hbody).
      rewrite (proj1 IHbody Hbody (w4 ++ en :: rest));
        [ | eapply closer_at; [exact Hw4 | exact Hen | reflexivity]
          | intro Hb; eapply closer_skip; [exact Hw4 | exact Hen | exact (Habs Hb)] | lia].
      rewrite (next_is_at tk cl _ w4 en rest Hw4 (kw_solid en _ Hen)) by (rewrite Hen; reflexivity). reflexivity.
    - (* REPEAT *)
      intros k w1 body IHbody w2 u w3 c w4 en (Hk & Hw1 & Hbody & Hw2 & Hu & Hw3 & Hc & Hw4 & Hcend & Hen & Habs) rest _ F L f HF HL _.
      cbn [size_s] in HF, HL. cbn [flat_s erase_s app].
      rewrite (stmt1_kw _ _ _ k _ KwRepeat Hk). unfold StParser.repeat_tail.
      replace ((w1 ++ flat_l body ++ w2 ++ u :: w3 ++ flat c ++ w4 ++ [en]) ++ rest)
        with (w1 ++ flat_l body ++ w2 ++ u :: w3 ++ flat c ++ w4 ++ en :: rest)
        by (repeat (rewrite <- app_assoc; cbn [app]); reflexivity).
      rewrite (skip_app_triv tk cl w1 _ Hw1), (flat_l_skip body _ Hbody).
      rewrite (proj1 IHbody Hbody (w2 ++ u :: w3 ++ flat c ++ w4 ++ en :: rest));
        [ | eapply closer_at; [exact Hw2 | exact Hu | reflexivity]
          | intro Hb; eapply closer_skip; [exact Hw2 | exact Hu | exact (Habs Hb)] | lia].
      rewrite (next_is_at tk cl _ w2 u _ Hw2 (kw_solid u _ Hu)) by (rewrite Hu; reflexivity).
      rewrite (pe0_at w3 c w4 en rest F Hw3 Hc Hw4 Hcend) by (try lia; rewrite Hen; reflexivity).
      rewrite (next_is_at tk cl _ w4 en rest Hw4 (kw_solid en _ Hen)) by (rewrite Hen; reflexivity). reflexivity.
    - (* EXIT *)
      intros k Hk rest _ F L f _ _ _. cbn [flat_s erase_s app wf_s] in *. rewrite (stmt1_kw _ _ _ k _ KwExit Hk). reflexivity.
    - (* RETURN *)
      intros k Hk rest _ F L f _ _ _. cbn [flat_s erase_s app wf_s] in *. rewrite (stmt1_kw _ _ _ k _ KwReturn Hk). reflexivity.
    - (* a list of one group *)
      intros g IHg. pose proof (size_g_pos g) as Hgp. split.
      + intros Hg rest Hrest Habs L HL. cbn [size_l wf_l flat_l erase_l absorbs] in *.
        destruct L as [|L]; [lia|]. cbn [StParser.plist]. unfold StParser.stmt_list.
        assert (Hgf : gfollow g rest) by (destruct g; cbn [gfollow gempty] in *; [apply Habs; reflexivity | apply closer_nostart; exact Hrest]).
        rewrite (IHg true Hg rest Hgf) by lia.
        destruct L as [|L']; [lia|]. rewrite groups_stop; [reflexivity | lia | exact Hrest].
      + intros pe Hg rest Hrest Habs acc F L f0 f HF HL Hf0 Hf. cbn [size_l wf_l flat_l erase_l absorbs] in *.
        destruct f as [|f]; [lia|]. cbn [StParser.groups_more].
        assert (Hgf : gfollow g rest) by (destruct g; cbn [gfollow gempty] in *; [apply Habs; reflexivity | apply closer_nostart; exact Hrest]).
        rewrite (IHg pe Hg rest Hgf) by lia.
        destruct f as [|f']; [lia|]. rewrite groups_stop; [reflexivity | lia | exact Hrest].
    - (* a group and more *)
      intros g IHg l [_ IHl].
      assert (Hfol : forall pe, wf_g pe g -> wf_l (gempty g) l -> forall rest, gfollow g (flat_l l ++ rest)).
      { intros pe Hg Hl rest. destruct g as [w1 semi w2|s m w semi]; cbn [gfollow gempty] in *.
        - apply flat_l_skip. exact Hl.
        - apply wf_false_nostart. exact Hl. }
      split.
      + intros (Hg & Hl) rest Hrest Habs L HL. cbn [size_l flat_l erase_l absorbs] in *.
        destruct L as [|L]; [lia|]. cbn [StParser.plist]. unfold StParser.stmt_list. rewrite <- app_assoc.
        rewrite (IHg true Hg (flat_l l ++ rest) (Hfol true Hg Hl rest)) by lia.
        rewrite (IHl (gempty g) Hl rest Hrest Habs (erase_g g) L L L L) by lia. reflexivity.
      + intros pe (Hg & Hl) rest Hrest Habs acc F L f0 f HF HL Hf0 Hf. cbn [size_l flat_l erase_l absorbs] in *.
        destruct f as [|f]; [lia|]. cbn [StParser.groups_more]. rewrite <- app_assoc.
        rewrite (IHg pe Hg (flat_l l ++ rest) (Hfol pe Hg Hl rest)) by lia.
        rewrite (IHl (gempty g) Hl rest Hrest Habs (acc ++ erase_g g) F L f0 f) by lia. rewrite <- app_assoc. reflexivity.
    - (* an empty statement *)
      intros w1 semi w2 pe (_ & Hw1 & Hsemi & Hw2) rest Hrest F L f0 f _ _ _ _. cbn [gfollow] in Hrest. cbn [flat_g erase_g].
      assert (Hss : solid semi) by (unfold StExprProofs.solid; rewrite Hsemi; discriminate).
      unfold StParser.group. rewrite <- app_assoc. cbn [app]. rewrite (next_is_at tk cl _ w1 semi _ Hw1 Hss) by (rewrite Hsemi; reflexivity).
      rewrite (skip_app_triv tk cl w2 _ Hw2), Hrest. reflexivity.
    - (* statements:  s1 ; ... sn ; *)
      intros s IHs m IHm w semi pe (_ & Hs & Hm & Hw & Hsemi & Hsend) rest Hrest F L f0 f HF HL Hf0 Hf.
      cbn [gfollow] in Hrest. cbn [size_g] in HF, HL, Hf0, Hf. cbn [flat_g erase_g].
      assert (Hss : solid semi) by (unfold StExprProofs.solid; rewrite Hsemi; discriminate).
      replace ((flat_s s ++ flat_m m ++ w ++ [semi]) ++ rest) with (flat_s s ++ flat_m m ++ w ++ semi :: rest)
        by (repeat (rewrite <- app_assoc; cbn [app]); reflexivity).
      unfold StParser.group.
      destruct (flat_s_head s (flat_m m ++ w ++ semi :: rest) Hs) as (t & r' & E & Ht & Hnsemi).
      assert (Hnext : next_is is_semi (flat_s s ++ flat_m m ++ w ++ semi :: rest) = None).
      { rewrite E. unfold StParser.next_is. rewrite (skip_solid tk cl t r' Ht), Hnsemi. reflexivity. }
      rewrite Hnext.
      assert (Hsn : semi_next s (flat_m m ++ w ++ semi :: rest)).
      { destruct m as [|mw1 msemi mw2 ms mm]; cbn [flat_m app lead_m wf_m] in *.
        - exists w, semi, rest. repeat split; assumption.
        - destruct Hm as (Hmw1 & Hmsemi & _). eexists mw1, msemi, _. rewrite <- !app_assoc. cbn [app].
          split; [reflexivity|]. repeat split; assumption. }
      rewrite (IHs Hs _ Hsn F L f0) by lia.
      rewrite (IHm w Hm Hw semi rest [erase_s s] Hsemi Hrest F L f0 f) by lia.
      rewrite (next_is_at tk cl _ w semi rest Hw Hss) by (rewrite Hsemi; reflexivity). reflexivity.
    - (* no further statement *)
      intros w _ Hw semi rest acc Hsemi Hrest F L f0 f _ _ Hf0 Hf. cbn [size_m] in Hf, Hf0. destruct f as [|f]; [lia|].
      assert (Hss : solid semi) by (unfold StExprProofs.solid; rewrite Hsemi; discriminate).
      cbn [flat_m erase_m app StParser.stmts_more]. rewrite (next_is_at tk cl _ w semi rest Hw Hss) by (rewrite Hsemi; reflexivity).
      rewrite (stmt1_fails_skip _ _ f0 rest Hf0 Hrest). rewrite app_nil_r. reflexivity.
    - (* one more statement *)
      intros w1 semi1 w2 s IHs m IHm w (Hw1 & Hsemi1 & Hw2 & Hs & Hm & Hsend) Hw semi rest acc Hsemi Hrest F L f0 f HF HL Hf0 Hf.
      cbn [size_m] in HF, HL, Hf0, Hf. destruct f as [|f]; [lia|].
      assert (Hss1 : solid semi1) by (unfold StExprProofs.solid; rewrite Hsemi1; discriminate).
      cbn [flat_m erase_m StParser.stmts_more]. rewrite <- !app_assoc. cbn [app].
      rewrite (next_is_at tk cl _ w1 semi1 _ Hw1 Hss1) by (rewrite Hsemi1; reflexivity).
      rewrite <- !app_assoc. rewrite (skip_app_triv tk cl w2 _ Hw2).
      destruct (flat_s_head s (flat_m m ++ w ++ semi :: rest) Hs) as (t & r' & E & Ht & _).
      assert (Hsk : skip (flat_s s ++ flat_m m ++ w ++ semi :: rest) = flat_s s ++ flat_m m ++ w ++ semi :: rest)
        by (rewrite E; apply skip_solid; exact Ht).
      rewrite Hsk.
      assert (Hsn : semi_next s (flat_m m ++ w ++ semi :: rest)).
      { destruct m as [|mw1 msemi mw2 ms mm]; cbn [flat_m app lead_m wf_m] in *.
        - exists w, semi, rest. repeat split; assumption.
        - destruct Hm as (Hmw1 & Hmsemi & _). eexists mw1, msemi, _. rewrite <- !app_assoc. cbn [app].
          split; [reflexivity|]. repeat split; assumption. }
      rewrite (IHs Hs _ Hsn F L f0) by lia.
      rewrite (IHm w Hm Hw semi rest (acc ++ [erase_s s]) Hsemi Hrest F L f0 f) by lia.
      rewrite <- app_assoc. reflexivity.
    - (* no body *)
      intros _ rest Hrest _ L HL. cbn [size_b] in HL. destruct L as [|L]; [lia|]. cbn [flat_b erase_b app].
      unfold StParser.opt_list. unfold kw_closer in Hrest. destruct (skip rest) as [|t r] eqn:Er; [contradiction|].
      destruct (cl t) eqn:Ec; try contradiction.
      rewrite plist_fails; [reflexivity | rewrite Ec; cbn; rewrite Hrest; reflexivity | rewrite Ec; discriminate | rewrite Ec; discriminate].
    - (* a body *)
      intros l IHl Hl rest Hrest Habs L HL. cbn [size_b] in HL. cbn [flat_b erase_b wf_b babsorbs] in *.
      rewrite (flat_l_skip l rest Hl). unfold StParser.opt_list. rewrite (proj1 IHl Hl rest (kw_closer_next _ Hrest) Habs L) by lia. reflexivity.
    - (* no ELSIF *)
      intros wt _ Hwt t0 r0 Ht0 F L f _ _ Hf. cbn [size_eis] in Hf. cbn [flat_eis erase_eis app].
      assert (Hfail : elsif1 (pexpr F) (plist L) (skip (wt ++ t0 :: r0)) = Fail).
      { rewrite (skip_app_triv tk cl wt _ Hwt).
        assert (Hs0 : solid t0) by (unfold StExprProofs.solid; destruct Ht0 as [E|E]; rewrite E; discriminate).
        rewrite (skip_solid tk cl t0 r0 Hs0). unfold StParser.elsif1. destruct Ht0 as [E|E]; rewrite E; reflexivity. }
      split.
      + intro acc. destruct f as [|f]; [lia|]. cbn [StParser.elsifs_more]. rewrite Hfail, app_nil_r. reflexivity.
      + unfold StParser.elsifs. rewrite Hfail. reflexivity.
    - (* ELSIF *)
      intros w0 k w1 c w2 th w3 body IHbody r IHr wt (Hw0 & Hk & Hw1 & Hc & Hw2 & Hcend & Hth & Hw3 & Hbody & Hr & Habs) Hwt t0 r0 Ht0 F L f HF HL Hf.
      cbn [size_eis] in HF, HL, Hf. cbn [flat_eis erase_eis].
      set (rest := wt ++ t0 :: r0).
      replace ((w0 ++ k :: w1 ++ flat c ++ w2 ++ th :: w3 ++ flat_l body ++ flat_eis r) ++ rest)
        with (w0 ++ k :: w1 ++ flat c ++ w2 ++ th :: w3 ++ flat_l body ++ flat_eis r ++ rest)
        by (repeat (rewrite <- app_assoc; cbn [app]); reflexivity).
      assert (Ht0k : exists k0, cl t0 = CKw k0 /\ starter k0 = false) by (destruct Ht0 as [E|E]; eexists; (split; [exact E | reflexivity])).
      destruct Ht0k as (k0 & Ek0 & Sk0).
      assert (Hcl : closer_next (flat_eis r ++ rest)).
      { unfold rest. destruct r as [|rw0 rk rw1 rc rw2 rth rw3 rbody rr]; cbn [flat_eis app wf_eis] in *.
        - eapply closer_at; [exact Hwt | exact Ek0 | exact Sk0].
        - destruct Hr as (Hrw0 & Hrk & _). rewrite <- !app_assoc. cbn [app]. eapply closer_at; [exact Hrw0 | exact Hrk | reflexivity]. }
      assert (Hsk : absorbs body = true -> skip (flat_eis r ++ rest) = flat_eis r ++ rest).
      { intro Hb. specialize (Habs Hb). unfold rest. destruct r as [|rw0 rk rw1 rc rw2 rth rw3 rbody rr]; cbn [flat_eis app eis_lead wf_eis] in *.
        - rewrite Habs. cbn [app]. apply skip_solid. unfold StExprProofs.solid. rewrite Ek0. discriminate.
        - destruct Hr as (_ & Hrk & _). rewrite Habs. cbn [app]. apply skip_solid. unfold StExprProofs.solid. rewrite Hrk. discriminate. }
      assert (H1 : elsif1 (pexpr F) (plist L) (k :: w1 ++ flat c ++ w2 ++ th :: w3 ++ flat_l body ++ flat_eis r ++ rest) =
                   Ok ((erase c, erase_l body), flat_eis r ++ rest)).
      { unfold StParser.elsif1. rewrite Hk. cbn [is_kw kw_eqb].
        rewrite (pe0_at w1 c w2 th _ F Hw1 Hc Hw2 Hcend) by (try lia; rewrite Hth; reflexivity).
        rewrite (next_is_at tk cl _ w2 th _ Hw2 (kw_solid th _ Hth)) by (rewrite Hth; reflexivity).
        rewrite (skip_app_triv tk cl w3 _ Hw3), (flat_l_skip body _ Hbody).
        rewrite (proj1 IHbody Hbody (flat_eis r ++ rest) Hcl Hsk) by lia. reflexivity. }
      destruct (IHr wt Hr Hwt t0 r0 Ht0 F L f) as [HA _]; try lia. fold rest in HA.
      rewrite (skip_app_triv tk cl w0 _ Hw0), (skip_solid tk cl k _ (kw_solid k _ Hk)).
      split.
      + intro acc. destruct f as [|f]; [lia|]. cbn [StParser.elsifs_more].
        rewrite (skip_app_triv tk cl w0 _ Hw0), (skip_solid tk cl k _ (kw_solid k _ Hk)), H1.
        destruct (IHr wt Hr Hwt t0 r0 Ht0 F L f) as [HA' _]; try lia. fold rest in HA'. rewrite HA'. rewrite <- app_assoc. reflexivity.
      + unfold StParser.elsifs. rewrite H1. rewrite HA. reflexivity.
    - (* no ELSE *)
      intros w4 _ en r ke Hw4 Hen Hke L _. cbn [flat_el erase_el app]. unfold StParser.else_part.
      rewrite (next_is_not tk cl _ w4 en r Hw4 (kw_solid en _ Hen)) by (rewrite Hen; destruct Hke as [-> | ->]; reflexivity). reflexivity.
    - (* ELSE *)
      intros w0 k w1 body IHbody w4 (Hw0 & Hk & Hw1 & Hbody & Habs) en r ke Hw4 Hen Hke L HL. cbn [size_el] in HL. cbn [flat_el erase_el].
      assert (Sk : starter ke = false) by (destruct Hke as [-> | ->]; reflexivity).
      rewrite <- !app_assoc. cbn [app]. rewrite <- !app_assoc. unfold StParser.else_part.
      rewrite (next_is_at tk cl _ w0 k _ Hw0 (kw_solid k _ Hk)) by (rewrite Hk; reflexivity).
      rewrite (skip_app_triv tk cl w1 _ Hw1), (flat_l_skip body _ Hbody).
      rewrite (proj1 IHbody Hbody (w4 ++ en :: r));
        [ reflexivity | eapply closer_at; [exact Hw4 | exact Hen | exact Sk]
          | intro Hb; eapply closer_skip; [exact Hw4 | exact Hen | exact (Habs Hb)] | lia].
    - (* no CASE element *)
      intros wt _ Hwt t0 r0 Ht0 L f _ Hf. cbn [size_cs] in Hf. cbn [flat_cs erase_cs app].
      assert (Hfail : case_elem (plist L) f (skip (wt ++ t0 :: r0)) = Fail).
      { rewrite (skip_app_triv tk cl wt _ Hwt).
        assert (Hs0 : solid t0) by (unfold StExprProofs.solid; destruct Ht0 as [E|E]; rewrite E; discriminate).
        rewrite (skip_solid tk cl t0 r0 Hs0). unfold StParser.case_elem, StParser.case_sel, StParser.signed_int, StParser.ident.
        destruct Ht0 as [E|E]; rewrite E; reflexivity. }
      split.
      + intro acc. destruct f as [|f]; [lia|]. cbn [StParser.cases_more].
        assert (Hfail' : case_elem (plist L) f (skip (wt ++ t0 :: r0)) = Fail).
        { rewrite (skip_app_triv tk cl wt _ Hwt).
          assert (Hs0 : solid t0) by (unfold StExprProofs.solid; destruct Ht0 as [E|E]; rewrite E; discriminate).
          rewrite (skip_solid tk cl t0 r0 Hs0). unfold StParser.case_elem, StParser.case_sel, StParser.signed_int, StParser.ident.
          destruct Ht0 as [E|E]; rewrite E; reflexivity. }
        rewrite Hfail', app_nil_r. reflexivity.
      + unfold StParser.cases. rewrite Hfail. reflexivity.
    - (* a CASE element *)
      intros w0 x ms w1 colon w2 body IHbody r IHr wt (Hw0 & Hx & Hms & Hw1 & Hcolon & Hw2 & Hbody & Hr & Habs) Hwt t0 r0 Ht0 L f HL Hf.
      cbn [size_cs] in HL, Hf. cbn [flat_cs erase_cs].
      set (rest := wt ++ t0 :: r0).
      replace ((w0 ++ flat_sel x ++ flat_mss ms ++ w1 ++ colon :: w2 ++ flat_l body ++ flat_cs r) ++ rest)
        with (w0 ++ flat_sel x ++ flat_mss ms ++ w1 ++ colon :: w2 ++ flat_l body ++ flat_cs r ++ rest)
        by (repeat (rewrite <- app_assoc; cbn [app]); reflexivity).
      assert (Ht0k : exists k0, cl t0 = CKw k0 /\ starter k0 = false) by (destruct Ht0 as [E|E]; eexists; (split; [exact E | reflexivity])).
      destruct Ht0k as (k0 & Ek0 & Sk0).
      assert (Hcl : closer_next (flat_cs r ++ rest)).
      { unfold rest. destruct r as [|rw0 rx rms rw1 rcolon rw2 rbody rr]; cbn [flat_cs app wf_cs] in *.
        - eapply closer_at; [exact Hwt | exact Ek0 | exact Sk0].
        - destruct Hr as (Hrw0 & Hrx & Hrms & Hrw1 & Hrcolon & _).
          replace ((rw0 ++ flat_sel rx ++ flat_mss rms ++ rw1 ++ rcolon :: rw2 ++ flat_l rbody ++ flat_cs rr) ++ wt ++ t0 :: r0)
            with (rw0 ++ flat_sel rx ++ flat_mss rms ++ rw1 ++ rcolon :: (rw2 ++ flat_l rbody ++ flat_cs rr ++ wt ++ t0 :: r0))
            by (repeat (rewrite <- app_assoc; cbn [app]); reflexivity).
          apply sel_closer; assumption. }
      assert (Hsk : absorbs body = true -> skip (flat_cs r ++ rest) = flat_cs r ++ rest).
      { intro Hb. specialize (Habs Hb). unfold rest. destruct r as [|rw0 rx rms rw1 rcolon rw2 rbody rr]; cbn [flat_cs app cs_lead wf_cs] in *.
        - rewrite Habs. cbn [app]. apply skip_solid. unfold StExprProofs.solid. rewrite Ek0. discriminate.
        - destruct Hr as (_ & Hrx & _). rewrite Habs. cbn [app]. rewrite <- app_assoc.
          destruct (flat_sel_head rx ((flat_mss rms ++ rw1 ++ rcolon :: rw2 ++ flat_l rbody ++ flat_cs rr) ++ wt ++ t0 :: r0) Hrx) as (t & r' & E & Ht).
          rewrite E. apply skip_solid. exact Ht. }
      assert (H1 : forall f1, length ms < f1 ->
                   case_elem (plist L) f1 (flat_sel x ++ flat_mss ms ++ w1 ++ colon :: w2 ++ flat_l body ++ flat_cs r ++ rest) =
                   Ok ((erase_sel x :: map erase_ms ms, erase_l body), flat_cs r ++ rest)).
      { intros f1 Hf1. unfold StParser.case_elem.
        destruct (mss_follow ms w1 colon (w2 ++ flat_l body ++ flat_cs r ++ rest) Hms Hw1 Hcolon) as (fw & ft & fr & Ef & Hfw & Hft).
        rewrite Ef. rewrite (case_sel_at x fw ft fr Hx Hfw Hft). rewrite <- Ef.
        rewrite (csels_more_at ms Hms [erase_sel x] w1 colon _ f1 Hw1 Hcolon Hf1).
        assert (Hsc : solid colon) by (unfold StExprProofs.solid; rewrite Hcolon; discriminate).
        rewrite (next_is_at tk cl _ w1 colon _ Hw1 Hsc) by (rewrite Hcolon; reflexivity).
        rewrite (skip_app_triv tk cl w2 _ Hw2), (flat_l_skip body _ Hbody).
        rewrite (proj1 IHbody Hbody (flat_cs r ++ rest) Hcl Hsk) by lia. reflexivity. }
      destruct (flat_sel_head x (flat_mss ms ++ w1 ++ colon :: w2 ++ flat_l body ++ flat_cs r ++ rest) Hx) as (tx & rx' & Ex & Htx).
      assert (Hskx : skip (w0 ++ flat_sel x ++ flat_mss ms ++ w1 ++ colon :: w2 ++ flat_l body ++ flat_cs r ++ rest) =
                     flat_sel x ++ flat_mss ms ++ w1 ++ colon :: w2 ++ flat_l body ++ flat_cs r ++ rest).
      { rewrite (skip_app_triv tk cl w0 _ Hw0). rewrite Ex. apply skip_solid. exact Htx. }
      split.
      + intro acc. destruct f as [|f]; [lia|]. cbn [StParser.cases_more]. rewrite Hskx, H1 by lia.
        destruct (IHr wt Hr Hwt t0 r0 Ht0 L f) as [HA' _]; try lia. fold rest in HA'. rewrite HA'. rewrite <- app_assoc. reflexivity.
      + unfold StParser.cases. rewrite Hskx, H1 by lia.
        destruct (IHr wt Hr Hwt t0 r0 Ht0 L f) as [HA _]; try lia. fold rest in HA. rewrite HA. reflexivity.
  Qed.

  (* every well-formed spelling of a statement list -- empty statements included -- is parsed to the list it denotes; the
     number of nodes is enough fuel *)
  Theorem plist_spelled : forall l rest L,
    wf_l true l -> closer_next rest -> (absorbs l = true -> skip rest = rest) -> size_l l <= L ->
    plist L (flat_l l ++ rest) = Ok (erase_l l, rest).
  Proof. intros l rest L Hl Hrest Habs HL. destruct main_s as (_ & M & _). apply (proj1 (M l)); assumption. Qed.

  (* ---- the number of nodes is bounded by the number of tokens ---- *)
  Lemma sel_len x : 1 <= length (flat_sel x).
  Proof. destruct x as [[d|p d|m w d]|[d|p d|m w d] w1 dots w2 i2|n]; cbn [flat_sel flat_int length app]; lia. Qed.

  Lemma mss_len ms : length ms <= length (flat_mss ms).
  Proof.
    induction ms as [|[w1 comma w2 x] ms IH]; [apply Nat.le_refl|]. unfold flat_mss. cbn [map concat flat_ms]. fold (flat_mss ms).
    rewrite !app_length. cbn [length]. lia.
  Qed.

  Lemma size_bound_s :
    (forall s, size_s s <= 3 * length (flat_s s)) /\
    (forall l, size_l l <= 3 * length (flat_l l)) /\
    (forall g, size_g g + 1 <= 3 * length (flat_g g)) /\
    (forall m, size_m m <= 3 * length (flat_m m) + 1) /\
    (forall b, size_b b <= 3 * length (flat_b b) + 1) /\
    (forall e, size_eis e <= 3 * length (flat_eis e) + 1) /\
    (forall e, size_el e <= 3 * length (flat_el e) + 1) /\
    (forall e, size_cs e <= 3 * length (flat_cs e) + 1).
  Proof.
    destruct (size_bound tk) as (Be & Bp & Bps & Bss & _).
    apply ss_mutind; intros; cbn [size_s size_l size_g size_m size_b size_eis size_el size_cs flat_s flat_l flat_g flat_m flat_b flat_eis flat_el flat_cs];
      repeat (rewrite app_length || cbn [length]);
      repeat match goal with
             | |- context [size ?e] => pose proof (Be e); generalize dependent (size e); intros
             | |- context [sizep ?e] => pose proof (Bp e); generalize dependent (sizep e); intros
             | |- context [sizeps ?e] => pose proof (Bps e); generalize dependent (sizeps e); intros
             | |- context [sizess ?e] => pose proof (Bss e); generalize dependent (sizess e); intros
             end; try lia.
    (* FOR: the optional BY part *)
    - destruct st as [|bk bw1 be bw2]; cbn [size_by flat_by]; repeat (rewrite app_length || cbn [length]).
      + lia.
      + pose proof (Be be). lia.
    - pose proof (sel_len x). pose proof (mss_len ms). lia.
  Qed.

  (* ---- a well-formed statement list is inside the model's scope ---- *)
  Notation scoped := (scoped tk cl).

  Ltac sc :=
    repeat first
      [ assumption
      | apply scoped_nil
      | apply scoped_triv; assumption
      | apply scoped_app
      | apply scoped_cons; [eapply ok_of_class; [eassumption | reflexivity] | ] ].

  Lemma scoped_int i : wf_int i -> scoped (flat_int i).
  Proof. destruct i as [d|p d|m w d]; cbn [wf_int flat_int]; [intro H | intros (H & H0) | intros (H & -> & H0); cbn [app]]; sc. Qed.

  Lemma scoped_sel x : wf_sel x -> scoped (flat_sel x).
  Proof.
    destruct x as [i|i1 w1 dots w2 i2|n]; cbn [wf_sel flat_sel].
    - apply scoped_int.
    - intros (H1 & H2 & H3 & H4 & H5). pose proof (scoped_int i1 H1). pose proof (scoped_int i2 H5). sc.
    - intro H. sc.
  Qed.

  Lemma scoped_mss ms : Forall wf_ms ms -> scoped (flat_mss ms).
  Proof.
    induction 1 as [|[w1 comma w2 x] ms (H1 & H2 & H3 & H4) _ IH]; [apply scoped_nil|].
    unfold flat_mss. cbn [map concat flat_ms]. fold (flat_mss ms). pose proof (scoped_sel x H4). sc.
  Qed.

  Lemma wf_scoped_s :
    (forall s, wf_s s -> scoped (flat_s s)) /\ (forall l, forall pe, wf_l pe l -> scoped (flat_l l)) /\
    (forall g, forall pe, wf_g pe g -> scoped (flat_g g)) /\
    (forall m, forall w, wf_m w m -> scoped (flat_m m)) /\ (forall b, wf_b b -> scoped (flat_b b)) /\
    (forall e, forall wt, wf_eis wt e -> scoped (flat_eis e)) /\ (forall e, forall w4, wf_el w4 e -> scoped (flat_el e)) /\
    (forall e, forall wt, wf_cs wt e -> scoped (flat_cs e)).
  Proof.
    destruct (wf_scoped tk cl txt num lvl) as (Se & Sp & Sps & Sss & _).
    assert (SE : forall e, wf 0 e -> scoped (flat e)) by (intros e H; apply (proj1 (Se e) 0 H)).
    apply ss_mutind with (P := fun s => wf_s s -> scoped (flat_s s)) (P0 := fun l => forall pe, wf_l pe l -> scoped (flat_l l))
      (P1 := fun g => forall pe, wf_g pe g -> scoped (flat_g g))
      (P2 := fun m => forall w, wf_m w m -> scoped (flat_m m)) (P3 := fun b => wf_b b -> scoped (flat_b b))
      (P4 := fun e => forall wt, wf_eis wt e -> scoped (flat_eis e)) (P5 := fun e => forall w4, wf_el w4 e -> scoped (flat_el e))
      (P6 := fun e => forall wt, wf_cs wt e -> scoped (flat_cs e)).
    - intros v vs w1 a w2 e (H1 & Hvs & H2 & H3 & H4 & H5). cbn [flat_s]. pose proof (SE e H5). pose proof (Sss vs Hvs). sc.
    - intros f w1 lp w2 rp (H1 & H2 & H3 & H4 & H5). cbn [flat_s]. sc.
    - intros f w1 lp w2 p ps w3 rp (H1 & H2 & H3 & H4 & H5 & H6 & H7 & H8 & _). cbn [flat_s].
      pose proof (Sp p H5). pose proof (Sps ps w3 H6). sc.
    - intros k w1 c w2 th w3 b IHb eis IHe el IHl w4 en (H1 & H2 & H3 & H4 & _ & H6 & H7 & H8 & H9 & H10 & H11 & H12 & _).
      cbn [flat_s]. pose proof (SE c H3). specialize (IHb H8). specialize (IHe _ H9). specialize (IHl _ H10). sc.
    - intros k w1 c w2 o cs IHc el IHl w4 en (H1 & H2 & H3 & H4 & _ & H6 & H7 & H8 & H9 & H10).
      cbn [flat_s]. pose proof (SE c H3). specialize (IHc _ H7). specialize (IHl _ H8). sc.
    - intros k w1 v w2 a w3 e1 w4 to w5 e2 w6 st d w7 body IHb w8 en
             (H1 & H2 & H3 & H4 & H5 & H6 & H7 & H8 & _ & H10 & H11 & H12 & H13 & _ & H15 & H16 & H17 & H18 & H19 & H20 & _).
      cbn [flat_s]. pose proof (SE e1 H7). pose proof (SE e2 H12). specialize (IHb _ H18).
      assert (Hby : scoped (flat_by st)).
      { destruct st as [|bk bw1 be bw2]; cbn [flat_by wf_by] in *; [apply scoped_nil|].
        destruct H15 as (B1 & B2 & B3 & B4 & _). pose proof (SE be B3). sc. }
      sc.
    - intros k w1 c w2 d w3 body IHb w4 en (H1 & H2 & H3 & H4 & _ & H6 & H7 & H8 & H9 & H10 & _). cbn [flat_s].
      pose proof (SE c H3). specialize (IHb _ H8). sc.
    - intros k w1 body IHb w2 u w3 c w4 en (H1 & H2 & H3 & H4 & H5 & H6 & H7 & H8 & _ & H10 & _). cbn [flat_s].
      pose proof (SE c H7). specialize (IHb _ H3). sc.
    - intros k H. cbn [flat_s wf_s] in *. sc.
    - intros k H. cbn [flat_s wf_s] in *. sc.
    - intros g IHg pe H. cbn [flat_l wf_l] in *. apply (IHg pe H).
    - intros g IHg l IHl pe (H1 & H2). cbn [flat_l]. specialize (IHg pe H1). specialize (IHl _ H2). sc.
    - intros w1 semi w2 pe (_ & H1 & H2 & H3). cbn [flat_g]. sc.
    - intros s IHs m IHm w semi pe (_ & H1 & H2 & H3 & H4 & _). cbn [flat_g]. specialize (IHs H1). specialize (IHm w H2). sc.
    - intros w _. apply scoped_nil.
    - intros w1 semi w2 s IHs m IHm w (H1 & H2 & H3 & H4 & H5 & _). cbn [flat_m]. specialize (IHs H4). specialize (IHm w H5). sc.
    - intros _. apply scoped_nil.
    - intros l IHl H. cbn [flat_b wf_b] in *. apply (IHl true). exact H.
    - intros wt _. apply scoped_nil.
    - intros w0 k w1 c w2 th w3 body IHb r IHr wt (H1 & H2 & H3 & H4 & H5 & _ & H7 & H8 & H9 & H10 & _). cbn [flat_eis].
      pose proof (SE c H4). specialize (IHb _ H9). specialize (IHr _ H10). sc.
    - intros w4 _. apply scoped_nil.
    - intros w0 k w1 body IHb w4 (H1 & H2 & H3 & H4 & _). cbn [flat_el]. specialize (IHb _ H4). sc.
    - intros wt _. apply scoped_nil.
    - intros w0 x ms w1 colon w2 body IHb r IHr wt (H1 & H2 & H3 & H4 & H5 & H6 & H7 & H8 & _). cbn [flat_cs].
      pose proof (scoped_sel x H2). pose proof (scoped_mss ms H3). specialize (IHb _ H7). specialize (IHr _ H8). sc.
  Qed.

  Lemma wf_l_in_scope l w2 en k w3 : wf_l true l -> all_triv w2 -> cl en = CKw k -> all_triv w3 ->
    in_scope tk cl (flat_l l ++ w2 ++ en :: w3) = true.
  Proof.
    intros Hl H2 Hen H3. unfold StParser.in_scope.
    assert (S : scoped (flat_l l ++ w2 ++ en :: w3)).
    { pose proof (proj1 (proj2 wf_scoped_s) l true Hl). sc. }
    specialize (S false []). rewrite app_nil_r in S. rewrite S. destruct (is_nil tk _); reflexivity.
  Qed.
End G.
