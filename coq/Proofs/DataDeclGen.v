(* The model of the alias resolution (Model/DataDecl.v) against the table regenerated from
   xform_resolve_late_bound_data_decl.rs on every run (Gen/GenDataDecl.v): the three kinds of declaration that enter the
   graph, and what a late-bound declaration becomes for each datum a root can carry. *)
From Coq Require Import List String Bool NArith.
From Verif Require Import Base.Text Gen.GenDataDecl Model.DataDecl.
Import ListNotations.
Local Open Scope string_scope.

Definition dkind_name (k : dkind) : string := match k with DkSimple => "Simple" | DkEnum => "Enumeration" | DkStruct => "Structure" end.
Definition all_dkinds : list dkind := [DkSimple; DkEnum; DkStruct].
Lemma all_dkinds_complete k : In k all_dkinds.
Proof. destruct k; cbn; tauto. Qed.

(* exactly the model's three kinds enter the graph through add() *)
Theorem added_table : map snd gen_added = map dkind_name all_dkinds.
Proof. reflexivity. Qed.

(* the declaration an alias of each kind is rewritten to; for the two data that are no kind the code answers "not
   implemented", and so does the model (alias_kind gives None, xform_data_decl a todo diagnostic) *)
Definition result_decl (k : dkind) : string := match k with DkSimple => "Simple" | DkEnum => "Enumeration" | DkStruct => "StructureInitialization" end.
Definition ndata_name (d : ndata) : string := match d with NdKind k => dkind_name k | NdLate => "LateBound" | NdUnspec => "Unspecified" end.
Definition ndata_result (d : ndata) : option string :=
  match alias_kind [([120%N], d)] [120%N] with Some k => Some (result_decl k) | None => None end.
Theorem fold_table :
  gen_fold = map (fun d => (ndata_name d, ndata_result d)) [NdKind DkSimple; NdKind DkEnum; NdKind DkStruct; NdLate; NdUnspec].
Proof. reflexivity. Qed.

Theorem model_is_the_source :
  map snd gen_added = map dkind_name all_dkinds /\
  gen_fold = map (fun d => (ndata_name d, ndata_result d)) [NdKind DkSimple; NdKind DkEnum; NdKind DkStruct; NdLate; NdUnspec].
Proof. split; [exact added_table | exact fold_table]. Qed.
