(* C11 / C12: invariants of the language-server model over every message sequence. *)
From Coq Require Import List NArith ZArith Bool Lia.
From Verif Require Import Model.Lsp.
Import ListNotations.
Open Scope N_scope.

Section Inv.
  Variable text D T : Type.
  Variable diag : docs text -> N -> D.
  Variable no_diag : D.
  Variable tokens : option text -> T.
  Variable null_tokens : T.

  Notation step := (step text D T diag no_diag tokens null_tokens).
  Notation run := (run text D T diag no_diag tokens null_tokens).
  Notation msg := (msg text).
  Notation out := (out D T).

  (* ---- C12: every request is answered exactly once, in order; nothing else is answered ---- *)
  Definition request_id (m : msg) : list N :=
    match m with SemTokens _ id _ => [id] | BadParams _ id => [id] | OtherRequest _ id => [id] | _ => [] end.
  Definition reply_id (o : out) : list N :=
    match o with Reply _ _ id _ => [id] | ErrorReply _ _ id _ => [id] | Publish _ _ _ _ _ => [] end.

  Lemma step_replies d m : flat_map reply_id (snd (step d m)) = request_id m.
  Proof. destruct m; reflexivity. Qed.

  Theorem run_replies ms : forall d, flat_map reply_id (snd (run d ms)) = flat_map request_id ms.
  Proof.
    induction ms as [|m r IH]; intro d; [reflexivity|].
    cbn [Lsp.run flat_map]. pose proof (step_replies d m) as Hs.
    destruct (step d m) as [d1 o1]. specialize (IH d1). destruct (run d1 r) as [d2 o2].
    cbn [snd] in *. rewrite flat_map_app, Hs, IH. reflexivity.
  Qed.

  (* unimplemented methods get an error reply, implemented ones a result *)
  Lemma step_error_iff d m id c : In (ErrorReply _ _ id c) (snd (step d m)) <->
    (m = OtherRequest _ id /\ c = method_not_found) \/ (m = BadParams _ id /\ c = invalid_params).
  Proof.
    destruct m; cbn; split; intro H; try tauto; try (destruct H as [H|[]]; discriminate);
      try (destruct H as [[H _]|[H _]]; discriminate).
    - destruct H as [H|[]]. inversion H. right. split; reflexivity.
    - destruct H as [[H _]|[H1 H2]]; [discriminate|]. inversion H1. subst. left; reflexivity.
    - destruct H as [H|[]]. inversion H. left. split; reflexivity.
    - destruct H as [[H1 H2]|[H _]]; [|discriminate]. inversion H1. subst. left; reflexivity.
  Qed.

  (* ---- C11: one publish per didOpen / didChange, for that document and version ---- *)
  Definition publishes (o : out) : list (uri * Z) :=
    match o with Publish _ _ u v _ => [(u, v)] | _ => [] end.
  Definition notified (m : msg) : list (uri * Z) :=
    match m with DidOpen _ u v _ => [(u, v)] | DidChange _ u v _ => [(u, v)] | _ => [] end.

  Lemma step_publishes d m : flat_map publishes (snd (step d m)) = notified m.
  Proof. destruct m; reflexivity. Qed.

  Theorem run_publishes ms : forall d, flat_map publishes (snd (run d ms)) = flat_map notified ms.
  Proof.
    induction ms as [|m r IH]; intro d; [reflexivity|].
    cbn [Lsp.run flat_map]. pose proof (step_publishes d m) as Hs.
    destruct (step d m) as [d1 o1]. specialize (IH d1). destruct (run d1 r) as [d2 o2].
    cbn [snd] in *. rewrite flat_map_app, Hs, IH. reflexivity.
  Qed.

  (* ---- the stored documents are "last writer wins" ---- *)
  Definition same_contents (a b : docs text) : Prop := forall u, get text a u = get text b u.

  Lemma get_put d u t k : get text (put text d u t) k = if u =? k then Some t else get text d k.
  Proof.
    unfold put. cbn [get]. destruct (N.eqb_spec u k) as [E|NE]; [reflexivity|].
    induction d as [|[k' t'] r IH]; [reflexivity|].
    cbn [filter fst]. destruct (N.eqb_spec k' u) as [E'|NE']; cbn [negb].
    - cbn [get]. destruct (N.eqb_spec k' k); [congruence | exact IH].
    - cbn [get]. destruct (N.eqb_spec k' k); [reflexivity | exact IH].
  Qed.

  Lemma store_same a b u t : same_contents a b -> same_contents (store text a u t) (store text b u t).
  Proof.
    intros H k. unfold store. destruct (u_file u); [|apply H]. rewrite !get_put. destruct (u_id u =? k); [reflexivity | apply H].
  Qed.

  Lemma get_remove d u k : get text (remove text d u) k = if u =? k then None else get text d k.
  Proof.
    unfold remove. induction d as [|[k' t'] r IH]; [destruct (u =? k); reflexivity|].
    cbn [filter fst]. destruct (N.eqb_spec k' u) as [E'|NE']; cbn [negb].
    - cbn [get]. rewrite IH. destruct (N.eqb_spec u k) as [E|NE]; [reflexivity|]. destruct (N.eqb_spec k' k); [congruence | reflexivity].
    - cbn [get]. destruct (N.eqb_spec k' k) as [E2|NE2]; [|exact IH]. destruct (N.eqb_spec u k); [congruence | reflexivity].
  Qed.

  Lemma close_same a b u : same_contents a b -> same_contents (close text a u) (close text b u).
  Proof.
    intros H k. unfold close. destruct (u_file u); [|apply H]. rewrite !get_remove. destruct (u_id u =? k); [reflexivity | apply H].
  Qed.

  (* a closed document is gone: nothing is stored for it, the others are untouched *)
  Theorem close_forgets d u : u_file u = true ->
    get text (fst (step d (DidClose _ u))) (u_id u) = None /\
    (forall k, k <> u_id u -> get text (fst (step d (DidClose _ u))) k = get text d k).
  Proof.
    intro Hf. cbn [Lsp.step fst]. unfold close. rewrite Hf. split; [rewrite get_remove, N.eqb_refl; reflexivity|].
    intros k Hk. rewrite get_remove. destruct (N.eqb_spec (u_id u) k); [congruence | reflexivity].
  Qed.

  (* the analysis depends on the current contents only (this is C06's order-independence, assumed) *)
  Hypothesis diag_ext : forall a b u, same_contents a b -> diag a u = diag b u.

  Lemma step_same a b m : same_contents a b ->
    same_contents (fst (step a m)) (fst (step b m)) /\ snd (step a m) = snd (step b m).
  Proof.
    intro H. destruct m as [u v t|u v cs|u|id u|id|id| |id]; cbn [Lsp.step fst snd]; try (split; [exact H | reflexivity]).
    - pose proof (store_same a b u t H) as Hs. split; [exact Hs|]. unfold publish.
      destruct (u_file u); [rewrite (diag_ext _ _ _ Hs)|]; reflexivity.
    - destruct (last (map Some cs) None) as [t|].
      + pose proof (store_same a b u t H) as Hs. split; [exact Hs|]. unfold publish.
        destruct (u_file u); [rewrite (diag_ext _ _ _ Hs)|]; reflexivity.
      + split; [exact H|]. unfold publish. destruct (u_file u); [rewrite (diag_ext _ _ _ H)|]; reflexivity.
    - split; [apply close_same; exact H | reflexivity].
    - split; [exact H|]. rewrite (H (u_id u)). reflexivity.
  Qed.

  (* history independence: two servers whose stored contents agree answer every further message
     sequence identically -- in particular a server with a long edit history and a freshly started
     one into which the same current contents were opened *)
  Theorem run_same ms : forall a b, same_contents a b ->
    same_contents (fst (run a ms)) (fst (run b ms)) /\ snd (run a ms) = snd (run b ms).
  Proof.
    induction ms as [|m r IH]; intros a b H; [split; [exact H | reflexivity]|].
    cbn [Lsp.run]. destruct (step_same a b m H) as [H1 H2].
    destruct (step a m) as [a1 oa]. destruct (step b m) as [b1 ob]. cbn [fst snd] in *.
    destruct (IH a1 b1 H1) as [H3 H4].
    destruct (run a1 r) as [a2 oa2]. destruct (run b1 r) as [b2 ob2]. cbn [fst snd] in *.
    split; [exact H3 | congruence].
  Qed.

  (* what is published is the analysis of the contents after the edit, for that document *)
  Theorem publish_is_current d u v t :
    u_file u = true ->
    snd (step d (DidOpen _ u v t)) = [Publish _ _ u v (diag (put text d (u_id u) t) (u_id u))] /\
    get text (fst (step d (DidOpen _ u v t))) (u_id u) = Some t.
  Proof.
    intro Hf. cbn [Lsp.step fst snd]. unfold store, publish. rewrite Hf. split; [reflexivity|].
    rewrite get_put, N.eqb_refl. reflexivity.
  Qed.

  (* with full-document synchronisation the last change of a notification is the new content *)
  Theorem change_takes_last d u v cs t :
    u_file u = true ->
    get text (fst (step d (DidChange _ u v (cs ++ [t])))) (u_id u) = Some t.
  Proof.
    intro Hf. cbn [Lsp.step fst]. rewrite map_app. cbn [map]. rewrite last_last.
    unfold store. rewrite Hf, get_put, N.eqb_refl. reflexivity.
  Qed.

  Theorem change_empty_keeps d u v : fst (step d (DidChange _ u v [])) = d.
  Proof. reflexivity. Qed.
  (* ---- C12: the life of the process ---- *)
  Notation session := (session text D T diag no_diag tokens null_tokens).
  Notation frame := (frame text).

  (* after any messages, shutdown followed by exit: everything the messages call for has been written, the shutdown
     request is answered, the status is 0 -- whatever follows the exit notification *)
  Theorem session_shutdown_exit ms : forall d id rest,
    session d (map (Msg text) ms ++ Shutdown text id :: Exit text :: rest)
    = mkEnded D T (snd (run d ms)) (Some id) true.
  Proof.
    induction ms as [|m r IH]; intros d id rest; [reflexivity|].
    cbn [map app Lsp.session Lsp.run]. destruct (step d m) as [d1 o1]. rewrite (IH d1 id rest).
    destruct (run d1 r) as [d2 o2]. reflexivity.
  Qed.

  (* the status is 0 only then *)
  Theorem session_clean_iff fs : forall d,
    e_clean D T (session d fs) = true <-> exists ms id rest, fs = map (Msg text) ms ++ Shutdown text id :: Exit text :: rest.
  Proof.
    induction fs as [|f r IH]; intro d.
    - cbn. split; [discriminate|]. intros (ms & id & rest & H). destruct ms; discriminate.
    - destruct f as [m|id|].
      + cbn [Lsp.session]. destruct (step d m) as [d1 o1]. cbn [e_clean]. rewrite (IH d1). split.
        * intros (ms & id & rest & H). exists (m :: ms), id, rest. rewrite H. reflexivity.
        * intros (ms & id & rest & H). destruct ms as [|m0 ms]; [discriminate|]. cbn [map app] in H. inversion H. subst.
          exists ms, id, rest. reflexivity.
      + cbn [Lsp.session e_clean]. split.
        * intro H. destruct r as [|[m|i|] r']; try discriminate. exists [], id, r'. reflexivity.
        * intros (ms & id' & rest & H). destruct ms as [|m0 ms]; [|discriminate]. cbn [map app] in H. inversion H. reflexivity.
      + cbn. split; [discriminate|]. intros (ms & id & rest & H). destruct ms; discriminate.
  Qed.

  (* the requests read before the end are answered once each, in order; nothing after the end is answered; a shutdown
     request is answered exactly when it is reached *)
  Fixpoint served (fs : list frame) : list msg :=
    match fs with Msg _ m :: r => m :: served r | _ => [] end.
  Fixpoint reached_shutdown (fs : list frame) : option N :=
    match fs with Msg _ _ :: r => reached_shutdown r | Shutdown _ id :: _ => Some id | _ => None end.

  Theorem session_replies fs : forall d,
    flat_map reply_id (e_out D T (session d fs)) = flat_map request_id (served fs)
    /\ e_shutdown D T (session d fs) = reached_shutdown fs
    /\ e_out D T (session d fs) = snd (run d (served fs)).
  Proof.
    induction fs as [|f r IH]; intro d; [repeat split|].
    destruct f as [m|id|]; [|repeat split|repeat split].
    cbn [Lsp.session served reached_shutdown Lsp.run flat_map]. pose proof (step_replies d m) as Hs.
    destruct (step d m) as [d1 o1]. destruct (IH d1) as (H1 & H2 & H3). cbn [e_out e_shutdown snd] in *.
    rewrite flat_map_app, Hs, H1, H2, H3. destruct (run d1 (served r)) as [d2 o2]. repeat split.
  Qed.
End Inv.
