(* Printing a number in decimal and reading it back with Integer::new's model gives the number: the arithmetic fact the
   render-then-parse theorems need for integer constants (values below 2^128, the range of the syntax tree). *)
From Coq Require Import List NArith Bool Lia.
From Verif Require Import Base.Text Model.Literals Proofs.LitProofs Gen.GenTokens Model.Lexer Model.StParser Model.StInstance
  Proofs.StExprProofs Proofs.StStmtProofs Model.StRender.
Import ListNotations.
Open Scope N_scope.

Lemma horner_snoc ds d : horner 10 (ds ++ [d]) = horner 10 ds * 10 + d.
Proof. unfold horner. rewrite horner_from_app. reflexivity. Qed.

Lemma dec_digits_S f n acc : dec_digits (S f) n acc =
  if (n / 10 =? 0) then (48 + n mod 10) :: acc else dec_digits f (n / 10) ((48 + n mod 10) :: acc).
Proof. reflexivity. Qed.

Lemma dec_digits_spec : forall f n accd, n < 10 ^ N.of_nat (S f) ->
  exists ds, dec_digits (S f) n (digits_text accd) = digits_text (ds ++ accd) /\
             Forall (fun d => d < 10) ds /\ ds <> [] /\ horner 10 ds = n.
Proof.
  induction f as [|f IH]; intros n accd Hn.
  - (* one digit *)
    assert (Hn' : n < 10) by (cbn in Hn; lia).
    exists [n]. rewrite dec_digits_S. rewrite (N.mod_small n 10) by lia. rewrite (N.div_small n 10) by lia. cbn [N.eqb].
    split; [cbn [app digits_text map]; f_equal; lia|]. split; [constructor; [exact Hn' | constructor]|]. split; [discriminate|].
    unfold horner, horner_from. cbn. lia.
  - rewrite dec_digits_S. set (d := n mod 10). set (q := n / 10).
    assert (Hd : d < 10) by (apply N.mod_lt; lia).
    assert (Hnq : n = 10 * q + d) by (apply N.div_mod'; lia).
    assert (Hacc : (48 + d) :: digits_text accd = digits_text (d :: accd)) by (cbn [digits_text map]; f_equal; lia).
    rewrite Hacc. destruct (N.eqb_spec q 0) as [E|E].
    + exists [d]. split; [reflexivity|]. split; [constructor; [exact Hd | constructor]|]. split; [discriminate|].
      unfold horner, horner_from. cbn. lia.
    + assert (Hq : q < 10 ^ N.of_nat (S f)).
      { apply N.div_lt_upper_bound; [lia|]. replace (10 * 10 ^ N.of_nat (S f)) with (10 ^ N.of_nat (S (S f))); [exact Hn|].
        rewrite (Nat2N.inj_succ (S f)), N.pow_succ_r'. reflexivity. }
      destruct (IH q (d :: accd) Hq) as (ds & E1 & F & Ne & Hh).
      exists (ds ++ [d]). split; [rewrite E1, <- app_assoc; reflexivity|].
      split; [apply Forall_app; split; [exact F | constructor; [exact Hd | constructor]]|].
      split; [destruct ds; discriminate|]. rewrite horner_snoc, Hh. lia.
Qed.

Theorem integer_new_dec v : v < two128 -> integer_new (dec_of_N v) = Some v.
Proof.
  intro Hv. unfold dec_of_N.
  assert (H40 : v < 10 ^ N.of_nat 40) by (eapply N.lt_trans; [exact Hv | vm_compute; reflexivity]).
  destruct (dec_digits_spec 39 v [] H40) as (ds & E & F & Ne & Hh). change (digits_text []) with (@nil N) in E.
  rewrite E, app_nil_r. destruct (digits_text_props ds F) as (P1 & P2 & _).
  unfold integer_new.
  assert (Hfil : filter is_digit (digits_text ds) = digits_text ds).
  { clear -P1. induction (digits_text ds) as [|c r IH]; [reflexivity|]. cbn [forallb] in P1. apply andb_true_iff in P1 as [Pc Pr].
    cbn [filter]. rewrite Pc, (IH Pr). reflexivity. }
  rewrite Hfil, P2. rewrite parse_radix_fits; [rewrite Hh; reflexivity | lia | reflexivity | exact Ne | rewrite Hh; exact Hv].
Qed.

(* the token the renderer model writes for an integer constant is read as that constant *)
Theorem int_tok_ok v : v < two128 -> tok_class (int_tok v) = CConst CkInt /\ tok_num (int_tok v) = v.
Proof.
  intro Hv. unfold tok_class, tok_num, int_tok. cbn [t_kind t_text tkk].
  change (kind_class KDigits) with (CConst CkInt). rewrite (integer_new_dec v Hv). split; reflexivity.
Qed.
