(* Completeness of the alias resolution (Model/DataDecl.v) on a library with unique names whose bases come first: the walk
   raises no error, and every alias that a path of alias declarations connects to a declared simple / enumeration /
   structure type is given the kind of that type.  Together with DataDeclProofs (soundness) this is exactness. *)
From Coq Require Import List NArith Bool Lia.
From Verif Require Import Base.Text Gen.GenRules Model.Rules Model.DataDecl Proofs.DataDeclProofs Proofs.ReachProofs.
Import ListNotations.
Close Scope N_scope.
Open Scope nat_scope.

Definition fname (f : dfact) : text := match f with TyDecl m _ _ => m | TyAlias m _ => m end.
Definition names (fs : list dfact) : list text := map fname fs.
Definition bases (fs : list dfact) : list text := flat_map (fun f => match f with TyAlias _ b => [b] | _ => [] end) fs.

(* the names of the simple / enumeration / structure declarations: those the transformation makes roots of *)
Definition some_names (fs : list dfact) : list text := flat_map (fun f => match f with TyDecl m (Some _) _ => [m] | _ => [] end) fs.
(* unique names; no simple / enumeration / structure type is declared after it was used as a base (aliases may come in any
   order among themselves, and so may the declarations the transformation does not enter) *)
Fixpoint sorted (fs : list dfact) : Prop :=
  match fs with
  | [] => True
  | f :: r => (match f with TyAlias _ b => ~ In b (some_names r) | _ => True end) /\ sorted r
  end.
(* the declarations the transformation looks at: everything but the kinds it does not enter (those may repeat a name -- the
   duplicate is diagnosed by a later stage) *)
Definition relevant (f : dfact) : bool := match f with TyDecl _ None _ => false | _ => true end.
Definition rnames (fs : list dfact) : list text := names (filter relevant fs).
Definition wf (fs : list dfact) : Prop := NoDup (rnames fs) /\ sorted fs.

Lemma same_name_same_fact0 fs f g : NoDup (names fs) -> In f fs -> In g fs -> fname f = fname g -> f = g.
Proof.
  induction fs as [|h fs IH]; intros Hn Hf Hg E; [destruct Hf|]. cbn [names map] in Hn. inversion Hn as [|x l Hx Hn']; subst.
  destruct Hf as [<- | Hf]; destruct Hg as [<- | Hg]; [reflexivity | | |apply IH; assumption].
  - exfalso. apply Hx. rewrite E. apply in_map. exact Hg.
  - exfalso. apply Hx. rewrite <- E. apply in_map. exact Hf.
Qed.
Lemma same_name_same_fact fs f g : NoDup (rnames fs) -> In f fs -> In g fs -> relevant f = true -> relevant g = true -> fname f = fname g -> f = g.
Proof. intros Hn Hf Hg Rf Rg E. apply (same_name_same_fact0 (filter relevant fs)); [exact Hn | apply filter_In; auto | apply filter_In; auto | exact E]. Qed.

Lemma rnames_app a b : rnames (a ++ b) = rnames a ++ rnames b.
Proof. unfold rnames. rewrite filter_app. apply map_app. Qed.

(* ---- the walk over a well-formed library ---- *)
Record inv (pre : list dfact) (s : dstate) : Prop := mkInv {
  i_nodes : forall n, node_data (d_nodes s) n <> None -> In n (rnames pre) \/ In n (bases pre);
  i_nodes2 : forall f, In f pre -> match f with TyDecl _ None _ => True | _ => node_data (d_nodes s) (fname f) <> None end;
  i_bases : forall n, In n (bases pre) -> node_data (d_nodes s) n <> None;
  i_edges : forall b a, In (b, a) (d_edges s) <-> In (TyAlias a b) pre;
  i_roots : forall r d, In (r, d) (d_roots s) <-> exists k p, d = NdKind k /\ In (TyDecl r (Some k) p) pre }.

Lemma inv_init : inv [] dinit0.
Proof.
  constructor; cbn.
  - intros n H. contradiction H. reflexivity.
  - intros f [].
  - intros n [].
  - intros b a. split; intros [].
  - intros r d. split; [intros [] | intros (k & p & _ & [])].
Qed.

Lemma names_app a b : names (a ++ b) = names a ++ names b.
Proof. apply map_app. Qed.
Lemma bases_app a b : bases (a ++ b) = bases a ++ bases b.
Proof. apply flat_map_app. Qed.

Lemma node_data_some_app nodes n m d : node_data nodes n <> None -> node_data (nodes ++ [(m, d)]) n <> None.
Proof. intro H. rewrite node_data_app. destruct (node_data nodes n); [discriminate | contradiction H; reflexivity]. Qed.

Lemma add_node_keeps nodes m d n : node_data nodes n <> None -> node_data (add_node nodes m d) n <> None.
Proof. intro H. rewrite add_node_data. destruct (node_data nodes n); [discriminate | contradiction H; reflexivity]. Qed.
Lemma add_node_has nodes m d : node_data (add_node nodes m d) m <> None.
Proof. rewrite add_node_data. destruct (node_data nodes m); [discriminate|]. rewrite text_eqb_refl. discriminate. Qed.
Lemma add_node_inv nodes m d n : node_data (add_node nodes m d) n <> None -> node_data nodes n <> None \/ n = m.
Proof.
  rewrite add_node_data. destruct (node_data nodes n); [intros _; left; discriminate|].
  destruct (text_eqb m n) eqn:E; [intros _; right; symmetry; apply text_eqb_eq; exact E | intro H; contradiction H; reflexivity].
Qed.

Lemma step_inv pre f rest s : inv pre s -> NoDup (rnames (pre ++ f :: rest)) -> sorted (pre ++ f :: rest) ->
  (forall b, In b (bases pre) -> ~ In b (some_names (f :: rest))) ->
  exists s', dstep s f = inl s' /\ inv (pre ++ [f]) s'.
Proof.
  intros I Hnd Hso Hb. destruct I as [In1 In2 Ib Ie Ir].
  assert (Hfresh : relevant f = true -> ~ In (fname f) (rnames pre)).
  { intro Rf. rewrite rnames_app in Hnd. unfold rnames at 2 in Hnd. cbn [filter] in Hnd. rewrite Rf in Hnd. cbn [names map] in Hnd.
    apply NoDup_remove_2 in Hnd. intro H. apply Hnd. apply in_or_app. left. exact H. }
  destruct f as [n [k|] p|n b]; cbn [fname] in *.
  - (* a declared simple / enumeration / structure type: a new node and a root of its kind *)
    assert (Hnb : ~ In n (bases pre)) by (intro H; apply (Hb _ H); left; reflexivity).
    assert (Hnone : node_data (d_nodes s) n = None).
    { destruct (node_data (d_nodes s) n) eqn:E; [|reflexivity]. exfalso.
      destruct (In1 n) as [H | H]; [rewrite E; discriminate | apply (Hfresh eq_refl); exact H | apply Hnb; exact H]. }
    eexists. cbn [dstep]. rewrite Hnone. split; [reflexivity|]. constructor; cbn [d_nodes d_edges d_roots].
    + intros m Hm. rewrite node_data_app in Hm. rewrite rnames_app, bases_app. cbn [bases flat_map app]. unfold rnames at 2. cbn [filter relevant names map].
      destruct (node_data (d_nodes s) m) eqn:E.
      * destruct (In1 m) as [H | H]; [rewrite E; discriminate | left; apply in_or_app; left; exact H | right; rewrite app_nil_r; exact H].
      * destruct (text_eqb n m) eqn:E2; [|contradiction Hm; reflexivity]. apply text_eqb_eq in E2. subst. left. apply in_or_app. right. left. reflexivity.
    + intros g Hg. apply in_app_or in Hg. destruct Hg as [Hg | [<- | []]].
      * specialize (In2 g Hg). destruct g as [m [k'|] p'|m b']; try exact I; apply node_data_some_app; exact In2.
      * cbn [fname]. rewrite node_data_app, Hnone, text_eqb_refl. discriminate.
    + intros m Hm. rewrite bases_app in Hm. cbn [bases flat_map app] in Hm. rewrite app_nil_r in Hm. apply node_data_some_app. apply Ib. exact Hm.
    + intros b a. rewrite Ie. split; [intro H; apply in_or_app; left; exact H|]. intro H. apply in_app_or in H. destruct H as [H | [H | []]]; [exact H | discriminate H].
    + intros r d. split.
      * intro H. apply in_app_or in H. destruct H as [H | [H | []]].
        -- apply Ir in H. destruct H as (k' & p' & -> & H). exists k', p'. split; [reflexivity | apply in_or_app; left; exact H].
        -- injection H as <- <-. exists k, p. split; [reflexivity | apply in_or_app; right; left; reflexivity].
      * intros (k' & p' & -> & H). apply in_app_or in H. destruct H as [H | [H | []]].
        -- apply in_or_app. left. apply Ir. exists k', p'. split; [reflexivity | exact H].
        -- injection H as <- <- <-. apply in_or_app. right. left. reflexivity.
  - (* a declaration the transformation does not enter *)
    exists s. split; [reflexivity|]. constructor.
    + intros m Hm. rewrite rnames_app, bases_app. cbn [bases flat_map app]. unfold rnames at 2. cbn [filter relevant names map]. rewrite !app_nil_r.
      exact (In1 m Hm).
    + intros g Hg. apply in_app_or in Hg. destruct Hg as [Hg | [<- | []]]; [apply In2; exact Hg | exact I].
    + intros m Hm. rewrite bases_app in Hm. cbn [bases flat_map app] in Hm. rewrite app_nil_r in Hm. apply Ib. exact Hm.
    + intros b a. rewrite Ie. split; [intro H; apply in_or_app; left; exact H|]. intro H. apply in_app_or in H. destruct H as [H | [H | []]]; [exact H | discriminate H].
    + intros r d. rewrite Ir. split; intros (k' & p' & -> & H); exists k', p'; (split; [reflexivity|]).
      * apply in_or_app. left. exact H.
      * apply in_app_or in H. destruct H as [H | [H | []]]; [exact H | discriminate H].
  - (* an alias: nodes for base and alias, an edge *)
    eexists. cbn [dstep]. split; [reflexivity|]. constructor; cbn [d_nodes d_edges d_roots].
    + intros m Hm. rewrite rnames_app, bases_app. cbn [bases flat_map app]. unfold rnames at 2. cbn [filter relevant names map fname].
      apply add_node_inv in Hm. destruct Hm as [Hm | ->]; [|left; apply in_or_app; right; left; reflexivity].
      apply add_node_inv in Hm. destruct Hm as [Hm | ->]; [|right; apply in_or_app; right; left; reflexivity].
      destruct (In1 m Hm) as [H | H]; [left | right]; apply in_or_app; left; exact H.
    + intros g Hg. apply in_app_or in Hg. destruct Hg as [Hg | [<- | []]].
      * specialize (In2 g Hg). destruct g as [m [k'|] p'|m b']; try exact I; apply add_node_keeps; apply add_node_keeps; exact In2.
      * cbn [fname]. apply add_node_has.
    + intros m Hm. rewrite bases_app in Hm. cbn [bases flat_map app] in Hm. apply in_app_or in Hm. destruct Hm as [Hm | [<- | []]].
      * apply add_node_keeps. apply add_node_keeps. apply Ib. exact Hm.
      * apply add_node_keeps. apply add_node_has.
    + intros b' a. split.
      * intro H. apply in_app_or in H. destruct H as [H | [H | []]]; [apply in_or_app; left; apply Ie; exact H|].
        injection H as <- <-. apply in_or_app. right. left. reflexivity.
      * intro H. apply in_app_or in H. destruct H as [H | [H | []]]; [apply in_or_app; left; apply Ie; exact H|].
        injection H as <- <-. apply in_or_app. right. left. reflexivity.
    + intros r d. rewrite Ir. split; intros (k' & p' & -> & H); exists k', p'; (split; [reflexivity|]).
      * apply in_or_app. left. exact H.
      * apply in_app_or in H. destruct H as [H | [H | []]]; [exact H | discriminate H].
Qed.

Lemma sorted_app_inv pre f rest : sorted (pre ++ f :: rest) -> sorted (f :: rest) /\
  (forall b, In b (bases pre) -> ~ In b (some_names (f :: rest))).
Proof.
  induction pre as [|g pre IH]; cbn [app sorted]; [intro H; split; [exact H | intros b []]|].
  intros (Hg & Hs). destruct (IH Hs) as (H1 & H2). split; [exact H1|]. intros b Hb. cbn [bases flat_map] in Hb. apply in_app_or in Hb.
  destruct Hb as [Hb | Hb]; [|apply H2; exact Hb]. destruct g as [m k p|m b']; [destruct Hb|]. destruct Hb as [<- | []].
  intro H. apply Hg. unfold some_names. rewrite flat_map_app. apply in_or_app. right. exact H.
Qed.

Lemma walk_inv rest : forall pre s, inv pre s -> NoDup (rnames (pre ++ rest)) -> sorted (pre ++ rest) ->
  exists s', dwalk s rest = inl s' /\ inv (pre ++ rest) s'.
Proof.
  induction rest as [|f rest IH]; intros pre s I Hnd Hso.
  - exists s. rewrite app_nil_r. split; [reflexivity | exact I].
  - destruct (sorted_app_inv pre f rest Hso) as (_ & Hb). destruct (step_inv pre f rest s I Hnd Hso Hb) as (s1 & E1 & I1).
    cbn [dwalk]. rewrite E1. assert (Eq : pre ++ f :: rest = (pre ++ [f]) ++ rest) by (rewrite <- app_assoc; reflexivity).
    rewrite Eq in Hnd, Hso. rewrite Eq. apply IH; assumption.
Qed.

Theorem walk_ok fs : wf fs -> exists s, dwalk dinit0 fs = inl s /\ inv fs s.
Proof. intros (Hn & Hs). exact (walk_inv fs [] dinit0 inv_init Hn Hs). Qed.

(* ---- a declared type is the only root an alias hangs on ---- *)
Lemma apath_epath fs s r x : (forall b a, In (b, a) (d_edges s) <-> In (TyAlias a b) fs) -> apath fs r x -> epath (d_edges s) r x.
Proof. intros He Hp. induction Hp as [n|r b a _ IH Hin]; [apply ep_refl | eapply ep_step; [exact IH | apply He; exact Hin]]. Qed.

Lemma root_unique fs r r' n : NoDup (rnames fs) -> apath fs r n -> apath fs r' n ->
  (exists k p, In (TyDecl r (Some k) p) fs) -> (exists k p, In (TyDecl r' (Some k) p) fs) -> r = r'.
Proof.
  intros Hn P. revert r'. induction P as [n|r b a P IH Hab]; intros r' P' (k & p & Hr) (k' & p' & Hr').
  - inversion P' as [|x b' a' _ Hab']; subst; [reflexivity|]. exfalso.
    pose proof (same_name_same_fact fs (TyDecl n (Some k) p) (TyAlias n b') Hn Hr Hab' eq_refl eq_refl eq_refl) as X. discriminate X.
  - inversion P' as [|x b' a' P'' Hab']; subst.
    + exfalso. pose proof (same_name_same_fact fs (TyDecl a (Some k') p') (TyAlias a b) Hn Hr' Hab eq_refl eq_refl eq_refl) as X. discriminate X.
    + pose proof (same_name_same_fact fs (TyAlias a b) (TyAlias a b') Hn Hab Hab' eq_refl eq_refl eq_refl) as X. injection X as <-.
      apply IH; [exact P'' | exists k, p; exact Hr | exists k', p'; exact Hr'].
Qed.

(* completeness: on a well-formed library an alias connected to a declared type gets that type's kind *)
Theorem alias_kind_complete fs r k p n : wf fs -> In (TyDecl r (Some k) p) fs -> apath fs r n ->
  exists s, dwalk dinit0 fs = inl s /\ alias_kind (resolved s) n = Some k.
Proof.
  intros Hwf Hr Hp. destruct (walk_ok fs Hwf) as (s & Hw & I). exists s. split; [exact Hw|]. destruct I as [In1 In2 Ib Ie Ir].
  (* n is reached from the root r, so resolved has an entry for it *)
  assert (Hreach : In n (reach_from s r)).
  { apply reach_from_complete.
    - intros b a Hba. apply Ie in Hba. exact (In2 _ Hba).
    - exact (In2 _ Hr).
    - apply (apath_epath fs s); [exact Ie | exact Hp]. }
  assert (Hroot : In (r, NdKind k) (d_roots s)) by (apply Ir; exists k, p; split; [reflexivity | exact Hr]).
  assert (Hentry : exists d, node_data (resolved s) n = Some d).
  { assert (G : forall roots acc, In (r, NdKind k) roots \/ (exists d, In (n, d) acc) ->
                exists d, In (n, d) (fold_left (fun acc rd => map (fun n => (n, snd rd)) (reach_from s (fst rd)) ++ acc) roots acc)).
    { induction roots as [|[r0 d0] roots IHr]; intros acc [H | H]; cbn [fold_left]; [destruct H | exact H | |].
      - destruct H as [H | H].
        + injection H as -> ->. apply IHr. right. exists (NdKind k). apply in_or_app. left. cbn [fst snd]. apply in_map_iff. exists n. split; [reflexivity | exact Hreach].
        + apply IHr. left. exact H.
      - apply IHr. right. destruct H as (d & H). exists d. apply in_or_app. right. exact H. }
    destruct (G (d_roots s) [] (or_introl Hroot)) as (d & Hd). fold (resolved s) in Hd.
    clear -Hd. induction (resolved s) as [|[m d'] l IHl]; [destruct Hd|]. cbn [node_data]. destruct (text_eqb m n) eqn:Emn; [eexists; reflexivity|].
    destruct Hd as [Hd | Hd]; [injection Hd as -> ->; rewrite text_eqb_refl in Emn; discriminate Emn | apply IHl; exact Hd]. }
  destruct Hentry as (d & Hd). unfold alias_kind. rewrite Hd.
  (* whatever entry is found comes from a root that reaches n: that root is r *)
  destruct (resolved_in s n d (node_data_in _ _ _ Hd)) as (r' & Hr' & Hreach').
  apply Ir in Hr'. destruct Hr' as (k' & p' & -> & Hdecl').
  assert (P' : apath fs r' n).
  { unfold reach_from in Hreach'. eapply reach_sound; [intros b a Hba; apply Ie; exact Hba | | | exact Hreach'].
    - intros x [<- | []]. apply ap_refl.
    - intros x []. }
  assert (E : r = r') by (apply (root_unique fs r r' n (proj1 Hwf) Hp P'); [exists k, p; exact Hr | exists k', p'; exact Hdecl']).
  subst r'. pose proof (same_name_same_fact fs _ _ (proj1 Hwf) Hr Hdecl' eq_refl eq_refl eq_refl) as X. injection X as <- _. reflexivity.
Qed.

(* exactness on well-formed libraries: an alias is resolved to k exactly when a path connects it to a declaration of kind k *)
Theorem alias_kind_exact fs s n k : wf fs -> dwalk dinit0 fs = inl s ->
  (alias_kind (resolved s) n = Some k <-> exists r p, In (TyDecl r (Some k) p) fs /\ apath fs r n).
Proof.
  intros Hwf Hw. split.
  - apply alias_kind_sound. exact Hw.
  - intros (r & p & Hr & Hp). destruct (alias_kind_complete fs r k p n Hwf Hr Hp) as (s' & Hw' & H). rewrite Hw in Hw'. injection Hw' as <-. exact H.
Qed.

(* the order of a well-formed library does not matter: two well-formed orders of the same declarations give every alias the same kind *)
Theorem alias_kind_order fs fs' s s' n : wf fs -> wf fs' -> (forall f, In f fs <-> In f fs') ->
  dwalk dinit0 fs = inl s -> dwalk dinit0 fs' = inl s' -> alias_kind (resolved s) n = alias_kind (resolved s') n.
Proof.
  intros W W' Hsame Hw Hw'.
  assert (Hpath : forall g g', (forall f, In f g <-> In f g') -> forall r x, apath g r x -> apath g' r x).
  { intros g g' Hs r x P. induction P as [m|r b a _ IH Hin]; [apply ap_refl | eapply ap_step; [exact IH | apply Hs; exact Hin]]. }
  destruct (alias_kind (resolved s) n) as [k|] eqn:E; destruct (alias_kind (resolved s') n) as [k'|] eqn:E'; try reflexivity.
  - apply (alias_kind_exact fs s n k W Hw) in E. destruct E as (r & p & Hr & Hp).
    assert (X : alias_kind (resolved s') n = Some k) by (apply (alias_kind_exact fs' s' n k W' Hw'); exists r, p; split; [apply Hsame; exact Hr | apply (Hpath fs fs' Hsame); exact Hp]).
    congruence.
  - apply (alias_kind_exact fs s n k W Hw) in E. destruct E as (r & p & Hr & Hp).
    assert (X : alias_kind (resolved s') n = Some k) by (apply (alias_kind_exact fs' s' n k W' Hw'); exists r, p; split; [apply Hsame; exact Hr | apply (Hpath fs fs' Hsame); exact Hp]).
    congruence.
  - apply (alias_kind_exact fs' s' n k' W' Hw') in E'. destruct E' as (r & p & Hr & Hp).
    assert (X : alias_kind (resolved s) n = Some k') by (apply (alias_kind_exact fs s n k' W Hw); exists r, p; split; [apply Hsame; exact Hr | apply (Hpath fs' fs (fun f => iff_sym (Hsame f))); exact Hp]).
    congruence.
Qed.

Example ex_wf : wf [TyDecl [99%N] (Some DkEnum) 1%N; TyAlias [97%N; 49%N] [99%N]; TyAlias [97%N; 50%N] [97%N; 49%N]].
Proof. split; [repeat constructor; cbn; intuition discriminate | cbn; intuition discriminate]. Qed.
