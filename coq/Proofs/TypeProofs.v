(* TYPE ... END_TYPE in Model/DeclParser.v: every well-formed spelling of a block of data type declarations (arrays,
   subranges, enumerations, simple and late-bound declarations) is parsed to the declarations it denotes, leaving exactly the
   rest, with an explicit fuel bound. *)
From Coq Require Import List Arith Lia Bool NArith.
From Verif Require Import Base.Res Base.Text Model.ExprParser Model.StParser Model.DeclParser Proofs.StExprProofs Proofs.StStmtProofs
  Proofs.DeclProofs.
Import ListNotations.
Close Scope N_scope.
Open Scope nat_scope.

Section G.
  Variable tk : Type.
  Variable cl : tk -> tcl.
  Variable txt : tk -> text.
  Variable num : tk -> N.
  Variable tyname : tk -> text.
  Variable is_int : tk -> bool.

  Notation skip := (StParser.skip tk cl).
  Notation next_is := (StParser.next_is tk cl).
  Notation ident := (StParser.ident tk cl txt).
  Notation signed_int := (StParser.signed_int tk cl num).
  Notation all_triv := (all_triv tk cl).
  Notation solid := (solid tk cl).
  Notation pconst := (pconst tk cl txt num).
  Notation psubrange := (psubrange tk cl num).
  Notation ranges_more := (ranges_more tk cl num).
  Notation ranges := (ranges tk cl num).
  Notation type_ref := (type_ref tk cl txt tyname).
  Notation array_tail := (array_tail tk cl txt num tyname).
  Notation subrange_tail := (subrange_tail tk cl num tyname).
  Notation enum_tail := (enum_tail tk cl txt).
  Notation type_decl := (type_decl tk cl txt num tyname is_int).
  Notation tdecls_more := (tdecls_more tk cl txt num tyname is_int).
  Notation tsemisep := (tsemisep tk cl txt num tyname is_int).
  Notation type_block := (type_block tk cl txt num tyname is_int).
  Notation sint := (StStmtProofs.sint tk).
  Notation flat_int := (StStmtProofs.flat_int tk).
  Notation erase_int := (StStmtProofs.erase_int tk num).
  Notation wf_int := (StStmtProofs.wf_int tk cl).
  Notation sconst := (DeclProofs.sconst tk).
  Notation flat_c := (DeclProofs.flat_c tk).
  Notation erase_c := (DeclProofs.erase_c tk txt num).
  Notation wf_c := (DeclProofs.wf_c tk cl txt num).
  Notation snames := (DeclProofs.snames tk).
  Notation flat_ns := (DeclProofs.flat_ns tk).
  Notation erase_ns := (DeclProofs.erase_ns tk txt).
  Notation wf_ns := (DeclProofs.wf_ns tk cl).
  Notation semi_follow := (DeclProofs.semi_follow tk cl).
  Notation is_tyref := (DeclProofs.is_tyref tk cl).
  Notation type_text := (DeclProofs.type_text tk cl txt tyname).

  (* ---- ranges ---- *)
  Inductive srange := SRange (lo : sint) (w1 : list tk) (dots : tk) (w2 : list tk) (hi : sint).
  Definition flat_r (r : srange) : list tk := match r with SRange lo w1 dots w2 hi => flat_int lo ++ w1 ++ dots :: w2 ++ flat_int hi end.
  Definition erase_r (r : srange) : (bool * N) * (bool * N) := match r with SRange lo _ _ _ hi => (erase_int lo, erase_int hi) end.
  Definition wf_r (r : srange) : Prop :=
    match r with SRange lo w1 dots w2 hi => wf_int lo /\ all_triv w1 /\ cl dots = CRange /\ all_triv w2 /\ wf_int hi end.

  Lemma int_skip i r : wf_int i -> skip (flat_int i ++ r) = flat_int i ++ r.
  Proof. intro H. destruct (flat_int_head tk cl i r H) as (t & r' & E & St & _). rewrite E. apply skip_solid. exact St. Qed.

  Lemma psubrange_at r rest : wf_r r -> psubrange (flat_r r ++ rest) = Some (erase_r r, rest).
  Proof.
    destruct r as [lo w1 dots w2 hi]. cbn [wf_r flat_r erase_r]. intros (Hlo & Hw1 & Hd & Hw2 & Hhi). unfold DeclParser.psubrange.
    replace ((flat_int lo ++ w1 ++ dots :: w2 ++ flat_int hi) ++ rest) with (flat_int lo ++ w1 ++ dots :: w2 ++ flat_int hi ++ rest)
      by (repeat (rewrite <- app_assoc; cbn [app]); reflexivity).
    rewrite (signed_int_at tk cl num lo _ Hlo).
    assert (Hsd : solid dots) by (unfold StExprProofs.solid; rewrite Hd; discriminate).
    rewrite (next_is_at tk cl _ w1 dots _ Hw1 Hsd) by (rewrite Hd; reflexivity).
    rewrite (skip_app_triv tk cl w2 _ Hw2), (int_skip hi rest Hhi), (signed_int_at tk cl num hi rest Hhi). reflexivity.
  Qed.

  Lemma flat_r_head r rest : wf_r r -> exists t r', flat_r r ++ rest = t :: r' /\ solid t.
  Proof.
    destruct r as [lo w1 dots w2 hi]. cbn [wf_r flat_r]. intros (Hlo & _). rewrite <- app_assoc.
    destruct (flat_int_head tk cl lo ((w1 ++ dots :: w2 ++ flat_int hi) ++ rest) Hlo) as (t & r' & E & St & _). exists t, r'. split; assumption.
  Qed.

  Inductive srmore := RMore (w1 : list tk) (comma : tk) (w2 : list tk) (r : srange).
  Definition flat_rm (m : srmore) : list tk := match m with RMore w1 comma w2 r => w1 ++ comma :: w2 ++ flat_r r end.
  Definition flat_rms (ms : list srmore) : list tk := concat (map flat_rm ms).
  Definition wf_rm (m : srmore) : Prop := match m with RMore w1 comma w2 r => all_triv w1 /\ cl comma = CComma /\ all_triv w2 /\ wf_r r end.
  Definition erase_rm (m : srmore) := match m with RMore _ _ _ r => erase_r r end.

  Lemma ranges_more_at ms : Forall wf_rm ms -> forall acc rest f, next_is is_comma rest = None -> length ms < f ->
    ranges_more f acc (flat_rms ms ++ rest) = DOk (acc ++ map erase_rm ms, rest).
  Proof.
    induction ms as [|[w1 comma w2 r] ms IH]; intros Hms acc rest f Hrest Hf.
    - destruct f as [|f]; [cbn in Hf; lia|]. cbn [flat_rms map concat app DeclParser.ranges_more]. rewrite Hrest, app_nil_r. reflexivity.
    - destruct f as [|f]; [cbn in Hf; lia|]. cbn [length] in Hf.
      pose proof (Forall_inv Hms) as (Hw1 & Hcomma & Hw2 & Hr). pose proof (Forall_inv_tail Hms) as Hms'.
      unfold flat_rms. cbn [map concat flat_rm]. fold (flat_rms ms).
      replace (((w1 ++ comma :: w2 ++ flat_r r) ++ flat_rms ms) ++ rest) with (w1 ++ comma :: w2 ++ flat_r r ++ flat_rms ms ++ rest)
        by (repeat (rewrite <- app_assoc; cbn [app]); reflexivity).
      cbn [DeclParser.ranges_more].
      assert (Hsc : solid comma) by (unfold StExprProofs.solid; rewrite Hcomma; discriminate).
      rewrite (next_is_at tk cl _ w1 comma _ Hw1 Hsc) by (rewrite Hcomma; reflexivity).
      rewrite (skip_app_triv tk cl w2 _ Hw2).
      destruct (flat_r_head r (flat_rms ms ++ rest) Hr) as (t0 & r0 & E & St0). rewrite E, (skip_solid tk cl t0 r0 St0), <- E.
      rewrite (psubrange_at r _ Hr). rewrite (IH Hms' (acc ++ [erase_r r]) rest f Hrest) by lia.
      cbn [map erase_rm]. rewrite <- app_assoc. reflexivity.
  Qed.

  (* zero or more ranges *)
  Inductive sranges := RsNone | RsSome (r : srange) (ms : list srmore).
  Definition flat_rs (x : sranges) : list tk := match x with RsNone => [] | RsSome r ms => flat_r r ++ flat_rms ms end.
  Definition wf_rs (x : sranges) : Prop := match x with RsNone => True | RsSome r ms => wf_r r /\ Forall wf_rm ms end.
  Definition erase_rs (x : sranges) := match x with RsNone => [] | RsSome r ms => erase_r r :: map erase_rm ms end.
  Definition size_rs (x : sranges) : nat := match x with RsNone => 0 | RsSome _ ms => length ms end.

  (* what follows the ranges: trivia and ']' *)
  Lemma ranges_at x w rb rest f : wf_rs x -> all_triv w -> cl rb = CRB -> size_rs x < f ->
    ranges f (flat_rs x ++ w ++ rb :: rest) = DOk (erase_rs x, w ++ rb :: rest).
  Proof.
    intros Hx Hw Hrb Hf. assert (Hsr : solid rb) by (unfold StExprProofs.solid; rewrite Hrb; discriminate).
    assert (Hnc : next_is is_comma (w ++ rb :: rest) = None) by (apply (next_is_not tk cl _ w rb rest Hw Hsr); rewrite Hrb; reflexivity).
    unfold DeclParser.ranges. destruct x as [|r ms]; cbn [flat_rs erase_rs wf_rs size_rs app] in *.
    - (* no range: ']' (or trivia) starts no signed integer *)
      assert (E : psubrange (w ++ rb :: rest) = None).
      { unfold DeclParser.psubrange, StParser.signed_int. destruct w as [|t w']; cbn [app].
        - rewrite Hrb. reflexivity.
        - rewrite (Forall_inv Hw). reflexivity. }
      rewrite E. reflexivity.
    - destruct Hx as (Hr & Hms). rewrite <- app_assoc. rewrite (psubrange_at r _ Hr).
      rewrite (ranges_more_at ms Hms [erase_r r] _ f Hnc Hf). reflexivity.
  Qed.

  (* ---- spelled type declarations ---- *)
  Inductive sdefault (A : Type) := DfNone | DfSome (w1 : list tk) (a : tk) (w2 : list tk) (x : A).
  Arguments DfNone {A}.
  Arguments DfSome {A} w1 a w2 x.
  Definition flat_df {A} (fx : A -> list tk) (d : sdefault A) : list tk :=
    match d with DfNone => [] | DfSome w1 a w2 x => w1 ++ a :: w2 ++ fx x end.
  Definition wf_df {A} (wx : A -> Prop) (d : sdefault A) : Prop :=
    match d with DfNone => True | DfSome w1 a w2 x => all_triv w1 /\ cl a = CAssign /\ all_triv w2 /\ wx x end.
  Definition erase_df {A B} (ex : A -> B) (d : sdefault A) : option B :=
    match d with DfNone => None | DfSome _ _ _ x => Some (ex x) end.

  Inductive stdecl :=
    | StArray (n : tk) (w1 : list tk) (colon : tk) (w2 : list tk) (arr : tk) (w3 : list tk) (lb : tk) (w4 : list tk) (rs : sranges)
              (w5 : list tk) (rb : tk) (w6 : list tk) (o : tk) (w7 : list tk) (t : tk)
    | StSubrange (n : tk) (w1 : list tk) (colon : tk) (w2 : list tk) (t : tk) (w3 : list tk) (lp : tk) (w4 : list tk) (r : srange)
                 (w5 : list tk) (rp : tk) (d : sdefault sint)
    | StEnum (n : tk) (w1 : list tk) (colon : tk) (w2 : list tk) (lp : tk) (w3 : list tk) (vs : snames) (w4 : list tk) (rp : tk)
             (d : sdefault tk)
    | StEnumOf (n : tk) (w1 : list tk) (colon : tk) (w2 : list tk) (b : tk) (w3 : list tk) (a : tk) (w4 : list tk) (v : tk)
    | StSimple (n : tk) (w1 : list tk) (colon : tk) (w2 : list tk) (t : tk) (w3 : list tk) (a : tk) (w4 : list tk) (c : sconst)
    | StLate (n : tk) (w1 : list tk) (colon : tk) (w2 : list tk) (b : tk).

  Definition flat_td (d : stdecl) : list tk :=
    match d with
    | StArray n w1 colon w2 arr w3 lb w4 rs w5 rb w6 o w7 t =>
        n :: w1 ++ colon :: w2 ++ arr :: w3 ++ lb :: w4 ++ flat_rs rs ++ w5 ++ rb :: w6 ++ o :: w7 ++ [t]
    | StSubrange n w1 colon w2 t w3 lp w4 r w5 rp d =>
        n :: w1 ++ colon :: w2 ++ t :: w3 ++ lp :: w4 ++ flat_r r ++ w5 ++ rp :: flat_df flat_int d
    | StEnum n w1 colon w2 lp w3 vs w4 rp d =>
        n :: w1 ++ colon :: w2 ++ lp :: w3 ++ flat_ns vs ++ w4 ++ rp :: flat_df (fun v => [v]) d
    | StEnumOf n w1 colon w2 b w3 a w4 v => n :: w1 ++ colon :: w2 ++ b :: w3 ++ a :: w4 ++ [v]
    | StSimple n w1 colon w2 t w3 a w4 c => n :: w1 ++ colon :: w2 ++ t :: w3 ++ a :: w4 ++ flat_c c
    | StLate n w1 colon w2 b => n :: w1 ++ colon :: w2 ++ [b]
    end.
  Definition erase_td (d : stdecl) : tdecl :=
    match d with
    | StArray n _ _ _ _ _ _ _ rs _ _ _ _ _ t => TdArray (txt n) (erase_rs rs) (type_text t)
    | StSubrange n _ _ _ t _ _ _ r _ _ d => TdSubrange (txt n) (tyname t) (fst (erase_r r)) (snd (erase_r r)) (erase_df erase_int d)
    | StEnum n _ _ _ _ _ vs _ _ d => TdEnum (txt n) (erase_ns vs) (erase_df txt d)
    | StEnumOf n _ _ _ b _ _ _ v => TdEnumOf (txt n) (txt b) (txt v)
    | StSimple n _ _ _ t _ _ _ c => TdSimple (txt n) (type_text t) (erase_c c)
    | StLate n _ _ _ b => TdLate (txt n) (txt b)
    end.
  Definition wf_td (d : stdecl) : Prop :=
    match d with
    | StArray n w1 colon w2 arr w3 lb w4 rs w5 rb w6 o w7 t =>
        cl n = CId /\ all_triv w1 /\ cl colon = CColon /\ all_triv w2 /\ cl arr = CDk DkArray /\ all_triv w3 /\ cl lb = CLB /\
        all_triv w4 /\ wf_rs rs /\ all_triv w5 /\ cl rb = CRB /\ all_triv w6 /\ cl o = CKw KwOf /\ all_triv w7 /\ is_tyref t
    | StSubrange n w1 colon w2 t w3 lp w4 r w5 rp d =>
        cl n = CId /\ all_triv w1 /\ cl colon = CColon /\ all_triv w2 /\ is_type (cl t) = true /\ is_int t = true /\ all_triv w3 /\
        cl lp = CLP /\ all_triv w4 /\ wf_r r /\ all_triv w5 /\ cl rp = CRP /\ wf_df wf_int d
    | StEnum n w1 colon w2 lp w3 vs w4 rp d =>
        cl n = CId /\ all_triv w1 /\ cl colon = CColon /\ all_triv w2 /\ cl lp = CLP /\ all_triv w3 /\ wf_ns vs /\ all_triv w4 /\
        cl rp = CRP /\ wf_df (fun v => cl v = CId) d
    | StEnumOf n w1 colon w2 b w3 a w4 v =>
        cl n = CId /\ all_triv w1 /\ cl colon = CColon /\ all_triv w2 /\ cl b = CId /\ all_triv w3 /\ cl a = CAssign /\ all_triv w4 /\ cl v = CId
    | StSimple n w1 colon w2 t w3 a w4 c =>
        cl n = CId /\ all_triv w1 /\ cl colon = CColon /\ all_triv w2 /\ is_tyref t /\ all_triv w3 /\ cl a = CAssign /\ all_triv w4 /\ wf_c c
    | StLate n w1 colon w2 b => cl n = CId /\ all_triv w1 /\ cl colon = CColon /\ all_triv w2 /\ cl b = CId
    end.
  Definition size_td (d : stdecl) : nat :=
    match d with
    | StArray _ _ _ _ _ _ _ _ rs _ _ _ _ _ _ => 1 + size_rs rs
    | StEnum _ _ _ _ _ _ vs _ _ _ => 1 + length (nm_more tk vs)
    | _ => 1
    end.

  Lemma tyref_facts t : is_tyref t -> solid t /\ is_dk DkArray (cl t) = false /\ is_lp (cl t) = false.
  Proof.
    intros [H|H]; unfold StExprProofs.solid.
    - destruct (cl t); try discriminate H; repeat split; discriminate.
    - rewrite H. repeat split; discriminate.
  Qed.

  Lemma type_ref_at t r : is_tyref t -> type_ref (t :: r) = Some (type_text t, r).
  Proof.
    intros [H|H]; unfold DeclParser.type_ref, DeclProofs.type_text.
    - rewrite H. reflexivity.
    - assert (E : is_type (cl t) = false) by (rewrite H; reflexivity). rewrite E, H. reflexivity.
  Qed.

  Notation type_spec := (type_spec tk cl txt num tyname is_int).
  Lemma type_decl_head n w1 colon w2 X f :
    cl n = CId -> all_triv w1 -> cl colon = CColon -> all_triv w2 -> skip X = X ->
    type_decl f (n :: w1 ++ colon :: w2 ++ X) = type_spec f (txt n) X.
  Proof.
    intros Hn Hw1 Hc Hw2 HX. unfold DeclParser.type_decl. rewrite (ident_at tk cl txt n _ Hn).
    assert (Hsc : solid colon) by (unfold StExprProofs.solid; rewrite Hc; discriminate).
    rewrite (next_is_at tk cl _ w1 colon _ Hw1 Hsc) by (rewrite Hc; reflexivity).
    rewrite (skip_app_triv tk cl w2 _ Hw2), HX. reflexivity.
  Qed.

  (* one type declaration, followed by trivia and ';' *)
  Lemma type_decl_at d rest f : wf_td d -> semi_follow rest -> size_td d <= f ->
    type_decl f (flat_td d ++ rest) = DOk (erase_td d, rest).
  Proof.
    intros Hd Hrest Hf. destruct (DeclProofs.semi_follow_facts tk cl rest Hrest) as (Fa & Fl & Fc & _).
    destruct d as [n w1 colon w2 arr w3 lb w4 rs w5 rb w6 o w7 t|n w1 colon w2 t w3 lp w4 r w5 rp d|n w1 colon w2 lp w3 vs w4 rp d
                  |n w1 colon w2 b w3 a w4 v|n w1 colon w2 t w3 a w4 c|n w1 colon w2 b]; cbn [wf_td flat_td erase_td size_td] in *.
    - (* array *)
      destruct Hd as (Hn & Hw1 & Hc & Hw2 & Harr & Hw3 & Hlb & Hw4 & Hrs & Hw5 & Hrb & Hw6 & Ho & Hw7 & Ht).
      assert (Sarr : solid arr) by (unfold StExprProofs.solid; rewrite Harr; discriminate).
      assert (Slb : solid lb) by (unfold StExprProofs.solid; rewrite Hlb; discriminate).
      assert (Srb : solid rb) by (unfold StExprProofs.solid; rewrite Hrb; discriminate).
      assert (So : solid o) by (unfold StExprProofs.solid; rewrite Ho; discriminate).
      destruct (tyref_facts t Ht) as (St & _).
      replace ((n :: w1 ++ colon :: w2 ++ arr :: w3 ++ lb :: w4 ++ flat_rs rs ++ w5 ++ rb :: w6 ++ o :: w7 ++ [t]) ++ rest)
        with (n :: w1 ++ colon :: w2 ++ (arr :: w3 ++ lb :: w4 ++ flat_rs rs ++ w5 ++ rb :: w6 ++ o :: w7 ++ t :: rest))
        by (cbn [app]; repeat (rewrite <- app_assoc; cbn [app]); reflexivity).
      rewrite (type_decl_head n w1 colon w2 _ f Hn Hw1 Hc Hw2 (skip_solid tk cl arr _ Sarr)). unfold DeclParser.type_spec.
      rewrite Harr. cbn [is_dk]. unfold DeclParser.array_tail.
      rewrite (next_is_at tk cl _ w3 lb _ Hw3 Slb) by (rewrite Hlb; reflexivity).
      rewrite (skip_app_triv tk cl w4 _ Hw4).
      assert (Htail : forall X, X = w6 ++ o :: w7 ++ t :: rest ->
                match next_is is_of X with
                | Some r4 => match type_ref (skip r4) with
                             | Some (ty, r5) => match next_is is_assign r5 with
                                                | Some _ => DScope
                                                | None => DOk (TdArray (txt n) (erase_rs rs) ty, r5)
                                                end
                             | None => DFail
                             end
                | None => DFail
                end = DOk (TdArray (txt n) (erase_rs rs) (type_text t), rest)).
      { intros X ->. rewrite (next_is_at tk cl _ w6 o _ Hw6 So) by (rewrite Ho; reflexivity).
        rewrite (skip_app_triv tk cl w7 _ Hw7), (skip_solid tk cl t _ St), (type_ref_at t rest Ht), Fa. reflexivity. }
      destruct rs as [|r ms]; cbn [flat_rs app] in *.
      + (* no range *)
        rewrite (skip_app_triv tk cl w5 _ Hw5), (skip_solid tk cl rb _ Srb).
        assert (Er : ranges f (rb :: w6 ++ o :: w7 ++ t :: rest) = DOk ([], rb :: w6 ++ o :: w7 ++ t :: rest)).
        { unfold DeclParser.ranges, DeclParser.psubrange, StParser.signed_int. rewrite Hrb. reflexivity. }
        rewrite Er. unfold StParser.next_is at 1. rewrite (skip_solid tk cl rb _ Srb), Hrb. cbn [is_rb].
        apply Htail. reflexivity.
      + destruct Hrs as (Hr & Hms). rewrite <- app_assoc.
        destruct (flat_r_head r (flat_rms ms ++ w5 ++ rb :: w6 ++ o :: w7 ++ t :: rest) Hr) as (t0 & r0 & E & St0).
        rewrite E, (skip_solid tk cl t0 r0 St0), <- E. rewrite app_assoc.
        rewrite (ranges_at (RsSome r ms) w5 rb _ f (conj Hr Hms) Hw5 Hrb) by (cbn [size_rs] in *; lia).
        rewrite (next_is_at tk cl _ w5 rb _ Hw5 Srb) by (rewrite Hrb; reflexivity).
        apply Htail. reflexivity.
    - (* subrange *)
      destruct Hd as (Hn & Hw1 & Hc & Hw2 & Ht & Hi & Hw3 & Hlp & Hw4 & Hr & Hw5 & Hrp & Hdf).
      assert (St : solid t) by (unfold StExprProofs.solid; destruct (cl t); try discriminate Ht; discriminate).
      assert (Slp : solid lp) by (unfold StExprProofs.solid; rewrite Hlp; discriminate).
      assert (Srp : solid rp) by (unfold StExprProofs.solid; rewrite Hrp; discriminate).
      assert (Hna : is_dk DkArray (cl t) = false) by (destruct (cl t); try discriminate Ht; reflexivity).
      replace ((n :: w1 ++ colon :: w2 ++ t :: w3 ++ lp :: w4 ++ flat_r r ++ w5 ++ rp :: flat_df flat_int d) ++ rest)
        with (n :: w1 ++ colon :: w2 ++ (t :: w3 ++ lp :: w4 ++ flat_r r ++ w5 ++ rp :: flat_df flat_int d ++ rest))
        by (cbn [app]; repeat (rewrite <- app_assoc; cbn [app]); reflexivity).
      rewrite (type_decl_head n w1 colon w2 _ f Hn Hw1 Hc Hw2 (skip_solid tk cl t _ St)). unfold DeclParser.type_spec.
      rewrite Hna, Ht, Hi. unfold DeclParser.next_lp.
      rewrite (next_is_at tk cl _ w3 lp _ Hw3 Slp) by (rewrite Hlp; reflexivity). cbn [andb].
      unfold DeclParser.subrange_tail. rewrite (skip_app_triv tk cl w4 _ Hw4).
      destruct (flat_r_head r (w5 ++ rp :: flat_df flat_int d ++ rest) Hr) as (t0 & r0 & E & St0). rewrite E, (skip_solid tk cl t0 r0 St0), <- E.
      rewrite (psubrange_at r _ Hr). destruct (erase_r r) as [lo hi] eqn:Er. cbn [fst snd].
      rewrite (next_is_at tk cl _ w5 rp _ Hw5 Srp) by (rewrite Hrp; reflexivity).
      destruct d as [|dw1 da dw2 di]; cbn [flat_df wf_df erase_df app] in *.
      + rewrite Fa. reflexivity.
      + destruct Hdf as (Hdw1 & Hda & Hdw2 & Hdi).
        assert (Sda : solid da) by (unfold StExprProofs.solid; rewrite Hda; discriminate).
        rewrite <- !app_assoc. cbn [app]. rewrite <- !app_assoc.
        rewrite (next_is_at tk cl _ dw1 da _ Hdw1 Sda) by (rewrite Hda; reflexivity).
        rewrite (skip_app_triv tk cl dw2 _ Hdw2), (int_skip di rest Hdi), (signed_int_at tk cl num di rest Hdi). reflexivity.
    - (* enumeration by its values *)
      destruct Hd as (Hn & Hw1 & Hc & Hw2 & Hlp & Hw3 & Hvs & Hw4 & Hrp & Hdf).
      assert (Slp : solid lp) by (unfold StExprProofs.solid; rewrite Hlp; discriminate).
      assert (Srp : solid rp) by (unfold StExprProofs.solid; rewrite Hrp; discriminate).
      replace ((n :: w1 ++ colon :: w2 ++ lp :: w3 ++ flat_ns vs ++ w4 ++ rp :: flat_df (fun v => [v]) d) ++ rest)
        with (n :: w1 ++ colon :: w2 ++ (lp :: w3 ++ flat_ns vs ++ w4 ++ rp :: flat_df (fun v => [v]) d ++ rest))
        by (cbn [app]; repeat (rewrite <- app_assoc; cbn [app]); reflexivity).
      rewrite (type_decl_head n w1 colon w2 _ f Hn Hw1 Hc Hw2 (skip_solid tk cl lp _ Slp)). unfold DeclParser.type_spec.
      rewrite Hlp. cbn [is_dk is_type]. unfold DeclParser.enum_tail.
      destruct Hvs as (Hv1 & Hvm). unfold DeclProofs.flat_ns.
      assert (Sv : solid (nm_first tk vs)) by (unfold StExprProofs.solid; rewrite Hv1; discriminate).
      rewrite (skip_app_triv tk cl w3 _ Hw3). cbn [app]. rewrite (skip_solid tk cl (nm_first tk vs) _ Sv), (ident_at tk cl txt _ _ Hv1).
      assert (Hnc : DeclProofs.no_comma_next tk cl (w4 ++ rp :: flat_df (fun v => [v]) d ++ rest))
        by (unfold DeclProofs.no_comma_next; apply (next_is_not tk cl _ w4 rp _ Hw4 Srp); rewrite Hrp; reflexivity).
      rewrite (DeclProofs.names_more_at tk cl txt (nm_more tk vs) Hvm [txt (nm_first tk vs)] _ f Hnc) by lia.
      cbn [app]. rewrite (next_is_at tk cl _ w4 rp _ Hw4 Srp) by (rewrite Hrp; reflexivity).
      unfold DeclProofs.erase_ns.
      destruct d as [|dw1 da dw2 dv]; cbn [flat_df wf_df erase_df app] in *.
      + rewrite Fa. reflexivity.
      + destruct Hdf as (Hdw1 & Hda & Hdw2 & Hdv).
        assert (Sda : solid da) by (unfold StExprProofs.solid; rewrite Hda; discriminate).
        assert (Sdv : solid dv) by (unfold StExprProofs.solid; rewrite Hdv; discriminate).
        rewrite <- !app_assoc. cbn [app].
        rewrite (next_is_at tk cl _ dw1 da _ Hdw1 Sda) by (rewrite Hda; reflexivity).
        rewrite <- !app_assoc. cbn [app]. rewrite (skip_app_triv tk cl dw2 _ Hdw2), (skip_solid tk cl dv _ Sdv), (ident_at tk cl txt dv _ Hdv). reflexivity.
    - (* an enumeration given by another one, with value *)
      destruct Hd as (Hn & Hw1 & Hc & Hw2 & Hb & Hw3 & Ha & Hw4 & Hv).
      assert (Sb : solid b) by (unfold StExprProofs.solid; rewrite Hb; discriminate).
      assert (Sa : solid a) by (unfold StExprProofs.solid; rewrite Ha; discriminate).
      assert (Sv : solid v) by (unfold StExprProofs.solid; rewrite Hv; discriminate).
      replace ((n :: w1 ++ colon :: w2 ++ b :: w3 ++ a :: w4 ++ [v]) ++ rest) with (n :: w1 ++ colon :: w2 ++ (b :: w3 ++ a :: w4 ++ v :: rest))
        by (cbn [app]; repeat (rewrite <- app_assoc; cbn [app]); reflexivity).
      rewrite (type_decl_head n w1 colon w2 _ f Hn Hw1 Hc Hw2 (skip_solid tk cl b _ Sb)). unfold DeclParser.type_spec.
      rewrite Hb. cbn [is_dk is_type].
      rewrite (next_is_at tk cl _ w3 a _ Hw3 Sa) by (rewrite Ha; reflexivity).
      unfold DeclParser.next_lp. rewrite (next_is_not tk cl _ w4 v rest Hw4 Sv) by (rewrite Hv; reflexivity).
      rewrite (skip_app_triv tk cl w4 _ Hw4), (skip_solid tk cl v _ Sv), (ident_at tk cl txt v _ Hv). reflexivity.
    - (* a simple type with a constant *)
      destruct Hd as (Hn & Hw1 & Hc & Hw2 & Ht & Hw3 & Ha & Hw4 & Hcn).
      destruct (tyref_facts t Ht) as (St & Hna & _).
      assert (Sa : solid a) by (unfold StExprProofs.solid; rewrite Ha; discriminate).
      replace ((n :: w1 ++ colon :: w2 ++ t :: w3 ++ a :: w4 ++ flat_c c) ++ rest) with (n :: w1 ++ colon :: w2 ++ (t :: w3 ++ a :: w4 ++ flat_c c ++ rest))
        by (cbn [app]; repeat (rewrite <- app_assoc; cbn [app]); reflexivity).
      rewrite (type_decl_head n w1 colon w2 _ f Hn Hw1 Hc Hw2 (skip_solid tk cl t _ St)). unfold DeclParser.type_spec.
      rewrite Hna.
      destruct (DeclProofs.flat_c_head tk cl txt num c rest Hcn) as (t0 & r0 & E & St0 & Hnl).
      assert (Hsk : skip (w4 ++ flat_c c ++ rest) = flat_c c ++ rest) by (rewrite (skip_app_triv tk cl w4 _ Hw4), E; apply skip_solid; exact St0).
      assert (Hnlp : next_is is_lp (w3 ++ a :: w4 ++ flat_c c ++ rest) = None) by (apply (next_is_not tk cl _ w3 a _ Hw3 Sa); rewrite Ha; reflexivity).
      destruct Ht as [Ht|Ht].
      + rewrite Ht. unfold DeclParser.next_lp. rewrite Hnlp, andb_false_r.
        rewrite (next_is_at tk cl _ w3 a _ Hw3 Sa) by (rewrite Ha; reflexivity).
        rewrite Hsk, (DeclProofs.pconst_at tk cl txt num c rest Hcn). unfold DeclProofs.type_text. rewrite Ht. reflexivity.
      + assert (Hnt : is_type (cl t) = false) by (rewrite Ht; reflexivity). rewrite Hnt, Ht.
        rewrite (next_is_at tk cl _ w3 a _ Hw3 Sa) by (rewrite Ha; reflexivity).
        unfold DeclParser.next_lp, StParser.next_is. rewrite Hsk, E, Hnl. rewrite <- E.
        (* the first token of a constant is no identifier *)
        assert (Hni : ident (flat_c c ++ rest) = None).
        { destruct c as [ct ck|cp cd|cm cd|cb ch cv cval|csg cd cneg|ck cty chs csg cv cl0]; cbn [DeclProofs.wf_c DeclProofs.flat_c app] in *; unfold StParser.ident.
          - rewrite Hcn. reflexivity.
          - rewrite (proj1 Hcn). reflexivity.
          - rewrite (proj1 Hcn). reflexivity.
          - rewrite (proj1 Hcn). reflexivity.
          - rewrite (proj1 Hcn). destruct cneg; reflexivity.
          - rewrite (proj1 Hcn). reflexivity. }
        rewrite Hni, (DeclProofs.pconst_at tk cl txt num c rest Hcn). unfold DeclProofs.type_text. rewrite Hnt. reflexivity.
    - (* late bound *)
      destruct Hd as (Hn & Hw1 & Hc & Hw2 & Hb).
      assert (Sb : solid b) by (unfold StExprProofs.solid; rewrite Hb; discriminate).
      replace ((n :: w1 ++ colon :: w2 ++ [b]) ++ rest) with (n :: w1 ++ colon :: w2 ++ (b :: rest))
        by (cbn [app]; repeat (rewrite <- app_assoc; cbn [app]); reflexivity).
      rewrite (type_decl_head n w1 colon w2 _ f Hn Hw1 Hc Hw2 (skip_solid tk cl b _ Sb)). unfold DeclParser.type_spec.
      rewrite Hb. cbn [is_dk is_type]. rewrite Fa. reflexivity.
  Qed.

  (* ---- the declarations of a TYPE block ---- *)
  Lemma flat_td_head d r : wf_td d -> exists t r', flat_td d ++ r = t :: r' /\ solid t /\ cl t = CId.
  Proof.
    destruct d; cbn [wf_td flat_td app]; intros (Hn & _); eexists n, _; (split; [reflexivity|]); unfold StExprProofs.solid; rewrite Hn; (split; [discriminate | reflexivity]).
  Qed.

  Lemma type_decl_fails f t r : cl t <> CId -> type_decl f (t :: r) = DFail.
  Proof. intro H. unfold DeclParser.type_decl, StParser.ident. destruct (cl t); try reflexivity. contradiction H. reflexivity. Qed.

  Inductive stmore := TmMore (w1 : list tk) (semi : tk) (w2 : list tk) (d : stdecl).
  Definition flat_tm (m : stmore) : list tk := match m with TmMore w1 semi w2 d => w1 ++ semi :: w2 ++ flat_td d end.
  Definition flat_tms (ms : list stmore) : list tk := concat (map flat_tm ms).
  Definition wf_tm (m : stmore) : Prop := match m with TmMore w1 semi w2 d => all_triv w1 /\ cl semi = CSemi /\ all_triv w2 /\ wf_td d end.
  Definition erase_tm (m : stmore) : tdecl := match m with TmMore _ _ _ d => erase_td d end.
  Fixpoint size_tms (ms : list stmore) : nat := match ms with [] => 0 | TmMore _ _ _ d :: r => size_td d + 1 + size_tms r end.

  Inductive stdecls := TsNone (w : list tk) (semi : tk) | TsSome (d : stdecl) (ms : list stmore) (w : list tk) (semi : tk).
  Definition flat_ts (l : stdecls) : list tk :=
    match l with TsNone w semi => w ++ [semi] | TsSome d ms w semi => flat_td d ++ flat_tms ms ++ w ++ [semi] end.
  Definition erase_ts (l : stdecls) : list tdecl := match l with TsNone _ _ => [] | TsSome d ms _ _ => erase_td d :: map erase_tm ms end.
  Definition wf_ts (l : stdecls) : Prop :=
    match l with
    | TsNone w semi => w = [] /\ cl semi = CSemi
    | TsSome d ms w semi => wf_td d /\ Forall wf_tm ms /\ all_triv w /\ cl semi = CSemi
    end.
  Definition size_ts (l : stdecls) : nat := match l with TsNone _ _ => 1 | TsSome d ms _ _ => size_td d + 1 + size_tms ms + 1 end.

  (* the end of the block: trivia and END_TYPE *)
  Definition endtype_follow (rest : list tk) : Prop := exists w e r, rest = w ++ e :: r /\ all_triv w /\ cl e = CDk DkEndType.

  Lemma tms_follow ms w semi r : Forall wf_tm ms -> all_triv w -> cl semi = CSemi -> semi_follow (flat_tms ms ++ w ++ semi :: r).
  Proof.
    intros Hms Hw Hsemi. destruct ms as [|[mw1 msemi mw2 md] ms'].
    - exists w, semi, r. cbn. repeat split; assumption.
    - apply Forall_inv in Hms. destruct Hms as (H1 & H2 & _). eexists mw1, msemi, _. unfold flat_tms. cbn [map concat flat_tm].
      rewrite <- !app_assoc. cbn [app]. split; [reflexivity|]. split; assumption.
  Qed.

  Lemma tdecls_more_at ms : Forall wf_tm ms -> forall acc w semi rest f, all_triv w -> cl semi = CSemi -> endtype_follow rest ->
    size_tms ms + 1 <= f ->
    tdecls_more f acc (flat_tms ms ++ w ++ semi :: rest) = DOk (acc ++ map erase_tm ms, w ++ semi :: rest).
  Proof.
    induction ms as [|[mw1 msemi mw2 md] ms IH]; intros Hms acc w semi rest f Hw Hsemi Hrest Hf.
    - destruct f as [|f]; [lia|]. cbn [flat_tms map concat app DeclParser.tdecls_more].
      assert (Hss : solid semi) by (unfold StExprProofs.solid; rewrite Hsemi; discriminate).
      rewrite (next_is_at tk cl _ w semi rest Hw Hss) by (rewrite Hsemi; reflexivity).
      destruct Hrest as (ew & e & er & -> & Hew & He).
      assert (Hse : solid e) by (unfold StExprProofs.solid; rewrite He; discriminate).
      rewrite (skip_app_triv tk cl ew _ Hew), (skip_solid tk cl e er Hse).
      rewrite type_decl_fails by (rewrite He; discriminate). rewrite app_nil_r. reflexivity.
    - cbn [size_tms] in Hf. destruct f as [|f]; [lia|].
      pose proof (Forall_inv Hms) as (H1 & H2 & H3 & H4). pose proof (Forall_inv_tail Hms) as Hms'.
      unfold flat_tms. cbn [map concat flat_tm erase_tm]. fold (flat_tms ms).
      replace (((mw1 ++ msemi :: mw2 ++ flat_td md) ++ flat_tms ms) ++ w ++ semi :: rest)
        with (mw1 ++ msemi :: mw2 ++ flat_td md ++ flat_tms ms ++ w ++ semi :: rest)
        by (repeat (rewrite <- app_assoc; cbn [app]); reflexivity).
      cbn [DeclParser.tdecls_more].
      assert (Hss : solid msemi) by (unfold StExprProofs.solid; rewrite H2; discriminate).
      rewrite (next_is_at tk cl _ mw1 msemi _ H1 Hss) by (rewrite H2; reflexivity).
      rewrite (skip_app_triv tk cl mw2 _ H3).
      destruct (flat_td_head md (flat_tms ms ++ w ++ semi :: rest) H4) as (t0 & r0 & E & St0 & _).
      rewrite E, (skip_solid tk cl t0 r0 St0), <- E.
      rewrite (type_decl_at md _ f H4 (tms_follow ms w semi rest Hms' Hw Hsemi)) by lia.
      rewrite (IH Hms' (acc ++ [erase_td md]) w semi rest f Hw Hsemi Hrest) by lia.
      rewrite <- app_assoc. reflexivity.
  Qed.

  Lemma tsemisep_at l rest f : wf_ts l -> endtype_follow rest -> size_ts l <= f ->
    tsemisep f (flat_ts l ++ rest) = DOk (erase_ts l, rest).
  Proof.
    intros Hl Hrest Hf. destruct l as [w semi|d ms w semi]; cbn [wf_ts flat_ts erase_ts size_ts] in *.
    - destruct Hl as (-> & Hsemi). cbn [app]. unfold DeclParser.tsemisep.
      rewrite type_decl_fails by (rewrite Hsemi; discriminate).
      assert (Hss : solid semi) by (unfold StExprProofs.solid; rewrite Hsemi; discriminate).
      rewrite (next_is_at tk cl _ [] semi rest (Forall_nil _) Hss) by (rewrite Hsemi; reflexivity). reflexivity.
    - destruct Hl as (Hd & Hms & Hw & Hsemi). unfold DeclParser.tsemisep.
      replace ((flat_td d ++ flat_tms ms ++ w ++ [semi]) ++ rest) with (flat_td d ++ flat_tms ms ++ w ++ semi :: rest)
        by (repeat (rewrite <- app_assoc; cbn [app]); reflexivity).
      rewrite (type_decl_at d _ f Hd (tms_follow ms w semi rest Hms Hw Hsemi)) by lia.
      rewrite (tdecls_more_at ms Hms [erase_td d] w semi rest f Hw Hsemi Hrest) by lia.
      assert (Hss : solid semi) by (unfold StExprProofs.solid; rewrite Hsemi; discriminate).
      rewrite (next_is_at tk cl _ w semi rest Hw Hss) by (rewrite Hsemi; reflexivity). reflexivity.
  Qed.

  (* ---- the block ---- *)
  Record stblock := mkTBlock { tb_kw : tk; tb_w : list tk; tb_ds : stdecls; tb_wend : list tk; tb_end : tk }.
  Definition flat_tb (b : stblock) : list tk := tb_kw b :: tb_w b ++ flat_ts (tb_ds b) ++ tb_wend b ++ [tb_end b].
  Definition wf_tb (b : stblock) : Prop :=
    cl (tb_kw b) = CDk DkType /\ all_triv (tb_w b) /\ wf_ts (tb_ds b) /\ all_triv (tb_wend b) /\ cl (tb_end b) = CDk DkEndType.
  Definition erase_tb (b : stblock) : list tdecl := erase_ts (tb_ds b).
  Definition size_tb (b : stblock) : nat := size_ts (tb_ds b).

  Lemma flat_ts_head l r : wf_ts l -> exists t r', flat_ts l ++ r = t :: r' /\ solid t.
  Proof.
    destruct l as [w semi|d ms w semi]; cbn [wf_ts flat_ts].
    - intros (-> & Hsemi). cbn [app]. eexists semi, _. split; [reflexivity|]. unfold StExprProofs.solid. rewrite Hsemi. discriminate.
    - intros (Hd & _). rewrite <- !app_assoc.
      match goal with |- exists t r', flat_td d ++ ?X = _ /\ _ => destruct (flat_td_head d X Hd) as (t & r' & E & St & _) end.
      exists t, r'. split; assumption.
  Qed.

  Theorem type_block_at b rest f : wf_tb b -> size_tb b <= f -> type_block f (flat_tb b ++ rest) = DOk (erase_tb b, rest).
  Proof.
    intros (Hk & Hw & Hl & Hwend & He) Hf. unfold size_tb in Hf. destruct b as [kw w l wend e]. cbn [tb_kw tb_w tb_ds tb_wend tb_end] in *.
    unfold flat_tb, erase_tb. cbn [tb_kw tb_w tb_ds tb_wend tb_end app]. unfold DeclParser.type_block. rewrite Hk. cbn [is_dk].
    replace ((w ++ flat_ts l ++ wend ++ [e]) ++ rest) with (w ++ flat_ts l ++ wend ++ e :: rest)
      by (repeat (rewrite <- app_assoc; cbn [app]); reflexivity).
    rewrite (skip_app_triv tk cl w _ Hw).
    destruct (flat_ts_head l (wend ++ e :: rest) Hl) as (t0 & r0 & E & St0). rewrite E, (skip_solid tk cl t0 r0 St0), <- E.
    rewrite (tsemisep_at l (wend ++ e :: rest) f Hl) by (try assumption; exists wend, e, rest; auto).
    assert (Hse : solid e) by (unfold StExprProofs.solid; rewrite He; discriminate).
    rewrite (next_is_at tk cl _ wend e rest Hwend Hse) by (rewrite He; reflexivity). reflexivity.
  Qed.

  Lemma type_block_fails f t r : is_dk DkType (cl t) = false -> type_block f (t :: r) = DFail.
  Proof. intro H. unfold DeclParser.type_block. rewrite H. reflexivity. Qed.

  (* ---- size and scope ---- *)
  Lemma rms_len ms : length ms <= length (flat_rms ms).
  Proof.
    induction ms as [|[w1 comma w2 r] ms IH]; [apply Nat.le_refl|]. unfold flat_rms. cbn [map concat flat_rm]. fold (flat_rms ms).
    rewrite !app_length. cbn [length]. lia.
  Qed.

  Lemma size_td_len d : size_td d + 2 <= length (flat_td d).
  Proof.
    destruct d; cbn [size_td flat_td]; repeat (rewrite app_length || cbn [length]); try lia.
    - destruct rs as [|r ms]; cbn [size_rs flat_rs]; repeat (rewrite app_length || cbn [length]); [lia|]. pose proof (rms_len ms). lia.
    - unfold DeclProofs.flat_ns. cbn [length]. pose proof (DeclProofs.nms_len tk (nm_more tk vs)). lia.
  Qed.

  Lemma size_tms_len ms : size_tms ms <= length (flat_tms ms).
  Proof.
    induction ms as [|[w1 semi w2 d] ms IH]; [apply Nat.le_refl|]. unfold flat_tms. cbn [map concat flat_tm size_tms]. fold (flat_tms ms).
    repeat (rewrite app_length || cbn [length]). pose proof (size_td_len d). lia.
  Qed.

  Lemma size_tb_len b : size_tb b + 1 <= length (flat_tb b).
  Proof.
    unfold size_tb, flat_tb. destruct (tb_ds b) as [w semi|d ms w semi]; cbn [size_ts flat_ts]; repeat (rewrite app_length || cbn [length]); [lia|].
    pose proof (size_td_len d). pose proof (size_tms_len ms). lia.
  Qed.

  Notation scoped := (scoped tk cl).
  Notation scoped2 := (DeclProofs.scoped2 tk cl).
  Ltac sc :=
    repeat first
      [ assumption
      | apply scoped_nil
      | apply scoped_triv; assumption
      | apply scoped_app
      | apply scoped_cons; [eapply ok_of_class; [eassumption | reflexivity] | ] ].

  Lemma scoped_r r : wf_r r -> scoped (flat_r r).
  Proof.
    destruct r as [lo w1 dots w2 hi]. cbn [wf_r flat_r]. intros (H1 & H2 & H3 & H4 & H5).
    pose proof (scoped_int tk cl lo H1). pose proof (scoped_int tk cl hi H5). sc.
  Qed.

  Lemma scoped_rms ms : Forall wf_rm ms -> scoped (flat_rms ms).
  Proof.
    induction 1 as [|[w1 comma w2 r] ms (H1 & H2 & H3 & H4) _ IH]; [apply scoped_nil|].
    unfold flat_rms. cbn [map concat flat_rm]. fold (flat_rms ms). pose proof (scoped_r r H4). sc.
  Qed.

  Lemma scoped_rs x : wf_rs x -> scoped (flat_rs x).
  Proof.
    destruct x as [|r ms]; cbn [wf_rs flat_rs]; [intros _; apply scoped_nil|]. intros (Hr & Hms).
    pose proof (scoped_r r Hr). pose proof (scoped_rms ms Hms). sc.
  Qed.

  (* a declaration is scoped up to a trailing type name (BOOL as a type must not be followed by '#') *)
  Lemma scoped2_td d : wf_td d -> scoped2 (flat_td d).
  Proof.
    destruct d as [n w1 colon w2 arr w3 lb w4 rs w5 rb w6 o w7 t|n w1 colon w2 t w3 lp w4 r w5 rp d|n w1 colon w2 lp w3 vs w4 rp d
                  |n w1 colon w2 b w3 a w4 v|n w1 colon w2 t w3 a w4 c|n w1 colon w2 b]; cbn [wf_td flat_td].
    - intros (Hn & Hw1 & Hc & Hw2 & Harr & Hw3 & Hlb & Hw4 & Hrs & Hw5 & Hrb & Hw6 & Ho & Hw7 & Ht).
      pose proof (scoped_rs rs Hrs).
      replace (n :: w1 ++ colon :: w2 ++ arr :: w3 ++ lb :: w4 ++ flat_rs rs ++ w5 ++ rb :: w6 ++ o :: w7 ++ [t])
        with ((n :: w1 ++ colon :: w2 ++ arr :: w3 ++ lb :: w4 ++ flat_rs rs ++ w5 ++ rb :: w6 ++ o :: w7) ++ [t])
        by (cbn [app]; repeat (rewrite <- app_assoc; cbn [app]); reflexivity).
      apply DeclProofs.scoped_scoped2_app; [sc | apply DeclProofs.scoped2_tyref; exact Ht].
    - intros (Hn & Hw1 & Hc & Hw2 & Ht & Hi & Hw3 & Hlp & Hw4 & Hr & Hw5 & Hrp & Hdf). apply DeclProofs.scoped_2.
      pose proof (scoped_r r Hr).
      assert (Sd : scoped (flat_df flat_int d)).
      { destruct d as [|dw1 da dw2 di]; cbn [flat_df wf_df] in *; [apply scoped_nil|]. destruct Hdf as (D1 & D2 & D3 & D4).
        pose proof (scoped_int tk cl di D4). sc. }
      (* the type keyword is followed by trivia or '(' , never by '#' *)
      apply scoped_cons; [rewrite Hn; reflexivity|]. apply scoped_app; [sc|]. apply scoped_cons; [rewrite Hc; reflexivity|].
      apply scoped_app; [sc|].
      change (t :: w3 ++ lp :: w4 ++ flat_r r ++ w5 ++ rp :: flat_df flat_int d) with ([t] ++ (w3 ++ lp :: w4 ++ flat_r r ++ w5 ++ rp :: flat_df flat_int d)).
      apply DeclProofs.scoped2_then; [apply DeclProofs.scoped2_type; exact Ht | sc | destruct w3; discriminate|].
      destruct w3 as [|x w3]; cbn [app DeclProofs.hfh]; [rewrite Hlp; discriminate | rewrite (Forall_inv Hw3); discriminate].
    - intros (Hn & Hw1 & Hc & Hw2 & Hlp & Hw3 & Hvs & Hw4 & Hrp & Hdf). apply DeclProofs.scoped_2.
      pose proof (DeclProofs.scoped_ns tk cl vs Hvs).
      assert (Sd : scoped (flat_df (fun v => [v]) d)).
      { destruct d as [|dw1 da dw2 dv]; cbn [flat_df wf_df] in *; [apply scoped_nil|]. destruct Hdf as (D1 & D2 & D3 & D4). sc. }
      sc.
    - intros (Hn & Hw1 & Hc & Hw2 & Hb & Hw3 & Ha & Hw4 & Hv). apply DeclProofs.scoped_2. sc.
    - intros (Hn & Hw1 & Hc & Hw2 & Ht & Hw3 & Ha & Hw4 & Hcn). apply DeclProofs.scoped_2.
      pose proof (DeclProofs.scoped_c tk cl txt num c Hcn).
      apply scoped_cons; [rewrite Hn; reflexivity|]. apply scoped_app; [sc|]. apply scoped_cons; [rewrite Hc; reflexivity|].
      apply scoped_app; [sc|].
      change (t :: w3 ++ a :: w4 ++ flat_c c) with ([t] ++ (w3 ++ a :: w4 ++ flat_c c)).
      destruct (DeclProofs.tail_hfh tk cl w3 a (w4 ++ flat_c c) Hw3 Ha) as (Hh & Hne).
      apply DeclProofs.scoped2_then; [apply DeclProofs.scoped2_tyref; exact Ht | sc | exact Hne | exact Hh].
    - intros (Hn & Hw1 & Hc & Hw2 & Hb). apply DeclProofs.scoped_2. sc.
  Qed.

  Lemma scoped_tms ms : Forall wf_tm ms -> forall w semi, all_triv w -> cl semi = CSemi -> scoped (flat_tms ms ++ w ++ [semi]).
  Proof.
    induction 1 as [|[mw1 msemi mw2 md] ms (H1 & H2 & H3 & H4) Hms IH]; intros w semi Hw Hsemi.
    - cbn [flat_tms map concat app]. sc.
    - unfold flat_tms. cbn [map concat flat_tm]. fold (flat_tms ms). specialize (IH w semi Hw Hsemi).
      replace (((mw1 ++ msemi :: mw2 ++ flat_td md) ++ flat_tms ms) ++ w ++ [semi])
        with ((mw1 ++ msemi :: mw2) ++ (flat_td md ++ (flat_tms ms ++ w ++ [semi])))
        by (repeat (rewrite <- app_assoc; cbn [app]); reflexivity).
      apply scoped_app; [sc|].
      assert (T : DeclProofs.hfh tk cl (flat_tms ms ++ w ++ [semi]) /\ flat_tms ms ++ w ++ [semi] <> []).
      { destruct ms as [|[a1 a2 a3 a4] ms']; [apply DeclProofs.semi_tail; assumption|].
        pose proof (Forall_inv Hms) as (G1 & G2 & _).
        unfold flat_tms. cbn [map concat flat_tm]. rewrite <- !app_assoc. cbn [app]. apply DeclProofs.semi_tail; assumption. }
      destruct T as (Th & Tne). apply DeclProofs.scoped2_then; [apply scoped2_td; exact H4 | exact IH | exact Tne | exact Th].
  Qed.

  Lemma scoped_ts l : wf_ts l -> scoped (flat_ts l).
  Proof.
    destruct l as [w semi|d ms w semi]; cbn [wf_ts flat_ts].
    - intros (-> & H). cbn [app]. sc.
    - intros (Hd & Hms & Hw & Hsemi).
      assert (T : DeclProofs.hfh tk cl (flat_tms ms ++ w ++ [semi]) /\ flat_tms ms ++ w ++ [semi] <> []).
      { destruct ms as [|[a1 a2 a3 a4] ms']; [apply DeclProofs.semi_tail; assumption|].
        pose proof (Forall_inv Hms) as (G1 & G2 & _).
        unfold flat_tms. cbn [map concat flat_tm]. rewrite <- !app_assoc. cbn [app]. apply DeclProofs.semi_tail; assumption. }
      destruct T as (Th & Tne).
      apply DeclProofs.scoped2_then; [apply scoped2_td; exact Hd | apply scoped_tms; assumption | exact Tne | exact Th].
  Qed.

  Lemma scoped_tb b : wf_tb b -> scoped (flat_tb b).
  Proof.
    intros (Hk & Hw & Hl & Hwend & He). unfold flat_tb. pose proof (scoped_ts _ Hl). sc.
  Qed.
End G.
