(* C14: the decoders invert the encoders, for every text of scalar values; the cascade of
   source.rs returns the same text for the five storage forms. *)
From Coq Require Import List ZArith NArith Bool Lia ZifyBool ZifyN.
From Verif Require Import Base.Text Model.Decode.
Import ListNotations.
Open Scope N_scope.
Ltac Zify.zify_post_hook ::= Z.div_mod_to_equations.

Ltac bool_true H := let E := fresh "E" in assert (E : H = true) by lia; rewrite E; clear E.
Ltac bool_false H := let E := fresh "E" in assert (E : H = false) by lia; rewrite E; clear E.

Lemma scalar_range c : scalar c = true -> c < 55296 \/ (57343 < c /\ c < 1114112).
Proof. unfold scalar. lia. Qed.

(* ---- UTF-8 ---- *)
Lemma dec8_enc8_char c rest :
  scalar c = true -> dec8 (enc8_char c ++ rest) = option_map (cons c) (dec8 rest).
Proof.
  intro Hs. apply scalar_range in Hs. unfold enc8_char.
  destruct (N.ltb_spec c 128) as [H1|H1].
  { cbn [app dec8]. bool_true (c <? 128). reflexivity. }
  destruct (N.ltb_spec c 2048) as [H2|H2].
  { cbn [app dec8].
    bool_false (192 + c / 64 <? 128).
    bool_true ((194 <=? 192 + c / 64) && (192 + c / 64 <=? 223)).
    unfold cont. bool_true ((128 <=? 128 + c mod 64) && (128 + c mod 64 <=? 191)).
    replace ((192 + c / 64 - 192) * 64 + (128 + c mod 64 - 128)) with c by lia. reflexivity. }
  destruct (N.ltb_spec c 65536) as [H3|H3].
  { cbn [app dec8].
    bool_false (224 + c / 4096 <? 128).
    bool_false ((194 <=? 224 + c / 4096) && (224 + c / 4096 <=? 223)).
    bool_true ((224 <=? 224 + c / 4096) && (224 + c / 4096 <=? 239)).
    assert (E : (((if 224 + c / 4096 =? 224 then 160 else 128) <=? 128 + (c / 64) mod 64)
                 && (128 + (c / 64) mod 64 <=? (if 224 + c / 4096 =? 237 then 159 else 191))
                 && cont (128 + c mod 64)) = true).
    { unfold cont. destruct (N.eqb_spec (224 + c / 4096) 224); destruct (N.eqb_spec (224 + c / 4096) 237); lia. }
    rewrite E; clear E.
    replace ((224 + c / 4096 - 224) * 4096 + (128 + (c / 64) mod 64 - 128) * 64 + (128 + c mod 64 - 128))
      with c by lia.
    reflexivity. }
  cbn [app dec8].
  bool_false (240 + c / 262144 <? 128).
  bool_false ((194 <=? 240 + c / 262144) && (240 + c / 262144 <=? 223)).
  bool_false ((224 <=? 240 + c / 262144) && (240 + c / 262144 <=? 239)).
  bool_true ((240 <=? 240 + c / 262144) && (240 + c / 262144 <=? 244)).
  assert (E : (((if 240 + c / 262144 =? 240 then 144 else 128) <=? 128 + (c / 4096) mod 64)
               && (128 + (c / 4096) mod 64 <=? (if 240 + c / 262144 =? 244 then 143 else 191))
               && cont (128 + (c / 64) mod 64) && cont (128 + c mod 64)) = true).
  { unfold cont. destruct (N.eqb_spec (240 + c / 262144) 240); destruct (N.eqb_spec (240 + c / 262144) 244); lia. }
  rewrite E; clear E.
  replace ((240 + c / 262144 - 240) * 262144 + (128 + (c / 4096) mod 64 - 128) * 4096
           + (128 + (c / 64) mod 64 - 128) * 64 + (128 + c mod 64 - 128)) with c by lia.
  reflexivity.
Qed.

Theorem dec8_enc8 t : forallb scalar t = true -> dec8 (enc8 t) = Some t.
Proof.
  induction t as [|c r IH]; intro H; [reflexivity|].
  cbn [forallb] in H. apply andb_true_iff in H as [Hc Hr].
  unfold enc8. cbn [flat_map]. rewrite dec8_enc8_char by exact Hc.
  fold (enc8 r). rewrite IH by exact Hr. reflexivity.
Qed.

(* every encoded byte is a byte, and a UTF-8 text never starts like a UTF-16 byte order mark *)
Lemma enc8_char_bytes c : scalar c = true -> Forall (fun b => b < 256) (enc8_char c).
Proof.
  intro Hs. apply scalar_range in Hs. unfold enc8_char.
  destruct (N.ltb_spec c 128); [repeat constructor; lia|].
  destruct (N.ltb_spec c 2048); [repeat constructor; lia|].
  destruct (N.ltb_spec c 65536); repeat constructor; lia.
Qed.

Lemma enc8_first_byte c : scalar c = true ->
  exists b r, enc8_char c = b :: r /\ b < 245 /\ (b = 239 -> 61440 <= c /\ c < 65536).
Proof.
  intro Hs. apply scalar_range in Hs. unfold enc8_char.
  destruct (N.ltb_spec c 128); [eexists; eexists; split; [reflexivity|]; lia|].
  destruct (N.ltb_spec c 2048); [eexists; eexists; split; [reflexivity|]; lia|].
  destruct (N.ltb_spec c 65536); eexists; eexists; (split; [reflexivity|]); lia.
Qed.

Lemma sniff_enc8 t : forallb scalar t = true -> hd_error t <> Some 65279 -> sniff (enc8 t) = None.
Proof.
  destruct t as [|c r]; intros H Hh; [reflexivity|].
  cbn [forallb] in H. apply andb_true_iff in H as [Hc _].
  assert (Hne : c <> 65279) by (intro E; apply Hh; cbn; congruence).
  apply scalar_range in Hc. unfold enc8. cbn [flat_map]. unfold enc8_char.
  destruct (N.ltb_spec c 128) as [H1|H1].
  { cbn [app]. unfold sniff.
    destruct c as [|p]; [reflexivity|].
    do 8 (destruct p as [p|p|]; try reflexivity); lia. }
  destruct (N.ltb_spec c 2048) as [H2|H2].
  { cbn [app]. remember (192 + c / 64) as b0 eqn:Eb. assert (Hb : 194 <= b0 <= 223) by lia.
    unfold sniff. destruct b0 as [|p]; [reflexivity|].
    do 8 (destruct p as [p|p|]; try reflexivity); lia. }
  destruct (N.ltb_spec c 65536) as [H3|H3].
  { cbn [app]. remember (224 + c / 4096) as b0 eqn:Eb.
    remember (128 + (c / 64) mod 64) as b1 eqn:Eb1. remember (128 + c mod 64) as b2 eqn:Eb2.
    destruct (N.eq_dec b0 239) as [E0|N0].
    - destruct (N.eq_dec b1 187) as [E1|N1].
      + destruct (N.eq_dec b2 191) as [E2|N2]; [exfalso; lia|].
        subst b0 b1. rewrite E0, E1. unfold sniff.
        destruct b2 as [|p]; [reflexivity|].
        do 8 (destruct p as [p|p|]; try reflexivity); congruence.
      + rewrite E0. unfold sniff.
        destruct b1 as [|p]; [reflexivity|].
        do 8 (destruct p as [p|p|]; try reflexivity); congruence.
    - assert (Hb : 224 <= b0 <= 239) by lia. unfold sniff.
      destruct b0 as [|p]; [reflexivity|].
      do 8 (destruct p as [p|p|]; try reflexivity); try lia; congruence. }
  cbn [app]. remember (240 + c / 262144) as b0 eqn:Eb. assert (Hb : 240 <= b0 <= 244) by lia.
  unfold sniff. destruct b0 as [|p]; [reflexivity|].
  do 8 (destruct p as [p|p|]; try reflexivity); lia.
Qed.

(* ---- UTF-16 ---- *)
Lemma dec16_enc16_char be c rest :
  scalar c = true -> dec16 be (enc16_char be c ++ rest) = option_map (cons c) (dec16 be rest).
Proof.
  intro Hs. apply scalar_range in Hs. unfold enc16_char.
  destruct (N.ltb_spec c 65536) as [H1|H1].
  { unfold enc16_unit. destruct be; cbn [app dec16 unit16].
    - replace (c / 256 * 256 + c mod 256) with c by lia.
      bool_true ((c <? 55296) || (57343 <? c)). reflexivity.
    - replace (c / 256 * 256 + c mod 256) with c by lia.
      bool_true ((c <? 55296) || (57343 <? c)). reflexivity. }
  set (hi := 55296 + (c - 65536) / 1024). set (lo := 56320 + (c - 65536) mod 1024).
  assert (Hhi : 55296 <= hi < 56320) by (unfold hi; lia).
  assert (Hlo : 56320 <= lo <= 57343) by (unfold lo; lia).
  assert (Hc : 65536 + (hi - 55296) * 1024 + (lo - 56320) = c) by (unfold hi, lo; lia).
  unfold enc16_unit. destruct be; cbn [app dec16 unit16].
  - replace (hi / 256 * 256 + hi mod 256) with hi by lia.
    replace (lo / 256 * 256 + lo mod 256) with lo by lia.
    bool_false ((hi <? 55296) || (57343 <? hi)). bool_true (hi <? 56320).
    bool_true ((56320 <=? lo) && (lo <=? 57343)). rewrite Hc. reflexivity.
  - replace (hi / 256 * 256 + hi mod 256) with hi by lia.
    replace (lo / 256 * 256 + lo mod 256) with lo by lia.
    bool_false ((hi <? 55296) || (57343 <? hi)). bool_true (hi <? 56320).
    bool_true ((56320 <=? lo) && (lo <=? 57343)). rewrite Hc. reflexivity.
Qed.

Theorem dec16_enc16 be t : forallb scalar t = true -> dec16 be (enc16 be t) = Some t.
Proof.
  induction t as [|c r IH]; intro H; [reflexivity|].
  cbn [forallb] in H. apply andb_true_iff in H as [Hc Hr].
  unfold enc16. cbn [flat_map]. rewrite dec16_enc16_char by exact Hc.
  fold (enc16 be r). rewrite IH by exact Hr. reflexivity.
Qed.

(* ---- Windows-1252 ---- *)
Lemma index_of_nth c l : forall i j, index_of c l i = Some j ->
  i <= j /\ (N.to_nat (j - i) < List.length l)%nat /\ forall d, nth (N.to_nat (j - i)) l d = c.
Proof.
  induction l as [|x r IH]; intros i j H; cbn [index_of] in H; [discriminate|].
  destruct (N.eqb_spec x c) as [E|NE].
  - inversion H; subst. replace (j - j) with 0 by lia. cbn. repeat split; try lia. 
  - apply IH in H as (H1 & H2 & H3). repeat split; try lia.
    + cbn [List.length]. lia.
    + intro d. replace (N.to_nat (j - i)) with (S (N.to_nat (j - (i + 1)))) by lia. cbn [nth]. apply H3.
Qed.

Lemma dec1252_enc1252_char c b : enc1252_char c = Some b -> dec1252_byte b = c /\ b < 256.
Proof.
  unfold enc1252_char, dec1252_byte.
  destruct (N.ltb_spec c 128) as [H1|H1].
  { intro H; inversion H; subst. bool_false ((128 <=? b) && (b <? 160)). split; [reflexivity|lia]. }
  destruct ((160 <=? c) && (c <? 256)) eqn:E2.
  { intro H; inversion H; subst. bool_false ((128 <=? b) && (b <? 160)). split; [reflexivity|lia]. }
  intro H. apply index_of_nth in H as (Ha & Hb & Hc). cbn [List.length table_1252] in Hb.
  bool_true ((128 <=? b) && (b <? 160)). split; [apply Hc | lia].
Qed.

Theorem dec1252_enc1252 t : forall bs, enc1252 t = Some bs -> dec1252 bs = t /\ Forall (fun b => b < 256) bs.
Proof.
  induction t as [|c r IH]; intros bs H; cbn [enc1252] in H.
  - inversion H; subst. split; [reflexivity | constructor].
  - destruct (enc1252_char c) as [b|] eqn:Ec; [|discriminate].
    destruct (enc1252 r) as [bs'|] eqn:Er; [|discriminate].
    inversion H; subst. apply dec1252_enc1252_char in Ec as [Ec Hb]. destruct (IH _ eq_refl) as [IH1 IH2].
    split; [cbn [dec1252 map]; fold (dec1252 bs'); congruence | constructor; assumption].
Qed.

(* ---- the cascade ---- *)
Definition decoders_expected : list enc := [E8; E1252].

Theorem cascade_utf8 t : forallb scalar t = true -> hd_error t <> Some 65279 ->
  cascade decoders_expected (enc8 t) = Some t.
Proof.
  intros Hs Hh. cbn [cascade decoders_expected]. unfold decode_as.
  rewrite sniff_enc8 by assumption. cbn [dec_with]. rewrite dec8_enc8 by exact Hs. reflexivity.
Qed.

Theorem cascade_utf8_bom t : forallb scalar t = true ->
  cascade decoders_expected (239 :: 187 :: 191 :: enc8 t) = Some t.
Proof.
  intros Hs. cbn [cascade decoders_expected]. unfold decode_as. cbn [sniff dec_with].
  rewrite dec8_enc8 by exact Hs. reflexivity.
Qed.

Theorem cascade_utf16le_bom t : forallb scalar t = true ->
  cascade decoders_expected (255 :: 254 :: enc16 false t) = Some t.
Proof.
  intros Hs. cbn [cascade decoders_expected]. unfold decode_as. cbn [sniff dec_with].
  rewrite dec16_enc16 by exact Hs. reflexivity.
Qed.

Theorem cascade_utf16be_bom t : forallb scalar t = true ->
  cascade decoders_expected (254 :: 255 :: enc16 true t) = Some t.
Proof.
  intros Hs. cbn [cascade decoders_expected]. unfold decode_as. cbn [sniff dec_with].
  rewrite dec16_enc16 by exact Hs. reflexivity.
Qed.

(* Windows-1252: exactly when the bytes are not also a valid UTF-8 text and do not start like a
   byte order mark (both guards are necessary: the UTF-8 reading wins, and a mark is always obeyed) *)
Theorem cascade_1252 t bs : enc1252 t = Some bs -> sniff bs = None -> dec8 bs = None ->
  cascade decoders_expected bs = Some t.
Proof.
  intros He Hs Hd. cbn [cascade decoders_expected]. unfold decode_as. rewrite Hs. cbn [dec_with].
  rewrite Hd. apply dec1252_enc1252 in He as [He _]. rewrite He. reflexivity.
Qed.

(* without a byte order mark the cascade never fails (Windows-1252 is total) *)
Theorem cascade_total_without_bom bs : sniff bs = None -> cascade decoders_expected bs <> None.
Proof.
  intro Hs. cbn [cascade decoders_expected]. unfold decode_as. rewrite Hs. cbn [dec_with].
  destruct (dec8 bs); discriminate.
Qed.
