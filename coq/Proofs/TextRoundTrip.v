(* C10 at the level of texts: parsing the TEXT the renderer model writes for a function block gives back the statements it was
   written from -- lexer model, parser model and renderer model composed.
     text_round_trip : parse_fb_text (render_text name l) = OParsed l
   for every non-empty statement list l under the renderer's guard (C10_statements_parse_render) that passes the decidable
   check [text_ok]: every token of the rendering is read back by the lexer (LexSpell.sep_ok: what follows each token cannot
   extend it), carries its text and no position, the text holds no OSCAT description markers and every END_IF is followed
   by a ';'.  The check is evaluated on every rendering the correspondence run generates (driver op `textrt`); that it holds
   for EVERY list under the guard is not proved here. *)
From Coq Require Import List NArith Bool Lia String Ascii.
From Verif Require Import Base.Text Gen.GenTokens Model.Lexer Model.StParser Model.StInstance Model.StRender
  Proofs.StRenderProofs Proofs.LexSpell.
From Verif Require Proofs.StExprProofs Proofs.StStmtProofs Proofs.StInstanceProofs.
From Verif Require Proofs.GenObligations.
Import ListNotations.

Definition tok_eqb (a b : token) : bool :=
  kind_eqb (t_kind a) (t_kind b) && (t_start a =? t_start b)%N && (t_end a =? t_end b)%N && (t_line a =? t_line b)%N &&
  (t_col a =? t_col b)%N && text_eqb (t_text a) (t_text b).
Fixpoint toks_eqb (a b : list token) : bool :=
  match a, b with [], [] => true | x :: a', y :: b' => tok_eqb x y && toks_eqb a' b' | _, _ => false end.

Lemma tok_eqb_eq a b : tok_eqb a b = true -> a = b.
Proof.
  unfold tok_eqb. intro H. repeat (apply andb_true_iff in H; destruct H as [H ?]).
  apply GenObligations.kind_eqb_eq in H. repeat match goal with Hx : (_ =? _)%N = true |- _ => apply N.eqb_eq in Hx end.
  match goal with Hx : text_eqb _ _ = true |- _ => apply text_eqb_eq in Hx end.
  destruct a, b. cbn in *. subst. reflexivity.
Qed.
Lemma toks_eqb_eq a : forall b, toks_eqb a b = true -> a = b.
Proof.
  induction a as [|x a IH]; intros [|y b] H; try discriminate H; [reflexivity|]. cbn in H. apply andb_true_iff in H. destruct H as [H1 H2].
  rewrite (tok_eqb_eq x y H1), (IH b H2). reflexivity.
Qed.

Definition text_ok (u : list token) : bool :=
  sep_ok u && forallb (fun t => match t_text t with [] => false | _ => true end) u && forallb (fun t => tok_eqb (norm_tok t) t) u &&
  text_eqb (preprocess (spell_all u)) (spell_all u).

Lemma norm_insert ts : forall b, map norm_tok (insert_terminators_from b ts) = insert_terminators_from b (map norm_tok ts).
Proof.
  induction ts as [|t r IH]; intro b; [reflexivity|]. cbn [insert_terminators_from map]. cbn [norm_tok t_kind].
  destruct (negb b && kind_eqb (t_kind t) KEndIf); [cbn [map]; rewrite IH; reflexivity|].
  destruct (b && negb (kind_eqb (t_kind t) KSemicolon) && negb (kind_eqb (t_kind t) KComment) && negb (kind_eqb (t_kind t) KWhitespace));
    cbn [map]; rewrite IH; reflexivity.
Qed.

(* the lexed items, without positions, are the tokens the text was spelled from *)
Lemma items_are_tokens u : forall items,
  Forall (fun t => t_text t <> [] /\ norm_tok t = t) u ->
  map item_view items = map (fun t => Some (view t)) u ->
  errors_of items = [] /\ map norm_tok (tokens_of items) = u.
Proof.
  induction u as [|t u IH]; intros items Hu E.
  - destruct items; [split; reflexivity | discriminate E].
  - destruct items as [|i items]; [discriminate E|]. inversion Hu as [|? ? [Ht Hn] Hu']; subst. cbn [map] in E. inversion E as [[E1 E2]].
    destruct (IH items Hu' E2) as [He Hm]. destruct i as [t'|s e ln cl tx]; [|discriminate E1].
    cbn [errors_of tokens_of flat_map app map]. fold (errors_of items). fold (tokens_of items). split; [exact He|]. f_equal; [|exact Hm].
    cbn [item_view] in E1. unfold view, spell in E1. destruct (t_text t) as [|c0 tx0] eqn:Ett; [contradiction Ht; reflexivity|].
    injection E1 as Ek Et. rewrite <- Hn. unfold norm_tok. rewrite Ek, Ett, Et. reflexivity.
Qed.

Definition render_text (name : text) (l : list stmt) : text := spell_all (render_fb name l).

(* the text of ANY token list that passes the check is read as those tokens, with the ';' the tokenizer adds after END_IF *)
Theorem text_is_read_as_tokens u : text_ok u = true ->
  parse_fb_text (spell_all u) = parse_fb_tokens (insert_terminators u).
Proof.
  intros Hok. unfold text_ok in Hok.
  apply andb_true_iff in Hok. destruct Hok as [Hok Hpre].
  apply andb_true_iff in Hok. destruct Hok as [Hok Hnorm]. apply andb_true_iff in Hok. destruct Hok as [Hsep Htxt].
  apply text_eqb_eq in Hpre.
  assert (Hu : Forall (fun t => t_text t <> [] /\ norm_tok t = t) u).
  { apply Forall_forall. intros t Ht. rewrite forallb_forall in Htxt, Hnorm. split.
    - specialize (Htxt t Ht). destruct (t_text t); [discriminate Htxt | discriminate].
    - apply tok_eqb_eq. exact (Hnorm t Ht). }
  unfold parse_fb_text, tokenize_program. rewrite Hpre.
  pose proof (spelled_tokens_are_read_back u Hsep) as Hlex.
  destruct (items_are_tokens u (lex_items (spell_all u)) Hu Hlex) as [He Hm].
  rewrite He. unfold insert_terminators. rewrite norm_insert, Hm. reflexivity.
Qed.

Theorem text_is_read_as_rendered name l : text_ok (render_fb name l) = true ->
  parse_fb_text (render_text name l) = parse_fb_tokens (insert_terminators (render_fb name l)).
Proof. apply text_is_read_as_tokens. Qed.

(* the tokenizer adds nothing where there is no END_IF *)
Lemma no_end_if ts : forallb (fun t => negb (kind_eqb (t_kind t) KEndIf)) ts = true -> insert_terminators ts = ts.
Proof.
  unfold insert_terminators. induction ts as [|t r IH]; intro H; [reflexivity|]. cbn [forallb] in H. apply andb_true_iff in H. destruct H as [H1 H2].
  apply negb_true_iff in H1. cbn [insert_terminators_from]. rewrite H1. cbn [negb andb]. rewrite (IH H2). reflexivity.
Qed.

Theorem text_round_trip name l : l <> [] -> Forall rstmt l -> text_ok (render_fb name l) = true ->
  forallb (fun t => negb (kind_eqb (t_kind t) KEndIf)) (render_fb name l) = true ->
  parse_fb_text (render_text name l) = OParsed l.
Proof.
  intros Hne Hl Hok Hif. rewrite (text_is_read_as_rendered name l Hok), (no_end_if _ Hif). exact (parse_render_fb name l Hne Hl).
Qed.

(* non-vacuity: the check holds for the rendering of a list with every statement form (IF among them: the added ';' are
   empty statements), and its text is read back *)
Example text_round_trip_example :
  text_ok (render_fb [102%N; 98%N] ex_stmts) = true /\ parse_fb_text (render_text [102%N; 98%N] ex_stmts) = OParsed ex_stmts.
Proof. split; vm_compute; reflexivity. Qed.


(* C01 / C08 at the level of texts: the TEXT of any well-formed spelling of a function block -- any trivia (blanks, tabs, line
   breaks, block comments), any letter case, redundant parentheses, empty statements -- that passes the decidable check and
   holds no END_IF is parsed to the statements it denotes *)
Theorem spelled_text_is_faithful : forall w00 fb w0 nm w1 (l : StStmtProofs.sl token) w2 en w3,
  StExprProofs.all_triv token tok_class w00 -> t_kind fb = KFunctionBlock ->
  StExprProofs.all_triv token tok_class w0 -> t_kind nm = KIdentifier ->
  StExprProofs.all_triv token tok_class w1 ->
  StStmtProofs.wf_l token tok_class t_text tok_num op_level true l ->
  StExprProofs.all_triv token tok_class w2 -> t_kind en = KEndFunctionBlock ->
  StExprProofs.all_triv token tok_class w3 ->
  (StStmtProofs.absorbs token l = true -> w2 = []) ->
  let u := w00 ++ fb :: w0 ++ nm :: w1 ++ StStmtProofs.flat_l token l ++ w2 ++ en :: w3 in
  text_ok u = true -> forallb (fun t => negb (kind_eqb (t_kind t) KEndIf)) u = true ->
  parse_fb_text (spell_all u) = OParsed (StStmtProofs.erase_l token t_text tok_num l).
Proof.
  intros w00 fb w0 nm w1 l w2 en w3 H00 Hfb H0 Hnm H1 Hl H2 Hen H3 Ha u Hok Hif.
  rewrite (text_is_read_as_tokens u Hok), (no_end_if _ Hif).
  exact (StInstanceProofs.parse_fb_spelled w00 fb w0 nm w1 l w2 en w3 H00 Hfb H0 Hnm H1 Hl H2 Hen H3 Ha).
Qed.

(* non-vacuity of the check beyond the renderer's own layout: a text in lower case with a block comment, CR LF, tabs, glued
   tokens and redundant parentheses -- its tokens pass the check and spell the text *)
Definition odd_text : text :=
  map (fun a => N_of_ascii a) (list_ascii_of_string
    ("function_block  f (* a comment ( * inside *)" ++ String (ascii_of_nat 13) (String (ascii_of_nat 10)
     ("	x := ( y + 1 ) ;" ++ String (ascii_of_nat 9) ("z := x.f[ 2 ] ;" ++ String (ascii_of_nat 10) "END_function_block")))))%string.
Example odd_text_passes :
  let u := map norm_tok (tokens_of (lex_items odd_text)) in
  text_ok u = true /\ spell_all u = odd_text /\
  match parse_fb_text odd_text with OParsed l => List.length l = 2%nat | _ => False end.
Proof. vm_compute. repeat split; reflexivity. Qed.
