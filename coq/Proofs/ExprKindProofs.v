(* The late-bound expression resolver (Model/ExprKind.v) unit by unit: running the stateful fold over a library is running it
   over every unit by itself -- the table is cleared when a unit is left and the target kind is reset when an assignment
   ends, so nothing a unit does reaches the next.  Hence the verdict does not depend on the order of the units (C06), a unit
   that fails makes the library fail in any company (C03), and the resolution of a name is decided by its own unit (C02). *)
From Coq Require Import List NArith Bool Permutation Lia.
From Verif Require Import Base.Text Model.ExprKind.
Import ListNotations.

Lemma erun_app s a b :
  erun s (a ++ b) = match erun s a with
                    | Some (s1, o1) => match erun s1 b with Some (s2, o2) => Some (s2, o1 ++ o2) | None => None end
                    | None => None
                    end.
Proof.
  revert s; induction a as [|f a IH]; intro s; cbn [app erun].
  - destruct (erun s b) as [[s2 o2]|]; reflexivity.
  - destruct (estep s f) as [[s1 o1]|]; [|reflexivity]. rewrite IH.
    destruct (erun s1 a) as [[s2 o2]|]; [|reflexivity]. destruct (erun s2 b) as [[s3 o3]|]; [|reflexivity]. rewrite app_assoc. reflexivity.
Qed.

Lemma lates_run s ls b : late_kind (e_cur s) = Some b -> erun s (map EfLate ls) = Some (s, map (res_of b) ls).
Proof.
  intro H. induction ls as [|n ls IH]; [reflexivity|]. cbn [map erun estep]. rewrite H. destruct b; rewrite IH; reflexivity.
Qed.

Lemma lates_fail s n ls : late_kind (e_cur s) = None -> erun s (map EfLate (n :: ls)) = None.
Proof. intro H. cbn [map erun estep]. rewrite H. reflexivity. Qed.

Lemma seg_run tbl g :
  erun (mkEState tbl VkNone) (flat_seg g) = option_map (fun o => (mkEState tbl VkNone, o)) (seg_res tbl g).
Proof.
  destruct g as [n|t ls]; cbn [flat_seg seg_res].
  - reflexivity.
  - destruct t as [|n| |]; cbn [erun estep e_tbl e_cur]; try reflexivity.
    + rewrite erun_app, (lates_run (mkEState tbl VkNone) ls false eq_refl). cbn [erun estep e_tbl option_map].
      rewrite app_nil_r. reflexivity.
    + rewrite erun_app. destruct ls as [|l ls].
      * cbn [map erun estep e_tbl option_map app]. reflexivity.
      * destruct (late_kind (find_kind tbl n)) as [b|] eqn:E.
        -- rewrite (lates_run (mkEState tbl (find_kind tbl n)) (l :: ls) b E). cbn [erun estep e_tbl option_map]. rewrite app_nil_r. reflexivity.
        -- rewrite (lates_fail (mkEState tbl (find_kind tbl n)) l ls E). reflexivity.
Qed.

Lemma segs_run tbl gs :
  erun (mkEState tbl VkNone) (flat_map flat_seg gs) = option_map (fun o => (mkEState tbl VkNone, o)) (segs_res tbl gs).
Proof.
  induction gs as [|g gs IH]; [reflexivity|]. cbn [flat_map segs_res]. rewrite erun_app, seg_run.
  destruct (seg_res tbl g) as [o1|]; cbn [option_map]; [|reflexivity]. rewrite IH. destruct (segs_res tbl gs); reflexivity.
Qed.

Lemma unit_run u : erun einit (flat_unit u) = option_map (fun o => (einit, o)) (unit_res u).
Proof.
  destruct u as [vars gs]. unfold flat_unit, unit_res. cbn [fst snd erun estep einit e_tbl e_cur].
  rewrite erun_app, segs_run. destruct (segs_res (insert_all [] vars) gs) as [o|]; cbn [option_map]; [|reflexivity].
  cbn [erun estep e_cur app]. rewrite app_nil_r. reflexivity.
Qed.

Lemma units_run us : erun einit (flat_map flat_unit us) = option_map (fun o => (einit, o)) (units_res us).
Proof.
  induction us as [|u us IH]; [reflexivity|]. cbn [flat_map units_res]. rewrite erun_app, unit_run.
  destruct (unit_res u) as [o1|]; cbn [option_map]; [|reflexivity]. rewrite IH. destruct (units_res us); reflexivity.
Qed.

(* the fold over the whole library is the resolution of every unit by itself *)
Theorem resolve_by_unit us : resolve_expr_kinds (flat_map flat_unit us) = units_res us.
Proof. unfold resolve_expr_kinds. rewrite units_run. destruct (units_res us); reflexivity. Qed.

Lemma units_res_none us : units_res us = None <-> exists u, In u us /\ unit_res u = None.
Proof.
  induction us as [|u us IH]; cbn [units_res].
  - split; [discriminate | intros (u & [] & _)].
  - destruct (unit_res u) as [o|] eqn:E.
    + destruct (units_res us) as [o2|] eqn:E2.
      * split; [discriminate|]. intros (v & [<- | Hv] & Hn); [congruence|].
        destruct IH as [_ IH2]. discriminate (IH2 (ex_intro _ v (conj Hv Hn))).
      * split; [|reflexivity]. intros _. destruct (proj1 IH eq_refl) as (v & Hv & Hn). exists v. split; [right; exact Hv | exact Hn].
    + split; [intros _; exists u; split; [left; reflexivity | exact E] | reflexivity].
Qed.

(* C03: a unit whose resolution fails makes the library fail, whatever accompanies it and wherever it stands *)
Theorem failing_unit_not_masked us u : In u us -> unit_res u = None -> resolve_expr_kinds (flat_map flat_unit us) = None.
Proof. intros Hin Hn. rewrite resolve_by_unit. apply units_res_none. exists u. split; assumption. Qed.

(* C06: the verdict is the same for every order of the units *)
Theorem verdict_perm us us' : Permutation us us' ->
  (resolve_expr_kinds (flat_map flat_unit us) = None <-> resolve_expr_kinds (flat_map flat_unit us') = None).
Proof.
  intro P. rewrite !resolve_by_unit, !units_res_none. split; intros (u & Hin & Hn); exists u; split; try exact Hn.
  - eapply Permutation_in; eassumption.
  - eapply Permutation_in; [apply Permutation_sym; eassumption | exact Hin].
Qed.

(* C02 / C06: when the library resolves, every unit's elements are resolved as in that unit alone, in the units' order *)
Theorem resolved_by_unit us o : resolve_expr_kinds (flat_map flat_unit us) = Some o ->
  exists os, Forall2 (fun u ou => unit_res u = Some ou) us os /\ o = concat os.
Proof.
  rewrite resolve_by_unit. revert o; induction us as [|u us IH]; intros o H; cbn [units_res] in H.
  - injection H as <-. exists []. split; [constructor | reflexivity].
  - destruct (unit_res u) as [o1|] eqn:E; [|discriminate]. destruct (units_res us) as [o2|]; [|discriminate]. injection H as <-.
    destruct (IH o2 eq_refl) as (os & F & ->). exists (o1 :: os). split; [constructor; assumption | reflexivity].
Qed.

(* what decides a name: outside assignments and in assignments to an address a variable; in an assignment to a named
   variable the kind of that variable's declaration in this unit (the last one of that name) *)
Theorem late_in_enum_assignment tbl n ls : find_kind tbl n = VkEnumType -> seg_res tbl (SAssign (AtNamed n) ls) = Some (map ErEnum ls).
Proof. intro H. cbn [seg_res]. destruct ls as [|l ls]; [reflexivity|]. rewrite H. reflexivity. Qed.
Theorem late_outside_assignment tbl n : seg_res tbl (SLate n) = Some [ErVar n].
Proof. reflexivity. Qed.

(* concrete: two units; the second fails (a name in an assignment to a STRING variable) *)
Example ex_units :
  let u1 : eunit := ([([99%N], VkEnumType); ([120%N], VkSimple)], [SLate [120%N]; SAssign (AtNamed [99%N]) [[103%N]]; SAssign (AtNamed [120%N]) [[121%N]]]) in
  let u2 : eunit := ([([115%N], VkString)], [SAssign (AtNamed [115%N]) [[116%N]]]) in
  resolve_expr_kinds (flat_unit u1) = Some [ErVar [120%N]; ErEnum [103%N]; ErVar [121%N]] /\
  resolve_expr_kinds (flat_unit u2) = None /\ resolve_expr_kinds (flat_unit u2 ++ flat_unit u1) = None /\
  resolve_expr_kinds (flat_unit u1 ++ flat_unit u1) = Some ([ErVar [120%N]; ErEnum [103%N]; ErVar [121%N]] ++ [ErVar [120%N]; ErEnum [103%N]; ErVar [121%N]]).
Proof. vm_compute. repeat split. Qed.
