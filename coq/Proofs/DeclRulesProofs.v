(* C02 / C03 / C05 / C06: the three rules on type declarations of Model/DeclRules.v.
   - what the scan reports, declaratively: one diagnostic for every element that has an earlier namesake, naming the FIRST
     element of that name and the element itself (scan_dups, first_of_some, scan_in, scan_complete);
   - it reports nothing exactly when the names are pairwise distinct (scan_nil), whatever the order (scan_perm);
   - where the labels are: on the spans the declaration itself carries (struct_labels, enum_labels, sub_labels);
   - the subrange rule reports exactly when the minimum is not below the maximum (sub_diag_spec);
   - a rule is the concatenation over the declarations: a faulty declaration is not masked by its company and the verdict
     does not depend on the order of the declarations (rule_not_masked, rule_perm). *)
From Coq Require Import List NArith ZArith Bool Lia Permutation.
From Verif Require Import Base.Text Gen.GenRules Model.Analyzer Proofs.AnalyzerProofs Model.DeclRules.
Import ListNotations.
Open Scope N_scope.

(* the first element of a list with a given key *)
Definition first_of := find_seen.

Lemma first_of_app k a b :
  first_of k (a ++ b) = match first_of k a with Some y => Some y | None => first_of k b end.
Proof.
  unfold first_of. induction a as [|y a IH]; [reflexivity|]. cbn [app find_seen]. destruct (text_eqb (ikey y) k); [reflexivity | exact IH].
Qed.

Lemma first_of_none k l : first_of k l = None <-> forall y, In y l -> ikey y <> k.
Proof.
  unfold first_of. induction l as [|y l IH]; cbn [find_seen].
  - split; [intros _ y [] | reflexivity].
  - destruct (text_eqb (ikey y) k) eqn:E.
    + split; [discriminate|]. intro H. apply text_eqb_eq in E. exfalso. exact (H y (or_introl eq_refl) E).
    + rewrite IH. assert (Hne : ikey y <> k) by (intro Hk; apply text_eqb_eq in Hk; congruence).
      split; [intros H z [<-|Hz]; [exact Hne | exact (H z Hz)] | intros H z Hz; exact (H z (or_intror Hz))].
Qed.

(* ... is the element before which nothing has that key *)
Lemma first_of_some k l f :
  first_of k l = Some f <-> exists a b, l = a ++ f :: b /\ ikey f = k /\ forall y, In y a -> ikey y <> k.
Proof.
  unfold first_of. induction l as [|y l IH]; cbn [find_seen].
  - split; [discriminate|]. intros (a & b & E & _). destruct a; discriminate.
  - destruct (text_eqb (ikey y) k) eqn:E.
    + apply text_eqb_eq in E. split.
      * intro H. inversion H; subst. exists [], l. split; [reflexivity|]. split; [reflexivity | intros z []].
      * intros (a & b & El & Ek & Ha). destruct a as [|z a].
        -- cbn in El. inversion El; subst. reflexivity.
        -- cbn in El. inversion El; subst. exfalso. exact (Ha z (or_introl eq_refl) eq_refl).
    + assert (Hne : ikey y <> k) by (intro Hk; apply text_eqb_eq in Hk; congruence).
      rewrite IH. split.
      * intros (a & b & El & Ek & Ha). exists (y :: a), b. split; [cbn; rewrite El; reflexivity|]. split; [exact Ek|].
        intros z [<-|Hz]; [exact Hne | exact (Ha z Hz)].
      * intros (a & b & El & Ek & Ha). destruct a as [|z a].
        -- cbn in El. inversion El as [[Ey El']]. rewrite Ey in Hne. contradiction.
        -- cbn in El. inversion El as [[Ey El']]. exists a, b. split; [reflexivity|]. split; [exact Ek|]. intros w Hw. exact (Ha w (or_intror Hw)).
Qed.

(* the pairs (first element of the name, repeated element), in the order of the repeated elements *)
Fixpoint dups (pre l : list nitem) : list (nitem * nitem) :=
  match l with
  | [] => []
  | x :: r => (match first_of (ikey x) pre with Some f => [(f, x)] | None => [] end) ++ dups (pre ++ [x]) r
  end.

Lemma scan_dups mk l : forall seen pre,
  (forall k, find_seen k seen = first_of k pre) ->
  scan mk seen l = map (fun p => mk (fst p) (snd p)) (dups pre l).
Proof.
  induction l as [|x r IH]; intros seen pre Hinv; [reflexivity|].
  cbn [scan dups]. rewrite Hinv. destruct (first_of (ikey x) pre) as [f|] eqn:E.
  - cbn [app map fst snd]. f_equal. apply IH. intro k. rewrite first_of_app, <- Hinv.
    destruct (find_seen k seen) as [y|] eqn:Ek; [reflexivity|].
    unfold first_of. cbn [find_seen]. destruct (text_eqb (ikey x) k) eqn:Ex; [|reflexivity].
    apply text_eqb_eq in Ex. subst k. rewrite Hinv in Ek. congruence.
  - cbn [app]. apply IH. intro k. rewrite first_of_app, <- Hinv. cbn [find_seen].
    destruct (text_eqb (ikey x) k) eqn:Ex.
    + apply text_eqb_eq in Ex. subst k. rewrite Hinv, E. unfold first_of. cbn [find_seen]. rewrite text_eqb_refl. reflexivity.
    + destruct (find_seen k seen); [reflexivity|]. unfold first_of. cbn [find_seen]. rewrite Ex. reflexivity.
Qed.

Theorem scan_spec mk l : scan mk [] l = map (fun p => mk (fst p) (snd p)) (dups [] l).
Proof. apply scan_dups. intro k. reflexivity. Qed.

Lemma dups_in l : forall pre f x, In (f, x) (dups pre l) ->
  exists a c, l = a ++ x :: c /\ first_of (ikey x) (pre ++ a) = Some f.
Proof.
  induction l as [|y r IH]; intros pre f x H; [destruct H|].
  cbn [dups] in H. apply in_app_or in H. destruct H as [H|H].
  - destruct (first_of (ikey y) pre) as [g|] eqn:E; [|destruct H]. destruct H as [H|[]]. inversion H; subst.
    exists [], r. split; [reflexivity|]. rewrite app_nil_r. exact E.
  - destruct (IH _ _ _ H) as (a & c & El & Ef). exists (y :: a), c. split; [cbn; rewrite El; reflexivity|].
    rewrite <- app_assoc in Ef. exact Ef.
Qed.

Lemma dups_complete l : forall pre a x c f, l = a ++ x :: c -> first_of (ikey x) (pre ++ a) = Some f -> In (f, x) (dups pre l).
Proof.
  induction l as [|y r IH]; intros pre a x c f El Ef; [destruct a; discriminate|].
  cbn [dups]. apply in_or_app. destruct a as [|z a].
  - cbn in El. inversion El; subst. left. rewrite app_nil_r in Ef. rewrite Ef. left; reflexivity.
  - cbn in El. inversion El; subst. right. eapply IH; [reflexivity|]. rewrite <- app_assoc. exact Ef.
Qed.

(* every diagnostic names the first element of the name and a later element of the same name *)
Theorem scan_in mk l d : In d (scan mk [] l) ->
  exists a f b x c, l = a ++ f :: b ++ x :: c /\ ikey f = ikey x /\ (forall y, In y a -> ikey y <> ikey x) /\ d = mk f x.
Proof.
  rewrite scan_spec. intro H. apply in_map_iff in H. destruct H as ([f x] & Ed & Hin). cbn [fst snd] in Ed.
  destruct (dups_in _ _ _ _ Hin) as (p & c & El & Ef). cbn [app] in Ef.
  apply first_of_some in Ef. destruct Ef as (a & b & Ep & Ek & Ha).
  exists a, f, b, x, c. split; [rewrite El, Ep, <- app_assoc; reflexivity|]. split; [exact Ek|]. split; [exact Ha | symmetry; exact Ed].
Qed.

(* and every element that has an earlier namesake gets its diagnostic, naming the first of them *)
Theorem scan_complete mk l a f b x c :
  l = a ++ f :: b ++ x :: c -> ikey f = ikey x -> (forall y, In y a -> ikey y <> ikey x) -> In (mk f x) (scan mk [] l).
Proof.
  intros El Ek Ha. rewrite scan_spec. apply in_map_iff. exists (f, x). split; [reflexivity|].
  apply (dups_complete l [] (a ++ f :: b) x c f).
  - rewrite El, <- app_assoc. reflexivity.
  - cbn [app]. apply first_of_some. exists a, b. split; [reflexivity|]. split; [exact Ek | exact Ha].
Qed.

Lemma dups_nil l : forall pre, dups pre l = [] <-> (NoDup (map ikey l) /\ forall x, In x l -> first_of (ikey x) pre = None).
Proof.
  induction l as [|x r IH]; intro pre; cbn [dups map].
  - split; [intros _; split; [constructor | intros x []] | reflexivity].
  - split.
    + intro H. apply app_eq_nil in H. destruct H as [H1 H2]. destruct (first_of (ikey x) pre) eqn:E; [discriminate|].
      apply IH in H2. destruct H2 as [Hnd Hr]. split.
      * constructor; [|exact Hnd]. intro Hin. apply in_map_iff in Hin. destruct Hin as (y & Ey & Hy).
        specialize (Hr y Hy). rewrite first_of_app in Hr. destruct (first_of (ikey y) pre); [discriminate|].
        unfold first_of in Hr. cbn [find_seen] in Hr. rewrite Ey, text_eqb_refl in Hr. discriminate.
      * intros y [<-|Hy]; [exact E|]. specialize (Hr y Hy). rewrite first_of_app in Hr. destruct (first_of (ikey y) pre); [discriminate | reflexivity].
    + intros [Hnd Hr]. inversion Hnd as [|? ? Hnx Hnr]; subst. rewrite (Hr x (or_introl eq_refl)). cbn [app]. apply IH. split; [exact Hnr|].
      intros y Hy. rewrite first_of_app, (Hr y (or_intror Hy)). unfold first_of. cbn [find_seen].
      destruct (text_eqb (ikey x) (ikey y)) eqn:E; [|reflexivity]. apply text_eqb_eq in E. exfalso. apply Hnx. rewrite E. apply in_map. exact Hy.
Qed.

(* C02: nothing is reported exactly when the names are pairwise distinct (as identifiers: without regard to letter case) *)
Theorem scan_nil mk l : scan mk [] l = [] <-> NoDup (map ikey l).
Proof.
  rewrite scan_spec. split.
  - intro H. apply map_eq_nil in H. apply dups_nil in H. exact (proj1 H).
  - intro H. replace (dups [] l) with (@nil (nitem * nitem)); [reflexivity|]. symmetry. apply dups_nil. split; [exact H | intros x _; reflexivity].
Qed.

(* C06: ... so the verdict does not depend on the order of the elements *)
Theorem scan_perm mk l l' : Permutation l l' -> (scan mk [] l = [] <-> scan mk [] l' = []).
Proof.
  intro H. rewrite !scan_nil. assert (Hp : Permutation (map ikey l) (map ikey l')) by (apply Permutation_map; exact H).
  split; intro Hn; [exact (Permutation_NoDup Hp Hn) | exact (Permutation_NoDup (Permutation_sym Hp) Hn)].
Qed.

(* C05: where the labels of the three rules are *)
Theorem struct_labels fs d : In d (rule_struct_unique fs) ->
  exists nm a f b x c, In (TyStruct nm (a ++ f :: b ++ x :: c)) fs /\ ikey f = ikey x /\ (forall y, In y a -> ikey y <> ikey x) /\
    ld_code d = P_StructureDuplicatedElement /\ ld_primary d = nm /\ ld_secondary d = [i_id f; i_id x].
Proof.
  unfold rule_struct_unique. intro H. apply in_flat_map in H. destruct H as (ft & Hft & Hd).
  destruct ft as [nm els| |]; cbn [struct_fact] in Hd; try (destruct Hd; fail).
  destruct (scan_in _ _ _ Hd) as (a & f & b & x & c & El & Ek & Ha & Ed). subst els d.
  exists nm, a, f, b, x, c. repeat split; try assumption.
Qed.

Theorem enum_labels fs d : In d (rule_enum_unique fs) ->
  exists a f b x c, In (TyEnum (a ++ f :: b ++ x :: c)) fs /\ ikey f = ikey x /\ (forall y, In y a -> ikey y <> ikey x) /\
    ld_code d = P_EnumTypeDeclDuplicateItem /\ ld_primary d = i_id f /\ ld_secondary d = [i_node x].
Proof.
  unfold rule_enum_unique. intro H. apply in_flat_map in H. destruct H as (ft & Hft & Hd).
  destruct ft as [|vs|]; cbn [enum_fact] in Hd; try (destruct Hd; fail).
  destruct (scan_in _ _ _ Hd) as (a & f & b & x & c & El & Ek & Ha & Ed). subst vs d.
  exists a, f, b, x, c. repeat split; try assumption.
Qed.

(* the subrange rule: reported exactly when the minimum is not below the maximum, for bounds of any magnitude *)
Theorem sub_diag_spec lo hi ls hs :
  sub_diag lo hi ls hs = if (sval lo <? sval hi)%Z then [] else [mkLDiag P_SubrangeMinStrictlyLessMax ls [hs]].
Proof.
  unfold sub_diag. pose proof (rule_subrange_spec lo hi) as H. unfold rule_subrange in H.
  destruct (is_less lo hi); destruct (sval lo <? sval hi)%Z; try reflexivity; discriminate.
Qed.

Theorem sub_labels fs d : In d (rule_subrange_limits fs) ->
  exists lo hi ls hs, In (TySub lo hi ls hs) fs /\ (sval hi <= sval lo)%Z /\
    ld_code d = P_SubrangeMinStrictlyLessMax /\ ld_primary d = ls /\ ld_secondary d = [hs].
Proof.
  unfold rule_subrange_limits. intro H. apply in_flat_map in H. destruct H as (ft & Hft & Hd).
  destruct ft as [| |lo hi ls hs]; cbn [sub_fact] in Hd; try (destruct Hd; fail).
  rewrite sub_diag_spec in Hd. destruct (Z.ltb_spec (sval lo) (sval hi)) as [Hlt|Hge]; [destruct Hd|].
  destruct Hd as [<-|[]]. exists lo, hi, ls, hs. repeat split; try assumption.
Qed.

(* C03 / C06: each rule is the concatenation over the declarations *)
Section Concat.
  Variable g : tyfact -> list ldiag.

  Theorem rule_not_masked fs f : In f fs -> g f <> [] -> flat_map g fs <> [].
  Proof.
    intros Hin Hne Hnil. destruct (g f) as [|d r] eqn:E; [exact (Hne eq_refl)|].
    assert (Hd : In d (flat_map g fs)) by (apply in_flat_map; exists f; split; [exact Hin | rewrite E; left; reflexivity]).
    rewrite Hnil in Hd. destruct Hd.
  Qed.

  Theorem rule_accepts_iff fs : flat_map g fs = [] <-> forall f, In f fs -> g f = [].
  Proof.
    induction fs as [|f r IH]; cbn [flat_map].
    - split; [intros _ f [] | reflexivity].
    - split.
      + intro H. apply app_eq_nil in H. destruct H as [H1 H2]. intros f' [<-|Hf]; [exact H1 | exact (proj1 IH H2 f' Hf)].
      + intro H. rewrite (H f (or_introl eq_refl)). cbn [app]. apply IH. intros f' Hf. exact (H f' (or_intror Hf)).
  Qed.

  Theorem rule_perm fs fs' : Permutation fs fs' -> (flat_map g fs = [] <-> flat_map g fs' = []).
  Proof.
    intro H. rewrite !rule_accepts_iff. split; intros Ha f Hf; apply Ha.
    - exact (Permutation_in _ (Permutation_sym H) Hf).
    - exact (Permutation_in _ H Hf).
  Qed.
End Concat.

(* the three rules, stated outright: accepted exactly when ... *)
Theorem rule_struct_exact fs :
  rule_struct_unique fs = [] <-> forall nm els, In (TyStruct nm els) fs -> NoDup (map ikey els).
Proof.
  unfold rule_struct_unique. rewrite rule_accepts_iff. split.
  - intros H nm els Hin. specialize (H _ Hin). cbn [struct_fact] in H. apply scan_nil in H. exact H.
  - intros H f Hf. destruct f as [nm els| |]; cbn [struct_fact]; try reflexivity. apply scan_nil. exact (H _ _ Hf).
Qed.

Theorem rule_enum_exact fs :
  rule_enum_unique fs = [] <-> forall vs, In (TyEnum vs) fs -> NoDup (map ikey vs).
Proof.
  unfold rule_enum_unique. rewrite rule_accepts_iff. split.
  - intros H vs Hin. specialize (H _ Hin). cbn [enum_fact] in H. apply scan_nil in H. exact H.
  - intros H f Hf. destruct f as [|vs|]; cbn [enum_fact]; try reflexivity. apply scan_nil. exact (H _ Hf).
Qed.

Theorem rule_subrange_exact fs :
  rule_subrange_limits fs = [] <-> forall lo hi ls hs, In (TySub lo hi ls hs) fs -> (sval lo < sval hi)%Z.
Proof.
  unfold rule_subrange_limits. rewrite rule_accepts_iff. split.
  - intros H lo hi ls hs Hin. specialize (H _ Hin). cbn [sub_fact] in H. rewrite sub_diag_spec in H.
    destruct (Z.ltb_spec (sval lo) (sval hi)); [assumption | discriminate].
  - intros H f Hf. destruct f as [| |lo hi ls hs]; cbn [sub_fact]; try reflexivity. rewrite sub_diag_spec.
    specialize (H _ _ _ _ Hf). destruct (Z.ltb_spec (sval lo) (sval hi)); [reflexivity | lia].
Qed.

(* non-vacuity: a structure using one name three times (in three letter cases) gets two diagnostics, both naming the first use *)
Example ex_three_uses :
  let it n s := mkItem n (s, s + 3) (s, s + 3) in
  let els := [it [118;97;108] 20; it [111;116;104] 30; it [86;65;76] 40; it [86;97;108] 50] in
  rule_struct_unique [TyStruct (5, 6) els; TySub (false, 3) (true, 3) (70, 71) (74, 75)]
  = [mkLDiag P_StructureDuplicatedElement (5, 6) [(20, 23); (40, 43)]; mkLDiag P_StructureDuplicatedElement (5, 6) [(20, 23); (50, 53)]]
  /\ rule_subrange_limits [TyStruct (5, 6) els; TySub (false, 3) (true, 3) (70, 71) (74, 75)]
  = [mkLDiag P_SubrangeMinStrictlyLessMax (70, 71) [(74, 75)]].
Proof. vm_compute. split; reflexivity. Qed.
