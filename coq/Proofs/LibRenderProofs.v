(* C10 on whole libraries: what the renderer model writes for a library of TYPE declarations, function blocks and programs
   (Model/LibRender.v) is a well-formed spelling of it, so the parser model reads the rendered library back as the same
   declarations -- every data type declaration in a block of its own, which is the same flat library -- and rendering again
   gives the same tokens. *)
From Coq Require Import List Arith Lia Bool NArith.
From Verif Require Import Base.Res Base.Text Gen.GenTokens Model.Lexer Model.Literals Model.ExprParser Model.StParser Model.DeclParser
  Model.StInstance Proofs.StExprProofs Proofs.StStmtProofs Proofs.DeclProofs Proofs.TypeProofs Proofs.StInstanceProofs
  Proofs.DeclInstanceProofs Proofs.LibProofs Model.StRender Proofs.DecProofs Proofs.StRenderProofs Proofs.DeclRenderProofs Model.LibRender.
From Coq Require String.
Import String.StringSyntax.
Import ListNotations.
Close Scope N_scope.
Open Scope nat_scope.

Notation twf_td := (wf_td token tok_class t_text tok_num is_int_ty).
Notation terase_td := (erase_td token tok_class t_text tok_num ty_name).

(* ---- which declarations the renderer writes back faithfully ---- *)
Definition bound_ok (b : bool * N) : Prop := fst b = false /\ (snd b < two128)%N.     (* '- 5' is no signed integer: the recorded gap *)
Definition range_ok (r : (bool * N) * (bool * N)) : Prop := bound_ok (fst r) /\ bound_ok (snd r).
Definition is_int_name (ty : text) : bool := is_elem ty && is_int_ty (ty_tok ty).
Definition tdecl_ok (d : tdecl) : Prop :=
  match d with
  | TdArray _ rs _ => Forall range_ok rs
  | TdSubrange _ ty lo hi d => is_int_name ty = true /\ bound_ok lo /\ bound_ok hi /\ match d with None => True | Some x => bound_ok x end
  | TdEnum _ vs _ => vs <> []
  | TdEnumOf _ b _ => is_elem b = false
  | TdSimple _ _ c => const_ok c
  | TdLate _ b => is_elem b = false
  end.
Definition unit_ok (u : unit_) : Prop := Forall ditem_ok (u_decls u) /\ Forall rstmt (u_body u).
(* in a function: no VAR_EXTERNAL, and VAR takes only CONSTANT *)
Definition fditem_ok (d : ditem) : Prop :=
  ditem_ok d /\ match d with
                | DVar _ DcExternal _ _ => False
                | DVar _ DcVar q _ => q = DqNone \/ q = DqConst
                | _ => True
                end.
Definition func_ok (f : func_) : Prop := Forall fditem_ok (fn_decls f) /\ Forall rstmt (fn_body f).
Definition elem_ok (e : elem) : Prop := match e with ETypes l => Forall tdecl_ok l | EUnit u => unit_ok u | EFunc f => func_ok f end.

Lemma bound_sp_spec b : bound_ok b ->
  wf_int token tok_class (sint_sp (fst b) (snd b)) /\ erase_int token tok_num (sint_sp (fst b) (snd b)) = b /\ lead (fst b) = ws1.
Proof.
  destruct b as [n v]. unfold bound_ok. cbn [fst snd]. intros (-> & Hv). destruct (sint_sp_spec v Hv) as (W & E). split; [exact W|]. split; [exact E | reflexivity].
Qed.

Lemma range_sp_spec r : range_ok r -> wf_r token tok_class (range_sp r) /\ erase_r token tok_num (range_sp r) = r.
Proof.
  destruct r as [[n1 v1] [n2 v2]]. intros (H1 & H2). destruct (bound_sp_spec _ H1) as (W1 & E1 & _). destruct (bound_sp_spec _ H2) as (W2 & E2 & L2).
  cbn [fst snd] in *. cbn [range_sp wf_r erase_r]. rewrite E1, E2. split; [|reflexivity].
  split; [exact W1|]. split; [apply nil_triv|]. split; [reflexivity|]. split; [rewrite L2; apply ws1_triv | exact W2].
Qed.

Lemma lead_triv n : rtriv (lead n).
Proof. destruct n; [apply nil_triv | apply ws1_triv]. Qed.

Lemma ranges_sp_spec l : Forall range_ok l ->
  wf_rs token tok_class (ranges_sp l) /\ erase_rs token tok_num (ranges_sp l) = l /\ rtriv (ranges_lead l).
Proof.
  destruct l as [|r ms]; [intros _; split; [exact I|]; split; [reflexivity | apply ws1_triv]|].
  intro H. pose proof (Forall_inv H) as Hr. pose proof (Forall_inv_tail H) as Hms. destruct (range_sp_spec r Hr) as (W & E).
  cbn [ranges_sp wf_rs erase_rs ranges_lead]. rewrite E. split; [|split; [|apply lead_triv]].
  - split; [exact W|]. clear H Hr W E. induction Hms as [|m ms Hm _ IH]; [constructor|]. cbn [map]. constructor; [|exact IH].
    destruct (range_sp_spec m Hm) as (Wm & _). cbn [wf_rm]. split; [apply ws1_triv|]. split; [reflexivity|]. split; [apply lead_triv | exact Wm].
  - f_equal. clear H Hr W E. induction Hms as [|m ms Hm _ IH]; [reflexivity|]. cbn [map erase_rm]. rewrite (proj2 (range_sp_spec m Hm)), IH. reflexivity.
Qed.

Lemma names_sp_spec l : l <> [] -> wf_ns token tok_class (names_sp l) /\ erase_ns token t_text (names_sp l) = l.
Proof.
  destruct l as [|n ms]; [intro H; contradiction H; reflexivity|]. intros _. cbn [names_sp]. unfold wf_ns, erase_ns. cbn [nm_first nm_more].
  split; [split; [reflexivity|]|].
  - induction ms as [|m ms IH]; [constructor|]. cbn [map]. constructor; [|exact IH]. cbn [wf_nm]. split; [apply ws1_triv|]. split; [reflexivity|]. split; [apply ws1_triv | reflexivity].
  - f_equal. induction ms as [|m ms IH]; [reflexivity|]. cbn [map erase_nm]. rewrite IH. reflexivity.
Qed.

Lemma int_name_spec ty : is_int_name ty = true ->
  is_type (tok_class (ty_tok ty)) = true /\ is_int_ty (ty_tok ty) = true /\ ty_name (ty_tok ty) = ty.
Proof.
  unfold is_int_name. intro H. apply andb_prop in H. destruct H as (H1 & H2). destruct (ty_tok_elem ty H1) as (T1 & T2).
  split; [exact T1|]. split; [exact H2 | exact T2].
Qed.

Lemma tdecl_sp_spec d : tdecl_ok d -> twf_td (tdecl_sp d) /\ terase_td (tdecl_sp d) = d.
Proof.
  destruct d as [n rs ty|n ty lo hi df|n vs df|n b v|n ty c|n b]; cbn [tdecl_ok].
  - intro H. destruct (ranges_sp_spec rs H) as (W & E & L). destruct (ty_tok_tyref ty) as (T1 & T2).
    cbn [tdecl_sp wf_td erase_td]. rewrite E, T2. split; [|reflexivity].
    split; [reflexivity|]. split; [apply ws1_triv|]. split; [reflexivity|]. split; [apply ws1_triv|]. split; [reflexivity|].
    split; [apply ws1_triv|]. split; [reflexivity|]. split; [exact L|]. split; [exact W|]. split; [apply ws1_triv|]. split; [reflexivity|].
    split; [apply ws1_triv|]. split; [reflexivity|]. split; [apply ws1_triv | exact T1].
  - intros (Hty & Hlo & Hhi & Hdf). destruct (int_name_spec ty Hty) as (T1 & T2 & T3).
    destruct (range_sp_spec (lo, hi) (conj Hlo Hhi)) as (W & E). destruct (bound_sp_spec lo Hlo) as (_ & _ & Llo).
    cbn [tdecl_sp wf_td erase_td]. rewrite E, T3. cbn [fst snd]. split.
    + split; [reflexivity|]. split; [apply ws1_triv|]. split; [reflexivity|]. split; [apply ws1_triv|]. split; [exact T1|]. split; [exact T2|].
      split; [apply ws1_triv|]. split; [reflexivity|]. split; [apply lead_triv|]. split; [exact W|]. split; [apply ws1_triv|]. split; [reflexivity|].
      destruct df as [[dn dv]|]; cbn [wf_df]; [|exact I]. destruct (bound_sp_spec (dn, dv) Hdf) as (Wd & _ & _).
      split; [apply ws1_triv|]. split; [reflexivity|]. split; [apply lead_triv | exact Wd].
    + destruct df as [[dn dv]|]; cbn [erase_df]; [|reflexivity]. destruct (bound_sp_spec (dn, dv) Hdf) as (_ & Ed & _). cbn [fst snd] in Ed. rewrite Ed. reflexivity.
  - intro H. destruct (names_sp_spec vs H) as (W & E). cbn [tdecl_sp wf_td erase_td]. rewrite E. split.
    + split; [reflexivity|]. split; [apply ws1_triv|]. split; [reflexivity|]. split; [apply ws1_triv|]. split; [reflexivity|]. split; [apply ws1_triv|].
      split; [exact W|]. split; [apply ws1_triv|]. split; [reflexivity|].
      destruct df as [v|]; cbn [wf_df]; [|exact I]. split; [apply ws1_triv|]. split; [reflexivity|]. split; [apply ws1_triv | reflexivity].
    + destruct df; reflexivity.
  - intros _. cbn [tdecl_sp wf_td erase_td]. split; [|reflexivity].
    split; [reflexivity|]. split; [apply ws1_triv|]. split; [reflexivity|]. split; [apply ws1_triv|]. split; [reflexivity|]. split; [apply ws1_triv|].
    split; [reflexivity|]. split; [apply ws1_triv | reflexivity].
  - intro H. destruct (const_sp_spec c H) as (W & E). destruct (ty_tok_tyref ty) as (T1 & T2). cbn [tdecl_sp wf_td erase_td]. rewrite E, T2. split; [|reflexivity].
    split; [reflexivity|]. split; [apply ws1_triv|]. split; [reflexivity|]. split; [apply ws1_triv|]. split; [exact T1|]. split; [apply ws1_triv|].
    split; [reflexivity|]. split; [apply ws1_triv | exact W].
  - intros _. cbn [tdecl_sp wf_td erase_td]. split; [|reflexivity].
    split; [reflexivity|]. split; [apply ws1_triv|]. split; [reflexivity|]. split; [apply ws1_triv | reflexivity].
Qed.

Lemma tblock_sp_spec d : tdecl_ok d -> rwf_tb (tblock_sp d) /\ rerase_tb (tblock_sp d) = [d].
Proof.
  intro H. destruct (tdecl_sp_spec d H) as (W & E). unfold tblock_sp, wf_tb, erase_tb. cbn [tb_kw tb_w tb_ds tb_wend tb_end wf_ts erase_ts map].
  rewrite E. split; [|reflexivity]. split; [reflexivity|]. split; [apply nl1_triv|]. split; [|split; [apply nl1_triv | reflexivity]].
  split; [exact W|]. split; [constructor|]. split; [apply ws1_triv | reflexivity].
Qed.

Lemma unit_sp_spec u : unit_ok u -> wf_u (unit_sp u) /\ erase_u (unit_sp u) = u.
Proof.
  intros (Hd & Hb). destruct (wbs_spec (u_decls u) Hd) as (Wd & Ed). destruct u as [k name ds body]. cbn [u_kind u_name u_decls u_body] in *.
  unfold unit_sp. cbn [u_kind u_name u_decls u_body].
  assert (Hk : forall w1 b w2, kind_of (mkSUnit (kwt (fst (unit_kws k))) ws1 (id_tok name) (map wb_sp ds) w1 b w2 (kwt (snd (unit_kws k)))) = Some k)
    by (intros; destruct k; reflexivity).
  destruct k; cbn [unit_kws fst snd] in *.
  all: destruct body as [|x l].
  all: try (destruct (render_is_spelling x l Hb) as (W & E & A)).
  all: unfold wf_u, erase_u; rewrite Hk; cbn [su_kw su_w0 su_nm su_blocks su_w1 su_body su_w2 su_en]; rewrite Ed; rewrite ?E.
  all: split; [|reflexivity].
  all: split; [discriminate|]; split; [apply ws1_triv|]; split; [reflexivity|]; split; [exact Wd|].
  all: try (split; [apply nil_triv|]; split; [reflexivity | apply nl1_triv]).
  all: split; [apply nl1_triv|]; split; [|apply nl1_triv]; split; [exact W|]; rewrite A; discriminate.
Qed.

Lemma fwb_sp_spec d : fditem_ok d -> wf_fwb token tok_class t_text tok_num (wb_sp d) /\ derase_wb (wb_sp d) = [d].
Proof.
  intros (Hd & Hx). destruct (wb_sp_spec d Hd) as (W & E). split; [|exact E].
  destruct W as (Wt & Wb). split; [exact Wt|]. split; [exact Wb|].
  unfold wb_sp, block_sp in *.
  destruct d as [n c q i|n rising q]; cbn [bk_kw bk_q bk_ds].
  - rewrite class_kw_spec. destruct c; try exact I; try contradiction Hx.
    split; [|exact I]. rewrite (proj1 (qual_sp_spec q)). destruct Hx as [-> | ->]; [left | right]; reflexivity.
  - rewrite class_kw_spec. exact I.
Qed.

Lemma fwbs_spec ds : Forall fditem_ok ds -> Forall (wf_fwb token tok_class t_text tok_num) (map wb_sp ds) /\ flat_map derase_wb (map wb_sp ds) = ds.
Proof.
  induction 1 as [|d ds Hd _ (W & E)]; [split; [constructor | reflexivity]|].
  destruct (fwb_sp_spec d Hd) as (Wd & Ed). cbn [map flat_map]. split; [constructor; assumption|]. rewrite Ed, E. reflexivity.
Qed.

Lemma tail_gap_triv l : rtriv (tail_gap l).
Proof. destruct l; [apply nil_triv | apply nl1_triv]. Qed.

Lemma func_sp_spec f : func_ok f -> wf_f (func_sp f) /\ erase_f (func_sp f) = f.
Proof.
  intros (Hd & Hb). destruct (fwbs_spec (fn_decls f) Hd) as (Wd & Ed).
  assert (Gb : Forall stmt_good (fn_body f)) by (eapply Forall_impl; [apply ss_of_spec | exact Hb]).
  destruct (body_sp_spec (fn_body f) Gb) as (Wb & Eb & Ab). destruct (ty_tok_tyref (fn_ret f)) as (T1 & T2).
  destruct f as [name ret ds body]. cbn [fn_name fn_ret fn_decls fn_body] in *.
  unfold func_sp, wf_f, erase_f. cbn [fn_name fn_ret fn_decls fn_body sf_kw sf_w0 sf_nm sf_w1 sf_colon sf_w2 sf_ty sf_blocks sf_w3 sf_body sf_w4 sf_en].
  rewrite Ed, Eb, T2. split; [|reflexivity].
  split; [reflexivity|]. split; [apply ws1_triv|]. split; [reflexivity|]. split; [apply ws1_triv|]. split; [reflexivity|].
  split; [apply ws1_triv|]. split; [exact T1|]. split; [exact Wd|]. split; [apply nl1_triv|]. split; [exact Wb|].
  split; [exact Ab|]. split; [apply tail_gap_triv | reflexivity].
Qed.

Lemma elem_sp_spec e : elem_ok e -> Forall wf_we (elem_sp e) /\ map erase_we (elem_sp e) = split_types [e].
Proof.
  destruct e as [l|u|f]; cbn [elem_ok elem_sp split_types flat_map]; rewrite app_nil_r.
  - induction 1 as [|d l Hd _ (W & E)]; [split; [constructor | reflexivity]|]. destruct (tblock_sp_spec d Hd) as (Wd & Ed).
    cbn [map erase_we erase_e]. rewrite Ed, E. split; [|reflexivity]. constructor; [|exact W]. split; [apply nl1_triv | exact Wd].
  - intro H. destruct (unit_sp_spec u H) as (W & E). cbn [map erase_we erase_e]. rewrite E. split; [|reflexivity].
    constructor; [|constructor]. split; [apply nl1_triv | exact W].
  - intro H. destruct (func_sp_spec f H) as (W & E). cbn [map erase_we erase_e]. rewrite E. split; [|reflexivity].
    constructor; [|constructor]. split; [apply nl1_triv | exact W].
Qed.

Lemma elems_sp_spec es : Forall elem_ok es -> Forall wf_we (flat_map elem_sp es) /\ map erase_we (flat_map elem_sp es) = split_types es.
Proof.
  induction 1 as [|e es He _ (W & E)]; [split; [constructor | reflexivity]|]. destruct (elem_sp_spec e He) as (We & Ee).
  cbn [flat_map]. rewrite map_app, Ee, E. split; [apply Forall_app; split; assumption|].
  unfold split_types. cbn [flat_map]. rewrite app_nil_r. reflexivity.
Qed.

(* ---- render, then parse ---- *)
Theorem parse_render_lib2 : forall es, Forall elem_ok es -> parse_lib2_tokens (render_lib2 es) = O4Parsed (split_types es).
Proof.
  intros es H. destruct (elems_sp_spec es H) as (W & E). unfold render_lib2. rewrite (parse_lib2_spelled _ nl1 W nl1_triv), E. reflexivity.
Qed.

Lemma elem_sp_split es : flat_map elem_sp (split_types es) = flat_map elem_sp es.
Proof.
  induction es as [|e es IH]; [reflexivity|]. unfold split_types in *. cbn [flat_map]. rewrite flat_map_app, IH. f_equal.
  destruct e as [l|u|f]; [|reflexivity|reflexivity]. induction l as [|d l IHl]; [reflexivity|]. cbn [map flat_map elem_sp app]. rewrite IHl. reflexivity.
Qed.

Corollary render_lib2_fixed_point : forall es, Forall elem_ok es ->
  match parse_lib2_tokens (render_lib2 es) with
  | O4Parsed es' => render_lib2 es' = render_lib2 es /\ parse_lib2_tokens (render_lib2 es') = O4Parsed es'
  | _ => False
  end.
Proof.
  intros es H. rewrite (parse_render_lib2 es H). unfold render_lib2 at 1 2. rewrite elem_sp_split. split; [reflexivity|].
  pose proof (parse_render_lib2 es H) as P. unfold render_lib2 in *. rewrite elem_sp_split. exact P.
Qed.

(* the library is a flat sequence: splitting the blocks twice is splitting them once *)
Lemma split_types_idem es : split_types (split_types es) = split_types es.
Proof.
  induction es as [|e es IH]; [reflexivity|]. unfold split_types in *. cbn [flat_map]. rewrite flat_map_app, IH. f_equal.
  destruct e as [l|u|f]; [|reflexivity|reflexivity]. induction l as [|d l IHl]; [reflexivity|]. cbn [map flat_map app]. rewrite IHl. reflexivity.
Qed.

Local Open Scope string_scope.
(* the guard is needed: a negative bound is written '- 1' (write "-", then write_ws of the digits), which is no signed integer *)
Definition neg_bound_witness : list elem := [ETypes [TdSubrange [84%N] (text_of_string "INT") (true, 1%N) (false, 5%N) None]].
Definition real_neg_bound_render : list token :=      (* TYPE \n T : INT (- 1.. 5 ) ; \n END_TYPE \n *)
  nl1 ++ [kwt KType] ++ nl1 ++ [id_tok [84%N]] ++ ws1 ++ [colon_t] ++ ws1 ++ [kwt KInt] ++ ws1 ++ [lpt] ++ [minus_t] ++ ws1 ++ [int_tok 1%N] ++
  [range_t] ++ ws1 ++ [int_tok 5%N] ++ ws1 ++ [rpt] ++ ws1 ++ [semi_t] ++ nl1 ++ [kwt KEndType] ++ nl1.
Example neg_bound_is_what_the_model_writes : render_lib2 neg_bound_witness = real_neg_bound_render.
Proof. vm_compute. reflexivity. Qed.
Theorem render_negative_bound_refuted : parse_lib2_tokens real_neg_bound_render = O4Rejected.
Proof. vm_compute. reflexivity. Qed.

(* the premises hold for a concrete library with every form of declaration, a function block and a program *)
Definition ex_types : list tdecl :=
  [ TdArray [65%N] [((false, 1%N), (false, 2%N)); ((false, 0%N), (false, 3%N))] (text_of_string "BOOL");
    TdSubrange [76%N] (text_of_string "INT") (false, 1%N) (false, 5%N) (Some (false, 2%N));
    TdEnum [67%N] [[114%N]; [103%N]] (Some [103%N]);
    TdEnumOf [69%N] [67%N] [114%N];
    TdSimple [83%N] (text_of_string "INT") (LfInt false 3%N);
    TdLate [66%N] [67%N] ].
Definition ex_fdecls : list ditem :=
  [ DVar [97%N] DcInput DqRetain (DSimple (text_of_string "INT") (Some (LfInt false 5%N)));
    DVar [98%N] DcOutput DqNone (DSimple (text_of_string "TIME_OF_DAY") None);
    DVar [99%N] DcInOut DqNone (DLate (text_of_string "BOOL"));
    DVar [101%N] DcVar DqConst (DEnumType [84%N] [82%N]);
    DVar [102%N] DcVar DqNone (DLate [85%N]);
    DEdge [104%N] true DqRetain ].
Definition ex_elems : list elem :=
  [ ETypes ex_types; EUnit (mkUnit UFb [102%N] ex_decls ex_stmts); ETypes [TdLate [68%N] [67%N]]; EUnit (mkUnit UProgram [112%N] [] []);
    EFunc (mkFunc [103%N] (text_of_string "INT") ex_fdecls ex_stmts); EFunc (mkFunc [104%N] [67%N] [] []) ].
Example ex_elems_ok : Forall elem_ok ex_elems.
Proof.
  constructor; [|constructor; [|constructor; [|constructor; [|constructor; [|constructor; [|constructor]]]]]].
  - cbn [elem_ok ex_types]. repeat (constructor; [cbn [tdecl_ok]|]); try constructor; try discriminate; try (vm_compute; reflexivity).
    all: try (repeat constructor; vm_compute; reflexivity).
    all: try (repeat split; try reflexivity; vm_compute; reflexivity).
  - split; [exact ex_decls_ok | exact (proj1 ex_renderable)].
  - cbn [elem_ok]. constructor; [vm_compute; reflexivity | constructor].
  - split; constructor.
  - split; [|exact (proj1 ex_renderable)]. cbn [fn_decls ex_fdecls].
    repeat (constructor; [split; [cbn; try (split; [reflexivity|]); try reflexivity; try (eexists; reflexivity); try (vm_compute; reflexivity)|]; try exact I; try (left; reflexivity); try (right; reflexivity)|]). constructor.
  - split; constructor.
Qed.
Example ex_elems_round_trip : parse_lib2_tokens (render_lib2 ex_elems) = O4Parsed (split_types ex_elems).
Proof. vm_compute. reflexivity. Qed.
