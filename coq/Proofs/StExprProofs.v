(* The expression layer of Model/StParser.v (precedence climbing, unary operators, signed constants, parentheses,
   function calls with positional / named / output parameters) returns the intended tree for every well-formed
   spelling, with an explicit fuel bound: the number of nodes of the spelled tree suffices.
   A spelled tree records every spelling choice: which tokens, how much trivia at every slot, which redundant
   parentheses.  [flat] writes it down, [erase] says what it means. *)
From Coq Require Import List Arith Lia Bool NArith.
From Verif Require Import Base.Res Base.Text Model.ExprParser Model.StParser.
Import ListNotations.
Close Scope N_scope.
Open Scope nat_scope.

Section G.
  Variable tk : Type.
  Variable cl : tk -> tcl.
  Variable txt : tk -> text.
  Variable num : tk -> N.
  Variable lvl : binop -> nat.

  Notation skip := (skip tk cl).
  Notation bop_of := (bop_of tk cl lvl).
  Notation uop_of := (uop_of tk cl).
  Notation next_is := (next_is tk cl).
  Notation ident := (ident tk cl txt).
  Notation param_out := (param_out tk cl txt).
  Notation subs_more := (subs_more tk cl).
  Notation subs := (subs tk cl).
  Notation sels_loop := (sels_loop tk cl txt).
  Notation pvariable := (pvariable tk cl txt).
  Notation param_in := (param_in tk cl txt).
  Notation param1 := (param1 tk cl txt).
  Notation params_more := (params_more tk cl txt).
  Notation params := (params tk cl txt).
  Notation call_tail := (call_tail tk cl txt).
  Notation prim := (prim tk cl txt num).
  Notation typed_leaf := (typed_leaf tk cl txt num).
  Notation unary := (unary tk cl txt num).
  Notation loop := (loop tk cl lvl).
  Notation pexpr := (pexpr tk cl txt num lvl).

  (* ---- spelled trees ---- *)
  Inductive sp :=
    | SConst (t : tk) (k : ckind)
    | SSigned (sg d : tk) (neg : bool)
    | SBool (bt hs v : tk) (b : bool)                      (* BOOL#TRUE / BOOL#FALSE *)
    | SSignedR (sg d : tk) (neg : bool)                    (* +1.5, and under a unary operator -1.5 *)
    | STyped (k : tykw) (ty hs : tk) (sg : option (tk * bool)) (v : tk) (l : sleaf)
                                                           (* INT#5 INT#-5 INT#16#FF REAL#1.5 REAL#-1.5 WORD#16#FF *)
    | SName (t : tk) (w : list tk)
    | SVar (t : tk) (ss : ssels)                           (* a variable with selectors: a.b, a[i, j].c *)
    | SCall0 (t : tk) (w1 : list tk) (lp : tk) (w2 : list tk) (rp : tk)
    | SCallN (t : tk) (w1 : list tk) (lp : tk) (w2 : list tk) (p : spar) (ps : spars) (w3 : list tk) (rp : tk)
    | SParen (tl : tk) (w1 : list tk) (s : sp) (w2 : list tk) (tr : tk)
    | SUn (t : tk) (o : unop) (w : list tk) (s : sp)
    | SBin (t : tk) (o : binop) (l : sp) (w1 w2 : list tk) (r : sp)
  with spar :=
    | SPPos (e : sp)
    | SPNamed (n : tk) (w1 : list tk) (a : tk) (w2 : list tk) (e : sp)
    | SPOut (ng : option (tk * list tk)) (n : tk) (w1 : list tk) (a : tk) (w2 : list tk) (v : tk) (vs : ssels)
  with spars :=
    | SPEnd
    | SPMore (w1 : list tk) (c : tk) (w2 : list tk) (p : spar) (r : spars)
  with ssels :=
    | SsEnd
    | SsField (w1 : list tk) (dot : tk) (w2 : list tk) (id : tk) (r : ssels)
    | SsIndex (w1 : list tk) (lb : tk) (w2 : list tk) (e : sp) (more : sidx) (w3 : list tk) (rb : tk) (r : ssels)
  with sidx :=
    | SiEnd
    | SiMore (w1 : list tk) (c : tk) (w2 : list tk) (e : sp) (r : sidx).

  Scheme sp_mut := Induction for sp Sort Prop
  with spar_mut := Induction for spar Sort Prop
  with spars_mut := Induction for spars Sort Prop
  with ssels_mut := Induction for ssels Sort Prop
  with sidx_mut := Induction for sidx Sort Prop.
  Combined Scheme sp_mutind from sp_mut, spar_mut, spars_mut, ssels_mut, sidx_mut.

  Definition ng_flat (ng : option (tk * list tk)) : list tk :=
    match ng with Some (nt, w) => nt :: w | None => [] end.

  Fixpoint flat (s : sp) : list tk :=
    match s with
    | SConst t _ => [t]
    | SSigned sg d _ => [sg; d]
    | SBool bt hs v _ => [bt; hs; v]
    | SSignedR sg d _ => [sg; d]
    | STyped _ ty hs sg v _ => ty :: hs :: match sg with Some (s, _) => [s; v] | None => [v] end
    | SName t w => t :: w
    | SVar t ss => t :: flatss ss
    | SCall0 t w1 lp w2 rp => t :: w1 ++ lp :: w2 ++ [rp]
    | SCallN t w1 lp w2 p ps w3 rp => t :: w1 ++ lp :: w2 ++ flatp p ++ flatps ps ++ w3 ++ [rp]
    | SParen tl w1 s w2 tr => tl :: w1 ++ flat s ++ w2 ++ [tr]
    | SUn t _ w s => t :: w ++ flat s
    | SBin t _ l w1 w2 r => flat l ++ w1 ++ t :: w2 ++ flat r
    end
  with flatp (p : spar) : list tk :=
    match p with
    | SPPos e => flat e
    | SPNamed n w1 a w2 e => n :: w1 ++ a :: w2 ++ flat e
    | SPOut ng n w1 a w2 v vs => ng_flat ng ++ n :: w1 ++ a :: w2 ++ v :: flatss vs
    end
  with flatps (ps : spars) : list tk :=
    match ps with
    | SPEnd => []
    | SPMore w1 c w2 p r => w1 ++ c :: w2 ++ flatp p ++ flatps r
    end
  with flatss (ss : ssels) : list tk :=
    match ss with
    | SsEnd => []
    | SsField w1 dot w2 id r => w1 ++ dot :: w2 ++ id :: flatss r
    | SsIndex w1 lb w2 e more w3 rb r => w1 ++ lb :: w2 ++ flat e ++ flatsi more ++ w3 ++ rb :: flatss r
    end
  with flatsi (si : sidx) : list tk :=
    match si with
    | SiEnd => []
    | SiMore w1 c w2 e r => w1 ++ c :: w2 ++ flat e ++ flatsi r
    end.

  Fixpoint erase (s : sp) : sexpr :=
    match s with
    | SConst t k => XAtom (leaf_of tk txt num k t)
    | SSigned _ d neg => XAtom (LfInt neg (num d))
    | SBool _ _ _ b => XAtom (LfBool b)
    | SSignedR _ d neg => XAtom (LfReal None (Some neg) (txt d))
    | STyped _ _ _ _ _ l => XAtom l
    | SName t _ => XAtom (LfName (txt t))
    | SVar t ss => XVar (txt t) (erasess ss)
    | SCall0 t _ _ _ _ => XCall (txt t) []
    | SCallN t _ _ _ p ps _ _ => XCall (txt t) (erasep p :: eraseps ps)
    | SParen _ _ s _ _ => erase s
    | SUn _ o _ s => XUn o (erase s)
    | SBin _ o l _ _ r => XBin o (erase l) (erase r)
    end
  with erasep (p : spar) : param sexpr :=
    match p with
    | SPPos e => PPos (erase e)
    | SPNamed n _ _ _ e => PNamed (txt n) (erase e)
    | SPOut ng n _ _ _ v vs => POut (match ng with Some _ => true | None => false end) (txt n) (txt v) (erasess vs)
    end
  with eraseps (ps : spars) : list (param sexpr) :=
    match ps with
    | SPEnd => []
    | SPMore _ _ _ p r => erasep p :: eraseps r
    end
  with erasess (ss : ssels) : list (sel sexpr) :=
    match ss with
    | SsEnd => []
    | SsField _ _ _ id r => SField (txt id) :: erasess r
    | SsIndex _ _ _ e more _ _ r => SIndex (erase e :: erasesi more) :: erasess r
    end
  with erasesi (si : sidx) : list sexpr :=
    match si with
    | SiEnd => []
    | SiMore _ _ _ e r => erase e :: erasesi r
    end.

  Fixpoint size (s : sp) : nat :=
    match s with
    | SConst _ _ | SSigned _ _ _ | SBool _ _ _ _ | SName _ _ | SSignedR _ _ _ | STyped _ _ _ _ _ _ => 1
    | SVar _ ss => 1 + sizess ss
    | SCall0 _ _ _ _ _ => 2
    | SCallN _ _ _ _ p ps _ _ => 2 + sizep p + sizeps ps
    | SParen _ _ s _ _ => 2 + size s
    | SUn _ _ _ s => 1 + size s
    | SBin _ _ l _ _ r => 1 + size l + size r
    end
  with sizep (p : spar) : nat :=
    match p with
    | SPPos e => 1 + size e
    | SPNamed _ _ _ _ e => 1 + size e
    | SPOut _ _ _ _ _ _ vs => 1 + sizess vs
    end
  with sizeps (ps : spars) : nat :=
    match ps with
    | SPEnd => 1
    | SPMore _ _ _ p r => 1 + sizep p + sizeps r
    end
  with sizess (ss : ssels) : nat :=
    match ss with
    | SsEnd => 1
    | SsField _ _ _ _ r => 1 + sizess r
    | SsIndex _ _ _ e more _ _ r => 2 + size e + sizesi more + sizess r
    end
  with sizesi (si : sidx) : nat :=
    match si with
    | SiEnd => 1
    | SiMore _ _ _ e r => 2 + size e + sizesi r
    end.

  Fixpoint ends_name (s : sp) : bool :=
    match s with
    | SName _ _ => true
    | SUn _ _ _ s => ends_name s
    | SBin _ _ _ _ _ r => ends_name r
    | _ => false
    end.
  Definition pends (p : spar) : bool :=
    match p with SPPos e | SPNamed _ _ _ _ e => ends_name e | SPOut _ _ _ _ _ _ _ => false end.
  Definition idx_lead (si : sidx) (w3 : list tk) : list tk :=
    match si with SiEnd => w3 | SiMore w1 _ _ _ _ => w1 end.
  Definition has_sel (ss : ssels) : bool := match ss with SsEnd => false | _ => true end.
  Definition lead (ps : spars) (w3 : list tk) : list tk :=
    match ps with SPEnd => w3 | SPMore w1 _ _ _ _ => w1 end.

  Definition all_triv (w : list tk) : Prop := Forall (fun t => cl t = CTriv) w.
  Definition solid (t : tk) : Prop := cl t <> CTriv.

  (* well-formed at level p: token classes are right, trivia is trivia, parentheses are where B.3.1 needs them, the
     trivia after an identifier is recorded at the identifier, a '-' constant stands only under a unary operator *)
  Fixpoint wf (p : nat) (s : sp) : Prop :=
    match s with
    | SConst t k => cl t = CConst k
    | SSigned sg d neg => neg = false /\ cl sg = COp BAdd /\ cl d = CConst CkInt
    | SBool bt hs v b => cl bt = CBoolT /\ cl hs = CHash /\ cl v = CConst (if b then CkTrue else CkFalse)
    | SSignedR sg d neg => neg = false /\ cl sg = COp BAdd /\ is_real_c (cl d) = true
    | STyped k ty hs sg v l =>
        cl ty = CTyKw k /\ cl hs = CHash /\
        match sg with
        | Some (s, b) => cl s = (if b then CMinus else COp BAdd) /\ typed_leaf k (Some b) v = Some l
        | None => typed_leaf k None v = Some l
        end
    | SName t w => cl t = CId /\ all_triv w
    | SVar t ss => cl t = CId /\ wfss ss /\ has_sel ss = true
    | SCall0 t w1 lp w2 rp => cl t = CId /\ all_triv w1 /\ cl lp = CLP /\ all_triv w2 /\ cl rp = CRP
    | SCallN t w1 lp w2 p ps w3 rp =>
        cl t = CId /\ all_triv w1 /\ cl lp = CLP /\ all_triv w2 /\ wfpar p /\ wfpars w3 ps /\ all_triv w3 /\
        cl rp = CRP /\ (pends p = true -> lead ps w3 = [])
    | SParen tl w1 s w2 tr =>
        cl tl = CLP /\ cl tr = CRP /\ all_triv w1 /\ all_triv w2 /\ wf 0 s /\ (ends_name s = true -> w2 = [])
    | SUn t o w s =>
        uop_of t = Some o /\ all_triv w /\
        match s with
        | SSigned sg d neg => cl sg = (if neg then CMinus else COp BAdd) /\ cl d = CConst CkInt
        | SSignedR sg d neg => cl sg = (if neg then CMinus else COp BAdd) /\ is_real_c (cl d) = true
        | SUn _ _ _ _ | SBin _ _ _ _ _ _ => False
        | _ => wf 0 s
        end
    | SBin t o l w1 w2 r =>
        bop_of t = Some (lvl o, o) /\ all_triv w1 /\ all_triv w2 /\ p <= lvl o /\
        wf (lvl o) l /\ wf (S (lvl o)) r /\ (ends_name l = true -> w1 = [])
    end
  with wfpar (p : spar) : Prop :=
    match p with
    | SPPos e => wf 0 e
    | SPNamed n w1 a w2 e => cl n = CId /\ all_triv w1 /\ cl a = CAssign /\ all_triv w2 /\ wf 0 e
    | SPOut ng n w1 a w2 v vs =>
        match ng with Some (nt, w) => cl nt = CNot /\ all_triv w | None => True end /\
        cl n = CId /\ all_triv w1 /\ cl a = CArrow /\ all_triv w2 /\ cl v = CId /\ wfss vs
    end
  with wfpars (w3 : list tk) (ps : spars) : Prop :=
    match ps with
    | SPEnd => True
    | SPMore w1 c w2 p r =>
        all_triv w1 /\ cl c = CComma /\ all_triv w2 /\ wfpar p /\ wfpars w3 r /\ (pends p = true -> lead r w3 = [])
    end
  with wfss (ss : ssels) : Prop :=
    match ss with
    | SsEnd => True
    | SsField w1 dot w2 id r => all_triv w1 /\ cl dot = CDot /\ all_triv w2 /\ cl id = CId /\ wfss r
    | SsIndex w1 lb w2 e more w3 rb r =>
        all_triv w1 /\ cl lb = CLB /\ all_triv w2 /\ wf 0 e /\ wfsi w3 more /\ all_triv w3 /\ cl rb = CRB /\
        (ends_name e = true -> idx_lead more w3 = []) /\ wfss r
    end
  with wfsi (w3 : list tk) (si : sidx) : Prop :=
    match si with
    | SiEnd => True
    | SiMore w1 c w2 e r =>
        all_triv w1 /\ cl c = CComma /\ all_triv w2 /\ wf 0 e /\ wfsi w3 r /\ (ends_name e = true -> idx_lead r w3 = [])
    end.

  (* a spelling that may stand where a primary expression is expected *)
  Definition wfp (s : sp) : Prop :=
    match s with
    | SSigned sg d neg => cl sg = (if neg then CMinus else COp BAdd) /\ cl d = CConst CkInt
    | SSignedR sg d neg => cl sg = (if neg then CMinus else COp BAdd) /\ is_real_c (cl d) = true
    | SUn _ _ _ _ | SBin _ _ _ _ _ _ => False
    | _ => wf 0 s
    end.

  (* ---- what may follow ---- *)
  Definition follow_lt (k : nat) (rest : list tk) : Prop :=
    match skip rest with
    | t :: _ => match bop_of t with Some (lv, _) => lv < k | None => True end
    | [] => True
    end.
  Definition noafter (t : tk) : bool := match cl t with CLP | CDot | CLB => true | _ => false end.
  (* after an expression no selector may follow (it would belong to a variable at the expression's end) *)
  Definition nosel (rest : list tk) : Prop :=
    match skip rest with t :: _ => match cl t with CDot | CLB => False | _ => True end | [] => True end.
  Definition follow_name (rest : list tk) : Prop :=
    skip rest = rest /\ match rest with t :: _ => noafter t = false | [] => True end.
  Definition follow_ok (s : sp) (rest : list tk) : Prop := ends_name s = true -> follow_name rest.
  Definition top_lvl (s : sp) : option nat := match s with SBin _ o _ _ _ _ => Some (lvl o) | _ => None end.
  Definition follow_top (s : sp) (rest : list tk) : Prop :=
    match top_lvl s with Some k => follow_lt (S k) rest | None => True end.
  (* after a parameter: no ':=' or '=>' next *)
  Definition plain_next (rest : list tk) : Prop :=
    match skip rest with
    | t :: _ => match cl t with CAssign | CArrow => False | _ => True end
    | [] => True
    end.

  (* ---- small facts ---- *)
  Lemma skip_app_triv w r : all_triv w -> skip (w ++ r) = skip r.
  Proof. induction 1 as [|t w Ht _ IH]; [reflexivity|]. cbn. unfold is_triv. rewrite Ht. exact IH. Qed.

  Lemma skip_solid t r : solid t -> skip (t :: r) = t :: r.
  Proof. intro H. cbn. unfold is_triv, solid in *. destruct (cl t); try reflexivity. contradiction. Qed.

  Lemma solid_of_class t c : cl t = c -> c <> CTriv -> solid t.
  Proof. intros <- H. exact H. Qed.

  Lemma bop_solid t x : bop_of t = Some x -> solid t.
  Proof. unfold StParser.bop_of, solid. destruct (cl t); try discriminate; intros _ H; discriminate. Qed.

  Lemma uop_solid t o : uop_of t = Some o -> solid t.
  Proof. unfold StParser.uop_of, solid. destruct (cl t); try discriminate; intros _ H; discriminate. Qed.

  Lemma next_is_at c w t r : all_triv w -> solid t -> c (cl t) = true -> next_is c (w ++ t :: r) = Some r.
  Proof. intros Hw Ht Hc. unfold StParser.next_is. rewrite (skip_app_triv w _ Hw), (skip_solid t r Ht), Hc. reflexivity. Qed.

  Lemma next_is_not c w t r : all_triv w -> solid t -> c (cl t) = false -> next_is c (w ++ t :: r) = None.
  Proof. intros Hw Ht Hc. unfold StParser.next_is. rewrite (skip_app_triv w _ Hw), (skip_solid t r Ht), Hc. reflexivity. Qed.

  Lemma wf_mono p q s : q <= p -> wf p s -> wf q s.
  Proof. destruct s; cbn; intuition lia. Qed.

  (* the first token of a well-formed spelling is not trivia *)
  Lemma flat_solid_wfp s : forall r, wfp s -> exists t r', flat s ++ r = t :: r' /\ solid t.
  Proof.
    destruct s; intros r H; cbn in H; try contradiction.
    - exists t, r. split; [reflexivity|]. eapply solid_of_class; [exact H | discriminate].
    - exists sg, (d :: r). split; [reflexivity|]. destruct H as [H _]. eapply solid_of_class; [exact H|]. destruct neg; discriminate.
    - exists bt, (hs :: v :: r). split; [reflexivity|]. destruct H as [H _]. eapply solid_of_class; [exact H | discriminate].
    - exists sg, (d :: r). split; [reflexivity|]. destruct H as [H _]. eapply solid_of_class; [exact H|]. destruct neg; discriminate.
    - eexists ty, _. split; [cbn [flat app]; reflexivity|]. destruct H as [H _]. eapply solid_of_class; [exact H | discriminate].
    - exists t, (w ++ r). split; [reflexivity|]. destruct H as [H _]. eapply solid_of_class; [exact H | discriminate].
    - eexists t, _. split; [cbn [flat app]; reflexivity|]. destruct H as [H _]. eapply solid_of_class; [exact H | discriminate].
    - eexists t, _. split; [cbn; reflexivity|]. destruct H as [H _]. eapply solid_of_class; [exact H | discriminate].
    - eexists t, _. split; [cbn; reflexivity|]. destruct H as [H _]. eapply solid_of_class; [exact H | discriminate].
    - eexists tl, _. split; [cbn; reflexivity|]. destruct H as [H _]. eapply solid_of_class; [exact H | discriminate].
  Qed.

  Lemma flat_solid s : forall p r, wf p s -> exists t r', flat s ++ r = t :: r' /\ solid t.
  Proof.
    induction s as [t k|sg d neg|bt hs v b|sg d neg|k ty hs sg v l|t w|t ss|t w1 lp w2 rp|t w1 lp w2 p0 ps w3 rp|tl w1 s IH w2 tr|t o w s IH|t o l IHl w1 w2 r IHr];
      intros p rest H.
    - apply flat_solid_wfp. exact H.
    - apply flat_solid_wfp. cbn in H. destruct H as (-> & H1 & H2). cbn. tauto.
    - apply flat_solid_wfp. exact H.
    - apply flat_solid_wfp. cbn in H. destruct H as (-> & H1 & H2). cbn. tauto.
    - apply flat_solid_wfp. exact H.
    - apply flat_solid_wfp. exact H.
    - apply flat_solid_wfp. exact H.
    - apply flat_solid_wfp. exact H.
    - apply flat_solid_wfp. exact H.
    - apply flat_solid_wfp. exact H.
    - cbn in H. destruct H as (Hu & _). eexists t, _. split; [cbn; reflexivity | eapply uop_solid; exact Hu].
    - cbn in H. destruct H as (_ & _ & _ & _ & Hl & _). cbn [flat]. rewrite <- app_assoc. exact (IHl _ _ Hl).
  Qed.

  Lemma flat_skip s p r : wf p s -> skip (flat s ++ r) = flat s ++ r.
  Proof. intro H. destruct (flat_solid s p r H) as (t & r' & E & Ht). rewrite E. apply skip_solid. exact Ht. Qed.

  Lemma flat_skip_wfp s r : wfp s -> skip (flat s ++ r) = flat s ++ r.
  Proof. intro H. destruct (flat_solid_wfp s r H) as (t & r' & E & Ht). rewrite E. apply skip_solid. exact Ht. Qed.

  Lemma loop_stop pe f minp acc rest : follow_lt minp rest -> loop pe (S f) minp acc rest = Ok (acc, rest).
  Proof.
    unfold follow_lt. cbn [StParser.loop]. destruct (skip rest) as [|t r]; [reflexivity|].
    destruct (bop_of t) as [[lv o]|]; [|reflexivity].
    intro H. destruct (Nat.leb_spec minp lv); [lia | reflexivity].
  Qed.

  Lemma size_pos s : 1 <= size s.
  Proof. destruct s; cbn; lia. Qed.

  (* after the leading identifier of a well-formed expression there is no ':=' and no '=>' *)
  Lemma head_ident_next s : forall p rest, wf p s -> plain_next rest ->
    match flat s ++ rest with t :: r' => cl t = CId -> plain_next r' | [] => True end.
  Proof.
    induction s as [t k|sg d neg|bt hs v b|sg d neg|k ty hs sg v l|t w|t ss|t w1 lp w2 rp|t w1 lp w2 p0 ps w3 rp|tl w1 s IH w2 tr|t o w s IH|t o l IHl w1 w2 r IHr];
      intros p rest H Hr; cbn [flat app].
    - cbn in H. intro E. rewrite H in E. discriminate.
    - cbn in H. destruct H as (_ & H & _). intro E. rewrite H in E. discriminate.
    - cbn in H. destruct H as (H & _). intro E. rewrite H in E. discriminate.
    - cbn in H. destruct H as (_ & H & _). intro E. rewrite H in E. discriminate.
    - cbn in H. destruct H as (H & _). intro E. rewrite H in E. discriminate.
    - cbn in H. destruct H as (_ & Hw). intros _. unfold plain_next. rewrite (skip_app_triv w rest Hw). exact Hr.
    - cbn [wf] in H. destruct H as (_ & Hss & Hsel). intros _. unfold plain_next.
      destruct ss as [|sw1 dot sw2 id r0|sw1 lb sw2 e0 more sw3 rb r0]; [discriminate Hsel| |]; cbn [flatss wfss] in *.
      + destruct Hss as (Hw1 & Hdot & _). rewrite <- app_assoc. cbn [app]. rewrite (skip_app_triv sw1 _ Hw1).
        rewrite skip_solid by (eapply solid_of_class; [exact Hdot | discriminate]). rewrite Hdot. exact I.
      + destruct Hss as (Hw1 & Hlb & _). rewrite <- app_assoc. cbn [app]. rewrite (skip_app_triv sw1 _ Hw1).
        rewrite skip_solid by (eapply solid_of_class; [exact Hlb | discriminate]). rewrite Hlb. exact I.
    - cbn in H. destruct H as (_ & Hw1 & Hlp & _). intros _. unfold plain_next. rewrite <- app_assoc. cbn [app].
      rewrite (skip_app_triv w1 _ Hw1). rewrite skip_solid by (eapply solid_of_class; [exact Hlp | discriminate]). rewrite Hlp. exact I.
    - cbn in H. destruct H as (_ & Hw1 & Hlp & _). intros _. unfold plain_next. rewrite <- app_assoc. cbn [app].
      rewrite (skip_app_triv w1 _ Hw1). rewrite skip_solid by (eapply solid_of_class; [exact Hlp | discriminate]). rewrite Hlp. exact I.
    - cbn in H. destruct H as (H & _). intro E. rewrite H in E. discriminate.
    - cbn in H. destruct H as (Hu & _). intro E. unfold StParser.uop_of in Hu. rewrite E in Hu. discriminate.
    - cbn in H. destruct H as (Hb & Hw1 & _ & _ & Hl & _). rewrite <- app_assoc. apply (IHl _ _ Hl).
      unfold plain_next. rewrite <- app_assoc. rewrite (skip_app_triv w1 _ Hw1). cbn [app]. rewrite (skip_solid t _ (bop_solid _ _ Hb)).
      unfold StParser.bop_of in Hb. destruct (cl t); try discriminate; exact I.
  Qed.

  (* ... and the same after NOT identifier *)
  Lemma head_not_next s : forall p rest, wf p s -> plain_next rest ->
    match flat s ++ rest with
    | t :: r' => cl t = CNot -> match skip r' with i :: r'' => cl i = CId -> plain_next r'' | [] => True end
    | [] => True
    end.
  Proof.
    induction s as [t k|sg d neg|bt hs v b|sg d neg|k ty hs sg v l|t w|t ss|t w1 lp w2 rp|t w1 lp w2 p0 ps w3 rp|tl w1 s IH w2 tr|t o w s IH|t o l IHl w1 w2 r IHr];
      intros p rest H Hr; cbn [flat app].
    - cbn in H. intro E. rewrite H in E. discriminate.
    - cbn in H. destruct H as (_ & H & _). intro E. rewrite H in E. discriminate.
    - cbn in H. destruct H as (H & _). intro E. rewrite H in E. discriminate.
    - cbn in H. destruct H as (_ & H & _). intro E. rewrite H in E. discriminate.
    - cbn in H. destruct H as (H & _). intro E. rewrite H in E. discriminate.
    - cbn in H. destruct H as (H & _). intro E. rewrite H in E. discriminate.
    - cbn in H. destruct H as (H & _). intro E. rewrite H in E. discriminate.
    - cbn in H. destruct H as (H & _). intro E. rewrite H in E. discriminate.
    - cbn in H. destruct H as (H & _). intro E. rewrite H in E. discriminate.
    - cbn in H. destruct H as (H & _). intro E. rewrite H in E. discriminate.
    - cbn in H. destruct H as (Hu & Hw & Hs). intros _. rewrite <- app_assoc. rewrite (skip_app_triv w _ Hw).
      assert (Hp : wfp s) by exact Hs.
      rewrite (flat_skip_wfp s rest Hp).
      destruct s; cbn in Hs; try contradiction.
      + cbn. intro E. rewrite Hs in E. discriminate.
      + cbn. destruct Hs as (Hs & _). intro E. rewrite Hs in E. destruct neg; discriminate.
      + cbn. destruct Hs as (Hs & _). intro E. rewrite Hs in E. discriminate.
      + cbn. destruct Hs as (Hs & _). intro E. rewrite Hs in E. destruct neg; discriminate.
      + cbn. destruct Hs as (Hs & _). intro E. rewrite Hs in E. discriminate.
      + exact (head_ident_next (SName t0 w0) 0 rest Hs Hr).
      + exact (head_ident_next (SVar t0 ss) 0 rest Hs Hr).
      + exact (head_ident_next (SCall0 t0 w1 lp w2 rp) 0 rest Hs Hr).
      + exact (head_ident_next (SCallN t0 w1 lp w2 p0 ps w3 rp) 0 rest Hs Hr).
      + cbn. destruct Hs as (Hs & _). intro E. rewrite Hs in E. discriminate.
    - cbn in H. destruct H as (Hb & Hw1 & _ & _ & Hl & _). rewrite <- app_assoc. apply (IHl _ _ Hl).
      unfold plain_next. rewrite <- app_assoc. rewrite (skip_app_triv w1 _ Hw1). cbn [app]. rewrite (skip_solid t _ (bop_solid _ _ Hb)).
      unfold StParser.bop_of in Hb. destruct (cl t); try discriminate; exact I.
  Qed.

  (* ---- the main induction ---- *)
  Definition PA (s : sp) : Prop :=
    forall q rest g x, wf q s -> follow_top s rest -> follow_ok s rest -> nosel rest ->
      (forall F fl, g <= F -> g <= fl -> loop (pexpr F) fl q (erase s) rest = Ok x) ->
      forall f, g + size s <= f -> pexpr f q (flat s ++ rest) = Ok x.
  Definition PB (s : sp) : Prop :=
    wfp s -> forall rest, follow_ok s rest -> nosel rest -> forall F f, size s <= S F -> size s <= S f ->
      prim (pexpr F) f (flat s ++ rest) = Ok (erase s, rest).
  Definition Ppar (p : spar) : Prop :=
    wfpar p -> forall rest, follow_lt 0 rest -> plain_next rest -> nosel rest -> (pends p = true -> follow_name rest) ->
      forall F f, sizep p <= F -> sizep p <= f -> param1 (pexpr F) f (flatp p ++ rest) = Ok (erasep p, rest).
  Definition Ppars (ps : spars) : Prop :=
    forall w3, wfpars w3 ps -> all_triv w3 -> forall rp rest acc, cl rp = CRP ->
      forall F f, sizeps ps <= F -> sizeps ps <= f ->
      params_more (pexpr F) f acc (flatps ps ++ w3 ++ rp :: rest) = Ok (acc ++ eraseps ps, w3 ++ rp :: rest).
  Definition Pss (ss : ssels) : Prop :=
    wfss ss -> forall rest, nosel rest -> forall acc F f, sizess ss <= F -> sizess ss <= f ->
      sels_loop (pexpr F) f acc (flatss ss ++ rest) = Ok (acc ++ erasess ss, rest).
  Definition Psi (si : sidx) : Prop :=
    forall w3, wfsi w3 si -> all_triv w3 -> forall rb rest acc, cl rb = CRB ->
      forall F f, sizesi si <= F -> sizesi si <= f ->
      subs_more (pexpr F) f acc (flatsi si ++ w3 ++ rb :: rest) = Ok (acc ++ erasesi si, w3 ++ rb :: rest).

  Definition primlike (s : sp) : bool := match s with SUn _ _ _ _ | SBin _ _ _ _ _ _ => false | _ => true end.

  Lemma primlike_head s p rest : primlike s = true -> wf p s ->
    wfp s /\ exists t r', flat s ++ rest = t :: r' /\ solid t /\ uop_of t = None.
  Proof.
    destruct s; cbn [primlike]; try discriminate; intros _ H; cbn in H.
    - split; [exact H|]. exists t, rest. split; [reflexivity|]. unfold solid, StParser.uop_of. rewrite H. split; [discriminate | reflexivity].
    - destruct H as (-> & H1 & H2). split; [cbn; tauto|]. exists sg, (d :: rest). split; [reflexivity|].
      unfold solid, StParser.uop_of. rewrite H1. split; [discriminate | reflexivity].
    - split; [exact H|]. destruct H as (H & _). eexists bt, _. split; [cbn; reflexivity|]. unfold solid, StParser.uop_of. rewrite H. split; [discriminate | reflexivity].
    - destruct H as (-> & H1 & H2). split; [cbn; tauto|]. exists sg, (d :: rest). split; [reflexivity|].
      unfold solid, StParser.uop_of. rewrite H1. split; [discriminate | reflexivity].
    - split; [exact H|]. destruct H as (H & _). eexists ty, _. split; [cbn [flat app]; reflexivity|]. unfold solid, StParser.uop_of. rewrite H. split; [discriminate | reflexivity].
    - split; [exact H|]. destruct H as (H & _). eexists t, _. split; [cbn; reflexivity|]. unfold solid, StParser.uop_of. rewrite H. split; [discriminate | reflexivity].
    - split; [exact H|]. destruct H as (H & _). eexists t, _. split; [cbn [flat app]; reflexivity|]. unfold solid, StParser.uop_of. rewrite H. split; [discriminate | reflexivity].
    - split; [exact H|]. destruct H as (H & _). eexists t, _. split; [cbn; reflexivity|]. unfold solid, StParser.uop_of. rewrite H. split; [discriminate | reflexivity].
    - split; [exact H|]. destruct H as (H & _). eexists t, _. split; [cbn; reflexivity|]. unfold solid, StParser.uop_of. rewrite H. split; [discriminate | reflexivity].
    - split; [exact H|]. destruct H as (H & _). eexists tl, _. split; [cbn; reflexivity|]. unfold solid, StParser.uop_of. rewrite H. split; [discriminate | reflexivity].
  Qed.

  Lemma A_of_B s : primlike s = true -> PB s -> PA s.
  Proof.
    intros Hp HB q rest g x Hwf _ Hok Hns Hl f Hf.
    destruct (primlike_head s q rest Hp Hwf) as (Hwfp & t & r' & E & Hs & Hu).
    pose proof (size_pos s) as Hsz.
    destruct f as [|f]; [lia|].
    cbn [StParser.pexpr]. unfold StParser.unary. rewrite E, Hu. rewrite (skip_solid t r' Hs), <- E.
    rewrite (HB Hwfp rest Hok Hns f f) by lia. apply Hl; lia.
  Qed.

  Lemma nosel_at w t r : all_triv w -> solid t -> (match cl t with CDot | CLB => False | _ => True end) -> nosel (w ++ t :: r).
  Proof. intros Hw Ht Hc. unfold nosel. rewrite (skip_app_triv w _ Hw), (skip_solid t r Ht). exact Hc. Qed.

  (* what follows a parameter inside a parameter list *)
  Lemma after_param r w3 rp rest : wfpars w3 r -> all_triv w3 -> cl rp = CRP ->
    let R := flatps r ++ w3 ++ rp :: rest in
    follow_lt 0 R /\ plain_next R /\ nosel R /\ (lead r w3 = [] -> follow_name R).
  Proof.
    intros Hr Hw3 Hrp. destruct r as [|w1 c w2 p r]; cbn [flatps lead app].
    - assert (Hs : solid rp) by (eapply solid_of_class; [exact Hrp | discriminate]).
      unfold follow_lt, plain_next, follow_name, nosel. rewrite (skip_app_triv w3 _ Hw3), (skip_solid rp rest Hs).
      unfold StParser.bop_of. rewrite Hrp.
      split; [exact I|]. split; [exact I|]. split; [exact I|]. intros ->. cbn [app].
      split; [reflexivity|]. unfold noafter. rewrite Hrp. reflexivity.
    - cbn in Hr. destruct Hr as (Hw1 & Hc & _).
      assert (Hs : solid c) by (eapply solid_of_class; [exact Hc | discriminate]).
      unfold follow_lt, plain_next, follow_name, nosel. rewrite <- !app_assoc. rewrite (skip_app_triv w1 _ Hw1). cbn [app]. rewrite (skip_solid c _ Hs).
      unfold StParser.bop_of. rewrite Hc.
      split; [exact I|]. split; [exact I|]. split; [exact I|]. intros ->. cbn [app].
      split; [reflexivity|]. unfold noafter. rewrite Hc. reflexivity.
  Qed.

  (* ... and a subscript inside a subscript list *)
  Lemma after_sub r w3 rb rest : wfsi w3 r -> all_triv w3 -> cl rb = CRB ->
    let R := flatsi r ++ w3 ++ rb :: rest in
    follow_lt 0 R /\ nosel R /\ (idx_lead r w3 = [] -> follow_name R).
  Proof.
    intros Hr Hw3 Hrb. destruct r as [|w1 c w2 e r]; cbn [flatsi idx_lead app].
    - assert (Hs : solid rb) by (eapply solid_of_class; [exact Hrb | discriminate]).
      unfold follow_lt, follow_name, nosel. rewrite (skip_app_triv w3 _ Hw3), (skip_solid rb rest Hs).
      unfold StParser.bop_of. rewrite Hrb.
      split; [exact I|]. split; [exact I|]. intros ->. cbn [app].
      split; [reflexivity|]. unfold noafter. rewrite Hrb. reflexivity.
    - cbn in Hr. destruct Hr as (Hw1 & Hc & _).
      assert (Hs : solid c) by (eapply solid_of_class; [exact Hc | discriminate]).
      unfold follow_lt, follow_name, nosel. rewrite <- !app_assoc. rewrite (skip_app_triv w1 _ Hw1). cbn [app]. rewrite (skip_solid c _ Hs).
      unfold StParser.bop_of. rewrite Hc.
      split; [exact I|]. split; [exact I|]. intros ->. cbn [app].
      split; [reflexivity|]. unfold noafter. rewrite Hc. reflexivity.
  Qed.

  Lemma ident_at t r : cl t = CId -> ident (t :: r) = Some (txt t, r).
  Proof. intro H. unfold StParser.ident. rewrite H. reflexivity. Qed.

  (* an expression parsed as a whole (level 0), from its own theorem *)
  Lemma whole (e : sp) : PA e -> forall rest F, wf 0 e -> follow_lt 0 rest -> follow_ok e rest -> nosel rest -> 1 + size e <= F ->
    pexpr F 0 (flat e ++ rest) = Ok (erase e, rest).
  Proof.
    intros IHe rest F Hwf Hfl Hok Hns HF. apply (IHe 0 rest 1 (erase e, rest) Hwf); try assumption.
    - unfold follow_top. destruct (top_lvl e); [|exact I]. unfold follow_lt in *.
      destruct (skip rest) as [|t' r'']; [exact I|]. destruct (bop_of t') as [[lv' o']|]; [lia | exact I].
    - intros F' fl _ Hfl'. destruct fl as [|fl]; [lia|]. apply loop_stop. exact Hfl.
  Qed.

  Lemma main : (forall s, PA s /\ PB s) /\ (forall p, Ppar p) /\ (forall ps, Ppars ps) /\ (forall ss, Pss ss) /\ (forall si, Psi si).
  Proof.
    apply sp_mutind with (P := fun s => PA s /\ PB s) (P0 := Ppar) (P1 := Ppars) (P2 := Pss) (P3 := Psi).
    - (* constant *)
      intros t k. assert (HB : PB (SConst t k)).
      { intros H rest _ _ F f _ _. cbn in H. cbn [flat app StParser.prim erase]. rewrite H. reflexivity. }
      split; [apply A_of_B; [reflexivity | exact HB] | exact HB].
    - (* signed constant *)
      intros sg d neg. assert (HB : PB (SSigned sg d neg)).
      { intros (H1 & H2) rest _ _ F f _ _. cbn [flat app StParser.prim erase]. rewrite H1.
        destruct neg; rewrite H2; reflexivity. }
      split; [apply A_of_B; [reflexivity | exact HB] | exact HB].
    - (* BOOL#TRUE / BOOL#FALSE *)
      intros bt hs v b. assert (HB : PB (SBool bt hs v b)).
      { intros (H1 & H2 & H3) rest _ _ F f _ _. cbn [flat app StParser.prim erase]. rewrite H1, H2, H3.
        destruct b; reflexivity. }
      split; [apply A_of_B; [reflexivity | exact HB] | exact HB].
    - (* signed real constant *)
      intros sg d neg. assert (HB : PB (SSignedR sg d neg)).
      { intros (H1 & H2) rest _ _ F f _ _. cbn [flat app StParser.prim erase]. rewrite H1.
        unfold StParser.is_real_c in *. destruct (cl d) as [| |k| | | | | | | | | | | |o| | |kw| | |tk0|dk| |] eqn:Ed; try discriminate H2.
        destruct k; try discriminate H2; destruct neg; reflexivity. }
      split; [apply A_of_B; [reflexivity | exact HB] | exact HB].
    - (* typed numeric constant *)
      intros k ty hs sg v l. assert (HB : PB (STyped k ty hs sg v l)).
      { intros (H1 & H2 & H3) rest _ _ F f _ _. cbn [flat erase]. destruct sg as [[s b]|].
        - destruct H3 as (Hs & Hl). cbn [app StParser.prim]. rewrite H1, H2.
          assert (Es : StParser.sign_of (cl s) = Some b) by (rewrite Hs; destruct b; reflexivity).
          rewrite Es, Hl. reflexivity.
        - cbn [app StParser.prim]. rewrite H1, H2.
          assert (Es : StParser.sign_of (cl v) = None).
          { unfold StParser.typed_leaf in H3. destruct (fam k); destruct (cl v) as [| |c| | | | | | | | | | | |o| | |kw| | |tk0|dk| |]; try discriminate H3; reflexivity. }
          rewrite Es, H3. reflexivity. }
      split; [apply A_of_B; [reflexivity | exact HB] | exact HB].
    - (* identifier *)
      intros t w. assert (HB : PB (SName t w)).
      { intros (Ht & Hw) rest Hok _ F f _ _. destruct (Hok eq_refl) as (Hsk & Hn).
        cbn [flat app StParser.prim erase]. rewrite Ht.
        unfold StParser.call_tail, StParser.next_is. rewrite (skip_app_triv w rest Hw), Hsk.
        destruct rest as [|n r']; [reflexivity|]. unfold noafter in Hn.
        destruct (cl n) eqn:En; try discriminate; cbn; try reflexivity. }
      split; [apply A_of_B; [reflexivity | exact HB] | exact HB].
    - (* variable with selectors *)
      intros t ss IHss. assert (HB : PB (SVar t ss)).
      { intros (Ht & Hss & Hsel) rest _ Hns F f HF Hf. cbn [size] in HF, Hf.
        cbn [flat app StParser.prim erase]. rewrite Ht.
        (* the first selector decides: no call, no plain identifier *)
        assert (Hhead : exists d r0, skip (flatss ss ++ rest) = d :: r0 /\ (cl d = CDot \/ cl d = CLB)).
        { destruct ss as [|sw1 dot sw2 id r0|sw1 lb sw2 e0 more sw3 rb r0]; [discriminate Hsel| |]; cbn [flatss wfss] in *.
          - destruct Hss as (Hw1 & Hdot & _). rewrite <- app_assoc. cbn [app]. rewrite (skip_app_triv sw1 _ Hw1).
            rewrite skip_solid by (eapply solid_of_class; [exact Hdot | discriminate]). eexists _, _. split; [reflexivity | left; exact Hdot].
          - destruct Hss as (Hw1 & Hlb & _). rewrite <- app_assoc. cbn [app]. rewrite (skip_app_triv sw1 _ Hw1).
            rewrite skip_solid by (eapply solid_of_class; [exact Hlb | discriminate]). eexists _, _. split; [reflexivity | right; exact Hlb]. }
        destruct Hhead as (d & r0 & Hsk & Hd).
        unfold StParser.call_tail, StParser.next_is. rewrite Hsk.
        assert (E1 : is_lp (cl d) = false) by (destruct Hd as [E|E]; rewrite E; reflexivity). rewrite E1.
        rewrite (IHss Hss rest Hns [] F f) by lia.
        destruct Hd as [E|E]; rewrite E; reflexivity. }
      split; [apply A_of_B; [reflexivity | exact HB] | exact HB].
    - (* call without parameters *)
      intros t w1 lp w2 rp. assert (HB : PB (SCall0 t w1 lp w2 rp)).
      { intros (Ht & Hw1 & Hlp & Hw2 & Hrp) rest _ _ F f HF _. cbn [size] in HF.
        assert (Hsl : solid lp) by (eapply solid_of_class; [exact Hlp | discriminate]).
        assert (Hsr : solid rp) by (eapply solid_of_class; [exact Hrp | discriminate]).
        cbn [flat app StParser.prim erase]. rewrite Ht. unfold StParser.call_tail.
        rewrite <- !app_assoc. cbn [app]. rewrite (next_is_at _ w1 lp _ Hw1 Hsl) by (rewrite Hlp; reflexivity).
        rewrite <- ?app_assoc. rewrite (skip_app_triv w2 _ Hw2). cbn [app]. rewrite (skip_solid rp rest Hsr).
        unfold StParser.params, StParser.param1, StParser.param_out. rewrite Hrp.
        rewrite (skip_solid rp rest Hsr). unfold StParser.ident at 1. rewrite Hrp.
        unfold StParser.param_in. unfold StParser.ident at 1. rewrite Hrp.
        rewrite (skip_solid rp rest Hsr).
        destruct F as [|F]; [lia|]. cbn [StParser.pexpr]. unfold StParser.unary, StParser.uop_of. rewrite Hrp.
        rewrite (skip_solid rp rest Hsr). cbn [StParser.prim]. rewrite Hrp.
        rewrite (next_is_at _ [] rp rest) by (try exact Hsr; try constructor; rewrite Hrp; reflexivity). reflexivity. }
      split; [apply A_of_B; [reflexivity | exact HB] | exact HB].
    - (* call with parameters *)
      intros t w1 lp w2 p IHp ps IHps w3 rp. assert (HB : PB (SCallN t w1 lp w2 p ps w3 rp)).
      { intros (Ht & Hw1 & Hlp & Hw2 & Hwp & Hwps & Hw3 & Hrp & Hend) rest _ _ F f HF Hf. cbn [size] in HF, Hf.
        assert (Hsl : solid lp) by (eapply solid_of_class; [exact Hlp | discriminate]).
        assert (Hsr : solid rp) by (eapply solid_of_class; [exact Hrp | discriminate]).
        cbn [flat app StParser.prim erase]. rewrite Ht. unfold StParser.call_tail.
        rewrite <- !app_assoc. cbn [app]. rewrite (next_is_at _ w1 lp _ Hw1 Hsl) by (rewrite Hlp; reflexivity).
        rewrite <- !app_assoc. rewrite (skip_app_triv w2 _ Hw2). cbn [app].
        destruct (after_param ps w3 rp rest Hwps Hw3 Hrp) as (Hf1 & Hf2 & Hfn & Hf3).
        assert (Hpar : param1 (pexpr F) f (flatp p ++ flatps ps ++ w3 ++ rp :: rest) = Ok (erasep p, flatps ps ++ w3 ++ rp :: rest)).
        { apply IHp; try assumption; try lia. intro He. apply Hf3. apply Hend. exact He. }
        (* the parameter starts with a token that is not trivia *)
        assert (Hsk : skip (flatp p ++ flatps ps ++ w3 ++ rp :: rest) = flatp p ++ flatps ps ++ w3 ++ rp :: rest).
        { destruct p as [e|n pw1 a pw2 e|ng n pw1 a pw2 v vs]; cbn [flatp]; cbn in Hwp.
          - apply (flat_skip e 0). exact Hwp.
          - destruct Hwp as (Hn & _). cbn [app]. apply skip_solid. eapply solid_of_class; [exact Hn | discriminate].
          - destruct Hwp as (Hng & Hn & _). destruct ng as [[nt nw]|]; cbn [ng_flat app].
            + destruct Hng as (Hnt & _). apply skip_solid. eapply solid_of_class; [exact Hnt | discriminate].
            + apply skip_solid. eapply solid_of_class; [exact Hn | discriminate]. }
        rewrite Hsk. unfold StParser.params. rewrite Hpar.
        rewrite (IHps w3 Hwps Hw3 rp rest [erasep p] Hrp F f) by lia.
        rewrite (next_is_at _ w3 rp rest Hw3 Hsr) by (rewrite Hrp; reflexivity). reflexivity. }
      split; [apply A_of_B; [reflexivity | exact HB] | exact HB].
    - (* parentheses *)
      intros tl w1 s [IH _] w2 tr. assert (HB : PB (SParen tl w1 s w2 tr)).
      { intros (Htl & Htr & Hw1 & Hw2 & Hwf & Hend) rest _ _ F f HF _. cbn [size] in HF.
        assert (Hsr : solid tr) by (eapply solid_of_class; [exact Htr | discriminate]).
        assert (Hfl : follow_lt 0 (w2 ++ tr :: rest)).
        { unfold follow_lt. rewrite (skip_app_triv w2 _ Hw2), (skip_solid tr rest Hsr). unfold StParser.bop_of. rewrite Htr. exact I. }
        cbn [flat app StParser.prim erase]. rewrite Htl.
        rewrite <- !app_assoc. rewrite (skip_app_triv w1 _ Hw1). cbn [app].
        rewrite (flat_skip s 0 _ Hwf).
        rewrite (whole s IH (w2 ++ tr :: rest) F Hwf Hfl).
        + rewrite (next_is_at _ w2 tr rest Hw2 Hsr) by (rewrite Htr; reflexivity). reflexivity.
        + intro He. rewrite (Hend He). cbn [app]. split; [apply skip_solid; exact Hsr|]. unfold noafter. rewrite Htr. reflexivity.
        + apply nosel_at; [exact Hw2 | exact Hsr | rewrite Htr; exact I].
        + lia. }
      split; [apply A_of_B; [reflexivity | exact HB] | exact HB].
    - (* unary operator *)
      intros t o w s [_ IHB]. split; [|intros []].
      intros q rest g x Hwf _ Hok Hns Hl f Hf. cbn [wf] in Hwf. destruct Hwf as (Hu & Hw & Hs).
      assert (Hp : wfp s) by exact Hs.
      destruct f as [|f]; [cbn [size] in Hf; lia|]. cbn [size] in Hf.
      cbn [StParser.pexpr flat app]. unfold StParser.unary. rewrite Hu.
      rewrite <- app_assoc. rewrite (skip_app_triv w _ Hw). rewrite (flat_skip_wfp s rest Hp).
      rewrite (IHB Hp rest (fun He => Hok He) Hns) by lia.
      cbn [erase] in Hl. apply Hl; lia.
    - (* infix operator *)
      intros t o l [IHl _] w1 w2 r [IHr _]. split; [|intros []].
      intros q rest g x Hwf Hfol Hok Hns Hloop f Hf. cbn [wf] in Hwf.
      destruct Hwf as (Hb & Hw1 & Hw2 & Hq & Hwl & Hwr & Hend).
      unfold follow_top in Hfol. cbn [top_lvl] in Hfol. cbn [size] in Hf.
      pose proof (bop_solid _ _ Hb) as Hs.
      (* the right operand parses one level higher and stops at rest *)
      assert (Hr : forall F, 1 + size r <= F -> pexpr F (S (lvl o)) (flat r ++ rest) = Ok (erase r, rest)).
      { intros F HF. apply (IHr (S (lvl o)) rest 1 (erase r, rest) Hwr).
        - unfold follow_top. destruct r; cbn [top_lvl]; try exact I. cbn in Hwr.
          unfold follow_lt in *. destruct (skip rest) as [|t' r']; [exact I|].
          destruct (bop_of t') as [[lv' o']|]; [lia | exact I].
        - intro He. apply Hok. cbn. exact He.
        - exact Hns.
        - intros F' fl _ Hfl. destruct fl as [|fl]; [lia|]. apply loop_stop. exact Hfol.
        - exact HF. }
      cbn [flat]. rewrite <- !app_assoc. cbn [app]. rewrite <- app_assoc.
      apply (IHl q (w1 ++ t :: w2 ++ flat r ++ rest) (g + size r + 1) x).
      + apply wf_mono with (p := lvl o); assumption.
      + unfold follow_top. destruct l; cbn [top_lvl]; try exact I. cbn in Hwl.
        unfold follow_lt. rewrite (skip_app_triv w1 _ Hw1), (skip_solid t _ Hs), Hb. lia.
      + intro He. rewrite (Hend He). cbn [app]. split; [apply skip_solid; exact Hs|].
        unfold noafter. unfold StParser.bop_of in Hb. destruct (cl t); try discriminate; reflexivity.
      + apply nosel_at; [exact Hw1 | exact Hs|]. unfold StParser.bop_of in Hb. destruct (cl t); try discriminate; exact I.
      + intros F fl HF Hfl. destruct fl as [|fl]; [lia|]. cbn [StParser.loop].
        rewrite (skip_app_triv w1 _ Hw1), (skip_solid t _ Hs), Hb.
        destruct (Nat.leb_spec q (lvl o)); [|lia].
        rewrite (skip_app_triv w2 _ Hw2). rewrite (flat_skip r (S (lvl o)) rest Hwr).
        rewrite Hr by lia. cbn [erase] in Hloop. apply Hloop; lia.
      + lia.
    - (* positional parameter *)
      intros e [IHe _] Hwf rest Hfl Hpn Hns Hend F f HF Hf. cbn [wfpar] in Hwf. cbn [sizep] in HF, Hf. cbn [flatp erasep].
      unfold StParser.param1.
      pose proof (head_ident_next e 0 rest Hwf Hpn) as Hid.
      pose proof (head_not_next e 0 rest Hwf Hpn) as Hnot.
      destruct (flat_solid e 0 rest Hwf) as (t & r' & E & Hs).
      assert (Hexp : pexpr F 0 (flat e ++ rest) = Ok (erase e, rest)) by (apply (whole e IHe); try assumption; lia).
      assert (Hout : param_out (pexpr F) f (flat e ++ rest) = Fail).
      { rewrite E in *. unfold StParser.param_out. destruct (cl t) eqn:Ec.
        all: try (rewrite (skip_solid t r' Hs); unfold StParser.ident at 1; rewrite Ec; reflexivity).
        - (* identifier first *)
          rewrite (skip_solid t r' Hs). rewrite (ident_at t r' Ec).
          specialize (Hid eq_refl). unfold plain_next in Hid. unfold StParser.next_is.
          destruct (skip r') as [|a r'']; [reflexivity|]. destruct (cl a); try contradiction; reflexivity.
        - (* NOT first *)
          specialize (Hnot eq_refl). destruct (skip r') as [|i r''] eqn:Er; [reflexivity|].
          unfold StParser.ident at 1. destruct (cl i) eqn:Ei; try reflexivity.
          specialize (Hnot eq_refl). unfold plain_next in Hnot. unfold StParser.next_is.
          destruct (skip r'') as [|a r3]; [reflexivity|]. destruct (cl a); try contradiction; reflexivity. }
      rewrite Hout. unfold StParser.param_in.
      assert (Hin : match ident (flat e ++ rest) with
                    | Some (n, r) => next_is (is_assign) r = None
                    | None => True end).
      { rewrite E in *. unfold StParser.ident. destruct (cl t) eqn:Ec; try exact I.
        specialize (Hid eq_refl). unfold plain_next in Hid. unfold StParser.next_is.
        destruct (skip r') as [|a r'']; [reflexivity|]. destruct (cl a); try contradiction; reflexivity. }
      destruct (ident (flat e ++ rest)) as [[n r]|].
      + rewrite Hin. rewrite (flat_skip e 0 rest Hwf), Hexp. reflexivity.
      + rewrite (flat_skip e 0 rest Hwf), Hexp. reflexivity.
    - (* named parameter *)
      intros n w1 a w2 e [IHe _] Hwf rest Hfl Hpn Hns Hend F f HF Hf. cbn [wfpar] in Hwf. cbn [sizep] in HF, Hf.
      destruct Hwf as (Hn & Hw1 & Ha & Hw2 & Hwf).
      assert (Hsa : solid a) by (eapply solid_of_class; [exact Ha | discriminate]).
      assert (Hsn : solid n) by (eapply solid_of_class; [exact Hn | discriminate]).
      cbn [flatp erasep app]. unfold StParser.param1, StParser.param_out. rewrite Hn.
      rewrite (skip_solid n _ Hsn). rewrite (ident_at n _ Hn).
      rewrite <- !app_assoc. cbn [app].
      rewrite (next_is_not _ w1 a _ Hw1 Hsa) by (rewrite Ha; reflexivity).
      unfold StParser.param_in. rewrite (ident_at n _ Hn).
      rewrite (next_is_at _ w1 a _ Hw1 Hsa) by (rewrite Ha; reflexivity).
      rewrite <- app_assoc. rewrite (skip_app_triv w2 _ Hw2). rewrite (flat_skip e 0 rest Hwf).
      rewrite (whole e IHe rest F Hwf Hfl Hend Hns) by lia. reflexivity.
    - (* output parameter *)
      intros ng n w1 a w2 v vs IHvs Hwf rest _ _ Hns _ F f HF Hf. cbn [wfpar] in Hwf. cbn [sizep] in HF, Hf.
      destruct Hwf as (Hng & Hn & Hw1 & Ha & Hw2 & Hv & Hvs).
      assert (Hsa : solid a) by (eapply solid_of_class; [exact Ha | discriminate]).
      assert (Hsn : solid n) by (eapply solid_of_class; [exact Hn | discriminate]).
      assert (Hsv : solid v) by (eapply solid_of_class; [exact Hv | discriminate]).
      cbn [erasep]. unfold StParser.param1.
      replace (flatp (SPOut ng n w1 a w2 v vs) ++ rest) with (ng_flat ng ++ n :: w1 ++ a :: w2 ++ v :: flatss vs ++ rest)
        by (cbn [flatp]; repeat (rewrite <- app_assoc; cbn [app]); reflexivity).
      assert (E : param_out (pexpr F) f (ng_flat ng ++ n :: w1 ++ a :: w2 ++ v :: flatss vs ++ rest) =
                  Ok (POut (match ng with Some _ => true | None => false end) (txt n) (txt v) (erasess vs), rest)).
      { destruct ng as [[nt nw]|]; cbn [ng_flat app]; unfold StParser.param_out.
        - destruct Hng as (Hnt & Hnw). rewrite Hnt. rewrite (skip_app_triv nw _ Hnw), (skip_solid n _ Hsn), (ident_at n _ Hn).
          rewrite (next_is_at _ w1 a _ Hw1 Hsa) by (rewrite Ha; reflexivity).
          rewrite (skip_app_triv w2 _ Hw2). rewrite (skip_solid v _ Hsv). unfold StParser.pvariable. rewrite (ident_at v _ Hv).
          rewrite (IHvs Hvs rest Hns [] F f) by lia. reflexivity.
        - rewrite Hn. rewrite (skip_solid n _ Hsn), (ident_at n _ Hn).
          rewrite (next_is_at _ w1 a _ Hw1 Hsa) by (rewrite Ha; reflexivity).
          rewrite (skip_app_triv w2 _ Hw2). rewrite (skip_solid v _ Hsv). unfold StParser.pvariable. rewrite (ident_at v _ Hv).
          rewrite (IHvs Hvs rest Hns [] F f) by lia. reflexivity. }
      rewrite E. reflexivity.
    - (* end of the parameter list *)
      intros w3 _ Hw3 rp rest acc Hrp F f _ Hf. cbn [sizeps] in Hf. destruct f as [|f]; [lia|].
      assert (Hsr : solid rp) by (eapply solid_of_class; [exact Hrp | discriminate]).
      cbn [flatps eraseps app StParser.params_more]. rewrite (next_is_not _ w3 rp rest Hw3 Hsr) by (rewrite Hrp; reflexivity).
      rewrite app_nil_r. reflexivity.
    - (* one more parameter *)
      intros w1 c w2 p IHp r IHr w3 Hwf Hw3 rp rest acc Hrp F f HF Hf. cbn [wfpars] in Hwf. cbn [sizeps] in HF, Hf.
      destruct Hwf as (Hw1 & Hc & Hw2 & Hwp & Hwr & Hend).
      assert (Hsc : solid c) by (eapply solid_of_class; [exact Hc | discriminate]).
      destruct f as [|f]; [lia|]. cbn [flatps eraseps StParser.params_more].
      rewrite <- !app_assoc. cbn [app]. rewrite (next_is_at _ w1 c _ Hw1 Hsc) by (rewrite Hc; reflexivity).
      rewrite <- !app_assoc. rewrite (skip_app_triv w2 _ Hw2). cbn [app].
      destruct (after_param r w3 rp rest Hwr Hw3 Hrp) as (Hf1 & Hf2 & Hfn & Hf3).
      assert (Hsk : skip (flatp p ++ flatps r ++ w3 ++ rp :: rest) = flatp p ++ flatps r ++ w3 ++ rp :: rest).
      { destruct p as [e|n pw1 a pw2 e|ng n pw1 a pw2 v vs]; cbn [flatp]; cbn in Hwp.
        - apply (flat_skip e 0). exact Hwp.
        - destruct Hwp as (Hn & _). cbn [app]. apply skip_solid. eapply solid_of_class; [exact Hn | discriminate].
        - destruct Hwp as (Hng & Hn & _). destruct ng as [[nt nw]|]; cbn [ng_flat app].
          + destruct Hng as (Hnt & _). apply skip_solid. eapply solid_of_class; [exact Hnt | discriminate].
          + apply skip_solid. eapply solid_of_class; [exact Hn | discriminate]. }
      rewrite Hsk. rewrite (IHp Hwp _ Hf1 Hf2 Hfn (fun He => Hf3 (Hend He)) F f) by lia.
      rewrite (IHr w3 Hwr Hw3 rp rest (acc ++ [erasep p]) Hrp F f) by lia.
      rewrite <- app_assoc. reflexivity.
    - (* no further selector *)
      intros _ rest Hns acc F f _ Hf. cbn [sizess] in Hf. destruct f as [|f]; [lia|].
      cbn [flatss erasess app StParser.sels_loop]. unfold nosel in Hns. rewrite app_nil_r.
      destruct (skip rest) as [|t r]; [reflexivity|]. destruct (cl t); try contradiction; reflexivity.
    - (* .field *)
      intros w1 dot w2 id r IHr (Hw1 & Hdot & Hw2 & Hid & Hr) rest Hns acc F f HF Hf. cbn [sizess] in HF, Hf.
      destruct f as [|f]; [lia|].
      assert (Hsd : solid dot) by (eapply solid_of_class; [exact Hdot | discriminate]).
      assert (Hsi : solid id) by (eapply solid_of_class; [exact Hid | discriminate]).
      cbn [flatss erasess StParser.sels_loop].
      replace ((w1 ++ dot :: w2 ++ id :: flatss r) ++ rest) with (w1 ++ dot :: w2 ++ id :: flatss r ++ rest)
        by (repeat (rewrite <- app_assoc; cbn [app]); reflexivity).
      rewrite (skip_app_triv w1 _ Hw1), (skip_solid dot _ Hsd), Hdot.
      rewrite (skip_app_triv w2 _ Hw2). rewrite (skip_solid id _ Hsi), (ident_at id _ Hid).
      rewrite (IHr Hr rest Hns (acc ++ [SField (txt id)]) F f) by lia. rewrite <- app_assoc. reflexivity.
    - (* [subscripts] *)
      intros w1 lb w2 e [IHe _] more IHm w3 rb r IHr (Hw1 & Hlb & Hw2 & He & Hm & Hw3 & Hrb & Hend & Hr) rest Hns acc F f HF Hf.
      cbn [sizess] in HF, Hf. destruct f as [|f]; [lia|].
      assert (Hsl : solid lb) by (eapply solid_of_class; [exact Hlb | discriminate]).
      assert (Hsr : solid rb) by (eapply solid_of_class; [exact Hrb | discriminate]).
      cbn [flatss erasess StParser.sels_loop].
      replace ((w1 ++ lb :: w2 ++ flat e ++ flatsi more ++ w3 ++ rb :: flatss r) ++ rest)
        with (w1 ++ lb :: w2 ++ flat e ++ flatsi more ++ w3 ++ rb :: flatss r ++ rest)
        by (repeat (rewrite <- app_assoc; cbn [app]); reflexivity).
      rewrite (skip_app_triv w1 _ Hw1), (skip_solid lb _ Hsl), Hlb.
      unfold StParser.subs. rewrite (skip_app_triv w2 _ Hw2), (flat_skip e 0 _ He).
      destruct (after_sub more w3 rb (flatss r ++ rest) Hm Hw3 Hrb) as (Hf1 & Hfn & Hf3).
      rewrite (whole e IHe _ F He Hf1 (fun Hx => Hf3 (Hend Hx)) Hfn) by lia.
      rewrite (IHm w3 Hm Hw3 rb (flatss r ++ rest) [erase e] Hrb F f) by lia.
      rewrite (next_is_at _ w3 rb _ Hw3 Hsr) by (rewrite Hrb; reflexivity).
      cbn [app]. rewrite (IHr Hr rest Hns (acc ++ [SIndex (erase e :: erasesi more)]) F f) by lia. rewrite <- app_assoc. reflexivity.
    - (* end of the subscripts *)
      intros w3 _ Hw3 rb rest acc Hrb F f _ Hf. cbn [sizesi] in Hf. destruct f as [|f]; [lia|].
      assert (Hsr : solid rb) by (eapply solid_of_class; [exact Hrb | discriminate]).
      cbn [flatsi erasesi app StParser.subs_more]. rewrite (next_is_not _ w3 rb rest Hw3 Hsr) by (rewrite Hrb; reflexivity).
      rewrite app_nil_r. reflexivity.
    - (* one more subscript *)
      intros w1 c w2 e [IHe _] r IHr w3 (Hw1 & Hc & Hw2 & He & Hr & Hend) Hw3 rb rest acc Hrb F f HF Hf. cbn [sizesi] in HF, Hf.
      assert (Hsc : solid c) by (eapply solid_of_class; [exact Hc | discriminate]).
      destruct f as [|f]; [lia|]. cbn [flatsi erasesi StParser.subs_more].
      rewrite <- !app_assoc. cbn [app]. rewrite (next_is_at _ w1 c _ Hw1 Hsc) by (rewrite Hc; reflexivity).
      rewrite <- !app_assoc. rewrite (skip_app_triv w2 _ Hw2), (flat_skip e 0 _ He).
      destruct (after_sub r w3 rb rest Hr Hw3 Hrb) as (Hf1 & Hfn & Hf3).
      rewrite (whole e IHe _ F He Hf1 (fun Hx => Hf3 (Hend Hx)) Hfn) by lia.
      rewrite (IHr w3 Hr Hw3 rb rest (acc ++ [erase e]) Hrb F f) by lia. rewrite <- app_assoc. reflexivity.
  Qed.

  (* every well-formed spelling is parsed to its meaning, leaving exactly the rest; the number of nodes is enough fuel *)
  Theorem pexpr_spelled : forall s q rest f,
    wf q s -> follow_lt q rest -> follow_ok s rest -> nosel rest -> 1 + size s <= f ->
    pexpr f q (flat s ++ rest) = Ok (erase s, rest).
  Proof.
    intros s q rest f Hwf Hfol Hok Hns Hf. destruct main as [M _]. destruct (M s) as [MA _].
    apply (MA q rest 1); [exact Hwf | | exact Hok | exact Hns | | exact Hf].
    - unfold follow_top. destruct s; cbn [top_lvl]; try exact I. cbn in Hwf.
      unfold follow_lt in *. destruct (skip rest) as [|t' r']; [exact I|].
      destruct (bop_of t') as [[lv' o']|]; [lia | exact I].
    - intros F fl _ Hfl. destruct fl as [|fl]; [lia|]. apply loop_stop. exact Hfol.
  Qed.

  Theorem params_spelled : forall ps w3 rp rest acc F f,
    wfpars w3 ps -> all_triv w3 -> cl rp = CRP -> sizeps ps <= F -> sizeps ps <= f ->
    params_more (pexpr F) f acc (flatps ps ++ w3 ++ rp :: rest) = Ok (acc ++ eraseps ps, w3 ++ rp :: rest).
  Proof. intros. destruct main as (_ & _ & M & _). apply M; assumption. Qed.

  Theorem sels_spelled : forall ss rest acc F f,
    wfss ss -> nosel rest -> sizess ss <= F -> sizess ss <= f ->
    sels_loop (pexpr F) f acc (flatss ss ++ rest) = Ok (acc ++ erasess ss, rest).
  Proof. intros. destruct main as (_ & _ & _ & M & _). apply M; assumption. Qed.

  (* ---- the number of nodes is bounded by the number of tokens ---- *)
  Lemma size_bound :
    (forall s, size s <= 3 * length (flat s)) /\
    (forall p, sizep p <= 3 * length (flatp p) + 1) /\
    (forall ps, sizeps ps <= 3 * length (flatps ps) + 1) /\
    (forall ss, sizess ss <= 3 * length (flatss ss) + 1) /\
    (forall si, sizesi si <= 3 * length (flatsi si) + 1).
  Proof.
    apply sp_mutind; intros; cbn [size sizep sizeps sizess sizesi flat flatp flatps flatss flatsi];
      repeat (rewrite app_length || cbn [length]); try lia.
  Qed.

  (* ---- a well-formed spelling consists of tokens the model reads: it is inside the model's scope ---- *)
  Notation in_scope_from := (in_scope_from tk cl).
  Definition is_nil (X : list tk) : bool := match X with [] => true | _ :: _ => false end.
  Definition scoped (X : list tk) : Prop :=
    forall b r, in_scope_from b (X ++ r) = in_scope_from (b && is_nil X) r.
  Definition ok_class (c : tcl) : bool := match c with CSel | COther | CHash | CBoolT | CTyKw _ => false | _ => true end.

  Lemma scoped_nil : scoped [].
  Proof. intros b r. cbn. rewrite andb_true_r. reflexivity. Qed.

  Lemma scoped_app X Y : scoped X -> scoped Y -> scoped (X ++ Y).
  Proof.
    intros HX HY b r. rewrite <- app_assoc, HX, HY. f_equal. destruct X; destruct Y; cbn; rewrite ?andb_true_r, ?andb_false_r; reflexivity.
  Qed.

  Lemma scoped_cons t X : ok_class (cl t) = true -> scoped X -> scoped (t :: X).
  Proof.
    intros Ht HX b r. cbn [app StParser.in_scope_from]. rewrite andb_false_r.
    destruct (cl t); try discriminate; rewrite HX; cbn; destruct X; reflexivity.
  Qed.

  Lemma scoped_tok t : ok_class (cl t) = true -> scoped [t].
  Proof. intro H. apply scoped_cons; [exact H | apply scoped_nil]. Qed.

  Lemma scoped_triv w : all_triv w -> scoped w.
  Proof. induction 1 as [|t w Ht _ IH]; [apply scoped_nil|]. apply scoped_cons; [rewrite Ht; reflexivity | exact IH]. Qed.

  Lemma scoped_bool bt hs v k X : cl bt = CBoolT -> cl hs = CHash -> cl v = CConst k -> scoped X -> scoped (bt :: hs :: v :: X).
  Proof.
    intros H1 H2 H3 HX b r. cbn [app StParser.in_scope_from]. rewrite H1, H2, H3. cbn [andb]. rewrite HX, andb_false_r. cbn. destruct X; reflexivity.
  Qed.

  Lemma scoped_typed ty hs k X : cl ty = CTyKw k -> fam k <> TfOther -> cl hs = CHash -> scoped X -> scoped (ty :: hs :: X).
  Proof.
    intros H1 Hf H2 HX b r. cbn [app StParser.in_scope_from]. rewrite H1, H2.
    destruct (fam k); try contradiction; cbn [andb]; rewrite HX, andb_false_r; cbn; destruct X; reflexivity.
  Qed.

  Lemma ok_of_class t c : cl t = c -> ok_class c = true -> ok_class (cl t) = true.
  Proof. intros -> H. exact H. Qed.

  Lemma ok_bop t x : bop_of t = Some x -> ok_class (cl t) = true.
  Proof. unfold StParser.bop_of. destruct (cl t); try discriminate; reflexivity. Qed.
  Lemma ok_uop t o : uop_of t = Some o -> ok_class (cl t) = true.
  Proof. unfold StParser.uop_of. destruct (cl t); try discriminate; reflexivity. Qed.

  Ltac sc :=
    repeat first
      [ assumption
      | apply scoped_nil
      | apply scoped_triv; assumption
      | apply scoped_app
      | apply scoped_cons; [first [ eapply ok_of_class; [eassumption | reflexivity] | eapply ok_bop; eassumption | eapply ok_uop; eassumption ] | ] ].

  Lemma wf_scoped :
    (forall s, (forall q, wf q s -> scoped (flat s)) /\ (wfp s -> scoped (flat s))) /\
    (forall p, wfpar p -> scoped (flatp p)) /\
    (forall ps, forall w3, wfpars w3 ps -> scoped (flatps ps)) /\
    (forall ss, wfss ss -> scoped (flatss ss)) /\
    (forall si, forall w3, wfsi w3 si -> scoped (flatsi si)).
  Proof.
    apply sp_mutind with (P := fun s => (forall q, wf q s -> scoped (flat s)) /\ (wfp s -> scoped (flat s)))
                         (P0 := fun p => wfpar p -> scoped (flatp p)) (P1 := fun ps => forall w3, wfpars w3 ps -> scoped (flatps ps))
                         (P2 := fun ss => wfss ss -> scoped (flatss ss)) (P3 := fun si => forall w3, wfsi w3 si -> scoped (flatsi si)).
    - intros t k. split; [intros q H | intros H]; cbn in H; cbn [flat]; apply scoped_tok; rewrite H; reflexivity.
    - intros sg d neg. split; [intros q (-> & H1 & H2) | intros (H1 & H2)]; cbn [flat].
      + sc.
      + destruct neg; sc.
    - intros bt hs v b. split; [intros q (H1 & H2 & H3) | intros (H1 & H2 & H3)]; cbn [flat]; eapply scoped_bool; eauto using scoped_nil.
    - intros sg d neg.
      assert (Hd : forall c, is_real_c c = true -> ok_class c = true) by (intros c Hc; destruct c; try discriminate Hc; reflexivity).
      split; [intros q (-> & H1 & H2) | intros (H1 & H2)]; cbn [flat]; apply Hd in H2.
      + apply scoped_cons; [rewrite H1; reflexivity | apply scoped_tok; exact H2].
      + apply scoped_cons; [rewrite H1; destruct neg; reflexivity | apply scoped_tok; exact H2].
    - intros k ty hs sg v l.
      assert (G : wf 0 (STyped k ty hs sg v l) -> scoped (flat (STyped k ty hs sg v l))).
      { intros (H1 & H2 & H3). cbn [flat].
        assert (Hf : fam k <> TfOther /\ exists c, cl v = CConst c).
        { assert (Hl : exists o, typed_leaf k o v = Some l) by (destruct sg as [[s b]|]; [destruct H3 as (_ & H3) |]; eexists; exact H3).
          destruct Hl as (o & Hl). unfold StParser.typed_leaf in Hl.
          destruct (fam k); [| | |discriminate Hl]; (split; [discriminate|]);
            destruct (cl v) as [| |c| | | | | | | | | | | |o0| | |kw| | |tk0|dk| |]; try discriminate Hl; eexists; reflexivity. }
        destruct Hf as (Hf & c & Hv).
        destruct sg as [[s b]|].
        - destruct H3 as (Hs & _). eapply scoped_typed; [exact H1 | exact Hf | exact H2|].
          apply scoped_cons; [rewrite Hs; destruct b; reflexivity|]. apply scoped_tok. rewrite Hv. reflexivity.
        - eapply scoped_typed; [exact H1 | exact Hf | exact H2|]. apply scoped_tok. rewrite Hv. reflexivity. }
      split; [intros q H; apply G; exact H | exact G].
    - intros t w. split; [intros q (H1 & H2) | intros (H1 & H2)]; cbn [flat]; sc.
    - intros t ss IHss.
      assert (G : wf 0 (SVar t ss) -> scoped (flat (SVar t ss))).
      { intros (H1 & H2 & _). cbn [flat]. specialize (IHss H2). sc. }
      split; [intros q H; apply G; exact H | exact G].
    - intros t w1 lp w2 rp. split; [intros q (H1 & H2 & H3 & H4 & H5) | intros (H1 & H2 & H3 & H4 & H5)]; cbn [flat]; sc.
    - intros t w1 lp w2 p IHp ps IHps w3 rp.
      assert (G : wf 0 (SCallN t w1 lp w2 p ps w3 rp) -> scoped (flat (SCallN t w1 lp w2 p ps w3 rp))).
      { intros (H1 & H2 & H3 & H4 & H5 & H6 & H7 & H8 & _). cbn [flat]. specialize (IHp H5). specialize (IHps w3 H6). sc. }
      split; [intros q H; apply G; exact H | exact G].
    - intros tl w1 s [IH _] w2 tr.
      assert (G : wf 0 (SParen tl w1 s w2 tr) -> scoped (flat (SParen tl w1 s w2 tr))).
      { intros (H1 & H2 & H3 & H4 & H5 & _). cbn [flat]. specialize (IH 0 H5). sc. }
      split; [intros q H; apply G; exact H | exact G].
    - intros t o w s [IH IHp]. split; [|intros []]. intros q (H1 & H2 & H3). cbn [flat].
      assert (Hs : scoped (flat s)) by (apply IHp; exact H3). sc.
    - intros t o l [IHl _] w1 w2 r [IHr _]. split; [|intros []]. intros q (H1 & H2 & H3 & _ & H5 & H6 & _). cbn [flat].
      specialize (IHl _ H5). specialize (IHr _ H6). sc.
    - intros e [IH _] H. cbn [flatp]. apply (IH 0). exact H.
    - intros n w1 a w2 e [IH _] (H1 & H2 & H3 & H4 & H5). cbn [flatp]. specialize (IH 0 H5). sc.
    - intros ng n w1 a w2 v vs IHvs (H0 & H1 & H2 & H3 & H4 & H5 & H6). cbn [flatp]. specialize (IHvs H6).
      destruct ng as [[nt nw]|]; cbn [ng_flat app].
      + destruct H0 as (Hn & Hw). sc.
      + sc.
    - intros w3 _. apply scoped_nil.
    - intros w1 c w2 p IHp r IHr w3 (H1 & H2 & H3 & H4 & H5 & _). cbn [flatps]. specialize (IHp H4). specialize (IHr w3 H5). sc.
    - intros _. apply scoped_nil.
    - intros w1 dot w2 id r IHr (H1 & H2 & H3 & H4 & H5). cbn [flatss]. specialize (IHr H5). sc.
    - intros w1 lb w2 e [IHe _] more IHm w3 rb r IHr (H1 & H2 & H3 & H4 & H5 & H6 & H7 & _ & H9). cbn [flatss].
      specialize (IHe 0 H4). specialize (IHm w3 H5). specialize (IHr H9). sc.
    - intros w3 _. apply scoped_nil.
    - intros w1 c w2 e [IHe _] r IHr w3 (H1 & H2 & H3 & H4 & H5 & _). cbn [flatsi]. specialize (IHe 0 H4). specialize (IHr w3 H5). sc.
  Qed.
End G.
