(* C05: the items (tokens and rejected slices) produced by the lexer model tile the text, for
   every text; line and column are the line and column of the span start; the preprocessor and
   the END_IF terminator insertion keep positions.  No bound on the size of the text. *)
From Coq Require Import List NArith Bool Lia Arith.
From Verif Require Import Base.Text Gen.GenTokens Model.Lexer.
Import ListNotations.
Open Scope N_scope.

Definition item_text (i : lex_item) : text :=
  match i with LTok t => t_text t | LErr _ _ _ _ tx => tx end.
Definition item_start (i : lex_item) : N :=
  match i with LTok t => t_start t | LErr s _ _ _ _ => s end.
Definition item_end (i : lex_item) : N :=
  match i with LTok t => t_end t | LErr _ e _ _ _ => e end.
Definition item_lc (i : lex_item) : N * N :=
  match i with LTok t => (t_line t, t_col t) | LErr _ _ l c _ => (l, c) end.

(* [tiles p lc items t]: the items partition [t] into consecutive non-empty slices; the first
   starts at byte offset [p] and carries line/column [lc]; every item's line/column is the
   running position obtained by scanning the text before it. *)
Inductive tiles : N -> N * N -> list lex_item -> text -> Prop :=
  | tiles_nil p lc : tiles p lc [] []
  | tiles_cons p lc i items rest :
      item_text i <> [] ->
      item_start i = p ->
      item_end i = p + blen (item_text i) ->
      item_lc i = lc ->
      tiles (p + blen (item_text i)) (advance (item_text i) lc) items rest ->
      tiles p lc (i :: items) (item_text i ++ rest).

(* ------------------------------------------------------------------------------------ *)
(* every candidate consumes at least one character *)

Definition cand_pos (c : option (nat * tok_kind)) : Prop :=
  match c with Some (n, _) => n <> O | None => True end.

Lemma better_pos a b : cand_pos a -> cand_pos b -> cand_pos (better a b).
Proof.
  destruct a as [[n k]|], b as [[m k']|]; cbn [better cand_pos]; intros Ha Hb; try assumption; try exact I.
  destruct (Nat.ltb n m); assumption.
Qed.

Lemma fold_better_pos l acc :
  cand_pos acc -> Forall cand_pos l -> cand_pos (fold_left better l acc).
Proof.
  revert acc; induction l as [|c l IH]; cbn [fold_left]; intros acc Ha Hl; [exact Ha|].
  inversion Hl; subst. apply IH; [apply better_pos|]; assumption.
Qed.

Lemma lit_candidate_pos t row : cand_pos (lit_candidate t row).
Proof.
  destruct row as [[p ic] k]. unfold lit_candidate.
  destruct p as [|x p]; [exact I|].
  destruct (if ic then _ else _); cbn; [discriminate|exact I].
Qed.

Lemma rx_candidate_pos t row : cand_pos (rx_candidate t row).
Proof.
  destruct row as [[pat ic] k]. unfold rx_candidate.
  destruct (regex_matcher pat ic) as [m|]; [|exact I].
  destruct (m t) as [[|n]|]; cbn; try exact I. discriminate.
Qed.

Lemma lex_one_with_pos lits rxs t n k : lex_one_with lits rxs t = Some (n, k) -> n <> O.
Proof.
  intro H.
  assert (P : cand_pos (lex_one_with lits rxs t)).
  { unfold lex_one_with. apply fold_better_pos.
    - apply fold_better_pos; [exact I|]. apply Forall_forall. intros c Hc.
      apply in_map_iff in Hc as [row [<- _]]. apply lit_candidate_pos.
    - apply Forall_forall. intros c Hc.
      apply in_map_iff in Hc as [row [<- _]]. apply rx_candidate_pos. }
  rewrite H in P. exact P.
Qed.

Lemma err_len_pos t : t <> [] -> err_len t <> O.
Proof.
  destruct t as [|c r]; [congruence|]. intros _. unfold err_len.
  repeat match goal with |- context [match ?x with _ => _ end] => destruct x end;
    cbn [List.length]; lia.
Qed.

Lemma firstn_nonempty (A : Type) n (c : A) r : n <> O -> firstn n (c :: r) <> [].
Proof. destruct n; [congruence|]. cbn. discriminate. Qed.

Lemma skipn_shorter (A : Type) n (c : A) r : n <> O -> (List.length (skipn n (c :: r)) <= List.length r)%nat.
Proof.
  destruct n; [congruence|]. intros _. cbn [skipn].
  rewrite skipn_length. lia.
Qed.

(* ------------------------------------------------------------------------------------ *)

Lemma tiles_cons' p lc i items tx rest t :
  item_text i = tx -> tx <> [] -> item_start i = p -> item_end i = p + blen tx -> item_lc i = lc ->
  t = tx ++ rest ->
  tiles (p + blen tx) (advance tx lc) items rest -> tiles p lc (i :: items) t.
Proof. intros; subst; constructor; auto. Qed.

Section Generic.
  (* any matcher that consumes at least one character when it succeeds *)
  Variable one : text -> option (nat * tok_kind).
  Hypothesis one_pos : forall t n k, one t = Some (n, k) -> n <> O.

  Lemma lex_loop_with_tiles f : forall t pos lc,
    (List.length t <= f)%nat -> tiles pos lc (lex_loop_with one f t pos lc) t.
  Proof.
    induction f as [|f IH]; intros t pos lc Hlen.
    - destruct t; [|cbn in Hlen; lia]. cbn. constructor.
    - destruct t as [|c r]; [cbn; constructor|].
      cbn [lex_loop_with].
      destruct (one (c :: r)) as [[n k]|] eqn:E.
      + assert (Hn : n <> O) by (eapply one_pos; exact E).
        eapply tiles_cons' with (tx := firstn n (c :: r)) (rest := skipn n (c :: r)).
        * reflexivity.
        * apply firstn_nonempty; exact Hn.
        * reflexivity.
        * reflexivity.
        * destruct lc; reflexivity.
        * symmetry; apply firstn_skipn.
        * apply IH. pose proof (skipn_shorter N n c r Hn). cbn in Hlen. lia.
      + assert (Hn : err_len (c :: r) <> O) by (apply err_len_pos; discriminate).
        eapply tiles_cons' with (tx := firstn (err_len (c :: r)) (c :: r)) (rest := skipn (err_len (c :: r)) (c :: r)).
        * reflexivity.
        * apply firstn_nonempty; exact Hn.
        * reflexivity.
        * reflexivity.
        * destruct lc; reflexivity.
        * symmetry; apply firstn_skipn.
        * apply IH. pose proof (skipn_shorter N _ c r Hn). cbn in Hlen. lia.
  Qed.
End Generic.

Lemma lex_loop_tiles f t pos lc :
  (List.length t <= f)%nat -> tiles pos lc (lex_loop f t pos lc) t.
Proof.
  unfold lex_loop. apply lex_loop_with_tiles. intros t' n k H.
  unfold lex_one in H. destruct (unclosed_comment t'); [discriminate|].
  exact (lex_one_with_pos literal_tokens regex_tokens t' n k H).
Qed.

Theorem lex_items_tile t : tiles 0 (0, 0) (lex_items t) t.
Proof. unfold lex_items. apply lex_loop_tiles. lia. Qed.

(* consequences spelled out *)

Lemma tiles_concat p lc items t : tiles p lc items t -> concat (map item_text items) = t.
Proof. induction 1; cbn; [reflexivity|]. congruence. Qed.

(* where the last item ends (the start offset if there is none) *)
Fixpoint end_of (p : N) (items : list lex_item) : N :=
  match items with [] => p | i :: r => end_of (item_end i) r end.

Lemma tiles_end p lc items t : tiles p lc items t -> end_of p items = p + blen t.
Proof.
  induction 1 as [|p lc i items rest Hne Hs He Hlc Ht IH]; cbn [end_of blen]; [lia|].
  rewrite He, IH, blen_app. lia.
Qed.

(* spans are adjacent: each item starts where the previous one ended *)
Fixpoint adjacent (p : N) (items : list lex_item) : Prop :=
  match items with
  | [] => True
  | i :: r => item_start i = p /\ p < item_end i /\ adjacent (item_end i) r
  end.

Lemma blen_pos t : t <> [] -> 0 < blen t.
Proof. destruct t as [|c r]; [congruence|]. intros _. cbn. pose proof (utf8_len_pos c). lia. Qed.

Lemma tiles_adjacent p lc items t : tiles p lc items t -> adjacent p items.
Proof.
  induction 1 as [|p lc i items rest Hne Hs He Hlc Ht IH]; cbn; [exact I|].
  pose proof (blen_pos _ Hne). repeat split; [assumption|lia|]. rewrite He. exact IH.
Qed.

(* ------------------------------------------------------------------------------------ *)
(* line / column: [advance] computes (number of LF, bytes after the last LF) *)

Fixpoint count_lf (t : text) : N :=
  match t with [] => 0 | c :: r => (if c =? 10 then 1 else 0) + count_lf r end.

(* the part of the text after its last line feed (the whole text if there is none) *)
Fixpoint after_last_lf (t : text) : text :=
  match t with
  | [] => []
  | c :: r => if existsb (N.eqb 10) r then after_last_lf r
              else if c =? 10 then r else c :: r
  end.

Lemma advance_app a b lc : advance (a ++ b) lc = advance b (advance a lc).
Proof. revert lc; induction a as [|c a IH]; intro lc; cbn [advance app]; [reflexivity|]. apply IH. Qed.

Lemma advance_no_lf t l c : existsb (N.eqb 10) t = false -> advance t (l, c) = (l, c + blen t).
Proof.
  revert c; induction t as [|x t IH]; intros c H; cbn [advance blen]; [f_equal; lia|].
  cbn [existsb] in H. apply orb_false_iff in H as [H1 H2].
  rewrite N.eqb_sym in H1. rewrite H1. cbn [fst snd]. rewrite IH by assumption. f_equal. lia.
Qed.

Lemma advance_spec t : forall l c,
  advance t (l, c) =
  (l + count_lf t, if existsb (N.eqb 10) t then blen (after_last_lf t) else c + blen t).
Proof.
  induction t as [|x t IH]; intros l c; cbn [advance count_lf existsb after_last_lf blen].
  - f_equal; lia.
  - destruct (x =? 10) eqn:Ex; cbn [fst snd].
    + rewrite IH. rewrite (N.eqb_sym 10 x), Ex. cbn [orb]. f_equal; try lia.
      destruct (existsb (N.eqb 10) t); [reflexivity|lia].
    + rewrite IH. rewrite (N.eqb_sym 10 x), Ex. cbn [orb]. f_equal; try lia.
      destruct (existsb (N.eqb 10) t); [reflexivity|]. cbn [blen]. lia.
Qed.

(* line and column of byte position [blen pre] in [pre ++ _] *)
Definition line_col_of (pre : text) : N * N :=
  (count_lf pre, blen (after_last_lf pre)).

Lemma advance_from_origin pre : advance pre (0, 0) = line_col_of pre.
Proof.
  rewrite advance_spec. unfold line_col_of. f_equal.
  destruct (existsb (N.eqb 10) pre) eqn:E; [reflexivity|].
  assert (H : after_last_lf pre = pre).
  { clear -E. induction pre as [|x t IH]; [reflexivity|]. cbn [existsb] in E.
    apply orb_false_iff in E as [E1 E2]. cbn [after_last_lf]. rewrite E2.
    rewrite N.eqb_sym in E1. rewrite E1. reflexivity. }
  rewrite H. lia.
Qed.

(* every item carries the line/column of its span start *)
Inductive positioned : text -> list lex_item -> Prop :=
  | positioned_nil pre : positioned pre []
  | positioned_cons pre i items :
      item_lc i = line_col_of pre ->
      item_start i = blen pre ->
      positioned (pre ++ item_text i) items ->
      positioned pre (i :: items).

Lemma tiles_positioned pre items t :
  tiles (blen pre) (advance pre (0, 0)) items t -> positioned pre items.
Proof.
  revert pre t; induction items as [|i items IH]; intros pre t H; [constructor|].
  inversion H as [|p lc i' items' rest Hne Hs He Hlc Ht]; subst.
  constructor.
  - rewrite Hlc. apply advance_from_origin.
  - assumption.
  - eapply IH. rewrite blen_app, advance_app. exact Ht.
Qed.

Theorem lex_items_positioned t : positioned [] (lex_items t).
Proof. apply tiles_positioned with (t := t). cbn. apply lex_items_tile. Qed.

(* ------------------------------------------------------------------------------------ *)
(* preprocessor: same byte length, same line structure, identical outside the blanked block *)

Lemma blank_char_blen c : blen (blank_char c) = utf8_len c.
Proof.
  unfold blank_char. destruct (c =? 10) eqn:E.
  - apply N.eqb_eq in E; subst. reflexivity.
  - assert (H : forall n, blen (repeat 32 n) = N.of_nat n).
    { induction n as [|n IHn]; [reflexivity|]. cbn [repeat blen]. rewrite IHn.
      change (utf8_len 32) with 1. lia. }
    rewrite H. lia.
Qed.

Lemma blank_blen m : blen (flat_map blank_char m) = blen m.
Proof.
  induction m as [|c m IH]; [reflexivity|]. cbn [flat_map blen].
  rewrite blen_app, blank_char_blen, IH. reflexivity.
Qed.

Lemma advance_repeat_blank n l c : advance (repeat 32 n) (l, c) = (l, c + N.of_nat n).
Proof.
  revert c; induction n as [|n IH]; intro c; cbn [repeat advance]; [f_equal; lia|].
  change (32 =? 10) with false. cbn [fst snd]. rewrite IH. change (utf8_len 32) with 1. f_equal. lia.
Qed.

Lemma blank_advance m : forall lc, advance (flat_map blank_char m) lc = advance m lc.
Proof.
  induction m as [|x m IH]; intro lc; [reflexivity|].
  cbn [flat_map]. rewrite advance_app. cbn [advance]. rewrite IH. f_equal.
  unfold blank_char. destruct (x =? 10) eqn:E.
  - cbn [advance]. apply N.eqb_eq in E; subst. reflexivity.
  - destruct lc as [l c]. rewrite advance_repeat_blank. cbn [fst snd]. f_equal. lia.
Qed.

(* the two OSCAT markers cannot overlap: the slice taken by the Rust code is well formed *)
Lemma find_sub_some p : forall t s, find_sub p t = Some s -> prefix_eq p (skipn s t) = true.
Proof.
  induction t as [|c t IH]; intros s H.
  - cbn [find_sub] in H. destruct (prefix_eq p []) eqn:E; [|discriminate].
    inversion H; subst. exact E.
  - cbn [find_sub] in H. destruct (prefix_eq p (c :: t)) eqn:E.
    + inversion H; subst. exact E.
    + destruct (find_sub p t) as [s'|] eqn:F; [|discriminate]. cbn in H. inversion H; subst.
      cbn [skipn]. apply IH. reflexivity.
Qed.

Lemma prefix_eq_nth p : forall t d x,
  prefix_eq p t = true -> nth_error p d = Some x -> nth_error t d = Some x.
Proof.
  induction p as [|y p IH]; intros t d x H Hn; [destruct d; discriminate|].
  destruct t as [|z t]; [discriminate|]. cbn [prefix_eq] in H.
  apply andb_true_iff in H as [H1 H2]. apply N.eqb_eq in H1. subst z.
  destruct d; cbn in *; [assumption|]. eapply IH; eassumption.
Qed.

Lemma nth_error_skipn' (A : Type) n : forall (l : list A) m, nth_error (skipn n l) m = nth_error l (n + m).
Proof.
  induction n as [|n IH]; intros l m; [reflexivity|].
  destruct l; cbn [skipn]; [destruct m; reflexivity|]. apply IH.
Qed.

Lemma oscat_open_no_paren :
  forallb (fun d => match nth_error oscat_open d with Some x => negb (x =? 40) | None => false end)
          (seq 1 20) = true.
Proof. vm_compute. reflexivity. Qed.

Lemma oscat_markers_apart t s e :
  find_sub oscat_open t = Some s -> find_sub oscat_close t = Some e -> (s < e)%nat ->
  (s + List.length oscat_open <= e)%nat.
Proof.
  intros Ho Hc Hlt. apply find_sub_some in Ho. apply find_sub_some in Hc.
  change (List.length oscat_open) with 21%nat.
  destruct (Nat.le_gt_cases (s + 21) e) as [|Hgt]; [assumption|exfalso].
  set (d := (e - s)%nat).
  assert (Hd : In d (seq 1 20)) by (apply in_seq; unfold d; lia).
  pose proof (proj1 (forallb_forall _ _) oscat_open_no_paren d Hd) as Hx. cbn beta in Hx.
  destruct (nth_error oscat_open d) as [x|] eqn:Ex; [|discriminate].
  pose proof (prefix_eq_nth _ _ _ _ Ho Ex) as H1.
  assert (H0 : nth_error oscat_close 0 = Some 40) by reflexivity.
  pose proof (prefix_eq_nth _ _ _ _ Hc H0) as H2.
  rewrite nth_error_skipn' in H1, H2.
  replace (s + d)%nat with (e + 0)%nat in H1 by (unfold d; lia).
  rewrite H1 in H2. inversion H2; subst. discriminate.
Qed.

Lemma skipn_skipn' (A : Type) m : forall n (l : list A), skipn n (skipn m l) = skipn (n + m) l.
Proof.
  induction m as [|m IH]; intros n l.
  - rewrite Nat.add_0_r. reflexivity.
  - destruct l as [|x l]; [rewrite !skipn_nil; reflexivity|].
    rewrite Nat.add_succ_r. cbn [skipn]. apply IH.
Qed.

(* full characterisation of [preprocess]: either the text is unchanged, or it is a ++ m ++ b and
   only m is replaced, by blanks of the same byte length with every line feed kept *)
Theorem preprocess_shape t :
  preprocess t = t \/
  exists a m b, t = a ++ m ++ b /\ preprocess t = a ++ flat_map blank_char m ++ b.
Proof.
  unfold preprocess.
  destruct (find_sub oscat_open t) as [s|] eqn:Fo; [|left; reflexivity].
  destruct (find_sub oscat_close t) as [e|] eqn:Fc; [|left; reflexivity].
  destruct (Nat.ltb s e) eqn:L; [|left; reflexivity].
  apply Nat.ltb_lt in L.
  pose proof (oscat_markers_apart t s e Fo Fc L) as Hk.
  right. set (k := (s + List.length oscat_open)%nat) in *.
  exists (firstn k t), (firstn (e - k) (skipn k t)), (skipn (e - k) (skipn k t)).
  split.
  - rewrite (firstn_skipn (e - k) (skipn k t)). rewrite firstn_skipn. reflexivity.
  - do 2 f_equal. rewrite skipn_skipn'. replace (e - k + k)%nat with e by lia. reflexivity.
Qed.

Theorem preprocess_keeps_offsets t :
  blen (preprocess t) = blen t /\ forall lc, advance (preprocess t) lc = advance t lc.
Proof.
  destruct (preprocess_shape t) as [H|[a [m [b [Ht Hp]]]]].
  - rewrite H. split; reflexivity.
  - rewrite Hp. split.
    + rewrite Ht. rewrite !blen_app, blank_blen. reflexivity.
    + intro lc. rewrite Ht. rewrite !advance_app, blank_advance. reflexivity.
Qed.

(* prefixes too: a byte offset of the preprocessed text denotes the same line and column in the
   original text whenever it lies outside the blanked block (or anywhere inside it, the block
   being blanked character by character) *)
Lemma preprocess_prefix_positions t :
  preprocess t = t \/
  exists a m b, t = a ++ m ++ b /\ preprocess t = a ++ flat_map blank_char m ++ b /\
    (forall m1 m2, m = m1 ++ m2 ->
       blen (a ++ flat_map blank_char m1) = blen (a ++ m1) /\
       advance (a ++ flat_map blank_char m1) (0, 0) = advance (a ++ m1) (0, 0)).
Proof.
  destruct (preprocess_shape t) as [H|[a [m [b [Ht Hp]]]]]; [left; exact H|right].
  exists a, m, b. repeat split; try assumption.
  - rewrite !blen_app, blank_blen. reflexivity.
  - rewrite !advance_app, blank_advance. reflexivity.
Qed.

(* ------------------------------------------------------------------------------------ *)
(* xform_tokens: the inserted ';' has empty text and the position of the token it precedes;
   removing the inserted tokens gives back the input *)

Definition synthetic (tk : token) : bool := match t_text tk with [] => true | _ => false end.

Lemma insert_terminators_erase ts : forall b,
  Forall (fun tk => t_text tk <> []) ts ->
  filter (fun tk => negb (synthetic tk)) (insert_terminators_from b ts) = ts.
Proof.
  induction ts as [|tk r IH]; intros b H; [reflexivity|].
  inversion H as [|? ? Hne Hr]; subst.
  assert (Hs : synthetic tk = false) by (unfold synthetic; destruct (t_text tk); congruence).
  cbn [insert_terminators_from].
  destruct (negb b && kind_eqb (t_kind tk) KEndIf).
  - cbn [filter]. rewrite Hs. cbn. f_equal. apply IH; assumption.
  - destruct (b && negb (kind_eqb (t_kind tk) KSemicolon) && negb (kind_eqb (t_kind tk) KComment)
                && negb (kind_eqb (t_kind tk) KWhitespace)).
    + cbn [filter synthetic t_text negb]. rewrite Hs. cbn. f_equal. apply IH; assumption.
    + cbn [filter]. rewrite Hs. cbn. f_equal. apply IH; assumption.
Qed.

(* every synthetic token is a ';' placed immediately before a real token whose span, line
   and column it copies *)
Inductive synth_ok : list token -> Prop :=
  | so_nil : synth_ok []
  | so_real tk r : synthetic tk = false -> synth_ok r -> synth_ok (tk :: r)
  | so_synth s tk r :
      synthetic s = true -> synthetic tk = false -> t_kind s = KSemicolon ->
      t_start s = t_start tk -> t_end s = t_end tk -> t_line s = t_line tk -> t_col s = t_col tk ->
      synth_ok r -> synth_ok (s :: tk :: r).

Lemma insert_terminators_synth_ok ts : forall b,
  Forall (fun tk => t_text tk <> []) ts -> synth_ok (insert_terminators_from b ts).
Proof.
  induction ts as [|tk r IH]; intros b H; [constructor|].
  inversion H as [|? ? Hne Hr]; subst.
  assert (Hs : synthetic tk = false) by (unfold synthetic; destruct (t_text tk); congruence).
  cbn [insert_terminators_from].
  destruct (negb b && kind_eqb (t_kind tk) KEndIf).
  - apply so_real; [assumption|apply IH; assumption].
  - destruct (b && negb (kind_eqb (t_kind tk) KSemicolon) && negb (kind_eqb (t_kind tk) KComment)
                && negb (kind_eqb (t_kind tk) KWhitespace)).
    + apply so_synth; try reflexivity; try assumption. apply IH; assumption.
    + apply so_real; [assumption|apply IH; assumption].
Qed.

Lemma tiles_tokens_nonempty p lc items t :
  tiles p lc items t -> Forall (fun tk => t_text tk <> []) (tokens_of items).
Proof.
  induction 1 as [|p lc i items rest Hne Hs He Hlc Ht IH]; [constructor|].
  unfold tokens_of in *. cbn [flat_map]. destruct i as [tk|]; cbn [app]; [|exact IH].
  constructor; [exact Hne|exact IH].
Qed.
