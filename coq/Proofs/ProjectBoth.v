(* C03: the project never merges files by content. *)
From Coq Require Import List NArith Bool.
From Verif Require Import Model.Lsp Model.Project Proofs.ProjectProofs.
Import ListNotations.
Open Scope N_scope.

(* two files that hold the SAME text (or texts that parse to equal libraries) are two sources: both are handed to the analysis,
   under their own identifiers -- the project never merges files by content *)
Theorem equal_files_both_analyzed (text : Type) (d : docs text) k1 k2 t :
  k1 <> k2 -> get text d k1 = Some t -> get text d k2 = Some t ->
  In (k1, t) (listing text d) /\ In (k2, t) (listing text d) /\ (k1, t) <> (k2, t).
Proof.
  intros Hne H1 H2. split; [apply listing_spec; exact H1|]. split; [apply listing_spec; exact H2|].
  intro E. inversion E. contradiction.
Qed.
