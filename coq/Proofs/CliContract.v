(* C13: exit status, OK line and coded diagnostics of the command-line model always agree. *)
From Coq Require Import List NArith Bool Lia.
From Verif Require Import Model.Cli.
Import ListNotations.
Open Scope N_scope.

Section Contract.
  Variable C : Type.
  Variable fs : path -> node C.
  Variable tok_errs : C -> list code.
  Variable parse_err : C -> option code.
  Variable analysis : list C -> list code.
  Variable render_err : C -> option code.

  Notation check := (check C fs tok_errs parse_err analysis).
  Notation tokenize := (tokenize C fs tok_errs).
  Notation echo := (echo C fs tok_errs parse_err render_err).
  Notation create_project := (create_project C fs).
  Notation semantic := (semantic C tok_errs parse_err analysis).

  Lemma create_project_err ps ds : create_project ps = inr ds -> ds <> [].
  Proof.
    unfold Cli.create_project. destruct (enumerate_all C fs ps) as [files eerrs].
    destruct eerrs as [|e r]; [|intro H; inversion H; discriminate].
    destruct (read_all C fs files) as [cs rerrs]. destruct rerrs; intro H; inversion H. discriminate.
  Qed.

  (* check: exit 0, the OK line and "no coded diagnostic" are equivalent; a failure always
     carries at least one coded diagnostic *)
  Theorem check_contract ps :
    let o := check ps in
    (exit o = 0 <-> ok_line o = true) /\ (exit o = 0 <-> coded o = []) /\ (exit o <> 0 -> coded o <> []).
  Proof.
    cbv zeta. unfold Cli.check. destruct (create_project ps) as [cs|ds] eqn:Ec.
    - destruct (semantic cs) as [|d r]; cbn [exit ok_line coded failed].
      + repeat split; intros; try reflexivity; try congruence.
      + repeat split; intros; try discriminate; try congruence.
    - pose proof (create_project_err ps ds Ec). cbn [exit ok_line coded failed].
      repeat split; intros; try discriminate; try congruence.
  Qed.

  (* the only exit statuses are 0 and 1 *)
  Theorem check_exit ps : exit (check ps) = 0 \/ exit (check ps) = 1.
  Proof.
    unfold Cli.check. destruct (create_project ps) as [cs|ds]; [|right; reflexivity].
    destruct (semantic cs); [left | right]; reflexivity.
  Qed.

  (* a directory of files is the list of its entries *)
  Lemma enumerate_all_files es :
    (forall e, In e es -> exists d, fs e = File C d) -> enumerate_all C fs es = (es, []).
  Proof.
    induction es as [|e r IH]; intro H; [reflexivity|].
    cbn [enumerate_all]. rewrite IH by (intros x Hx; apply H; right; exact Hx).
    unfold enumerate. destruct (H e (or_introl eq_refl)) as [d ->]. reflexivity.
  Qed.

  Theorem check_directory d es :
    fs d = Dir C es -> (forall e, In e es -> exists c, fs e = File C c) ->
    check [d] = check es /\ tokenize [d] = tokenize es /\ echo [d] = echo es.
  Proof.
    intros Hd He.
    assert (E : create_project [d] = create_project es).
    { unfold Cli.create_project. cbn [enumerate_all]. unfold enumerate at 1. rewrite Hd.
      rewrite (enumerate_all_files es He). rewrite app_nil_r. reflexivity. }
    unfold Cli.check, Cli.tokenize, Cli.echo. rewrite E. repeat split; reflexivity.
  Qed.

  (* tokenize and echo exit 0 exactly when every given file tokenizes / parses (and renders) *)
  Lemma tokenize_files_none cs : tokenize_files C tok_errs cs = None <-> forall c, In c cs -> tok_errs c = [].
  Proof.
    induction cs as [|c r IH]; cbn [tokenize_files]; [split; [intros _ x [] | reflexivity]|].
    destruct (tok_errs c) eqn:E.
    - rewrite IH. split; [intros H x [<-|Hx]; [exact E | apply H; exact Hx] | intros H x Hx; apply H; right; exact Hx].
    - split; [discriminate | intro H; specialize (H c (or_introl eq_refl)); congruence].
  Qed.

  Theorem tokenize_contract ps cs : create_project ps = inl cs ->
    (exit (tokenize ps) = 0 <-> forall c, In c cs -> tok_errs c = []) /\
    (exit (tokenize ps) = 0 <-> ok_line (tokenize ps) = true).
  Proof.
    intro E. unfold Cli.tokenize. rewrite E. rewrite <- tokenize_files_none.
    destruct (tokenize_files C tok_errs cs); cbn [exit ok_line failed]; split; split; intros; congruence.
  Qed.

  Lemma echo_files_bad cs : forall acc bad,
    snd (fst (echo_files C tok_errs parse_err render_err cs acc bad)) = false <->
    bad = false /\ forall c, In c cs -> parse_diag C tok_errs parse_err c = [] /\ render_err c = None.
  Proof.
    induction cs as [|c r IH]; intros acc bad; cbn [echo_files].
    - cbn. split; [intro H; split; [exact H | intros x []] | intros [H _]; exact H].
    - destruct (parse_diag C tok_errs parse_err c) eqn:Ep.
      + destruct (render_err c) eqn:Er.
        * cbn. split; [discriminate | intros [_ H]; destruct (H c (or_introl eq_refl)); congruence].
        * rewrite IH. split; intros [H1 H2]; (split; [exact H1|]).
          -- intros x [<-|Hx]; [split; assumption | apply H2; exact Hx].
          -- intros x Hx; apply H2; right; exact Hx.
      + rewrite IH. split; [intros [H _]; discriminate|].
        intros [_ H]. destruct (H c (or_introl eq_refl)) as [H1 _]. congruence.
  Qed.

  Theorem echo_contract ps cs : create_project ps = inl cs ->
    (exit (echo ps) = 0 <-> forall c, In c cs -> parse_diag C tok_errs parse_err c = [] /\ render_err c = None).
  Proof.
    intro E. unfold Cli.echo. rewrite E.
    pose proof (echo_files_bad cs [] false) as H.
    destruct (echo_files C tok_errs parse_err render_err cs [] false) as [[ds bad] x]. cbn [fst snd exit] in *.
    destruct bad; split; intro G; try discriminate; try reflexivity.
    - assert (X : true = false) by (apply H; split; [reflexivity | exact G]). discriminate.
    - apply H. reflexivity.
  Qed.

  (* no error is masked by the front end (used by C03): a file that does not parse makes check fail *)
  Theorem semantic_parse_error cs c : In c cs -> parse_diag C tok_errs parse_err c <> [] -> semantic cs <> [].
  Proof.
    intros Hin Hp. unfold Cli.semantic.
    assert (Hne : flat_map (parse_diag C tok_errs parse_err) cs <> []).
    { intro E. apply Hp. destruct (parse_diag C tok_errs parse_err c) as [|x l] eqn:Ec; [reflexivity|].
      assert (In x (flat_map (parse_diag C tok_errs parse_err) cs)) by (apply in_flat_map; exists c; split; [exact Hin | rewrite Ec; left; reflexivity]).
      rewrite E in H. destruct H. }
    destruct (flat_map (parse_diag C tok_errs parse_err) cs) as [|p pr] eqn:Ef; [congruence|].
    destruct (filter (parses C tok_errs parse_err) cs); [discriminate|].
    destruct (analysis (c0 :: l)); discriminate.
  Qed.
End Contract.
