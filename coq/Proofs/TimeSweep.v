(* The complete sweep of the 10^6 fractions of a second (see Proofs/TimeRenderProofs.v), in a file of its own so that it is
   evaluated once: the kernel's virtual machine runs it at Qed (about two minutes). *)
From Coq Require Import List NArith Bool Lia Arith.
From Verif Require Import Base.Text Model.Literals Model.TimeRender Proofs.LitProofs.
Import ListNotations.
Open Scope N_scope.

Definition digit_ok (d : N) : bool := d <? 10.

(* what is needed of the fraction digits of one value *)
Definition frac_ok (micro : N) : bool :=
  let d := fraction_of_second micro in
  forallb digit_ok d && (Nat.leb 2 (length d)) && (Nat.leb (length d) 6) &&
  (horner 10 d * 10 ^ N.of_nat (15 - length d) =? micro * 1000000000).

Fixpoint all_below (n : nat) (p : N -> bool) : bool :=
  match n with
  | O => true
  | S n' => p (N.of_nat n') && all_below n' p
  end.

Lemma all_below_spec n p : all_below n p = true -> forall k, (k < N.of_nat n) -> p k = true.
Proof.
  induction n as [|n IH]; intros H k Hk; [lia|]. cbn [all_below] in H. apply andb_prop in H. destruct H as [H1 H2].
  destruct (N.eq_dec k (N.of_nat n)) as [->|Hne]; [exact H1|]. apply IH; [exact H2|lia].
Qed.

Lemma sweep : all_below 1000 (fun hi => all_below 1000 (fun lo => frac_ok (hi * 1000 + lo))) = true.
Proof. vm_cast_no_check (eq_refl true). Qed.   (* evaluated once, by the kernel's virtual machine, at Qed *)

