(* C01 (Stage B): the expression parser model returns the intended tree for every well-formed spelling.
   A spelled tree records every spelling choice of an expression: which tokens, how much trivia at every
   slot, which redundant parentheses.  [flat] writes it down, [erase] says what it means.  The theorem:
   for every spelled tree that is well-formed at level q (parentheses present wherever IEC 61131-3 B.3.1
   needs them) the parser, given enough fuel, returns [erase s] and leaves exactly the rest.
   No bound on size, depth, or amount of trivia. *)
From Coq Require Import List Arith Lia Bool.
From Verif Require Import Base.Res Model.ExprParser.
Import ListNotations.

Section Generic.
  Variable tk : Type.
  Variable B U A : Type.
  Variable triv : tk -> bool.
  Variable bop : tk -> option (nat * B).
  Variable uop : tk -> option U.
  Variable atom : tk -> option (A * bool).
  Variable lp rp : tk -> bool.
  Variable noafter : tk -> bool.

  Notation expr := (expr B U A).
  Notation PR := (PR tk B U A).
  Notation skip := (skip tk triv).
  Notation prim := (prim tk B U A triv atom lp rp noafter).
  Notation unary := (unary tk B U A triv uop atom lp rp noafter).
  Notation loop := (loop tk B U A triv bop).
  Notation parse_e := (parse_e tk B U A triv bop uop atom lp rp noafter).

  (* ---- monotonicity in the fuel ---- *)
  Definition defined (r : PR) : Prop := match r with OutOfFuel => False | _ => True end.
  Definition le_p (p p' : nat -> list tk -> PR) : Prop := forall m ts, defined (p m ts) -> p' m ts = p m ts.

  Lemma prim_mono p p' ts : le_p p p' -> defined (prim p ts) -> prim p' ts = prim p ts.
  Proof.
    intros L D. unfold ExprParser.prim in *. destruct ts as [|t r]; [reflexivity|].
    destruct (atom t) as [[a [|]]|]; try reflexivity.
    destruct (lp t); [|reflexivity].
    destruct (p 0 (skip r)) as [[e r']| | |] eqn:E; cbn in D; try contradiction;
      rewrite (L 0 (skip r)) by (rewrite E; exact I); rewrite E; reflexivity.
  Qed.

  Lemma unary_mono p p' ts : le_p p p' -> defined (unary p ts) -> unary p' ts = unary p ts.
  Proof.
    intros L D. unfold ExprParser.unary in *.
    destruct ts as [|t r]; [apply prim_mono; assumption|].
    destruct (uop t) as [o|]; [|apply prim_mono; assumption].
    destruct (prim p (skip r)) as [[e r']| | |] eqn:E; cbn in D; try contradiction.
    - rewrite (prim_mono p p' _ L) by (rewrite E; exact I). rewrite E. reflexivity.
    - rewrite (prim_mono p p' (skip r) L) by (rewrite E; exact I). rewrite E. apply prim_mono; assumption.
    - rewrite (prim_mono p p' (skip r) L) by (rewrite E; exact I). rewrite E. reflexivity.
  Qed.

  Lemma loop_mono p p' f k minp acc ts :
    le_p p p' -> defined (loop p f minp acc ts) -> loop p' (f + k) minp acc ts = loop p f minp acc ts.
  Proof.
    intros L. revert minp acc ts. induction f as [|f IH]; intros minp acc ts D; cbn in *; [contradiction|].
    destruct (skip ts) as [|t r]; [reflexivity|].
    destruct (bop t) as [[lv o]|]; [|reflexivity].
    destruct (Nat.leb minp lv); [|reflexivity].
    destruct (p (S lv) (skip r)) as [[e r']| | |] eqn:E; cbn in D; try contradiction;
      rewrite (L _ _) by (rewrite E; exact I); rewrite E; try reflexivity.
    apply IH. exact D.
  Qed.

  Lemma parse_le f k : le_p (parse_e f) (parse_e (f + k)).
  Proof.
    induction f as [|f IH]; intros m ts D; cbn in *; [contradiction|].
    destruct (unary (parse_e f) ts) as [[a r]| | |] eqn:E; cbn in D; try contradiction.
    - rewrite (unary_mono (parse_e f)) by (auto; rewrite E; exact I). rewrite E. apply loop_mono; auto.
    - rewrite (unary_mono (parse_e f)) by (auto; rewrite E; exact I). rewrite E. reflexivity.
    - rewrite (unary_mono (parse_e f)) by (auto; rewrite E; exact I). rewrite E. reflexivity.
  Qed.

  Lemma parse_mono f f' minp ts x : f <= f' -> parse_e f minp ts = Ok x -> parse_e f' minp ts = Ok x.
  Proof.
    intros L H. replace f' with (f + (f' - f)) by lia. rewrite parse_le by (rewrite H; exact I). exact H.
  Qed.

  (* ---- spelled trees ---- *)
  Inductive sp :=
    | SNum (t : tk) (a : A)                                   (* a constant token *)
    | SName (t : tk) (a : A) (w : list tk)                    (* an identifier token and the trivia after it *)
    | SParen (tl : tk) (w1 : list tk) (s : sp) (w2 : list tk) (tr : tk)
    | SUn (t : tk) (o : U) (w : list tk) (s : sp)
    | SBin (t : tk) (lv : nat) (o : B) (l : sp) (w1 w2 : list tk) (r : sp).

  Fixpoint flat (s : sp) : list tk :=
    match s with
    | SNum t _ => [t]
    | SName t _ w => t :: w
    | SParen tl w1 s w2 tr => tl :: w1 ++ flat s ++ w2 ++ [tr]
    | SUn t _ w s => t :: w ++ flat s
    | SBin t _ _ l w1 w2 r => flat l ++ w1 ++ t :: w2 ++ flat r
    end.

  Fixpoint erase (s : sp) : expr :=
    match s with
    | SNum _ a => EAtom B U A a
    | SName _ a _ => EAtom B U A a
    | SParen _ _ s _ _ => erase s
    | SUn _ o _ s => EUn B U A o (erase s)
    | SBin _ _ o l _ _ r => EBin B U A o (erase l) (erase r)
    end.

  Definition is_prim (s : sp) : bool :=
    match s with SNum _ _ | SName _ _ _ | SParen _ _ _ _ _ => true | _ => false end.

  Fixpoint ends_name (s : sp) : bool :=
    match s with
    | SNum _ _ => false
    | SName _ _ _ => true
    | SParen _ _ _ _ _ => false
    | SUn _ _ _ s => ends_name s
    | SBin _ _ _ _ _ _ r => ends_name r
    end.

  Definition all_triv (w : list tk) : Prop := Forall (fun t => triv t = true) w.
  (* a token that starts something: not trivia *)
  Definition solid (t : tk) : Prop := triv t = false.

  (* well-formed at level p: token classes are right, trivia is trivia, parentheses are where the
     grammar needs them, and the trivia that follows an identifier is recorded at the identifier *)
  Fixpoint wf (p : nat) (s : sp) : Prop :=
    match s with
    | SNum t a => solid t /\ atom t = Some (a, false) /\ uop t = None
    | SName t a w => solid t /\ atom t = Some (a, true) /\ uop t = None /\ all_triv w
    | SParen tl w1 s w2 tr =>
        solid tl /\ atom tl = None /\ uop tl = None /\ lp tl = true /\
        solid tr /\ rp tr = true /\ noafter tr = false /\ bop tr = None /\
        all_triv w1 /\ all_triv w2 /\ wf 0 s /\ (ends_name s = true -> w2 = [])
    | SUn t o w s => solid t /\ uop t = Some o /\ all_triv w /\ is_prim s = true /\ wf 0 s
    | SBin t lv o l w1 w2 r =>
        solid t /\ bop t = Some (lv, o) /\ noafter t = false /\
        all_triv w1 /\ all_triv w2 /\ p <= lv /\ wf lv l /\ wf (S lv) r /\ (ends_name l = true -> w1 = [])
    end.

  (* what may follow: no infix operator of level >= k, and after an identifier no '(' '[' '.' and no trivia *)
  Definition follow_lt (k : nat) (rest : list tk) : Prop :=
    match skip rest with
    | t :: _ => match bop t with Some (lv, _) => lv < k | None => True end
    | [] => True
    end.
  Definition follow_name (rest : list tk) : Prop :=
    skip rest = rest /\ match rest with t :: _ => noafter t = false | [] => True end.
  Definition follow_ok (s : sp) (rest : list tk) : Prop := ends_name s = true -> follow_name rest.

  Definition top_lvl (s : sp) : option nat := match s with SBin _ lv _ _ _ _ _ => Some lv | _ => None end.
  Definition follow_top (s : sp) (rest : list tk) : Prop :=
    match top_lvl s with Some k => follow_lt (S k) rest | None => True end.

  Lemma skip_app_triv w r : all_triv w -> skip (w ++ r) = skip r.
  Proof. induction 1 as [|t w Ht _ IH]; [reflexivity|]. cbn. rewrite Ht. exact IH. Qed.

  Lemma skip_solid t r : solid t -> skip (t :: r) = t :: r.
  Proof. intro H. cbn. unfold solid in H. rewrite H. reflexivity. Qed.

  Lemma wf_mono p q s : q <= p -> wf p s -> wf q s.
  Proof. destruct s; cbn; intuition lia. Qed.

  (* the first token of a well-formed spelling is not trivia *)
  Lemma flat_solid s : forall p r, wf p s -> exists t r', flat s ++ r = t :: r' /\ solid t.
  Proof.
    induction s as [t a|t a w|tl w1 s IH w2 tr|t o w s IH|t lv o l IHl w1 w2 r IHr]; intros p rest H; cbn in H.
    - exists t, rest. split; [reflexivity | tauto].
    - exists t, (w ++ rest). split; [reflexivity | tauto].
    - eexists tl, _. split; [cbn; reflexivity | tauto].
    - eexists t, _. split; [cbn; reflexivity | tauto].
    - destruct H as (_ & _ & _ & _ & _ & _ & Hl & _). cbn [flat]. rewrite <- app_assoc. exact (IHl lv _ Hl).
  Qed.

  Lemma flat_skip s p r : wf p s -> skip (flat s ++ r) = flat s ++ r.
  Proof.
    intro H. destruct (flat_solid s p r H) as (t & r' & E & Ht). rewrite E. apply skip_solid. exact Ht.
  Qed.

  Lemma loop_stop pe f minp acc rest : follow_lt minp rest -> loop pe (S f) minp acc rest = Ok (acc, rest).
  Proof.
    unfold follow_lt. cbn [ExprParser.loop]. destruct (skip rest) as [|t r]; [reflexivity|].
    destruct (bop t) as [[lv o]|]; [|reflexivity].
    intro H. destruct (Nat.leb_spec minp lv); [lia | reflexivity].
  Qed.

  (* ---- the main induction (loop form) ---- *)
  Lemma main : forall s,
    (forall q rest g x, wf q s -> follow_top s rest -> follow_ok s rest ->
       (forall f, g <= f -> loop (parse_e f) f q (erase s) rest = Ok x) ->
       exists f0, forall f, f0 <= f -> parse_e f q (flat s ++ rest) = Ok x)
    /\
    (is_prim s = true -> wf 0 s -> forall rest, follow_ok s rest -> exists f0, forall f, f0 <= f ->
       prim (parse_e f) (flat s ++ rest) = Ok (erase s, rest)).
  Proof.
    induction s as [t a|t a w|tl w1 s [IH _] w2 tr|t o w s [IH IHp]|t lv o l [IHl _] w1 w2 r [IHr _]].
    - (* constant *)
      assert (Hprim : wf 0 (SNum t a) -> forall rest f, prim (parse_e f) (flat (SNum t a) ++ rest) = Ok (EAtom B U A a, rest)).
      { intros (Hs & Ha & Hu) rest f. cbn [flat app ExprParser.prim]. rewrite Ha. reflexivity. }
      split.
      + intros q rest g x Hwf _ _ Hl. exists (S g). intros f Hf. destruct f as [|f]; [lia|].
        cbn [ExprParser.parse_e]. unfold ExprParser.unary. cbn [flat app].
        destruct Hwf as (Hs & Ha & Hu). rewrite Hu. rewrite (skip_solid t rest Hs).
        change (t :: rest) with (flat (SNum t a) ++ rest). rewrite Hprim by (cbn; tauto).
        apply Hl. lia.
      + intros _ Hwf rest _. exists 0. intros f _. apply Hprim. exact Hwf.
    - (* identifier *)
      assert (Hprim : wf 0 (SName t a w) -> forall rest f, follow_name rest ->
                      prim (parse_e f) (flat (SName t a w) ++ rest) = Ok (EAtom B U A a, rest)).
      { intros (Hs & Ha & Hu & Hw) rest f (Hsk & Hn). cbn [flat app ExprParser.prim]. rewrite Ha.
        rewrite (skip_app_triv w rest Hw), Hsk. destruct rest as [|n r']; [reflexivity|]. rewrite Hn. reflexivity. }
      split.
      + intros q rest g x Hwf _ Hok Hl. exists (S g). intros f Hf. destruct f as [|f]; [lia|].
        cbn [ExprParser.parse_e]. unfold ExprParser.unary. cbn [flat app].
        pose proof Hwf as (Hs & Ha & Hu & Hw). rewrite Hu. rewrite (skip_solid t (w ++ rest) Hs).
        change (t :: w ++ rest) with (flat (SName t a w) ++ rest).
        rewrite Hprim; [apply Hl; lia | exact Hwf | apply Hok; reflexivity].
      + intros _ Hwf rest Hok. exists 0. intros f _. apply Hprim; [exact Hwf | apply Hok; reflexivity].
    - (* parentheses *)
      assert (Hprim : wf 0 (SParen tl w1 s w2 tr) -> forall rest, exists f0, forall f, f0 <= f ->
                      prim (parse_e f) (flat (SParen tl w1 s w2 tr) ++ rest) = Ok (erase s, rest)).
      { intros (Hsl & Hal & Hul & Hlp & Hsr & Hrp & Hnr & Hbr & Hw1 & Hw2 & Hwf & Hend) rest.
        destruct (IH 0 (w2 ++ tr :: rest) 1 (erase s, w2 ++ tr :: rest) Hwf) as [f1 H1].
        { unfold follow_top. destruct (top_lvl s); [|exact I]. unfold follow_lt.
          rewrite (skip_app_triv w2 _ Hw2), (skip_solid tr rest Hsr), Hbr. exact I. }
        { intro He. rewrite (Hend He). cbn [app]. split; [apply skip_solid; exact Hsr | exact Hnr]. }
        { intros f Hf. destruct f as [|f]; [lia|]. apply loop_stop. unfold follow_lt.
          rewrite (skip_app_triv w2 _ Hw2), (skip_solid tr rest Hsr), Hbr. exact I. }
        exists f1. intros f Hf. cbn [flat app ExprParser.prim]. rewrite Hal, Hlp.
        rewrite <- !app_assoc. rewrite (skip_app_triv w1 _ Hw1). cbn [app].
        rewrite (flat_skip s 0 _ Hwf). rewrite (H1 f Hf).
        rewrite (skip_app_triv w2 _ Hw2), (skip_solid tr rest Hsr), Hrp. reflexivity. }
      split.
      + intros q rest g x Hwf _ _ Hl. cbn in Hwf.
        destruct (Hprim Hwf rest) as [f1 H1].
        exists (S (f1 + g)). intros f Hf. destruct f as [|f]; [lia|].
        cbn [ExprParser.parse_e]. unfold ExprParser.unary.
        destruct Hwf as (Hsl & Hal & Hul & Hrest).
        cbn [flat app]. rewrite Hul. rewrite (skip_solid tl _ Hsl).
        change (tl :: (w1 ++ flat s ++ w2 ++ [tr]) ++ rest) with (flat (SParen tl w1 s w2 tr) ++ rest).
        rewrite H1 by lia. apply Hl. lia.
      + intros _ Hwf rest _. apply Hprim. exact Hwf.
    - (* unary operator *)
      split; [|discriminate].
      intros q rest g x Hwf _ Hok Hl. cbn in Hwf. destruct Hwf as (Hs & Hu & Hw & Hp & Hwf).
      destruct (IHp Hp Hwf rest) as [f1 H1].
      { intro He. apply Hok. cbn. exact He. }
      exists (S (f1 + g)). intros f Hf. destruct f as [|f]; [lia|].
      cbn [ExprParser.parse_e]. unfold ExprParser.unary. cbn [flat app]. rewrite Hu.
      rewrite <- app_assoc. rewrite (skip_app_triv w _ Hw). rewrite (flat_skip s 0 rest Hwf).
      rewrite H1 by lia. apply Hl. lia.
    - (* infix operator *)
      split; [|discriminate].
      intros q rest g x Hwf Hfol Hok Hloop. cbn in Hwf.
      destruct Hwf as (Hs & Hb & Hn & Hw1 & Hw2 & Hq & Hwl & Hwr & Hend).
      unfold follow_top in Hfol. cbn [top_lvl] in Hfol.
      (* the right operand parses one level higher and stops at rest *)
      destruct (IHr (S lv) rest 1 (erase r, rest) Hwr) as [fr Hr].
      { unfold follow_top. destruct r; cbn [top_lvl]; try exact I. cbn in Hwr.
        unfold follow_lt in *. destruct (skip rest) as [|t' r']; [exact I|].
        destruct (bop t') as [[lv' o']|]; [lia | exact I]. }
      { intro He. apply Hok. cbn. exact He. }
      { intros f Hf. destruct f as [|f]; [lia|]. apply loop_stop. exact Hfol. }
      (* the left operand parses at q and the loop continues with the operator *)
      destruct (IHl q (w1 ++ t :: w2 ++ flat r ++ rest) (S (fr + g)) x) as [fl Hl].
      { apply wf_mono with (p := lv); assumption. }
      { unfold follow_top. destruct l; cbn [top_lvl]; try exact I. cbn in Hwl.
        unfold follow_lt. rewrite (skip_app_triv w1 _ Hw1), (skip_solid t _ Hs), Hb. lia. }
      { intro He. rewrite (Hend He). cbn [app]. split; [apply skip_solid; exact Hs | exact Hn]. }
      { intros f Hf. destruct f as [|f]; [lia|]. cbn [ExprParser.loop].
        rewrite (skip_app_triv w1 _ Hw1), (skip_solid t _ Hs), Hb.
        destruct (Nat.leb_spec q lv); [|lia].
        rewrite (skip_app_triv w2 _ Hw2). rewrite (flat_skip r (S lv) rest Hwr).
        rewrite (parse_mono fr (S f) _ _ (erase r, rest)); [|lia | apply Hr; lia].
        replace f with (f + 0) at 2 by lia.
        rewrite (loop_mono (parse_e f) (parse_e (S f))).
        - apply Hloop. lia.
        - replace (S f) with (f + 1) by lia. apply parse_le.
        - rewrite Hloop by lia. exact I. }
      exists fl. intros f Hf. cbn [flat]. rewrite <- !app_assoc. cbn [app]. rewrite <- app_assoc.
      apply Hl. exact Hf.
  Qed.

  (* every well-formed spelling is parsed to its meaning, leaving exactly the rest *)
  Theorem parse_spelled : forall s q rest,
    wf q s -> follow_lt q rest -> follow_ok s rest ->
    exists f0, forall f, f0 <= f -> parse_e f q (flat s ++ rest) = Ok (erase s, rest).
  Proof.
    intros s q rest Hwf Hfol Hok. destruct (main s) as [M _].
    apply (M q rest 1); [exact Hwf | | exact Hok |].
    - unfold follow_top. destruct s; cbn [top_lvl]; try exact I. cbn in Hwf.
      unfold follow_lt in *. destruct (skip rest) as [|t' r']; [exact I|].
      destruct (bop t') as [[lv' o']|]; [lia | exact I].
    - intros f Hf. destruct f as [|f]; [lia|]. apply loop_stop. exact Hfol.
  Qed.

  (* two spellings with the same meaning parse to the same tree: letter case of keywords, trivia, redundant
     parentheses -- everything [erase] forgets -- cannot change the result *)
  Corollary respelling_invariant : forall s1 s2 q rest1 rest2,
    wf q s1 -> wf q s2 -> follow_lt q rest1 -> follow_lt q rest2 -> follow_ok s1 rest1 -> follow_ok s2 rest2 ->
    erase s1 = erase s2 ->
    exists f0, forall f, f0 <= f ->
      exists r1 r2, parse_e f q (flat s1 ++ rest1) = Ok (erase s1, r1) /\ parse_e f q (flat s2 ++ rest2) = Ok (erase s1, r2).
  Proof.
    intros s1 s2 q rest1 rest2 W1 W2 F1 F2 O1 O2 E.
    destruct (parse_spelled s1 q rest1 W1 F1 O1) as [f1 H1]. destruct (parse_spelled s2 q rest2 W2 F2 O2) as [f2 H2].
    exists (f1 + f2). intros f Hf. exists rest1, rest2. split; [apply H1; lia | rewrite E; apply H2; lia].
  Qed.
End Generic.
